/- Correspondence driver: one operation per input line, one result per output line. -/
import SevenZ.Driver.Prim
import SevenZ.Driver.Header
import SevenZ.Driver.Path
import SevenZ.Driver.Decode
import SevenZ.Driver.Reader
import SevenZ.Driver.Spec
import SevenZ.Driver.Listing
import SevenZ.Driver.Aes
import SevenZ.Driver.Crc
import SevenZ.Driver.Writer
import SevenZ.Driver.Conc
import SevenZ.Driver.Progress
import SevenZ.Driver.Assign
import SevenZ.Driver.Session
open SevenZ.Driver

def handlers : List (String → List String → Option String) := [primHandler, headerHandler, pathHandler, decHandler, readerHandler, specHandler, listingHandler, aesHandler, crcHandler, writerHandler, concHandler, progHandler, assignHandler, sessionHandler]

def step (line : String) : String :=
  match (line.trimAscii.toString.splitOn " ").filter (· ≠ "") with
  | [] => "bad-op"
  | op :: args =>
    match handlers.findSome? (fun h => h op args) with
    | some out => out
    | none => "bad-op"

partial def loop (h : IO.FS.Stream) (out : IO.FS.Stream) : IO Unit := do
  let line ← h.getLine
  if line.isEmpty then return ()
  out.putStrLn (step line)
  loop h out

def main : IO Unit := do
  let stdin ← IO.getStdin
  let stdout ← IO.getStdout
  loop stdin stdout
