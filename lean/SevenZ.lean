import SevenZ.Model.Number
import SevenZ.Model.BoolVec
import SevenZ.Model.Utf16
import SevenZ.Model.Header
import SevenZ.Lemmas.Number
import SevenZ.Lemmas.BoolVec
import SevenZ.Lemmas.Utf16
import SevenZ.Props.C17
