/-
C05 — Any input terminates in bounded time and memory (decode-loop part).
The decoder chain is universally quantified: the theorems hold for every codec, every
packed stream and every header-declared size.
-/
import SevenZ.Lemmas.Decode
import SevenZ.Lemmas.ParseBound
namespace SevenZ.C05
open SevenZ SevenZ.Impl

/-- For every decoder, every file content and every declared size, the repaired
    `Worker.decompress` / encoded-header loop finishes (with output or with an ordinary
    error) within `(declared output + unread packed bytes + 1)·(k+2)` iterations. -/
theorem decode_loop_terminates {σ} (ch : Chain σ) (cfg : DecCfg) (mb k : Nat)
    (st : DecState σ) (out : Nat) (acc : Bytes) :
    isOutOfFuel (workerLoop ch cfg mb (some k)
      ((out + (cfg.inputSize - st.consumed)) * (k + 2) + (k + 1) + 2) st out 0 acc) = false :=
  workerLoop_terminates ch cfg mb k _ st out 0 acc (by omega)

/-- The loop of the pinned tree had no progress check: with the input used up and a decoder
    that yields nothing it is still running after any number of iterations (finding F4,
    repaired by "fix: decoding stops with an error when the compressed stream ends short…"). -/
theorem decode_loop_unguarded_spins (cfg : DecCfg) (mb : Nat) (hmb : 0 < mb) (fuel out : Nat)
    (hout : 0 < out) :
    isOutOfFuel (workerLoop emptyChain cfg mb none fuel
      { chain := (), src := [] } out 0 []) = true :=
  workerLoop_spins cfg mb hmb _ rfl rfl rfl fuel out 0 [] hout

/-- each call hands out at most what was asked for, whatever the decoder does -/
theorem chunk_le_request {σ} (ch : Chain σ) (cfg : DecCfg) (st : DecState σ) (m : Nat) :
    (decompress ch cfg st m).1.length ≤ m :=
  decompress_len_le ch cfg st m

/- non-vacuity: a guarded run on a concrete stalled stream ends in `stalled`, not out of fuel -/
example : (match workerLoop emptyChain { inputSize := 10, blockSize := 4 } 100 (some 8) 50
    { chain := (), src := [1, 2, 3] } 5 0 [] with | .stalled _ => true | _ => false) = true := by decide

/-- **The header parser builds nothing that is not paid for in header bytes.** For EVERY byte string `buf` handed to
    `Header._read` (well-formed or not, any counts, any CRC-sealed mutation): if the parse succeeds, the member list
    has at most eight entries per header byte, the folder list and the pack-size list at most one, and the declared
    sub-stream counts add up to at most eight per header byte — the two `header_size * 8` guards in
    `FilesInfo._read` / `SubstreamsInfo._read` and the fact that every loop round of the other productions consumes a
    byte. (A 60-byte header cannot make the parser allocate 2^31 list entries; the count-bomb defects dea92af and F4
    were exactly the absence of this.) -/
theorem parsed_header_bounded (buf : Bytes) (H : Header) (h : Impl.readNextHeader buf = .ok (.raw H)) :
    (∀ fi, H.filesInfo = some fi → fi.files.length ≤ buf.length * 8) ∧
    (∀ st, H.mainStreams = some st →
      (∀ p, st.packinfo = some p → p.packsizes.length ≤ buf.length) ∧
      (∀ fs, st.folders = some fs → fs.length ≤ buf.length) ∧
      (∀ ss, st.substreams = some ss → ss.numUnpack.sum ≤ buf.length * 8 ∧ ss.numUnpack.length ≤ buf.length)) := by
  unfold Impl.readNextHeader at h
  split at h
  · simp at h
  · rename_i rest
    simp only [List.length_cons] at h ⊢
    cases hr : Impl.readHeaderBody (rest.length + 1) rest with
    | error e => simp [hr, Except.map] at h
    | ok v =>
      obtain ⟨H', s'⟩ := v
      simp only [hr, Except.map, Except.ok.injEq, Impl.NextHeader.raw.injEq] at h
      subst h
      exact readHeaderBody_post hr (by omega)
  · rename_i rest
    simp only [List.length_cons] at h ⊢
    cases hr : Impl.readStreams (rest.length + 1) rest with
    | error e => simp [hr, Except.map] at h
    | ok v => simp [hr, Except.map] at h
  · simp at h

/-- the same for an EncodedHeader record (the streams of the packed header) -/
theorem parsed_encoded_bounded (buf : Bytes) (st : Streams) (h : Impl.readNextHeader buf = .ok (.encoded st)) :
    (∀ p, st.packinfo = some p → p.packsizes.length ≤ buf.length) ∧
    (∀ fs, st.folders = some fs → fs.length ≤ buf.length) ∧
    (∀ ss, st.substreams = some ss → ss.numUnpack.sum ≤ buf.length * 8 ∧ ss.numUnpack.length ≤ buf.length) := by
  unfold Impl.readNextHeader at h
  split at h
  · simp at h
  · rename_i rest
    simp only [List.length_cons] at h ⊢
    cases hr : Impl.readHeaderBody (rest.length + 1) rest with
    | error e => simp [hr, Except.map] at h
    | ok v => simp [hr, Except.map] at h
  · rename_i rest
    simp only [List.length_cons] at h ⊢
    cases hr : Impl.readStreams (rest.length + 1) rest with
    | error e => simp [hr, Except.map] at h
    | ok v =>
      obtain ⟨st', s'⟩ := v
      simp only [hr, Except.map, Except.ok.injEq, Impl.NextHeader.encoded.injEq] at h
      subst h
      have post := readStreams_post hr (by omega)
      exact ⟨post.1, post.2.1, post.2.2.1⟩
  · simp at h

-- non-vacuity: a header that parses, and a 12-byte header that declares 2^31 members and is refused
example : (Impl.readNextHeader [0x01, 0x05, 0x01, 0x00, 0x00]).isOk = true ∧
    (Impl.readNextHeader [0x01, 0x05, 0xF0, 0x00, 0x00, 0x00, 0x80, 0x00, 0x00]).isOk = false := by decide +kernel

end SevenZ.C05
