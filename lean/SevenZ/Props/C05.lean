/-
C05 — Any input terminates in bounded time and memory (decode-loop part).
The decoder chain is universally quantified: the theorems hold for every codec, every
packed stream and every header-declared size.
-/
import SevenZ.Lemmas.Decode
namespace SevenZ.C05
open SevenZ SevenZ.Impl

/-- For every decoder, every file content and every declared size, the repaired
    `Worker.decompress` / encoded-header loop finishes (with output or with an ordinary
    error) within `(declared output + unread packed bytes + 1)·(k+2)` iterations. -/
theorem decode_loop_terminates {σ} (ch : Chain σ) (cfg : DecCfg) (mb k : Nat)
    (st : DecState σ) (out : Nat) (acc : Bytes) :
    isOutOfFuel (workerLoop ch cfg mb (some k)
      ((out + (cfg.inputSize - st.consumed)) * (k + 2) + (k + 1) + 2) st out 0 acc) = false :=
  workerLoop_terminates ch cfg mb k _ st out 0 acc (by omega)

/-- The loop of the pinned tree had no progress check: with the input used up and a decoder
    that yields nothing it is still running after any number of iterations (finding F4,
    repaired by "fix: decoding stops with an error when the compressed stream ends short…"). -/
theorem decode_loop_unguarded_spins (cfg : DecCfg) (mb : Nat) (hmb : 0 < mb) (fuel out : Nat)
    (hout : 0 < out) :
    isOutOfFuel (workerLoop emptyChain cfg mb none fuel
      { chain := (), src := [] } out 0 []) = true :=
  workerLoop_spins cfg mb hmb _ rfl rfl rfl fuel out 0 [] hout

/-- each call hands out at most what was asked for, whatever the decoder does -/
theorem chunk_le_request {σ} (ch : Chain σ) (cfg : DecCfg) (st : DecState σ) (m : Nat) :
    (decompress ch cfg st m).1.length ≤ m :=
  decompress_len_le ch cfg st m

/- non-vacuity: a guarded run on a concrete stalled stream ends in `stalled`, not out of fuel -/
example : (match workerLoop emptyChain { inputSize := 10, blockSize := 4 } 100 (some 8) 50
    { chain := (), src := [1, 2, 3] } 5 0 [] with | .stalled _ => true | _ => false) = true := by decide

end SevenZ.C05
