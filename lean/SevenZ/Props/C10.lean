/-
C10 — Listings tell the truth about the archive (summary logic).
-/
import SevenZ.Model.Listing
import SevenZ.Model.Assign
import SevenZ.Props.C01
namespace SevenZ.C10
open SevenZ SevenZ.Impl

/-- method names: exactly the display names of the coder ids present, each once, in
    priority order -/
theorem method_names_iff (folders : List (List Bytes)) (x : String) :
    x ∈ getMethodsNames methodsNamelist folders ↔
      x ∈ methodsNamelist ∧ ∃ id ∈ folders.flatten, methodName id = some x := by
  unfold getMethodsNames
  simp only [List.mem_filter, List.contains_eq_mem, decide_eq_true_eq, List.mem_filterMap]

theorem method_names_nodup (folders : List (List Bytes)) :
    (getMethodsNames methodsNamelist folders).Nodup := by
  unfold getMethodsNames
  exact List.Nodup.sublist List.filter_sublist (by decide)

/-- every name in the coder table can be displayed (no coder is silently dropped) -/
theorem every_table_name_displayable : ∀ e ∈ methodTable, e.2 ∈ methodsNamelist := by decide

/-- The pinned list could not display Delta and Brotli (repaired by "fix: archiveinfo().method_names
    reports Delta and Brotli coders"). -/
theorem pinned_list_drops_delta_brotli :
    getMethodsNames methodsNamelistPinned [[[0x21], [0x03]]] = ["LZMA2"] ∧
    getMethodsNames methodsNamelistPinned [[[0x04, 0xF7, 0x11, 0x02]]] = [] ∧
    getMethodsNames methodsNamelist [[[0x21], [0x03]]] = ["LZMA2", "DELTA"] := by decide

/-- needs_password() is true exactly when an encryption coder is present or a password was supplied -/
theorem needs_password_iff (given : Bool) (folders : List (List Bytes)) :
    needsPassword given folders = true ↔ given = true ∨ ∃ coders ∈ folders, aesId ∈ coders := by
  unfold needsPassword
  simp only [Bool.or_eq_true, List.any_eq_true, decide_eq_true_eq]
  constructor
  · rintro (h | ⟨c, hc, id, hid, he⟩)
    · exact Or.inl h
    · exact Or.inr ⟨c, hc, he ▸ hid⟩
  · rintro (h | ⟨c, hc, hid⟩)
    · exact Or.inl h
    · exact Or.inr ⟨c, hc, aesId, hid, rfl⟩

/-- solid ⇔ some folder holds more than one sub-stream -/
theorem solid_iff (nums : List Nat) : isSolid nums = true ↔ ∃ n ∈ nums, n > 1 := by
  simp [isSolid]

example : needsPassword false [[[0x21]], [aesId, [0x21]]] = true ∧ needsPassword false [[[0x21]]] = false := by decide

/-! ### what the per-member listing reports, for every session py7zr writes -/

/-- what `list()` / `getinfo()` report of a slot: the uncompressed size and the CRC-32 (nothing for a member
    without a stream) -/
def reported (s : Slot4) : Option (Nat × Option Nat) := s.map (fun x => (x.2.2.1, x.2.2.2))

/-- the (size, CRC) the format assigns in a single folder are the sizes and CRCs handed in, member by member -/
theorem singleFolder_reported : ∀ (ms : List WMember) (off : Nat),
    (singleFolderMembers (ms.map memberFile) off ((dataMembers ms).map (fun m => m.blocks.flatten.length))
      ((dataMembers ms).map (fun m => some (crc32 m.blocks.flatten)))).map (fun x => reported x.stream) =
    ms.map (fun m => if m.emptystream then none else some (m.blocks.flatten.length, some (crc32 m.blocks.flatten)))
  | [], _ => rfl
  | m :: ms, off => by
    cases he : m.emptystream with
    | true =>
      have hd : dataMembers (m :: ms) = dataMembers ms := by simp [dataMembers, he]
      rw [hd]
      simp only [List.map_cons, singleFolderMembers, memberFile, he, if_true]
      rw [← singleFolder_reported ms off]
      simp [reported, memberFile]
    | false =>
      have hd : dataMembers (m :: ms) = m :: dataMembers ms := by simp [dataMembers, he]
      rw [hd]
      simp only [List.map_cons, singleFolderMembers, memberFile, he, Bool.false_eq_true, if_false]
      rw [← singleFolder_reported ms (off + m.blocks.flatten.length)]
      simp [reported, memberFile]

/-- **Listings tell the truth about every archive a create session writes.** For every member list, the cursor of
    `_real_get_contents` on the values the session stores (the source of `list()`, `getinfo()` and `files`) gives
    every member with a stream the length of exactly the bytes that were written for it and the CRC-32 of exactly
    those bytes, and gives a member without a stream nothing (reported as size 0, no CRC) — whatever the number of
    members, their sizes and their order. -/
theorem listing_truth_on_session (ms : List WMember) :
    ∃ slots, Impl.assign (ms.map (·.emptystream)) [(dataMembers ms).length]
        ((dataMembers ms).map (fun m => m.blocks.flatten.length))
        ((dataMembers ms).map (fun m => some (crc32 m.blocks.flatten))) = some slots ∧
      slots.map reported =
        ms.map (fun m => if m.emptystream then none else some (m.blocks.flatten.length, some (crc32 m.blocks.flatten))) := by
  refine ⟨_, C01.py7zr_cursor_on_session ms, ?_⟩
  rw [List.map_map]
  exact singleFolder_reported ms 0

example : (singleFolderMembers ([{ name := [97], emptystream := false, blocks := [[1, 2], [3]] }, { name := [98], emptystream := true }].map memberFile) 0 [3] [some 7]).map
    (fun x => reported x.stream) = [some (3, some 7), none] := by decide

end SevenZ.C10
