/-
C10 — Listings tell the truth about the archive (summary logic).
-/
import SevenZ.Model.Listing
import SevenZ.Model.Assign
namespace SevenZ.C10
open SevenZ SevenZ.Impl

/-- method names: exactly the display names of the coder ids present, each once, in
    priority order -/
theorem method_names_iff (folders : List (List Bytes)) (x : String) :
    x ∈ getMethodsNames methodsNamelist folders ↔
      x ∈ methodsNamelist ∧ ∃ id ∈ folders.flatten, methodName id = some x := by
  unfold getMethodsNames
  simp only [List.mem_filter, List.contains_eq_mem, decide_eq_true_eq, List.mem_filterMap]

theorem method_names_nodup (folders : List (List Bytes)) :
    (getMethodsNames methodsNamelist folders).Nodup := by
  unfold getMethodsNames
  exact List.Nodup.sublist List.filter_sublist (by decide)

/-- every name in the coder table can be displayed (no coder is silently dropped) -/
theorem every_table_name_displayable : ∀ e ∈ methodTable, e.2 ∈ methodsNamelist := by decide

/-- The pinned list could not display Delta and Brotli (repaired by "fix: archiveinfo().method_names
    reports Delta and Brotli coders"). -/
theorem pinned_list_drops_delta_brotli :
    getMethodsNames methodsNamelistPinned [[[0x21], [0x03]]] = ["LZMA2"] ∧
    getMethodsNames methodsNamelistPinned [[[0x04, 0xF7, 0x11, 0x02]]] = [] ∧
    getMethodsNames methodsNamelist [[[0x21], [0x03]]] = ["LZMA2", "DELTA"] := by decide

/-- needs_password() is true exactly when an encryption coder is present or a password was supplied -/
theorem needs_password_iff (given : Bool) (folders : List (List Bytes)) :
    needsPassword given folders = true ↔ given = true ∨ ∃ coders ∈ folders, aesId ∈ coders := by
  unfold needsPassword
  simp only [Bool.or_eq_true, List.any_eq_true, decide_eq_true_eq]
  constructor
  · rintro (h | ⟨c, hc, id, hid, he⟩)
    · exact Or.inl h
    · exact Or.inr ⟨c, hc, he ▸ hid⟩
  · rintro (h | ⟨c, hc, hid⟩)
    · exact Or.inl h
    · exact Or.inr ⟨c, hc, aesId, hid, rfl⟩

/-- solid ⇔ some folder holds more than one sub-stream -/
theorem solid_iff (nums : List Nat) : isSolid nums = true ↔ ∃ n ∈ nums, n > 1 := by
  simp [isSolid]

example : needsPassword false [[[0x21]], [aesId, [0x21]]] = true ∧ needsPassword false [[[0x21]]] = false := by decide

end SevenZ.C10
