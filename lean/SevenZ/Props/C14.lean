/-
C14 — A crash while writing never leaves a file that opens with wrong contents
(what can be settled with certainty about torn signature headers).
-/
import SevenZ.Lemmas.Crc32
import SevenZ.Lemmas.Crash
import SevenZ.Model.Crash
namespace SevenZ.C14
open SevenZ SevenZ.Impl

/-- the placeholder written first cannot verify: every image whose first 32 bytes are still
    the placeholder — any crash before the final signature-header rewrite — is rejected -/
theorem skeleton_rejected (rest : Bytes) : startHeaderOk (skeleton ++ rest) = false := by
  have h : crc32 (((skeleton ++ rest).drop 12).take 20) ≠ ofLE (((skeleton ++ rest).drop 8).take 4) := by
    have e1 : ((skeleton ++ rest).drop 12).take 20 = leBytes 2 8 ++ leBytes 3 8 ++ leBytes 4 4 := by
      simp [skeleton, magic, leBytes]
    have e2 : ((skeleton ++ rest).drop 8).take 4 = leBytes 1 4 := by
      simp [skeleton, magic, leBytes]
    rw [e1, e2]
    decide +kernel
  unfold startHeaderOk
  simp only [Bool.and_eq_false_iff, beq_eq_false_iff_ne, ne_eq]
  exact Or.inr h

/-- the first eight bytes of the final signature header equal those of the placeholder, so a
    rewrite torn inside them changes nothing -/
theorem torn_in_magic_is_skeleton (final : Bytes) (hf : final.take 8 = skeleton.take 8) (k : Nat) (hk : k ≤ 8)
    (hlen : final.length = 32) :
    final.take k ++ skeleton.drop k = skeleton := by
  have h1 : final.take k = skeleton.take k := by
    have := congrArg (List.take k) hf
    simpa [List.take_take, Nat.min_eq_left hk] using this
  rw [h1, List.take_append_drop]

/-- a rewrite torn inside its last four bytes (the next-header CRC field): the 20 field bytes
    on disk differ from the final ones only inside a 4-byte window, so they do not verify
    against the already written start-header CRC unless they are the final bytes -/
theorem torn_tail_rejected (fields torn : Bytes) (pre mid1 mid2 : Bytes) (hf : fields = pre ++ mid1)
    (ht : torn = pre ++ mid2) (hlen : mid1.length = mid2.length) (h4 : mid1.length ≤ 4) (hne : mid1 ≠ mid2)
    (hb1 : IsBytes mid1) (hb2 : IsBytes mid2) : crc32 torn ≠ crc32 fields := by
  subst hf ht
  have := SevenZ.crc32_detects_burst pre [] mid2 mid1 hlen.symm (by omega) (fun e => hne e.symm) hb2 hb1 0
  simpa [crc32] using this

/-- a completed create session leaves the signature header followed by everything written from offset 32 on -/
theorem createOps_final (ofs size crc : Nat) (body : Bytes) :
    applyAll [] (createOps (sigHeaderBytes ofs size crc) body) = sigHeaderBytes ofs size crc ++ body := by
  have hs : skeleton.length = 32 := by decide
  simp only [applyAll, createOps, List.foldl_cons, List.foldl_nil]
  have e1 : applyWrite [] ⟨0, skeleton⟩ = skeleton := by simp [applyWrite_zero]
  have := applyWrite_end skeleton body
  rw [hs] at this
  rw [e1, this, applyWrite_zero, sigBytes_length, List.drop_left' hs]

/-- **What a crash can leave of a create session.** Whatever the members, the codecs and the header mode (they only
    determine `body`, the bytes written from offset 32 on, and the three numbers in the signature header), and
    wherever the write sequence is cut (`n` complete operations and `k` bytes of the next), the image
    * is rejected by the reader's first gate (magic + start-header CRC), or
    * is byte for byte the completed archive, or
    * exhibits a CRC-32 collision between the final 20 field bytes and those same bytes with a suffix of at least
      five bytes still holding the placeholder -- the one residual case, a 2^-32 coincidence of the header's
      offset/size/CRC values, which no reader could tell from a completed rewrite by the start header alone. -/
theorem create_crash_verdict (ofs size crc : Nat) (body : Bytes) (n k : Nat) :
    startHeaderOk (crashImage [] (createOps (sigHeaderBytes ofs size crc) body) n k) = false ∨
    crashImage [] (createOps (sigHeaderBytes ofs size crc) body) n k = sigHeaderBytes ofs size crc ++ body ∨
    ∃ j, j < 16 ∧ (sigFields ofs size crc).take j ++ phFields.drop j ≠ sigFields ofs size crc ∧
      crc32 ((sigFields ofs size crc).take j ++ phFields.drop j) = crc32 (sigFields ofs size crc) := by
  have hs : skeleton.length = 32 := by decide
  have hsig := sigBytes_length ofs size crc
  match n with
  | 0 =>
    left
    have e : crashImage [] (createOps (sigHeaderBytes ofs size crc) body) 0 k = skeleton.take k := by
      simp [crashImage, createOps, applyAll, applyWrite_zero]
    rw [e]
    by_cases hk : k < 32
    · unfold startHeaderOk
      have hlen : decide ((skeleton.take k).length ≥ 32) = false := by
        simp only [decide_eq_false_iff_not, List.length_take, hs]; omega
      rw [hlen]; simp
    · rw [List.take_of_length_le (by omega)]
      simpa using skeleton_rejected []
  | 1 =>
    left
    have e : crashImage [] (createOps (sigHeaderBytes ofs size crc) body) 1 k = skeleton ++ body.take k := by
      have := applyWrite_end skeleton (body.take k)
      rw [hs] at this
      simp [crashImage, createOps, applyAll, applyWrite_zero, this]
    rw [e]; exact skeleton_rejected _
  | 2 =>
    have e : crashImage [] (createOps (sigHeaderBytes ofs size crc) body) 2 k =
        (sigHeaderBytes ofs size crc).take k ++ (skeleton ++ body).drop ((sigHeaderBytes ofs size crc).take k).length := by
      have := applyWrite_end skeleton body
      rw [hs] at this
      simp [crashImage, createOps, applyAll, applyWrite_zero, this]
    rw [e]
    by_cases hk : 32 ≤ k
    · right; left
      rw [List.take_of_length_le (by omega), hsig, List.drop_left' hs]
    · have hk' : k ≤ 32 := by omega
      have e2 : (skeleton ++ body).drop ((sigHeaderBytes ofs size crc).take k).length = skeleton.drop k ++ body := by
        rw [List.length_take, hsig, Nat.min_eq_left hk', List.drop_append_of_le_length (by omega)]
      rw [e2, ← List.append_assoc, sig_parts, skeleton_parts]
      have hA : (magic ++ [0, 4]).length = 8 := by decide
      have hF : (sigFields ofs size crc).length = 20 := by simp [sigFields, leBytes_length]
      have hF0 : phFields.length = 20 := by decide
      have hbF : IsBytes (sigFields ofs size crc) :=
        isBytes_append (isBytes_append (leBytes_isBytes _ _) (leBytes_isBytes _ _)) (leBytes_isBytes _ _)
      have hbF0 : IsBytes phFields :=
        isBytes_append (isBytes_append (leBytes_isBytes _ _) (leBytes_isBytes _ _)) (leBytes_isBytes _ _)
      rcases torn_sig_cases (magic ++ [0, 4]) (leBytes (crc32 (sigFields ofs size crc)) 4) (leBytes 1 4)
        (sigFields ofs size crc) phFields hA (leBytes_length _ _) (leBytes_length _ _) hF hF0 k hk' with h | ⟨j, hj0, hj4, h⟩ | ⟨j, hj, h⟩
      · left; rw [h, ← skeleton_parts]; exact skeleton_rejected _
      · -- the tear is inside the start-header CRC field: its top byte is still the placeholder's zero
        left
        rw [h, startHeaderOk_parts _ _ _ (by simp [leBytes_length]; omega) hF0]
        have hX : 2 ^ 24 ≤ crc32 phFields := by decide +kernel
        have hlt : ofLE ((leBytes (crc32 (sigFields ofs size crc)) 4).take j ++ (leBytes 1 4).drop j) < 2 ^ 24 := by
          generalize crc32 (sigFields ofs size crc) = c
          have hj' : j = 1 ∨ j = 2 ∨ j = 3 := by omega
          rcases hj' with rfl | rfl | rfl <;> simp [leBytes, ofLE] <;> omega
        simp only [beq_eq_false_iff_ne, ne_eq]
        omega
      · -- the tear is inside the 20 field bytes; the start-header CRC is already the final one
        rw [h, startHeaderOk_parts _ _ _ (leBytes_length _ _) (by simp [hF, hF0]; omega)]
        rw [ofLE_leBytes, Nat.mod_eq_of_lt (by have := crc32Update_lt 0 (sigFields ofs size crc); unfold crc32; omega)]
        by_cases heq : (sigFields ofs size crc).take j ++ phFields.drop j = sigFields ofs size crc
        · right; left; rw [heq, ← sig_parts]
        · by_cases hc : crc32 ((sigFields ofs size crc).take j ++ phFields.drop j) = crc32 (sigFields ofs size crc)
          · by_cases hj16 : j < 16
            · right; right; exact ⟨j, hj16, heq, hc⟩
            · exfalso
              refine torn_tail_rejected (sigFields ofs size crc) _ ((sigFields ofs size crc).take j)
                ((sigFields ofs size crc).drop j) (phFields.drop j) (List.take_append_drop _ _).symm rfl
                (by simp [hF, hF0]) (by simp [hF]; omega) ?_ (isBytes_drop hbF _) (isBytes_drop hbF0 _) hc
              intro hd; apply heq; rw [← hd, List.take_append_drop]
          · left; simp [hc]
  | n + 3 =>
    right; left
    have e : crashImage [] (createOps (sigHeaderBytes ofs size crc) body) (n + 3) k =
        applyAll [] (createOps (sigHeaderBytes ofs size crc) body) := by
      simp [crashImage, createOps]
    rw [e, createOps_final]

/-- the writes of a create session (raw header mode) have the create shape, and replaying all of them gives the
    archive `sessionArchive` describes -/
theorem sessionOps_shape {σ} (cfg : WConfig σ) (ms : List WMember) (ops : List WriteOp)
    (h : sessionOps cfg ms = some ops) :
    ∃ ofs size crc body, ops = createOps (sigHeaderBytes ofs size crc) body ∧
      sessionArchive cfg ms = some (sigHeaderBytes ofs size crc ++ body) := by
  unfold sessionOps at h
  unfold sessionArchive
  cases hh : sessionHeader cfg ms with
  | none => simp [hh, bind, Option.bind] at h
  | some H =>
    simp only [hh, bind, Option.bind] at h ⊢
    cases hw : writeHeaderRaw true H (32 + (sessionCompress cfg ms).1.out.length) with
    | none => simp [hw] at h
    | some hdr =>
      simp only [hw, pure, Option.some.injEq] at h ⊢
      exact ⟨_, _, _, _, h.symm, by simp [List.append_assoc]⟩

/-- the same for the default (encoded) header mode -/
theorem sessionOpsEncoded_shape {σ} (cfg : WConfig σ) (hcfg : HConfig σ) (ms : List WMember) (ops : List WriteOp)
    (h : sessionOpsEncoded cfg hcfg ms = some ops) :
    ∃ ofs size crc body, ops = createOps (sigHeaderBytes ofs size crc) body ∧
      sessionArchiveEncoded cfg hcfg ms = some (sigHeaderBytes ofs size crc ++ body) := by
  unfold sessionOpsEncoded at h
  unfold sessionArchiveEncoded
  cases hh : sessionHeader cfg ms with
  | none => simp [hh, bind, Option.bind] at h
  | some H =>
    simp only [hh, bind, Option.bind] at h ⊢
    cases he : encodeHeader H hcfg (sessionCompress cfg ms).1.out.length with
    | none => simp [he] at h
    | some pr =>
      obtain ⟨packedHdr, record⟩ := pr
      simp only [he, pure, Option.some.injEq] at h ⊢
      exact ⟨_, _, _, _, h.symm, by simp [List.append_assoc]⟩

/-- **C14 for create sessions, raw and encoded header mode alike.** For every member list, codec chain and
    configuration, every crash point of the session's write sequence leaves an image that the first gate rejects, or
    the finished archive exactly, or the CRC-32 coincidence described at `create_crash_verdict`. -/
theorem session_crash_verdict {σ} (cfg : WConfig σ) (ms : List WMember) (ops : List WriteOp) (img : Bytes)
    (h : sessionOps cfg ms = some ops) (ha : sessionArchive cfg ms = some img) (n k : Nat) :
    startHeaderOk (crashImage [] ops n k) = false ∨ crashImage [] ops n k = img ∨
    ∃ ofs size crc j, j < 16 ∧ (sigFields ofs size crc).take j ++ phFields.drop j ≠ sigFields ofs size crc ∧
      crc32 ((sigFields ofs size crc).take j ++ phFields.drop j) = crc32 (sigFields ofs size crc) := by
  obtain ⟨ofs, size, crc, body, rfl, ha'⟩ := sessionOps_shape cfg ms ops h
  rw [ha] at ha'
  rw [Option.some.inj ha']
  rcases create_crash_verdict ofs size crc body n k with h1 | h2 | ⟨j, hj, h3, h4⟩
  · exact Or.inl h1
  · exact Or.inr (Or.inl h2)
  · exact Or.inr (Or.inr ⟨ofs, size, crc, j, hj, h3, h4⟩)

theorem session_encoded_crash_verdict {σ} (cfg : WConfig σ) (hcfg : HConfig σ) (ms : List WMember)
    (ops : List WriteOp) (img : Bytes)
    (h : sessionOpsEncoded cfg hcfg ms = some ops) (ha : sessionArchiveEncoded cfg hcfg ms = some img) (n k : Nat) :
    startHeaderOk (crashImage [] ops n k) = false ∨ crashImage [] ops n k = img ∨
    ∃ ofs size crc j, j < 16 ∧ (sigFields ofs size crc).take j ++ phFields.drop j ≠ sigFields ofs size crc ∧
      crc32 ((sigFields ofs size crc).take j ++ phFields.drop j) = crc32 (sigFields ofs size crc) := by
  obtain ⟨ofs, size, crc, body, rfl, ha'⟩ := sessionOpsEncoded_shape cfg hcfg ms ops h
  rw [ha] at ha'
  rw [Option.some.inj ha']
  rcases create_crash_verdict ofs size crc body n k with h1 | h2 | ⟨j, hj, h3, h4⟩
  · exact Or.inl h1
  · exact Or.inr (Or.inl h2)
  · exact Or.inr (Or.inr ⟨ofs, size, crc, j, hj, h3, h4⟩)

example : startHeaderOk skeleton = false := by decide +kernel
example : crashImage [] [⟨0, [1, 2, 3]⟩, ⟨5, [9, 9]⟩, ⟨1, [7]⟩] 2 0 = [1, 2, 3, 0, 0, 9, 9] ∧
    applyAll [] [⟨0, [1, 2, 3]⟩, ⟨5, [9, 9]⟩, ⟨1, [7]⟩] = [1, 7, 3, 0, 0, 9, 9] := by decide

end SevenZ.C14
