/-
C14 — A crash while writing never leaves a file that opens with wrong contents
(what can be settled with certainty about torn signature headers).
-/
import SevenZ.Lemmas.Crc32
import SevenZ.Model.Crash
namespace SevenZ.C14
open SevenZ SevenZ.Impl

/-- the placeholder written first cannot verify: every image whose first 32 bytes are still
    the placeholder — any crash before the final signature-header rewrite — is rejected -/
theorem skeleton_rejected (rest : Bytes) : startHeaderOk (skeleton ++ rest) = false := by
  have h : crc32 (((skeleton ++ rest).drop 12).take 20) ≠ ofLE (((skeleton ++ rest).drop 8).take 4) := by
    have e1 : ((skeleton ++ rest).drop 12).take 20 = leBytes 2 8 ++ leBytes 3 8 ++ leBytes 4 4 := by
      simp [skeleton, magic, leBytes]
    have e2 : ((skeleton ++ rest).drop 8).take 4 = leBytes 1 4 := by
      simp [skeleton, magic, leBytes]
    rw [e1, e2]
    decide +kernel
  unfold startHeaderOk
  simp only [Bool.and_eq_false_iff, beq_eq_false_iff_ne, ne_eq]
  exact Or.inr h

/-- the first eight bytes of the final signature header equal those of the placeholder, so a
    rewrite torn inside them changes nothing -/
theorem torn_in_magic_is_skeleton (final : Bytes) (hf : final.take 8 = skeleton.take 8) (k : Nat) (hk : k ≤ 8)
    (hlen : final.length = 32) :
    final.take k ++ skeleton.drop k = skeleton := by
  have h1 : final.take k = skeleton.take k := by
    have := congrArg (List.take k) hf
    simpa [List.take_take, Nat.min_eq_left hk] using this
  rw [h1, List.take_append_drop]

/-- a rewrite torn inside its last four bytes (the next-header CRC field): the 20 field bytes
    on disk differ from the final ones only inside a 4-byte window, so they do not verify
    against the already written start-header CRC unless they are the final bytes -/
theorem torn_tail_rejected (fields torn : Bytes) (pre mid1 mid2 : Bytes) (hf : fields = pre ++ mid1)
    (ht : torn = pre ++ mid2) (hlen : mid1.length = mid2.length) (h4 : mid1.length ≤ 4) (hne : mid1 ≠ mid2)
    (hb1 : IsBytes mid1) (hb2 : IsBytes mid2) : crc32 torn ≠ crc32 fields := by
  subst hf ht
  have := SevenZ.crc32_detects_burst pre [] mid2 mid1 hlen.symm (by omega) (fun e => hne e.symm) hb2 hb1 0
  simpa [crc32] using this

example : startHeaderOk skeleton = false := by decide +kernel
example : crashImage [] [⟨0, [1, 2, 3]⟩, ⟨5, [9, 9]⟩, ⟨1, [7]⟩] 2 0 = [1, 2, 3, 0, 0, 9, 9] ∧
    applyAll [] [⟨0, [1, 2, 3]⟩, ⟨5, [9, 9]⟩, ⟨1, [7]⟩] = [1, 7, 3, 0, 0, 9, 9] := by decide

end SevenZ.C14
