/-
C14 — A crash while writing never leaves a file that opens with wrong contents
(what can be settled with certainty about torn signature headers).
-/
import SevenZ.Lemmas.Crc32
import SevenZ.Lemmas.Crash
import SevenZ.Model.Crash
import SevenZ.Lemmas.AppendStep
namespace SevenZ.C14
open SevenZ SevenZ.Impl

/-- the placeholder written first cannot verify: every image whose first 32 bytes are still
    the placeholder — any crash before the final signature-header rewrite — is rejected -/
theorem skeleton_rejected (rest : Bytes) : startHeaderOk (skeleton ++ rest) = false := by
  have h : crc32 (((skeleton ++ rest).drop 12).take 20) ≠ ofLE (((skeleton ++ rest).drop 8).take 4) := by
    have e1 : ((skeleton ++ rest).drop 12).take 20 = leBytes 2 8 ++ leBytes 3 8 ++ leBytes 4 4 := by
      simp [skeleton, magic, leBytes]
    have e2 : ((skeleton ++ rest).drop 8).take 4 = leBytes 1 4 := by
      simp [skeleton, magic, leBytes]
    rw [e1, e2]
    decide +kernel
  unfold startHeaderOk
  simp only [Bool.and_eq_false_iff, beq_eq_false_iff_ne, ne_eq]
  exact Or.inr h

/-- the first eight bytes of the final signature header equal those of the placeholder, so a
    rewrite torn inside them changes nothing -/
theorem torn_in_magic_is_skeleton (final : Bytes) (hf : final.take 8 = skeleton.take 8) (k : Nat) (hk : k ≤ 8)
    (hlen : final.length = 32) :
    final.take k ++ skeleton.drop k = skeleton := by
  have h1 : final.take k = skeleton.take k := by
    have := congrArg (List.take k) hf
    simpa [List.take_take, Nat.min_eq_left hk] using this
  rw [h1, List.take_append_drop]

/-- a rewrite torn inside its last four bytes (the next-header CRC field): the 20 field bytes
    on disk differ from the final ones only inside a 4-byte window, so they do not verify
    against the already written start-header CRC unless they are the final bytes -/
theorem torn_tail_rejected (fields torn : Bytes) (pre mid1 mid2 : Bytes) (hf : fields = pre ++ mid1)
    (ht : torn = pre ++ mid2) (hlen : mid1.length = mid2.length) (h4 : mid1.length ≤ 4) (hne : mid1 ≠ mid2)
    (hb1 : IsBytes mid1) (hb2 : IsBytes mid2) : crc32 torn ≠ crc32 fields := by
  subst hf ht
  have := SevenZ.crc32_detects_burst pre [] mid2 mid1 hlen.symm (by omega) (fun e => hne e.symm) hb2 hb1 0
  simpa [crc32] using this

/-- a completed create session leaves the signature header followed by everything written from offset 32 on -/
theorem createOps_final (ofs size crc : Nat) (body : Bytes) :
    applyAll [] (createOps (sigHeaderBytes ofs size crc) body) = sigHeaderBytes ofs size crc ++ body := by
  have hs : skeleton.length = 32 := by decide
  simp only [applyAll, createOps, List.foldl_cons, List.foldl_nil]
  have e1 : applyWrite [] ⟨0, skeleton⟩ = skeleton := by simp [applyWrite_zero]
  have := applyWrite_end skeleton body
  rw [hs] at this
  rw [e1, this, applyWrite_zero, sigBytes_length, List.drop_left' hs]

/-- **What a crash can leave of a create session.** Whatever the members, the codecs and the header mode (they only
    determine `body`, the bytes written from offset 32 on, and the three numbers in the signature header), and
    wherever the write sequence is cut (`n` complete operations and `k` bytes of the next), the image
    * is rejected by the reader's first gate (magic + start-header CRC), or
    * is byte for byte the completed archive, or
    * exhibits a CRC-32 collision between the final 20 field bytes and those same bytes with a suffix of at least
      five bytes still holding the placeholder -- the one residual case, a 2^-32 coincidence of the header's
      offset/size/CRC values, which no reader could tell from a completed rewrite by the start header alone. -/
theorem create_crash_verdict (ofs size crc : Nat) (body : Bytes) (n k : Nat) :
    startHeaderOk (crashImage [] (createOps (sigHeaderBytes ofs size crc) body) n k) = false ∨
    crashImage [] (createOps (sigHeaderBytes ofs size crc) body) n k = sigHeaderBytes ofs size crc ++ body ∨
    ∃ j, j < 16 ∧ (sigFields ofs size crc).take j ++ phFields.drop j ≠ sigFields ofs size crc ∧
      crc32 ((sigFields ofs size crc).take j ++ phFields.drop j) = crc32 (sigFields ofs size crc) := by
  have hs : skeleton.length = 32 := by decide
  have hsig := sigBytes_length ofs size crc
  match n with
  | 0 =>
    left
    have e : crashImage [] (createOps (sigHeaderBytes ofs size crc) body) 0 k = skeleton.take k := by
      simp [crashImage, createOps, applyAll, applyWrite_zero]
    rw [e]
    by_cases hk : k < 32
    · unfold startHeaderOk
      have hlen : decide ((skeleton.take k).length ≥ 32) = false := by
        simp only [decide_eq_false_iff_not, List.length_take, hs]; omega
      rw [hlen]; simp
    · rw [List.take_of_length_le (by omega)]
      simpa using skeleton_rejected []
  | 1 =>
    left
    have e : crashImage [] (createOps (sigHeaderBytes ofs size crc) body) 1 k = skeleton ++ body.take k := by
      have := applyWrite_end skeleton (body.take k)
      rw [hs] at this
      simp [crashImage, createOps, applyAll, applyWrite_zero, this]
    rw [e]; exact skeleton_rejected _
  | 2 =>
    have e : crashImage [] (createOps (sigHeaderBytes ofs size crc) body) 2 k =
        (sigHeaderBytes ofs size crc).take k ++ (skeleton ++ body).drop ((sigHeaderBytes ofs size crc).take k).length := by
      have := applyWrite_end skeleton body
      rw [hs] at this
      simp [crashImage, createOps, applyAll, applyWrite_zero, this]
    rw [e]
    by_cases hk : 32 ≤ k
    · right; left
      rw [List.take_of_length_le (by omega), hsig, List.drop_left' hs]
    · have hk' : k ≤ 32 := by omega
      have e2 : (skeleton ++ body).drop ((sigHeaderBytes ofs size crc).take k).length = skeleton.drop k ++ body := by
        rw [List.length_take, hsig, Nat.min_eq_left hk', List.drop_append_of_le_length (by omega)]
      rw [e2, ← List.append_assoc, sig_parts, skeleton_parts]
      have hA : (magic ++ [0, 4]).length = 8 := by decide
      have hF : (sigFields ofs size crc).length = 20 := by simp [sigFields, leBytes_length]
      have hF0 : phFields.length = 20 := by decide
      have hbF : IsBytes (sigFields ofs size crc) :=
        isBytes_append (isBytes_append (leBytes_isBytes _ _) (leBytes_isBytes _ _)) (leBytes_isBytes _ _)
      have hbF0 : IsBytes phFields :=
        isBytes_append (isBytes_append (leBytes_isBytes _ _) (leBytes_isBytes _ _)) (leBytes_isBytes _ _)
      rcases torn_sig_cases (magic ++ [0, 4]) (leBytes (crc32 (sigFields ofs size crc)) 4) (leBytes 1 4)
        (sigFields ofs size crc) phFields hA (leBytes_length _ _) (leBytes_length _ _) hF hF0 k hk' with h | ⟨j, hj0, hj4, h⟩ | ⟨j, hj, h⟩
      · left; rw [h, ← skeleton_parts]; exact skeleton_rejected _
      · -- the tear is inside the start-header CRC field: its top byte is still the placeholder's zero
        left
        rw [h, startHeaderOk_parts _ _ _ (by simp [leBytes_length]; omega) hF0]
        have hX : 2 ^ 24 ≤ crc32 phFields := by decide +kernel
        have hlt : ofLE ((leBytes (crc32 (sigFields ofs size crc)) 4).take j ++ (leBytes 1 4).drop j) < 2 ^ 24 := by
          generalize crc32 (sigFields ofs size crc) = c
          have hj' : j = 1 ∨ j = 2 ∨ j = 3 := by omega
          rcases hj' with rfl | rfl | rfl <;> simp [leBytes, ofLE] <;> omega
        simp only [beq_eq_false_iff_ne, ne_eq]
        omega
      · -- the tear is inside the 20 field bytes; the start-header CRC is already the final one
        rw [h, startHeaderOk_parts _ _ _ (leBytes_length _ _) (by simp [hF, hF0]; omega)]
        rw [ofLE_leBytes, Nat.mod_eq_of_lt (by have := crc32Update_lt 0 (sigFields ofs size crc); unfold crc32; omega)]
        by_cases heq : (sigFields ofs size crc).take j ++ phFields.drop j = sigFields ofs size crc
        · right; left; rw [heq, ← sig_parts]
        · by_cases hc : crc32 ((sigFields ofs size crc).take j ++ phFields.drop j) = crc32 (sigFields ofs size crc)
          · by_cases hj16 : j < 16
            · right; right; exact ⟨j, hj16, heq, hc⟩
            · exfalso
              refine torn_tail_rejected (sigFields ofs size crc) _ ((sigFields ofs size crc).take j)
                ((sigFields ofs size crc).drop j) (phFields.drop j) (List.take_append_drop _ _).symm rfl
                (by simp [hF, hF0]) (by simp [hF]; omega) ?_ (isBytes_drop hbF _) (isBytes_drop hbF0 _) hc
              intro hd; apply heq; rw [← hd, List.take_append_drop]
          · left; simp [hc]
  | n + 3 =>
    right; left
    have e : crashImage [] (createOps (sigHeaderBytes ofs size crc) body) (n + 3) k =
        applyAll [] (createOps (sigHeaderBytes ofs size crc) body) := by
      simp [crashImage, createOps]
    rw [e, createOps_final]

/-- the writes of a create session (raw header mode) have the create shape, and replaying all of them gives the
    archive `sessionArchive` describes -/
theorem sessionOps_shape {σ} (cfg : WConfig σ) (ms : List WMember) (ops : List WriteOp)
    (h : sessionOps cfg ms = some ops) :
    ∃ ofs size crc body, ops = createOps (sigHeaderBytes ofs size crc) body ∧
      sessionArchive cfg ms = some (sigHeaderBytes ofs size crc ++ body) := by
  unfold sessionOps at h
  unfold sessionArchive
  cases hh : sessionHeader cfg ms with
  | none => simp [hh, bind, Option.bind] at h
  | some H =>
    simp only [hh, bind, Option.bind] at h ⊢
    cases hw : writeHeaderRaw true H (32 + (sessionCompress cfg ms).1.out.length) with
    | none => simp [hw] at h
    | some hdr =>
      simp only [hw, pure, Option.some.injEq] at h ⊢
      exact ⟨_, _, _, _, h.symm, by simp [List.append_assoc]⟩

/-- the same for the default (encoded) header mode -/
theorem sessionOpsEncoded_shape {σ} (cfg : WConfig σ) (hcfg : HConfig σ) (ms : List WMember) (ops : List WriteOp)
    (h : sessionOpsEncoded cfg hcfg ms = some ops) :
    ∃ ofs size crc body, ops = createOps (sigHeaderBytes ofs size crc) body ∧
      sessionArchiveEncoded cfg hcfg ms = some (sigHeaderBytes ofs size crc ++ body) := by
  unfold sessionOpsEncoded at h
  unfold sessionArchiveEncoded
  cases hh : sessionHeader cfg ms with
  | none => simp [hh, bind, Option.bind] at h
  | some H =>
    simp only [hh, bind, Option.bind] at h ⊢
    cases he : encodeHeader H hcfg (sessionCompress cfg ms).1.out.length with
    | none => simp [he] at h
    | some pr =>
      obtain ⟨packedHdr, record⟩ := pr
      simp only [he, pure, Option.some.injEq] at h ⊢
      exact ⟨_, _, _, _, h.symm, by simp [List.append_assoc]⟩

/-- **C14 for create sessions, raw and encoded header mode alike.** For every member list, codec chain and
    configuration, every crash point of the session's write sequence leaves an image that the first gate rejects, or
    the finished archive exactly, or the CRC-32 coincidence described at `create_crash_verdict`. -/
theorem session_crash_verdict {σ} (cfg : WConfig σ) (ms : List WMember) (ops : List WriteOp) (img : Bytes)
    (h : sessionOps cfg ms = some ops) (ha : sessionArchive cfg ms = some img) (n k : Nat) :
    startHeaderOk (crashImage [] ops n k) = false ∨ crashImage [] ops n k = img ∨
    ∃ ofs size crc j, j < 16 ∧ (sigFields ofs size crc).take j ++ phFields.drop j ≠ sigFields ofs size crc ∧
      crc32 ((sigFields ofs size crc).take j ++ phFields.drop j) = crc32 (sigFields ofs size crc) := by
  obtain ⟨ofs, size, crc, body, rfl, ha'⟩ := sessionOps_shape cfg ms ops h
  rw [ha] at ha'
  rw [Option.some.inj ha']
  rcases create_crash_verdict ofs size crc body n k with h1 | h2 | ⟨j, hj, h3, h4⟩
  · exact Or.inl h1
  · exact Or.inr (Or.inl h2)
  · exact Or.inr (Or.inr ⟨ofs, size, crc, j, hj, h3, h4⟩)

theorem session_encoded_crash_verdict {σ} (cfg : WConfig σ) (hcfg : HConfig σ) (ms : List WMember)
    (ops : List WriteOp) (img : Bytes)
    (h : sessionOpsEncoded cfg hcfg ms = some ops) (ha : sessionArchiveEncoded cfg hcfg ms = some img) (n k : Nat) :
    startHeaderOk (crashImage [] ops n k) = false ∨ crashImage [] ops n k = img ∨
    ∃ ofs size crc j, j < 16 ∧ (sigFields ofs size crc).take j ++ phFields.drop j ≠ sigFields ofs size crc ∧
      crc32 ((sigFields ofs size crc).take j ++ phFields.drop j) = crc32 (sigFields ofs size crc) := by
  obtain ⟨ofs, size, crc, body, rfl, ha'⟩ := sessionOpsEncoded_shape cfg hcfg ms ops h
  rw [ha] at ha'
  rw [Option.some.inj ha']
  rcases create_crash_verdict ofs size crc body n k with h1 | h2 | ⟨j, hj, h3, h4⟩
  · exact Or.inl h1
  · exact Or.inr (Or.inl h2)
  · exact Or.inr (Or.inr ⟨ofs, size, crc, j, hj, h3, h4⟩)

/-- **What a crash can leave of an append session.** The base is any archive of the shape py7zr writes (signature
    header, packed streams `area`, header `hdrOld`, possibly bytes `junk` an earlier longer file left); the session
    writes `tail` (new packed data, then the new header) from the end of the old packed streams on -- over the old
    header -- and the new signature header last. Wherever the write sequence is cut, the image
    * is rejected by the reader's gates (start-header CRC, then header CRC), or
    * passes them with the OLD header bytes while everything before the old header is untouched: it reads as the
      archive before the session, or
    * is byte for byte the completed archive, or
    * exhibits a CRC-32 collision: between the old header and what overwrote it, or between the new signature
      header's 20 field bytes and a mix of new and old ones. -/
theorem append_crash_verdict (area hdrOld junk tail : Bytes) (ofs size crc : Nat) (n k : Nat)
    (ha : area.length < 2 ^ 64) (hh : hdrOld.length < 2 ^ 64) :
    let sigOld := sigHeaderBytes area.length hdrOld.length (crc32 hdrOld)
    let base := sigOld ++ area ++ (hdrOld ++ junk)
    let ops := appendOps (32 + area.length) (sigHeaderBytes ofs size crc) tail
    let img := crashImage base ops n k
    headerGate img = none ∨
    (headerGate img = some hdrOld ∧ img.take (32 + area.length) = base.take (32 + area.length)) ∨
    img = applyAll base ops ∨
    ∃ a b : Bytes, a.length = b.length ∧ a ≠ b ∧ crc32 a = crc32 b ∧ (b = hdrOld ∨ b = sigFields ofs size crc) := by
  intro sigOld base ops img
  have hso : sigOld.length = 32 := sigBytes_length _ _ _
  have hsn := sigBytes_length ofs size crc
  have hP : (sigOld ++ area).length = 32 + area.length := by simp [hso]
  -- the image after the data write, complete or cut after `t`
  have hover : ∀ t, applyWrite base ⟨32 + area.length, t⟩ = sigOld ++ area ++ (t ++ (hdrOld ++ junk).drop t.length) := by
    intro t; rw [← hP]; exact applyWrite_over _ _ _
  have htake : ∀ t, (sigOld ++ area ++ (t ++ (hdrOld ++ junk).drop t.length)).take (32 + area.length) = base.take (32 + area.length) := by
    intro t; rw [← hP, List.take_left' rfl, List.take_left' rfl]
  -- verdict for an image that still carries the old signature header
  have hold : ∀ t, let im := sigOld ++ area ++ (t ++ (hdrOld ++ junk).drop t.length)
      headerGate im = none ∨ (headerGate im = some hdrOld ∧ im.take (32 + area.length) = base.take (32 + area.length)) ∨
      ∃ a b : Bytes, a.length = b.length ∧ a ≠ b ∧ crc32 a = crc32 b ∧ (b = hdrOld ∨ b = sigFields ofs size crc) := by
    intro t im
    rcases old_sig_verdict area hdrOld junk t ha hh with h | h | ⟨a, h1, h2, h3⟩
    · exact Or.inl h
    · exact Or.inr (Or.inl ⟨h, htake t⟩)
    · exact Or.inr (Or.inr ⟨a, hdrOld, h1, h2, h3, Or.inl rfl⟩)
  have hfinal : applyAll base ops = sigHeaderBytes ofs size crc ++ (area ++ (tail ++ (hdrOld ++ junk).drop tail.length)) := by
    simp only [ops, applyAll, appendOps, List.foldl_cons, List.foldl_nil]
    rw [hover tail, applyWrite_zero, hsn, List.append_assoc, List.drop_left' hso]
  obtain rfl | rfl | ⟨m, rfl⟩ : n = 0 ∨ n = 1 ∨ ∃ m, n = m + 2 := by
    rcases n with _ | _ | m
    · exact Or.inl rfl
    · exact Or.inr (Or.inl rfl)
    · exact Or.inr (Or.inr ⟨m, rfl⟩)
  · have e : img = sigOld ++ area ++ (tail.take k ++ (hdrOld ++ junk).drop (tail.take k).length) := by
      simp only [img, ops, crashImage, appendOps, List.take_zero, applyAll, List.foldl_nil, List.getElem?_cons_zero]
      exact hover _
    rw [e]
    rcases hold (tail.take k) with h | h | h
    · exact Or.inl h
    · exact Or.inr (Or.inl h)
    · exact Or.inr (Or.inr (Or.inr h))
  · have e : img = (sigHeaderBytes ofs size crc).take k ++
        (sigOld ++ (area ++ (tail ++ (hdrOld ++ junk).drop tail.length))).drop ((sigHeaderBytes ofs size crc).take k).length := by
      simp only [img, ops, crashImage, appendOps, applyAll, List.take_succ_cons, List.take_zero, List.foldl_cons, List.foldl_nil,
        List.getElem?_cons_succ, List.getElem?_cons_zero]
      rw [hover tail, applyWrite_zero, List.append_assoc]
    by_cases hk : 32 ≤ k
    · right; right; left
      rw [e, hfinal, List.take_of_length_le (by omega), hsn, List.drop_left' hso]
    · have hk' : k ≤ 32 := by omega
      have e2 : img = ((sigHeaderBytes ofs size crc).take k ++ sigOld.drop k) ++ (area ++ (tail ++ (hdrOld ++ junk).drop tail.length)) := by
        rw [e, List.length_take, hsn, Nat.min_eq_left hk', List.drop_append_of_le_length (by omega), List.append_assoc]
      have hA : (magic ++ [0, 4]).length = 8 := by decide
      have hFn : (sigFields ofs size crc).length = 20 := by simp [sigFields, leBytes_length]
      have hFo : (sigFields area.length hdrOld.length (crc32 hdrOld)).length = 20 := by simp [sigFields, leBytes_length]
      have hbFn : IsBytes (sigFields ofs size crc) :=
        isBytes_append (isBytes_append (leBytes_isBytes _ _) (leBytes_isBytes _ _)) (leBytes_isBytes _ _)
      have hbFo : IsBytes (sigFields area.length hdrOld.length (crc32 hdrOld)) :=
        isBytes_append (isBytes_append (leBytes_isBytes _ _) (leBytes_isBytes _ _)) (leBytes_isBytes _ _)
      have hDold : sigOld ++ (area ++ (tail ++ (hdrOld ++ junk).drop tail.length)) =
          sigOld ++ area ++ (tail ++ (hdrOld ++ junk).drop tail.length) := by simp [List.append_assoc]
      have hsoP : sigOld = magic ++ [0, 4] ++ leBytes (crc32 (sigFields area.length hdrOld.length (crc32 hdrOld))) 4 ++
          sigFields area.length hdrOld.length (crc32 hdrOld) := sig_parts _ _ _
      rw [e2, sig_parts ofs size crc, hsoP]
      rcases torn_sig_cases (magic ++ [0, 4]) (leBytes (crc32 (sigFields ofs size crc)) 4)
        (leBytes (crc32 (sigFields area.length hdrOld.length (crc32 hdrOld))) 4)
        (sigFields ofs size crc) (sigFields area.length hdrOld.length (crc32 hdrOld)) hA (leBytes_length _ _) (leBytes_length _ _)
        hFn hFo k hk' with h | ⟨j, _, _, h⟩ | ⟨j, hj, h⟩
      · rw [h, ← hsoP, hDold]
        rcases hold tail with h | h | h
        · exact Or.inl h
        · exact Or.inr (Or.inl h)
        · exact Or.inr (Or.inr (Or.inr h))
      · -- tear inside the start-header CRC field: the fields are the old ones
        rw [h]
        by_cases hmix : (leBytes (crc32 (sigFields ofs size crc)) 4).take j ++
            (leBytes (crc32 (sigFields area.length hdrOld.length (crc32 hdrOld))) 4).drop j =
            leBytes (crc32 (sigFields area.length hdrOld.length (crc32 hdrOld))) 4
        · rw [hmix, ← hsoP, hDold]
          rcases hold tail with h | h | h
          · exact Or.inl h
          · exact Or.inr (Or.inl h)
          · exact Or.inr (Or.inr (Or.inr h))
        · left
          apply headerGate_none_of_start
          rw [startHeaderOk_parts _ _ _ (by simp [leBytes_length]; omega) hFo]
          simp only [beq_eq_false_iff_ne, ne_eq]
          intro hcontra
          apply hmix
          apply ofLE_inj_of_isBytes _ _ (by simp [leBytes_length]; omega)
            (isBytes_append (isBytes_take (leBytes_isBytes _ _) _) (isBytes_drop (leBytes_isBytes _ _) _)) (leBytes_isBytes _ _)
          rw [← hcontra, ofLE_leBytes, Nat.mod_eq_of_lt (by
            have := crc32_lt (sigFields area.length hdrOld.length (crc32 hdrOld)); omega)]
      · -- tear inside the 20 field bytes: the start-header CRC is the new one
        rw [h]
        by_cases heq : (sigFields ofs size crc).take j ++ (sigFields area.length hdrOld.length (crc32 hdrOld)).drop j = sigFields ofs size crc
        · right; right; left
          rw [heq, ← sig_parts, hfinal]
        · by_cases hc : crc32 ((sigFields ofs size crc).take j ++ (sigFields area.length hdrOld.length (crc32 hdrOld)).drop j) =
              crc32 (sigFields ofs size crc)
          · right; right; right
            exact ⟨_, sigFields ofs size crc, by simp [hFn, hFo]; omega, heq, hc, Or.inr rfl⟩
          · left
            apply headerGate_none_of_start
            rw [startHeaderOk_parts _ _ _ (leBytes_length _ _) (by simp [hFn, hFo]; omega), ofLE_leBytes,
              Nat.mod_eq_of_lt (by have := crc32_lt (sigFields ofs size crc); omega)]
            simp [hc]
  · right; right; left
    simp [img, ops, crashImage, appendOps]

/-- **The general form**: the old signature header points anywhere (`o`, `s`, `c`), the session writes from
    `32 + pre.length` on. Every crash image is rejected by the two gates, or still starts with the old signature
    header, has everything before the write position untouched and passes the gates with whatever now stands where
    the old header stood (which then has the old header's CRC), or is the finished file, or exhibits a CRC-32
    collision with the new field bytes. -/
theorem append_crash_general (pre X tail : Bytes) (o s c : Nat) (ofs size crc : Nat) (n k : Nat)
    (ho : o < 2 ^ 64) (hs : s < 2 ^ 64) (hc : c < 2 ^ 32) :
    let sigOld := sigHeaderBytes o s c
    let base := sigOld ++ pre ++ X
    let ops := appendOps (32 + pre.length) (sigHeaderBytes ofs size crc) tail
    let img := crashImage base ops n k
    headerGate img = none ∨
    (headerGate img = some (((img.drop 32).drop o).take s) ∧ crc32 (((img.drop 32).drop o).take s) = c ∧
      img.take (32 + pre.length) = base.take (32 + pre.length)) ∨
    img = applyAll base ops ∨
    ∃ a b : Bytes, a.length = b.length ∧ a ≠ b ∧ crc32 a = crc32 b ∧ b = sigFields ofs size crc := by
  intro sigOld base ops img
  have hso : sigOld.length = 32 := sigBytes_length _ _ _
  have hsn := sigBytes_length ofs size crc
  have hP : (sigOld ++ pre).length = 32 + pre.length := by simp [hso]
  have hover : ∀ t, applyWrite base ⟨32 + pre.length, t⟩ = sigOld ++ pre ++ (t ++ X.drop t.length) := by
    intro t; rw [← hP]; exact applyWrite_over _ _ _
  -- an image that still carries the old signature header
  have hold : ∀ Y, let im := sigOld ++ pre ++ Y
      headerGate im = none ∨ (headerGate im = some (((im.drop 32).drop o).take s) ∧ crc32 (((im.drop 32).drop o).take s) = c ∧
        im.take (32 + pre.length) = base.take (32 + pre.length)) := by
    intro Y im
    have him : im = sigOld ++ (pre ++ Y) := by simp [im, List.append_assoc]
    have hd : im.drop 32 = pre ++ Y := by rw [him, List.drop_left' hso]
    have hg := headerGate_sig o s c (pre ++ Y) ho hs hc
    rw [← him] at hg
    rw [hd]
    by_cases hcrc : crc32 (((pre ++ Y).drop o).take s) = c
    · right
      rw [hg, if_pos hcrc]
      refine ⟨rfl, hcrc, ?_⟩
      show (sigOld ++ pre ++ Y).take (32 + pre.length) = (sigOld ++ pre ++ X).take (32 + pre.length)
      rw [← hP, List.take_left' rfl, List.take_left' rfl]
    · left; rw [hg, if_neg hcrc]
  have hfinal : applyAll base ops = sigHeaderBytes ofs size crc ++ (pre ++ (tail ++ X.drop tail.length)) := by
    simp only [ops, applyAll, appendOps, List.foldl_cons, List.foldl_nil]
    rw [hover tail, applyWrite_zero, hsn, List.append_assoc, List.drop_left' hso]
  obtain rfl | rfl | ⟨m, rfl⟩ : n = 0 ∨ n = 1 ∨ ∃ m, n = m + 2 := by
    rcases n with _ | _ | m
    · exact Or.inl rfl
    · exact Or.inr (Or.inl rfl)
    · exact Or.inr (Or.inr ⟨m, rfl⟩)
  · have e : img = sigOld ++ pre ++ (tail.take k ++ X.drop (tail.take k).length) := by
      simp only [img, ops, crashImage, appendOps, List.take_zero, applyAll, List.foldl_nil, List.getElem?_cons_zero]
      exact hover _
    rw [e]
    rcases hold (tail.take k ++ X.drop (tail.take k).length) with h | h
    · exact Or.inl h
    · exact Or.inr (Or.inl h)
  · have e : img = (sigHeaderBytes ofs size crc).take k ++
        (sigOld ++ (pre ++ (tail ++ X.drop tail.length))).drop ((sigHeaderBytes ofs size crc).take k).length := by
      simp only [img, ops, crashImage, appendOps, applyAll, List.take_succ_cons, List.take_zero, List.foldl_cons, List.foldl_nil,
        List.getElem?_cons_succ, List.getElem?_cons_zero]
      rw [hover tail, applyWrite_zero, List.append_assoc]
    by_cases hk : 32 ≤ k
    · right; right; left
      rw [e, hfinal, List.take_of_length_le (by omega), hsn, List.drop_left' hso]
    · have hk' : k ≤ 32 := by omega
      have e2 : img = ((sigHeaderBytes ofs size crc).take k ++ sigOld.drop k) ++ (pre ++ (tail ++ X.drop tail.length)) := by
        rw [e, List.length_take, hsn, Nat.min_eq_left hk', List.drop_append_of_le_length (by omega), List.append_assoc]
      have hA : (magic ++ [0, 4]).length = 8 := by decide
      have hFn : (sigFields ofs size crc).length = 20 := by simp [sigFields, leBytes_length]
      have hFo : (sigFields o s c).length = 20 := by simp [sigFields, leBytes_length]
      have hDold : sigOld ++ (pre ++ (tail ++ X.drop tail.length)) = sigOld ++ pre ++ (tail ++ X.drop tail.length) := by
        simp [List.append_assoc]
      have hsoP : sigOld = magic ++ [0, 4] ++ leBytes (crc32 (sigFields o s c)) 4 ++ sigFields o s c := sig_parts _ _ _
      rw [e2, sig_parts ofs size crc, hsoP]
      rcases torn_sig_cases (magic ++ [0, 4]) (leBytes (crc32 (sigFields ofs size crc)) 4)
        (leBytes (crc32 (sigFields o s c)) 4) (sigFields ofs size crc) (sigFields o s c) hA (leBytes_length _ _) (leBytes_length _ _)
        hFn hFo k hk' with h | ⟨j, _, _, h⟩ | ⟨j, hj, h⟩
      · rw [h, ← hsoP, hDold]
        rcases hold (tail ++ X.drop tail.length) with h | h
        · exact Or.inl h
        · exact Or.inr (Or.inl h)
      · rw [h]
        by_cases hmix : (leBytes (crc32 (sigFields ofs size crc)) 4).take j ++ (leBytes (crc32 (sigFields o s c)) 4).drop j =
            leBytes (crc32 (sigFields o s c)) 4
        · rw [hmix, ← hsoP, hDold]
          rcases hold (tail ++ X.drop tail.length) with h | h
          · exact Or.inl h
          · exact Or.inr (Or.inl h)
        · left
          apply headerGate_none_of_start
          rw [startHeaderOk_parts _ _ _ (by simp [leBytes_length]; omega) hFo]
          simp only [beq_eq_false_iff_ne, ne_eq]
          intro hcontra
          apply hmix
          apply ofLE_inj_of_isBytes _ _ (by simp [leBytes_length]; omega)
            (isBytes_append (isBytes_take (leBytes_isBytes _ _) _) (isBytes_drop (leBytes_isBytes _ _) _)) (leBytes_isBytes _ _)
          rw [← hcontra, ofLE_leBytes, Nat.mod_eq_of_lt (by have := crc32_lt (sigFields o s c); omega)]
      · rw [h]
        by_cases heq : (sigFields ofs size crc).take j ++ (sigFields o s c).drop j = sigFields ofs size crc
        · right; right; left
          rw [heq, ← sig_parts, hfinal]
        · by_cases hcc : crc32 ((sigFields ofs size crc).take j ++ (sigFields o s c).drop j) = crc32 (sigFields ofs size crc)
          · right; right; right
            exact ⟨_, sigFields ofs size crc, by simp [hFn, hFo]; omega, heq, hcc, rfl⟩
          · left
            apply headerGate_none_of_start
            rw [startHeaderOk_parts _ _ _ (leBytes_length _ _) (by simp [hFn, hFo]; omega), ofLE_leBytes,
              Nat.mod_eq_of_lt (by have := crc32_lt (sigFields ofs size crc); omega)]
            simp [hcc]
  · right; right; left
    simp [img, ops, crashImage, appendOps]

/-- **C14 for an append session on a base in the DEFAULT (encoded) header mode.** The base is `signature header ++
    packed streams ++ packed header P ++ EncodedHeader record R ++ leftovers`; the session writes from the end of the
    packed streams on — over P first, R later. `dec` is whatever the header's coder chain decodes to. Every crash
    image is rejected at the signature-header or the record gate; or passes them with the OLD record while
    everything before the write position is untouched — and then the packed header the record points at is still
    `P`, or decodes to the same header, or fails the record's folder CRC (the gate added by cfa832b: without it this
    case opened with whatever the overwritten region decoded to), or collides with it under CRC-32; or is the
    finished file; or exhibits a CRC-32 collision of the record or of the new field bytes. -/
theorem append_crash_verdict_encoded (dec : Bytes → Bytes) (area P R junk tail : Bytes) (ofs size crc : Nat) (n k : Nat)
    (ha : area.length + P.length < 2 ^ 64) (hr : R.length < 2 ^ 64) :
    let sigOld := sigHeaderBytes (area.length + P.length) R.length (crc32 R)
    let base := sigOld ++ area ++ (P ++ R ++ junk)
    let ops := appendOps (32 + area.length) (sigHeaderBytes ofs size crc) tail
    let img := crashImage base ops n k
    let Q := (img.drop (32 + area.length)).take P.length
    headerGate img = none ∨
    (headerGate img = some R ∧ img.take (32 + area.length) = base.take (32 + area.length) ∧
      (Q = P ∨ dec Q = dec P ∨ crc32 (dec Q) ≠ crc32 (dec P) ∨ (dec Q ≠ dec P ∧ crc32 (dec Q) = crc32 (dec P)))) ∨
    img = applyAll base ops ∨
    ∃ a b : Bytes, a ≠ b ∧ crc32 a = crc32 b ∧ (b = R ∨ b = sigFields ofs size crc) := by
  intro sigOld base ops img Q
  rcases append_crash_general area (P ++ R ++ junk) tail (area.length + P.length) R.length (crc32 R) ofs size crc n k ha hr
      (crc32_lt R) with h | ⟨h1, h2, h3⟩ | h | ⟨a, b, _, h2, h3, h4⟩
  · exact Or.inl h
  · by_cases hreg : ((img.drop 32).drop (area.length + P.length)).take R.length = R
    · right; left
      rw [hreg] at h1
      refine ⟨h1, h3, ?_⟩
      by_cases hq : Q = P
      · exact Or.inl hq
      · by_cases hd : dec Q = dec P
        · exact Or.inr (Or.inl hd)
        · by_cases hc : crc32 (dec Q) = crc32 (dec P)
          · exact Or.inr (Or.inr (Or.inr ⟨hd, hc⟩))
          · exact Or.inr (Or.inr (Or.inl hc))
    · right; right; right
      exact ⟨_, R, hreg, h2, Or.inl rfl⟩
  · exact Or.inr (Or.inr (Or.inl h))
  · exact Or.inr (Or.inr (Or.inr ⟨a, b, h2, h3, Or.inr h4⟩))

/-- the writes of an append session on an archive in a good state (any archive reachable by a create session and
    append sessions, `C08.Written`) have the append shape: they start at the end of the old packed streams -/
theorem append_ops_shape {σ} (s : ArchState) (good : s.Good) (cfg : WConfig σ) (ms : List WMember) (us : List Nat)
    (hms : ms ≠ [])
    (hU : unpacksizesOf cfg.methodsMap ((sessionCompress cfg ms).1.chain.map (·.fed)) = some us)
    (ops : List WriteOp) (h : appendSessionOps s.image cfg ms = some ops) :
    ∃ ofs size crc tail, ops = appendOps (32 + s.area.length) (sigHeaderBytes ofs size crc) tail := by
  have inv := good.inv
  have hloc := locateHeader_assembled s.area s.hdr s.junk inv.areaBound good.hh
  have hread := (inv.reads s.hdr s.junk good.hw good.hh).2.2.2
  have happ := appendHeader_eq inv cfg ms us hU
  have hemp : ms.isEmpty = false := by cases ms <;> simp_all
  have hpos : appendPos s.c.readBack.header = 32 + s.area.length := by
    simp only [appendPos, HParts.header, HParts.streams, HParts.readBack, inv.readBackPack_eq, inv.packpos, inv.packsum]
  have hH : headerOfImage (imageOf s.area s.hdr s.junk) = some s.c.readBack.header := by
    unfold headerOfImage imageOf
    rw [hloc]
    simp only [bind, Option.bind, hread]
  unfold appendSessionOps ArchState.image at h
  rw [hH] at h
  simp only [bind, Option.bind, hemp, Bool.false_eq_true, if_false, happ, Option.map_some, hpos] at h
  cases hW : writeHeaderRaw true (appendComps s.c cfg ms us).header (32 + s.area.length + (sessionCompress cfg ms).1.out.length) with
  | none => simp [hW] at h
  | some hdr' =>
    simp only [hW, pure, Option.some.injEq] at h
    exact ⟨_, _, _, _, h.symm⟩

/-- **C14 for append sessions on every archive py7zr can have written** (raw header mode): the verdict of
    `append_crash_verdict` with the state's own packed area and header. -/
theorem good_append_crash_verdict {σ} (s : ArchState) (good : s.Good) (cfg : WConfig σ) (ms : List WMember) (us : List Nat)
    (hms : ms ≠ [])
    (hU : unpacksizesOf cfg.methodsMap ((sessionCompress cfg ms).1.chain.map (·.fed)) = some us)
    (ops : List WriteOp) (h : appendSessionOps s.image cfg ms = some ops) (n k : Nat) :
    headerGate (crashImage s.image ops n k) = none ∨
    (headerGate (crashImage s.image ops n k) = some s.hdr ∧
      (crashImage s.image ops n k).take (32 + s.area.length) = s.image.take (32 + s.area.length)) ∨
    crashImage s.image ops n k = applyAll s.image ops ∨
    ∃ a b : Bytes, a.length = b.length ∧ a ≠ b ∧ crc32 a = crc32 b := by
  obtain ⟨ofs, size, crc, tail, rfl⟩ := append_ops_shape s good cfg ms us hms hU ops h
  have himg : s.image = sigHeaderBytes s.area.length s.hdr.length (crc32 s.hdr) ++ s.area ++ (s.hdr ++ s.junk) := by
    simp [ArchState.image, imageOf, List.append_assoc]
  rw [himg]
  rcases append_crash_verdict s.area s.hdr s.junk tail ofs size crc n k good.inv.areaBound good.hh with h1 | h2 | h3 | ⟨a, b, h4, h5, h6, _⟩
  · exact Or.inl h1
  · exact Or.inr (Or.inl h2)
  · exact Or.inr (Or.inr (Or.inl h3))
  · exact Or.inr (Or.inr (Or.inr ⟨a, b, h4, h5, h6⟩))

example : startHeaderOk skeleton = false := by decide +kernel
-- concrete crash points: a create session torn inside the CRC field, inside the fields, and complete
example : startHeaderOk (crashImage [] (createOps (sigHeaderBytes 5 2 77) [1, 2, 3, 4, 5, 1, 0]) 2 10) = false ∧
    startHeaderOk (crashImage [] (createOps (sigHeaderBytes 5 2 77) [1, 2, 3, 4, 5, 1, 0]) 2 21) = false ∧
    startHeaderOk (crashImage [] (createOps (sigHeaderBytes 5 2 77) [1, 2, 3, 4, 5, 1, 0]) 2 32) = true := by decide +kernel
-- an append cut inside the data write that has destroyed the old header: both gates, then rejection
example : headerGate (crashImage (sigHeaderBytes 2 2 (crc32 [1, 0]) ++ [9, 9] ++ ([1, 0] ++ []))
      (appendOps 34 (sigHeaderBytes 4 2 (crc32 [1, 0])) [8, 8, 1, 0]) 0 1) = none ∧
    headerGate (sigHeaderBytes 2 2 (crc32 [1, 0]) ++ [9, 9] ++ ([1, 0] ++ [])) = some [1, 0] := by decide +kernel
example : crashImage [] [⟨0, [1, 2, 3]⟩, ⟨5, [9, 9]⟩, ⟨1, [7]⟩] 2 0 = [1, 2, 3, 0, 0, 9, 9] ∧
    applyAll [] [⟨0, [1, 2, 3]⟩, ⟨5, [9, 9]⟩, ⟨1, [7]⟩] = [1, 7, 3, 0, 0, 9, 9] := by decide

end SevenZ.C14
