/-
C03 — Extraction never writes outside the destination directory.
-/
import SevenZ.Model.FS
import SevenZ.Lemmas.Path
namespace SevenZ.C03
open SevenZ SevenZ.Impl

/-- what `get_sanitized_output_path` returns is lexically under the (canonical) destination -/
theorem sanitized_inside (fname : Str) (dest p : PPath) (h : sanitizedOutputPath fname dest = some p) :
    p.root = (canonicalPath dest).root ∧ (canonicalPath dest).comps.isPrefixOf p.comps = true := by
  unfold sanitizedOutputPath at h
  simp only [] at h
  generalize canonicalPath (dest.join (parse (removeRelMarker
    (if fname.head? = some '/' then dropWhileSlash fname else fname)))) = q at h
  by_cases hrel : isRelativeTo q dest = true
  · rw [if_pos hrel] at h
    simp only [Option.some.injEq] at h
    subst h
    simpa [isRelativeTo, relativeTo, Bool.and_eq_true] using hrel
  · rw [if_neg hrel] at h; simp at h

/-- the same for extraction into the working directory (`extractall()` without a path), after
    the repair: what is returned is a RELATIVE path, and joined to the working directory it is
    exactly the path that was checked to lie under it -/
theorem sanitized_inside_cwd (fname : Str) (cwd p : PPath) (h : sanitizedOutputPathCwd fname cwd = some p) :
    p.isAbsolute = false ∧
    (canonicalPath cwd).comps ++ p.comps =
      (canonicalPath (cwd.join (parse (if fname.head? = some '/' then dropWhileSlash fname else fname)))).comps := by
  unfold sanitizedOutputPathCwd at h
  simp only [] at h
  generalize canonicalPath (cwd.join (parse (if fname.head? = some '/' then dropWhileSlash fname else fname))) = q at h ⊢
  by_cases hrel : isRelativeTo q cwd = true
  · rw [if_pos hrel] at h
    simp only [Option.some.injEq] at h
    subst h
    refine ⟨by simp [PPath.isAbsolute], ?_⟩
    have hp : (canonicalPath cwd).comps.isPrefixOf q.comps = true := by
      simp only [isRelativeTo, relativeTo, Bool.and_eq_true] at hrel
      exact hrel.2
    rw [List.isPrefixOf_iff_prefix] at hp
    obtain ⟨t, ht⟩ := hp
    simp only []
    rw [← ht, List.drop_left]
  · rw [if_neg hrel] at h; simp at h

/-- the pinned working-directory branch (defect repaired in 6d3f35c): the name `.//etc/x` is
    checked as `cwd/etc/x` but returned as the absolute path `/etc/x` -/
theorem cwd_branch_pinned_ce :
    (sanitizedOutputPathCwdPinned ".//etc/x".toList (parse "/home/u".toList)).map (fun p => (p.isAbsolute, p.toStr)) =
      some (true, "/etc/x".toList) ∧
    (sanitizedOutputPathCwd ".//etc/x".toList (parse "/home/u".toList)).map (fun p => (p.isAbsolute, p.toStr)) =
      some (false, "etc/x".toList) := by
  decide

example : sanitizedOutputPathCwd "a/../b/./c".toList (parse "/w".toList) = some { root := [], comps := ["b".toList, "c".toList] } := by decide

/-- With the guard of the repaired extraction — refuse a step whose resolved location is not
    under the resolved destination, never follow a final link when writing a file — every
    location any step mutates lies under the destination: for every initial file system,
    every sequence of steps (arbitrary names, kinds, link targets, any length), whether the run
    completes or stops at a refused step. -/
theorem guarded_no_escape (dest : Comps) : ∀ (ops : List XOp) (fs : FSys),
    ∀ loc ∈ xrun (some dest) fs ops, inside dest loc = true := by
  intro ops
  induction ops with
  | nil => intro fs loc h; simp [xrun] at h
  | cons op ops ih =>
    intro fs loc h
    simp only [xrun] at h
    cases hs : xstep (some dest) fs op with
    | none => rw [hs] at h; simp at h
    | some r =>
      obtain ⟨locs, fs'⟩ := r
      rw [hs] at h
      simp only [List.mem_append] at h
      rcases h with h | h
      · -- the location this step reported passed the guard
        cases op with
        | mkdirs p =>
          simp only [xstep] at hs
          cases hr : realPath fs p with
          | none => rw [hr] at hs; simp at hs
          | some l =>
            rw [hr] at hs
            simp only [Option.any_some] at hs
            by_cases hg : inside dest l = true
            · simp only [hg, Bool.not_true, Bool.false_eq_true, if_false, Option.some.injEq, Prod.mk.injEq] at hs
              rw [← hs.1] at h; simp at h; rw [h]; exact hg
            · simp [hg] at hs
        | symlink p a t =>
          simp only [xstep] at hs
          cases hr : landParent fs p with
          | none => rw [hr] at hs; simp at hs
          | some l =>
            rw [hr] at hs
            simp only [Option.any_some] at hs
            by_cases hg : inside dest l = true
            · simp only [hg, Bool.not_true, Bool.false_eq_true, if_false, Option.some.injEq, Prod.mk.injEq] at hs
              rw [← hs.1] at h; simp at h; rw [h]; exact hg
            · simp [hg] at hs
        | writeFile p =>
          simp only [xstep, Option.isSome_some, if_true] at hs
          cases hr : landParent fs p with
          | none => rw [hr] at hs; simp at hs
          | some l =>
            rw [hr] at hs
            simp only [Option.any_some] at hs
            by_cases hg : inside dest l = true
            · simp only [hg, Bool.not_true, Bool.false_eq_true, if_false, Option.some.injEq, Prod.mk.injEq] at hs
              rw [← hs.1] at h; simp at h; rw [h]; exact hg
            · simp [hg] at hs
      · exact ih fs' loc h

def s (x : String) : Str := x.toList
def jailFs : FSys := { entries := [([s "jail"], .dir), ([s "jail", s "dest"], .dir)] }
def destC : Comps := [s "jail", s "dest"]

/-- entries `a -> "."`, `a/b -> ".."`, `b/evil`: each link is harmless on its own, followed one
    through the other they leave the destination -/
def chain : List XOp :=
  [.symlink (destC ++ [s "a"]) false [s "."],
   .symlink (destC ++ [s "a", s "b"]) false [s ".."],
   .mkdirs (destC ++ [s "b"]),
   .writeFile (destC ++ [s "b", s "evil"])]

/-- The pinned tree checks names and link targets only lexically: the chain makes it create
    `jail/evil`, outside `jail/dest` (finding F8).  With the guard the run stops at the
    second link and touches nothing outside. -/
theorem chain_escape_ce :
    (xrun none jailFs chain).any (fun loc => !inside destC loc) = true ∧
    (xrun (some destC) jailFs chain).all (fun loc => inside destC loc) = true := by
  decide +kernel

example : xrun none jailFs chain = [[s "jail", s "dest", s "a"], [s "jail", s "dest", s "b"], [s "jail"], [s "jail", s "evil"]] := by
  decide +kernel

end SevenZ.C03
