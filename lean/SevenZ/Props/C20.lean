/-
C20 — Streaming in bounded memory (bookkeeping part): what the extraction path itself holds
on to, for every decoder.
-/
import SevenZ.Lemmas.Decode
import SevenZ.Model.Stages
namespace SevenZ.C20
open SevenZ SevenZ.Impl

/-- a call never returns more than `max_length` bytes … -/
theorem chunk_bound {σ} (ch : Chain σ) (cfg : DecCfg) (st : DecState σ) (m : Nat) :
    (decompress ch cfg st m).1.length ≤ m :=
  decompress_len_le ch cfg st m

/-- … with a chain that honours `max_length` (lzma, bz2, PPMd last) nothing is ever carried
    over between calls … -/
theorem honouring_chain_buffers_nothing {σ} (ch : Chain σ) (cfg : DecCfg) (st : DecState σ) (m : Nat)
    (hon : ∀ s d k, (ch.dec s d k).2.length ≤ k) (hb : st.buf = []) :
    (decompress ch cfg st m).2.2.buf = [] :=
  buf_stays_empty ch cfg st m hon hb

/-- … and with any chain the carry-over buffer holds at most one call's decoder output:
    memory is bounded by what one input block expands to, never by the declared size -/
theorem buffer_le_one_block_output {σ} (ch : Chain σ) (cfg : DecCfg) (st : DecState σ) (m : Nat) :
    (decompress ch cfg st m).2.2.buf.length ≤ max st.buf.length (decompress ch cfg st m).2.1.length :=
  buf_le_output ch cfg st m

/-- at most one block of packed input is read per call -/
theorem input_read_le_block {σ} (cfg : DecCfg) (st : DecState σ) :
    (readData cfg st).1.length ≤ cfg.blockSize := by
  unfold readData
  simp only []
  split
  · simp [List.length_take]; omega
  · simp

/-- no loss, no duplication across the carry-over buffer, for every request sequence -/
theorem decompress_concat {σ} (ch : Chain σ) (cfg : DecCfg) (ms : List Nat) (st : DecState σ) :
    (runCalls ch cfg st ms).1.flatten ++ (runCalls ch cfg st ms).2.2.live =
      st.live ++ (runCalls ch cfg st ms).2.1.flatten :=
  SevenZ.decompress_concat ch cfg ms st

/-- The claim "bounded by a fixed budget for every codec" is *false* of the code: a decoder
    that ignores `max_length` (Deflate, ZStandard, Brotli, Copy…) may hand back everything a
    block expands to, and all of it is buffered.  Model witness: one call, request 1 byte,
    decoder output 100 bytes ⇒ 99 bytes carried over. -/
theorem ignoring_decoder_ce :
    (decompress ({ dec := fun s _ _ => (s, List.replicate 100 0) } : Chain Unit)
      { inputSize := 10, blockSize := 4 } { chain := (), src := [1, 2, 3, 4] } 1).2.2.buf.length = 99 := by
  decide +kernel

/-- Every stage of the coder chain is held to the caller's `max_length`: when each decoder
    honours the limit it is given, no stage of `_decompress` — first, middle or last — returns
    more than `max_length` bytes in one call, for chains of any length.  (A chain that limits
    only its last stage lets an earlier decompressor expand a whole input block at once.) -/
theorem every_stage_bounded {σ} (dec : σ → Bytes → Nat → σ × Bytes) (hon : ∀ s d k, (dec s d k).2.length ≤ k)
    (sts : List (StageSt σ)) (data : Bytes) (k : Nat) (res : Bytes) (lens : List Nat) (sts' : List (StageSt σ))
    (h : stagesStep dec sts data k = some (res, lens, sts')) : ∀ n ∈ lens, n ≤ k := by
  induction sts generalizing data res lens sts' with
  | nil => simp [stagesStep] at h; obtain ⟨_, rfl, _⟩ := h; simp
  | cons s rest ih =>
    unfold stagesStep at h
    split at h
    · dsimp only at h
      split at h
      · rename_i res' lens' sts'' heq
        simp only [Option.some.injEq, Prod.mk.injEq] at h
        obtain ⟨_, rfl, _⟩ := h
        intro n hn
        simp only [List.mem_cons] at hn
        rcases hn with rfl | hn
        · exact hon _ _ _
        · exact ih _ _ _ _ heq n hn
      · cases h
    · split at h
      · split at h
        · rename_i res' lens' sts'' heq
          simp only [Option.some.injEq, Prod.mk.injEq] at h
          obtain ⟨_, rfl, _⟩ := h
          intro n hn
          simp only [List.mem_cons] at hn
          rcases hn with rfl | hn
          · omega
          · exact ih _ _ _ _ heq n hn
        · cases h
      · cases h

/-- and the result handed back is bounded too (non-empty chain whose last stage is live or finished) -/
theorem stages_result_bounded {σ} (dec : σ → Bytes → Nat → σ × Bytes) (hon : ∀ s d k, (dec s d k).2.length ≤ k)
    (sts : List (StageSt σ)) (hne : sts ≠ []) (data : Bytes) (k : Nat) (res : Bytes) (lens : List Nat) (sts' : List (StageSt σ))
    (h : stagesStep dec sts data k = some (res, lens, sts')) : res.length ≤ k := by
  induction sts generalizing data res lens sts' with
  | nil => exact absurd rfl hne
  | cons s rest ih =>
    unfold stagesStep at h
    split at h
    · dsimp only at h
      split at h
      · rename_i res' lens' sts'' heq
        simp only [Option.some.injEq, Prod.mk.injEq] at h
        obtain ⟨rfl, _, _⟩ := h
        cases rest with
        | nil =>
          simp [stagesStep] at heq
          obtain ⟨rfl, _, _⟩ := heq
          simp only [List.length_take]
          have := hon s.st data k
          omega
        | cons s2 r2 => exact ih (by simp) _ _ _ _ heq
      · cases h
    · split at h
      · split at h
        · rename_i res' lens' sts'' heq
          simp only [Option.some.injEq, Prod.mk.injEq] at h
          obtain ⟨rfl, _, _⟩ := h
          cases rest with
          | nil =>
            simp [stagesStep] at heq
            obtain ⟨rfl, _, _⟩ := heq
            simp
          | cons s2 r2 => exact ih (by simp) _ _ _ _ heq
        · cases h
      · cases h

example : (∀ s d k, (({ dec := fun s _ k => (s, List.replicate k 7) } : Chain Unit).dec s d k).2.length ≤ k) := by
  intro s d k; simp

end SevenZ.C20
