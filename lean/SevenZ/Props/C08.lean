/-
C08 — Append preserves history (header re-serialisation part).
-/
import SevenZ.Lemmas.FilesInfo
import SevenZ.Model.Assign
import SevenZ.Lemmas.Assign
namespace SevenZ.C08
open SevenZ SevenZ.Impl

/-- re-serialising partially defined time vectors (what an append onto a third-party archive
    does) is read back unchanged: undefined entries stay undefined, for every number of
    members and every definedness pattern -/
theorem reserialise_times (fuel n ne : Nat) (fi : FilesInfo) (slots : List (Slot Nat))
    (hlen : slots.length = fi.files.length) (hn : slots.length < 2 ^ 32)
    (hv : ∀ s ∈ slots, ∀ t, s = .val t → t < 2 ^ 64) (rest : Bytes) :
    readFileProps (fuel + 1) n fi ne (timesBlock true 0x14 slots ++ rest) =
      readFileProps fuel n
        { fi with files := (fi.files.zip slots).map (fun (f, s) => setTime .m f (normSlot s)) } ne rest :=
  times_step fuel n ne fi slots hlen hn hv rest

/-- Appending never alters, drops, reorders or re-assigns a member that was already there:
    for EVERY base archive (any files, folders incl. folders without streams, sizes, digests)
    and EVERY appended material (more file entries, more folders, more sub-streams) — as long
    as both the base and the result are readable — the cursor gives the first members exactly
    the folder, offset, size and digest it gave them in the base archive. -/
theorem append_keeps_assignment (flags flags' : List Bool) (nums nums' sizes sizes' : List Nat)
    (crcs crcs' : List (Option Nat)) (r r' : List Slot4)
    (hbase : Impl.assign flags nums sizes crcs = some r)
    (hnew : Impl.assign (flags ++ flags') (nums ++ nums') (sizes ++ sizes') (crcs ++ crcs') = some r') :
    r'.take flags.length = r :=
  assignGo_prefix nums sizes crcs nums' sizes' crcs' flags' flags 0 0 0 0 r hbase r' hnew

/-- appending a folder never moves an earlier member: the cursor's assignment for the old
    members of a base archive is a prefix of the assignment after one more folder with one
    more member has been added (concrete three-session shape incl. a stream-less session) -/
theorem append_keeps_assignment_example :
    (Impl.assign [false, true, false] [2] [10, 20] [some 1, some 2]).map (·.take 3) =
      (Impl.assign [false, true, false, true, false] [2, 0, 1] [10, 20, 7] [some 1, some 2, some 3]).map (·.take 3) := by
  decide

end SevenZ.C08
