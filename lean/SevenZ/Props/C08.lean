/-
C08 — Append preserves history (header re-serialisation part).
-/
import SevenZ.Lemmas.FilesInfo
import SevenZ.Model.Assign
import SevenZ.Lemmas.Assign
import SevenZ.Lemmas.AssignAppend
import SevenZ.Props.C06
namespace SevenZ.C08
open SevenZ SevenZ.Impl

/-- re-serialising partially defined time vectors (what an append onto a third-party archive
    does) is read back unchanged: undefined entries stay undefined, for every number of
    members and every definedness pattern -/
theorem reserialise_times (fuel n ne : Nat) (fi : FilesInfo) (slots : List (Slot Nat))
    (hlen : slots.length = fi.files.length) (hn : slots.length < 2 ^ 32)
    (hv : ∀ s ∈ slots, ∀ t, s = .val t → t < 2 ^ 64) (rest : Bytes) :
    readFileProps (fuel + 1) n fi ne (timesBlock true 0x14 slots ++ rest) =
      readFileProps fuel n
        { fi with files := (fi.files.zip slots).map (fun (f, s) => setTime .m f (normSlot s)) } ne rest :=
  times_step fuel n ne fi slots hlen hn hv rest

/-- Appending never alters, drops, reorders or re-assigns a member that was already there:
    for EVERY base archive (any files, folders incl. folders without streams, sizes, digests)
    and EVERY appended material (more file entries, more folders, more sub-streams) — as long
    as both the base and the result are readable — the cursor gives the first members exactly
    the folder, offset, size and digest it gave them in the base archive. -/
theorem append_keeps_assignment (flags flags' : List Bool) (nums nums' sizes sizes' : List Nat)
    (crcs crcs' : List (Option Nat)) (r r' : List Slot4)
    (hbase : Impl.assign flags nums sizes crcs = some r)
    (hnew : Impl.assign (flags ++ flags') (nums ++ nums') (sizes ++ sizes') (crcs ++ crcs') = some r') :
    r'.take flags.length = r :=
  assignGo_prefix nums sizes crcs nums' sizes' crcs' flags' flags 0 0 0 0 r hbase r' hnew


/-- **The format's assignment under an append, exactly.**  For EVERY base header the format can
    read (any files, any folders, sizes, digests) whose sub-streams are all given out, and one
    more folder with `n2` sub-streams and any files behind it: the assignment of the extended
    header exists and is the base's assignment, unchanged and in order, followed by the new
    folder's members — existence and exact value, not only prefix stability. -/
theorem append_assignment_exact (files1 files2 : List Spec.SFile) (nums : List Nat) (n2 : Nat) (sizes1 sizes2 : List Nat)
    (crcs1 crcs2 : List (Option Nat)) (M1 : List Spec.SMember)
    (hbase : Spec.assign files1 nums sizes1 crcs1 = .ok M1) (hne : nums ≠ [])
    (hcap : nums.sum = sizes1.length) (hl1 : sizes1.length = crcs1.length)
    (hl2 : sizes2.length = crcs2.length) (hc2 : (files2.filter (fun f => !f.emptyStream)).length = sizes2.length)
    (hn2 : sizes2.length = n2) :
    Spec.assign (files1 ++ files2) (nums ++ [n2]) (sizes1 ++ sizes2) (crcs1 ++ crcs2) =
      .ok (M1 ++ folderMembers nums.length files2 0 sizes2 crcs2) :=
  assign_append files1 files2 nums n2 sizes1 sizes2 crcs1 crcs2 M1 hbase hne hcap hl1 hl2 hc2 hn2

/-- ... and py7zr's cursor follows: on the extended header it gives the old members what it gave
    them before and the new members their place in the appended folder -/
theorem append_cursor_exact (files1 files2 : List Spec.SFile) (nums : List Nat) (n2 : Nat) (sizes1 sizes2 : List Nat)
    (crcs1 crcs2 : List (Option Nat)) (M1 : List Spec.SMember)
    (hbase : Spec.assign files1 nums sizes1 crcs1 = .ok M1) (hne : nums ≠ [])
    (hcap : nums.sum = sizes1.length) (hl1 : sizes1.length = crcs1.length)
    (hl2 : sizes2.length = crcs2.length) (hc2 : (files2.filter (fun f => !f.emptyStream)).length = sizes2.length)
    (hn2 : sizes2.length = n2) :
    Impl.assign ((files1 ++ files2).map (·.emptyStream)) (nums ++ [n2]) (sizes1 ++ sizes2) (crcs1 ++ crcs2) =
      some ((M1 ++ folderMembers nums.length files2 0 sizes2 crcs2).map (·.stream)) :=
  C06.assign_refines_spec _ _ _ _ _
    (assign_append files1 files2 nums n2 sizes1 sizes2 crcs1 crcs2 M1 hbase hne hcap hl1 hl2 hc2 hn2)

example : (Spec.assign ([{ emptyStream := false }, { emptyStream := true }] ++ [{ emptyStream := false }, { emptyStream := false }])
    ([1] ++ [2]) ([5] ++ [7, 9]) ([some 1] ++ [none, some 3])).toOption.map (fun l => l.map (·.stream)) =
    some [some (0, 0, 5, some 1), none, some (1, 0, 7, none), some (1, 7, 9, some 3)] := by decide +kernel

/-- appending a folder never moves an earlier member: the cursor's assignment for the old
    members of a base archive is a prefix of the assignment after one more folder with one
    more member has been added (concrete three-session shape incl. a stream-less session) -/
theorem append_keeps_assignment_example :
    (Impl.assign [false, true, false] [2] [10, 20] [some 1, some 2]).map (·.take 3) =
      (Impl.assign [false, true, false, true, false] [2, 0, 1] [10, 20, 7] [some 1, some 2, some 3]).map (·.take 3) := by
  decide

end SevenZ.C08
