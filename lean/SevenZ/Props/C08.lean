/-
C08 — Append preserves history (header re-serialisation part).
-/
import SevenZ.Lemmas.FilesInfo
import SevenZ.Model.Assign
import SevenZ.Lemmas.Assign
import SevenZ.Lemmas.AssignAppend
import SevenZ.Lemmas.AppendStep
import SevenZ.Props.C06
namespace SevenZ.C08
open SevenZ SevenZ.Impl

/-- re-serialising partially defined time vectors (what an append onto a third-party archive
    does) is read back unchanged: undefined entries stay undefined, for every number of
    members and every definedness pattern -/
theorem reserialise_times (fuel n ne : Nat) (fi : FilesInfo) (slots : List (Slot Nat))
    (hlen : slots.length = fi.files.length) (hn : slots.length < 2 ^ 32)
    (hv : ∀ s ∈ slots, ∀ t, s = .val t → t < 2 ^ 64) (rest : Bytes) :
    readFileProps (fuel + 1) n fi ne (timesBlock true 0x14 slots ++ rest) =
      readFileProps fuel n
        { fi with files := (fi.files.zip slots).map (fun (f, s) => setTime .m f (normSlot s)) } ne rest :=
  times_step fuel n ne fi slots hlen hn hv rest

/-- Appending never alters, drops, reorders or re-assigns a member that was already there:
    for EVERY base archive (any files, folders incl. folders without streams, sizes, digests)
    and EVERY appended material (more file entries, more folders, more sub-streams) — as long
    as both the base and the result are readable — the cursor gives the first members exactly
    the folder, offset, size and digest it gave them in the base archive. -/
theorem append_keeps_assignment (flags flags' : List Bool) (nums nums' sizes sizes' : List Nat)
    (crcs crcs' : List (Option Nat)) (r r' : List Slot4)
    (hbase : Impl.assign flags nums sizes crcs = some r)
    (hnew : Impl.assign (flags ++ flags') (nums ++ nums') (sizes ++ sizes') (crcs ++ crcs') = some r') :
    r'.take flags.length = r :=
  assignGo_prefix nums sizes crcs nums' sizes' crcs' flags' flags 0 0 0 0 r hbase r' hnew


/-- **The format's assignment under an append, exactly.**  For EVERY base header the format can
    read (any files, any folders, sizes, digests) whose sub-streams are all given out, and one
    more folder with `n2` sub-streams and any files behind it: the assignment of the extended
    header exists and is the base's assignment, unchanged and in order, followed by the new
    folder's members — existence and exact value, not only prefix stability. -/
theorem append_assignment_exact (files1 files2 : List Spec.SFile) (nums : List Nat) (n2 : Nat) (sizes1 sizes2 : List Nat)
    (crcs1 crcs2 : List (Option Nat)) (M1 : List Spec.SMember)
    (hbase : Spec.assign files1 nums sizes1 crcs1 = .ok M1) (hne : nums ≠ [])
    (hcap : nums.sum = sizes1.length) (hl1 : sizes1.length = crcs1.length)
    (hl2 : sizes2.length = crcs2.length) (hc2 : (files2.filter (fun f => !f.emptyStream)).length = sizes2.length)
    (hn2 : sizes2.length = n2) :
    Spec.assign (files1 ++ files2) (nums ++ [n2]) (sizes1 ++ sizes2) (crcs1 ++ crcs2) =
      .ok (M1 ++ folderMembers nums.length files2 0 sizes2 crcs2) :=
  assign_append files1 files2 nums n2 sizes1 sizes2 crcs1 crcs2 M1 hbase hne hcap hl1 hl2 hc2 hn2

/-- ... and py7zr's cursor follows: on the extended header it gives the old members what it gave
    them before and the new members their place in the appended folder -/
theorem append_cursor_exact (files1 files2 : List Spec.SFile) (nums : List Nat) (n2 : Nat) (sizes1 sizes2 : List Nat)
    (crcs1 crcs2 : List (Option Nat)) (M1 : List Spec.SMember)
    (hbase : Spec.assign files1 nums sizes1 crcs1 = .ok M1) (hne : nums ≠ [])
    (hcap : nums.sum = sizes1.length) (hl1 : sizes1.length = crcs1.length)
    (hl2 : sizes2.length = crcs2.length) (hc2 : (files2.filter (fun f => !f.emptyStream)).length = sizes2.length)
    (hn2 : sizes2.length = n2) :
    Impl.assign ((files1 ++ files2).map (·.emptyStream)) (nums ++ [n2]) (sizes1 ++ sizes2) (crcs1 ++ crcs2) =
      some ((M1 ++ folderMembers nums.length files2 0 sizes2 crcs2).map (·.stream)) :=
  C06.assign_refines_spec _ _ _ _ _
    (assign_append files1 files2 nums n2 sizes1 sizes2 crcs1 crcs2 M1 hbase hne hcap hl1 hl2 hc2 hn2)

example : (Spec.assign ([{ emptyStream := false }, { emptyStream := true }] ++ [{ emptyStream := false }, { emptyStream := false }])
    ([1] ++ [2]) ([5] ++ [7, 9]) ([some 1] ++ [none, some 3])).toOption.map (fun l => l.map (·.stream)) =
    some [some (0, 0, 5, some 1), none, some (1, 0, 7, none), some (1, 7, 9, some 3)] := by decide +kernel


/-- The archives of a history: a create session, then ANY number of append sessions, each with
    its own chain of codec stages, coder list and member list (raw header mode), each within the
    limits of the format and of py7zr's reader — the hypotheses of the constructors are those
    limits and nothing else: names of Unicode scalar values without backslash and of at most 65535
    UTF-16 units, fewer than 2^32 members, sizes and tables below 2^64 / 2^63 bytes, and the
    bytes on disk after each session are what the session model leaves (`appendArchive`).
    The state's member list is, by construction, the members of all sessions in session order:
    session `i`'s members in folder `i`, each data member at the offset where its predecessors
    of the same session end, with the length and CRC-32 of its bytes. -/
inductive Written (σ : Type) : ArchState → Prop where
  | create (cfg : WConfig σ) (ms : List WMember) (us : List Nat) (hdr : Bytes)
      (wfc : WFConfig cfg) (wfm : WFMembers ms) (rs : ReadableSession cfg ms)
      (hU : unpacksizesOf cfg.methodsMap ((sessionCompress cfg ms).1.chain.map (·.fed)) = some us)
      (husb : ∀ v ∈ us, v < 2 ^ 64) (hout : (sessionCompress cfg ms).1.out.length < 2 ^ 64)
      (hns : ∀ m ∈ ms, ∀ ch ∈ m.name, ch ≠ 0x5C)
      (hw : writeHeaderRaw true (sessionComps cfg ms us).header (32 + (sessionCompress cfg ms).1.out.length) = some hdr)
      (hh : hdr.length < 2 ^ 64) :
      Written σ (createState cfg ms us hdr)
  | append (s : ArchState) (prev : Written σ s) (cfg : WConfig σ) (ms : List WMember) (us : List Nat) (hdr' junk' : Bytes)
      (wfc : WFConfig cfg) (wfm : WFMembers ms) (rs : ReadableSession cfg ms)
      (hU : unpacksizesOf cfg.methodsMap ((sessionCompress cfg ms).1.chain.map (·.fed)) = some us)
      (husb : ∀ v ∈ us, v < 2 ^ 64)
      (hab : (s.area ++ (sessionCompress cfg ms).1.out).length < 2 ^ 64)
      (hnf : s.c.fs.length + 1 < 2 ^ 64)
      (hfiles : ReadableFiles (appendComps s.c cfg ms us).fi)
      (hns : ∀ m ∈ ms, ∀ ch ∈ m.name, ch ≠ 0x5C)
      (hw : writeHeaderRaw true (appendComps s.c cfg ms us).header (32 + (s.area ++ (sessionCompress cfg ms).1.out).length) = some hdr')
      (hh : hdr'.length < 2 ^ 64)
      (himg : appendArchive s.image cfg ms = some (appendState s cfg ms us hdr' junk').image) :
      Written σ (appendState s cfg ms us hdr' junk')

/-- every archive of a history satisfies the archive invariant (induction over the sessions) -/
theorem written_good {σ : Type} (s : ArchState) (w : Written σ s) : s.Good := by
  induction w with
  | create cfg ms us hdr wfc wfm rs hU husb hout hns hw hh =>
    exact (createState_good cfg ms us hdr wfc wfm rs hU husb hout hns hw hh).1
  | append s _ cfg ms us hdr' junk' wfc wfm rs hU husb hab hnf hfiles hns hw hh _ ih =>
    exact appendState_good s ih cfg ms us hdr' junk' wfc wfm rs hU husb hab hnf hfiles hns hw hh

/-- **Append preserves history.**  For every archive a create session and any number of append
    sessions leave (`Written`): the strict archive reader accepts the file, the packed sizes of
    all sessions tile the data area exactly, the format's assignment returns the members of ALL
    sessions in session order — every member that was already there with the folder, offset,
    size and CRC it had, the new ones behind them —, and py7zr's own reader returns the header
    object the next session will extend. -/
theorem history_conforms {σ : Type} (s : ArchState) (w : Written σ s) :
    Spec.readArchiveTail s.image = .ok { top := .raw s.c.expected, dataArea := s.area } ∧
    Spec.tilesExactly (expectedStreams s.c.p s.c.fs s.c.ss s.c.sizes) s.area = true ∧
    Spec.members s.c.expected = .ok s.M ∧
    readNextHeader s.hdr = .ok (.raw s.c.readBack.header) :=
  (written_good s w).reads

/-- the create constructor describes the create session's archive -/
theorem written_create_image {σ} (cfg : WConfig σ) (ms : List WMember) (us : List Nat) (hdr : Bytes)
    (wfc : WFConfig cfg) (wfm : WFMembers ms) (rs : ReadableSession cfg ms)
    (hU : unpacksizesOf cfg.methodsMap ((sessionCompress cfg ms).1.chain.map (·.fed)) = some us)
    (husb : ∀ v ∈ us, v < 2 ^ 64) (hout : (sessionCompress cfg ms).1.out.length < 2 ^ 64)
    (hns : ∀ m ∈ ms, ∀ ch ∈ m.name, ch ≠ 0x5C)
    (hw : writeHeaderRaw true (sessionComps cfg ms us).header (32 + (sessionCompress cfg ms).1.out.length) = some hdr)
    (hh : hdr.length < 2 ^ 64) :
    sessionArchive cfg ms = some (createState cfg ms us hdr).image :=
  (createState_good cfg ms us hdr wfc wfm rs hU husb hout hns hw hh).2

/-- the append constructor's file exists: an append session on a written archive, within the
    limits, leaves a file of exactly the shape the constructor describes -/
theorem written_append_exists {σ} (s : ArchState) (w : Written σ s) (cfg : WConfig σ) (ms : List WMember) (us : List Nat)
    (img' : Bytes) (hms : ms ≠ [])
    (hU : unpacksizesOf cfg.methodsMap ((sessionCompress cfg ms).1.chain.map (·.fed)) = some us)
    (h : appendArchive s.image cfg ms = some img') :
    ∃ hdr' junk', writeHeaderRaw true (appendComps s.c cfg ms us).header
        (32 + (s.area ++ (sessionCompress cfg ms).1.out).length) = some hdr' ∧
      img' = (appendState s cfg ms us hdr' junk').image := by
  have good := written_good s w
  exact good.inv.append_image s.hdr s.junk good.hw good.hh cfg ms us hms hU img' h

/-- non-vacuity: a create session and an append session evaluated in the kernel — the appended
    archive still holds the first session's member where it was, and the new one in folder 1 -/
def histCfg : WConfig Bytes :=
  { coders := [{ method := [0x21], props := some [0x18] }], methodsMap := [true],
    chain := [{ stage := { compress := fun s d => (s, d), flush := fun s => (s, []) }, st := [] }], enableDigests := false }

example : ((sessionArchive histCfg [{ name := [97], emptystream := false, blocks := [[1, 2, 3]], mtime := .val 5, attr := .val 32 }]).bind
      (fun img => appendArchive img histCfg [{ name := [98], emptystream := true, mtime := .val 6, attr := .val 16 },
                                             { name := [99], emptystream := false, blocks := [[9]], mtime := .val 7, attr := .val 32 }])).bind
      (fun img => match Spec.readArchiveTail img with
        | .ok a => (match a.top with
          | .raw H => (Spec.members H).toOption.map (fun l => l.map (fun m => (m.file.name, m.stream)))
          | _ => none)
        | .error _ => none) ==
    some [(some [97], some (0, 0, 3, some 1438416925)), (some [98], none), (some [99], some (1, 0, 1, some 2883475241))] := by
  decide +kernel

/-- appending a folder never moves an earlier member: the cursor's assignment for the old
    members of a base archive is a prefix of the assignment after one more folder with one
    more member has been added (concrete three-session shape incl. a stream-less session) -/
theorem append_keeps_assignment_example :
    (Impl.assign [false, true, false] [2] [10, 20] [some 1, some 2]).map (·.take 3) =
      (Impl.assign [false, true, false, true, false] [2, 0, 1] [10, 20, 7] [some 1, some 2, some 3]).map (·.take 3) := by
  decide

end SevenZ.C08
