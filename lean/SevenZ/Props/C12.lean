/-
C12 — Read sessions are repeatable (session-logic part).
-/
import SevenZ.Model.Reader
namespace SevenZ.C12
open SevenZ SevenZ.Impl

theorem session_inv (a : RArchive) : ∀ (seq : List Call) (cache : Cache) (dirty : Bool),
    (dirty = false → cache = freshCache a) → disciplined dirty seq = true →
    runSession true a cache seq = seq.map (freshResult a) := by
  intro seq
  induction seq with
  | nil => intro _ _ _ _; rfl
  | cons c rest ih =>
    intro cache dirty hinv hd
    cases c with
    | getnames =>
      simp only [runSession, step, List.map_cons, freshResult]
      rw [ih cache dirty hinv (by simpa [disciplined] using hd)]
    | list =>
      simp only [runSession, step, List.map_cons, freshResult]
      rw [ih cache dirty hinv (by simpa [disciplined] using hd)]
    | getinfo =>
      simp only [runSession, step, List.map_cons, freshResult]
      rw [ih cache dirty hinv (by simpa [disciplined] using hd)]
    | archiveinfo =>
      simp only [runSession, step, List.map_cons, freshResult]
      rw [ih cache dirty hinv (by simpa [disciplined] using hd)]
    | needsPassword =>
      simp only [runSession, step, List.map_cons, freshResult]
      rw [ih cache dirty hinv (by simpa [disciplined] using hd)]
    | reset =>
      simp only [runSession, step, List.map_cons, freshResult]
      rw [ih (freshCache a) false (fun _ => rfl) (by simpa [disciplined] using hd)]
    | test =>
      simp only [runSession, step, List.map_cons, freshResult, if_true]
      rw [ih (freshCache a) dirty (fun _ => rfl) (by simpa [disciplined] using hd)]
    | testzip =>
      simp only [runSession, List.map_cons, freshResult]
      have hd' : disciplined true rest = true := by simpa [disciplined] using hd
      have hs : step true a cache Call.testzip = step true a (freshCache a) Call.testzip := by
        simp [step]
      rw [hs, ih _ true (fun h => by cases h) hd']
    | extractall =>
      have hdd : dirty = false ∧ disciplined true rest = true := by
        simpa [disciplined] using hd
      have hc := hinv hdd.1
      subst hc
      simp only [runSession, List.map_cons, freshResult]
      rw [ih _ true (fun h => by cases h) hdd.2]
    | extract ts =>
      have hdd : dirty = false ∧ disciplined true rest = true := by
        simpa [disciplined] using hd
      have hc := hinv hdd.1
      subst hc
      simp only [runSession, List.map_cons, freshResult]
      rw [ih _ true (fun h => by cases h) hdd.2]

/-- For every archive and every call sequence of any length in which each extract/extractall
    that follows a decoding call is preceded by `reset()` (test/testzip anywhere), every
    call gives the result the same call gives on a freshly opened archive. -/
theorem session_repeatable (a : RArchive) (seq : List Call) (hd : disciplined false seq = true) :
    runSession true a (freshCache a) seq = seq.map (freshResult a) :=
  session_inv a seq (freshCache a) false (fun _ => rfl) hd

/-- `reset()` maps every reachable state to the initial one -/
theorem reset_restores (a : RArchive) (cache : Cache) :
    (step true a cache .reset).1 = freshCache a := rfl

/-- the integrity verdicts do not depend on what was decoded before, reset or not -/
theorem verdicts_state_independent (a : RArchive) (cache : Cache) :
    (step true a cache .test).2 = freshResult a .test ∧
    (step true a cache .testzip).2 = freshResult a .testzip := by
  simp [step, freshResult]

def twoMembers : RArchive := { folders := [[⟨0, 11⟩, ⟨1, 5⟩]] }

/-- The pinned tree's testzip()/test() kept the cached decoders: `[testzip, testzip]` and
    `[extractall, testzip]` run the second decode from an exhausted decoder (the real code
    never returned; finding F3, repaired by "fix: test() and testzip() start from fresh
    decoders…"). -/
theorem testzip_stale_cache_ce :
    runSession false twoMembers (freshCache twoMembers) [.testzip, .testzip] = [.verdictOk, .stall] ∧
    runSession false twoMembers (freshCache twoMembers) [.extractall, .testzip] ≠
      [.extractall, .testzip].map (freshResult twoMembers) ∧
    runSession true twoMembers (freshCache twoMembers) [.extractall, .testzip, .testzip, .reset, .extract [1]] =
      [.extractall, .testzip, .testzip, .reset, .extract [1]].map (freshResult twoMembers) := by
  decide

example : disciplined false [.extractall, .testzip, .test, .reset, .extract [1], .getnames, .testzip] = true := by decide
example : freshResult twoMembers (.extract [1]) = .delivered [⟨1, 0, 11, 5⟩] := by decide

end SevenZ.C12
