/-
C09 — Selective extraction equals the restriction of full extraction.
-/
import SevenZ.Lemmas.Reader
import SevenZ.Model.Select
namespace SevenZ.C09
open SevenZ SevenZ.Impl

/-- skip arithmetic, for every archive (any folder structure) and EVERY subset of members:
    what `extract(T)` delivers on a freshly opened archive is exactly the selected part of
    what `extractall` delivers — same folder, same offset, same length for each member —
    wherever the targets lie inside solid blocks and whichever folders they span -/
theorem restriction (sel : Nat → Bool) (a : RArchive) :
    ∃ ss ss' c c',
      extractFolders sel false 0 a.folders (freshCache a) = some (ss, c) ∧
      extractFolders (fun _ => true) false 0 a.folders (freshCache a) = some (ss', c') ∧
      ss = ss'.filter (fun s => sel s.id) :=
  extract_restriction sel a.folders 0

/-- a trailing slash on a target is immaterial -/
theorem trailing_slash_immaterial (recursive : Bool) (ts : List Str) (name : Str)
    (h : ∀ t ∈ ts, t.getLast? ≠ some '/') :
    selected recursive (ts.map (· ++ ['/'])) name = selected recursive ts name := by
  have e : (ts.map (· ++ ['/'])).map removeTrailingSlash = ts.map removeTrailingSlash := by
    rw [List.map_map]
    apply List.map_congr_left
    intro t ht
    have h1 : removeTrailingSlash (t ++ ['/']) = t := by simp [removeTrailingSlash]
    have h2 : removeTrailingSlash t = t := by simp [removeTrailingSlash, h t ht]
    simp [h1, h2]
  unfold selected
  simp only [e]

/-- names in T that no member equals (and, when recursive, that are not a string prefix of
    a member) do not change what is selected -/
theorem absent_ignored (recursive : Bool) (ts : List Str) (absent name : Str)
    (hne : removeTrailingSlash absent ≠ name)
    (hpre : (removeTrailingSlash absent).isPrefixOf name = false) :
    selected recursive (absent :: ts) name = selected recursive ts name := by
  unfold selected
  cases recursive <;> simp [hne, hpre, List.contains_cons, beq_iff_eq, Ne.symm hne]

/-- recursive selection under the quantifier's prefix-freedom: a target selects itself and
    exactly the members beneath it -/
theorem recursive_selects_subtree (t name : Str) (ht : t.getLast? ≠ some '/')
    (hfree : t.isPrefixOf name = true → t = name ∨ (t ++ ['/']).isPrefixOf name = true) :
    selected true [t] name = (decide (name = t) || (t ++ ['/']).isPrefixOf name) := by
  have h2 : removeTrailingSlash t = t := by simp [removeTrailingSlash, ht]
  unfold selected
  simp only [List.map_cons, List.map_nil, h2, List.contains_cons, List.contains_nil, Bool.or_false,
    List.any_cons, List.any_nil, if_true]
  by_cases he : name = t
  · subst he; simp
  · have hne : (name == t) = false := by simpa using he
    simp only [hne, Bool.false_or, he, decide_false]
    cases hp : t.isPrefixOf name with
    | false =>
      cases hq : (t ++ ['/']).isPrefixOf name with
      | false => rfl
      | true =>
        have : t.isPrefixOf name = true := by
          rw [List.isPrefixOf_iff_prefix] at hq ⊢
          exact List.IsPrefix.trans (List.prefix_append t ['/']) hq
        rw [this] at hp; cases hp
    | true =>
      rcases hfree hp with h | h
      · exact absurd h.symm he
      · simp [h]

/-- selection distributes over the union of target collections: `extract(T ∪ T')` selects
    exactly what `extract(T)` or `extract(T')` selects, nothing more -/
theorem selected_union (recursive : Bool) (ts ts' : List Str) (name : Str) :
    selected recursive (ts ++ ts') name = (selected recursive ts name || selected recursive ts' name) := by
  unfold selected
  cases recursive <;> simp [List.map_append, List.any_append, Bool.or_assoc, Bool.or_left_comm]

/-- no target, nothing selected -/
theorem selected_nil (recursive : Bool) (name : Str) : selected recursive [] name = false := by
  unfold selected; cases recursive <;> simp

/-- non-recursive selection is exact-name selection: a member is delivered iff some target,
    its trailing slash removed, equals the member's name -/
theorem nonrecursive_exact (ts : List Str) (name : Str) :
    selected false ts name = true ↔ ∃ t ∈ ts, removeTrailingSlash t = name := by
  unfold selected
  simp only [Bool.false_eq_true, if_false, List.contains_iff_mem, List.mem_map]

/-- recursive selection: a member is delivered iff some normalised target equals it or is a
    string prefix of it (the quantifier's prefix-freedom turns "string prefix" into
    "beneath the directory", `recursive_selects_subtree`) -/
theorem recursive_iff (ts : List Str) (name : Str) :
    selected true ts name = true ↔
      ∃ t ∈ ts, removeTrailingSlash t = name ∨ (removeTrailingSlash t).isPrefixOf name = true := by
  unfold selected
  simp only [if_true, Bool.or_eq_true, List.contains_iff_mem, List.mem_map, List.any_eq_true]
  constructor
  · rintro (⟨t, ht, e⟩ | ⟨u, ⟨t, ht, e⟩, hp⟩)
    · exact ⟨t, ht, Or.inl e⟩
    · subst e; exact ⟨t, ht, Or.inr hp⟩
  · rintro ⟨t, ht, e | hp⟩
    · exact Or.inl ⟨t, ht, e⟩
    · exact Or.inr ⟨_, ⟨t, ht, rfl⟩, hp⟩

/-- targets "given as list or set": only which names are in the collection matters — order
    and repetition are immaterial -/
theorem selected_set_like (recursive : Bool) (ts ts' : List Str) (name : Str)
    (h : ∀ t, t ∈ ts ↔ t ∈ ts') :
    selected recursive ts name = selected recursive ts' name := by
  cases recursive with
  | false =>
    rw [Bool.eq_iff_iff, nonrecursive_exact, nonrecursive_exact]
    constructor <;> rintro ⟨t, ht, e⟩
    · exact ⟨t, (h t).mp ht, e⟩
    · exact ⟨t, (h t).mpr ht, e⟩
  | true =>
    rw [Bool.eq_iff_iff, recursive_iff, recursive_iff]
    constructor <;> rintro ⟨t, ht, e⟩
    · exact ⟨t, (h t).mp ht, e⟩
    · exact ⟨t, (h t).mpr ht, e⟩

example : selected true ["dir/".toList, "nope".toList] "dir/sub/file".toList = true ∧
    selected false ["dir/".toList] "dir/sub/file".toList = false ∧
    selected false ["dir/".toList] "dir".toList = true := by decide

end SevenZ.C09
