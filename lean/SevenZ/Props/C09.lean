/-
C09 — Selective extraction equals the restriction of full extraction.
-/
import SevenZ.Lemmas.Reader
import SevenZ.Model.Select
namespace SevenZ.C09
open SevenZ SevenZ.Impl

/-- skip arithmetic, for every archive (any folder structure) and EVERY subset of members:
    what `extract(T)` delivers on a freshly opened archive is exactly the selected part of
    what `extractall` delivers — same folder, same offset, same length for each member —
    wherever the targets lie inside solid blocks and whichever folders they span -/
theorem restriction (sel : Nat → Bool) (a : RArchive) :
    ∃ ss ss' c c',
      extractFolders sel false 0 a.folders (freshCache a) = some (ss, c) ∧
      extractFolders (fun _ => true) false 0 a.folders (freshCache a) = some (ss', c') ∧
      ss = ss'.filter (fun s => sel s.id) :=
  extract_restriction sel a.folders 0

/-- a trailing slash on a target is immaterial -/
theorem trailing_slash_immaterial (recursive : Bool) (ts : List Str) (name : Str)
    (h : ∀ t ∈ ts, t.getLast? ≠ some '/') :
    selected recursive (ts.map (· ++ ['/'])) name = selected recursive ts name := by
  have e : (ts.map (· ++ ['/'])).map removeTrailingSlash = ts.map removeTrailingSlash := by
    rw [List.map_map]
    apply List.map_congr_left
    intro t ht
    have h1 : removeTrailingSlash (t ++ ['/']) = t := by simp [removeTrailingSlash]
    have h2 : removeTrailingSlash t = t := by simp [removeTrailingSlash, h t ht]
    simp [h1, h2]
  unfold selected
  simp only [e]

/-- names in T that no member equals (and, when recursive, that are not a string prefix of
    a member) do not change what is selected -/
theorem absent_ignored (recursive : Bool) (ts : List Str) (absent name : Str)
    (hne : removeTrailingSlash absent ≠ name)
    (hpre : (removeTrailingSlash absent).isPrefixOf name = false) :
    selected recursive (absent :: ts) name = selected recursive ts name := by
  unfold selected
  cases recursive <;> simp [hne, hpre, List.contains_cons, beq_iff_eq, Ne.symm hne]

/-- recursive selection under the quantifier's prefix-freedom: a target selects itself and
    exactly the members beneath it -/
theorem recursive_selects_subtree (t name : Str) (ht : t.getLast? ≠ some '/')
    (hfree : t.isPrefixOf name = true → t = name ∨ (t ++ ['/']).isPrefixOf name = true) :
    selected true [t] name = (decide (name = t) || (t ++ ['/']).isPrefixOf name) := by
  have h2 : removeTrailingSlash t = t := by simp [removeTrailingSlash, ht]
  unfold selected
  simp only [List.map_cons, List.map_nil, h2, List.contains_cons, List.contains_nil, Bool.or_false,
    List.any_cons, List.any_nil, if_true]
  by_cases he : name = t
  · subst he; simp
  · have hne : (name == t) = false := by simpa using he
    simp only [hne, Bool.false_or, he, decide_false]
    cases hp : t.isPrefixOf name with
    | false =>
      cases hq : (t ++ ['/']).isPrefixOf name with
      | false => rfl
      | true =>
        have : t.isPrefixOf name = true := by
          rw [List.isPrefixOf_iff_prefix] at hq ⊢
          exact List.IsPrefix.trans (List.prefix_append t ['/']) hq
        rw [this] at hp; cases hp
    | true =>
      rcases hfree hp with h | h
      · exact absurd h.symm he
      · simp [h]

example : selected true ["dir/".toList, "nope".toList] "dir/sub/file".toList = true ∧
    selected false ["dir/".toList] "dir/sub/file".toList = false ∧
    selected false ["dir/".toList] "dir".toList = true := by decide

end SevenZ.C09
