/-
C01 — Content round trip (container bookkeeping between the caller's bytes and the codecs).
The codecs are parameters; these theorems cover what py7zr itself does to the bytes.
-/
import SevenZ.Lemmas.Aes
import SevenZ.Lemmas.Decode
import SevenZ.Lemmas.Utf16
import SevenZ.Lemmas.Session
import SevenZ.Lemmas.ImplHeader
import SevenZ.Props.C06
namespace SevenZ.C01
open SevenZ SevenZ.Impl

/-- writer side of 7zAES, every chunking: the cipher is fed the stream once, in order, in
    whole 16-byte blocks, zero-padded at the end, and the residue buffer ends empty -/
theorem aes_feed_eq_pad16 (xs : List Bytes) :
    let st := aesFlush (aesRun {} xs)
    st.fed.flatten = xs.flatten ++ List.replicate ((16 - xs.flatten.length % 16) % 16) 0 ∧
    (∀ c ∈ st.fed, c.length % 16 = 0) ∧ st.buf = [] :=
  SevenZ.aes_feed_eq_pad16 xs

/-- reader side of 7zAES: every chunking of the ciphertext into pieces of at least one block -/
theorem aes_decrypt_feed (xs : List Bytes) (hx : ∀ c ∈ xs, c.length ≥ 16) (htot : xs.flatten.length % 16 = 0) :
    let st := aesDecRun {} xs
    st.fed.flatten = xs.flatten ∧ (∀ c ∈ st.fed, c.length % 16 = 0) ∧ st.buf = [] :=
  SevenZ.aes_decrypt_feed xs hx htot

/-- chunked decoding loses nothing and duplicates nothing, for every decoder and every
    sequence of chunk limits -/
theorem decompress_concat {σ} (ch : Chain σ) (cfg : DecCfg) (ms : List Nat) (st : DecState σ) :
    (runCalls ch cfg st ms).1.flatten ++ (runCalls ch cfg st ms).2.2.live =
      st.live ++ (runCalls ch cfg st ms).2.1.flatten :=
  SevenZ.decompress_concat ch cfg ms st

/-- cutting a folder's output by the stored sub-stream sizes gives back the members -/
def splitBy : List Nat → Bytes → List Bytes
  | [], _ => []
  | n :: ns, bs => bs.take n :: splitBy ns (bs.drop n)

theorem split_substreams (members : List Bytes) :
    splitBy (members.map List.length) members.flatten = members := by
  induction members with
  | nil => rfl
  | cons m ms ih => simp [splitBy, List.take_left', List.drop_left', ih]

/-- member names of the quantifier survive the UTF-16 name table -/
theorem names_roundtrip (cs : List Nat) (hs : ∀ c ∈ cs, IsScalar c)
    (hlen : (cs.flatMap unitsOf).length < maxLength) (tail : Bytes) :
    readUtf16 (writeUtf16 cs ++ tail) = some (cs, tail) :=
  SevenZ.utf16_roundtrip cs hs hlen tail


/-- **Container round trip of a create session.**  For every list of write calls, every codec
    chain and every block size, an independent reader of the archive the session leaves
    (`C07.session_archive_conforms`: it finds exactly `expectedMembers ms`) lists exactly the
    written names in call order, and the (folder offset, size) it assigns to each data member
    cuts the folder's decoded output — which is the concatenation of the members' bytes whenever
    the codec chain inverts, the one hypothesis about the codecs — back into exactly the bytes
    written for that member.  No bound on the number of members, their sizes or the blocks. -/
theorem container_roundtrip (ms : List WMember) :
    (expectedMembers ms).map (·.file.name) = ms.map (fun m => some m.name) ∧
    (expectedMembers ms).filterMap (sliceOf (((dataMembers ms).map (fun m => m.blocks.flatten)).flatten)) =
      (dataMembers ms).map (fun m => m.blocks.flatten) :=
  expectedMembers_roundtrip ms

/-- the sizes and checksums stored for the members are those of the bytes (any chain, any blocks) -/
theorem stored_sizes_crcs {σ} (chain : List (StageSt σ)) (hne : chain ≠ []) (hfed : headFed chain = 0)
    (members : List (List Bytes)) :
    (compressAll ({ chain := chain } : Cmp σ) members).2 = members.map (fun m => (m.flatten.length, crc32 m.flatten)) :=
  (SevenZ.compressor_accounting chain hne hfed members).1


/-- **py7zr reads back what py7zr wrote** (create session, raw header).  For every list of write
    calls, every codec chain and coder list (within the reader's own limits: non-empty coder ids,
    names of at most 65535 UTF-16 units, tables below 2^63 bytes): the model of `Header._read`
    applied to the header the session wrote returns member records with exactly the written
    names in call order (a backslash in a name comes back as a slash: the reader's documented
    rewrite), flags, times and attribute words, one folder with one sub-stream per data
    member, and as digests the CRC-32 of each member's bytes. -/
theorem py7zr_reads_back_session {σ} (cfg : WConfig σ) (ms : List WMember) (H0 : Header) (hdr : Bytes) (pos : Nat)
    (wfc : WFConfig cfg) (wfm : WFMembers ms) (rs : ReadableSession cfg ms)
    (hout : (sessionCompress cfg ms).1.out.length < 2 ^ 64)
    (hus : ∀ us, unpacksizesOf cfg.methodsMap ((sessionCompress cfg ms).1.chain.map (·.fed)) = some us → ∀ v ∈ us, v < 2 ^ 64)
    (hH : sessionHeader cfg ms = some H0) (hW : writeHeaderRaw true H0 pos = some hdr) :
    ∃ H', readNextHeader hdr = .ok (.raw H') ∧
      H'.filesInfo = some { files := sessionReadBackFiles ms, emptyfiles := [] } ∧
      (∃ st sub, H'.mainStreams = some st ∧ st.substreams = some sub ∧
        sub.numUnpack = [(dataMembers ms).length] ∧
        (sub.digestsdefined.zip sub.digests).map (fun (d, c) => if d then some c else none) =
          (dataMembers ms).map (fun m => some (crc32 m.blocks.flatten))) :=
  impl_reads_session cfg ms H0 hdr pos wfc wfm rs hout hus hH hW

/-- ... and the cursor of `_real_get_contents`, run on those counts, sizes and digests, gives every
    member the folder, offset, size and digest of `expectedMembers ms` — whose slices are the
    members' bytes (`container_roundtrip`) -/
theorem py7zr_cursor_on_session (ms : List WMember) :
    Impl.assign (ms.map (·.emptystream)) [(dataMembers ms).length]
      ((dataMembers ms).map (fun m => m.blocks.flatten.length))
      ((dataMembers ms).map (fun m => some (crc32 m.blocks.flatten))) = some ((expectedMembers ms).map (·.stream)) := by
  have h := C06.assign_refines_spec (ms.map memberFile) [(dataMembers ms).length] _ _ _ (spec_assign_session ms)
  simpa [memberFile, Function.comp_def] using h

example : (expectedMembers [{ name := [97], emptystream := false, blocks := [[1, 2], [3]] }, { name := [98], emptystream := true },
    { name := [99], emptystream := false, blocks := [[9]] }]).map (·.stream) =
    [some (0, 0, 3, some 1438416925), none, some (0, 3, 1, some 2883475241)] := by decide +kernel

example : (aesFlush (aesRun {} [[1, 2, 3], List.replicate 20 7, [9]])).fed.map List.length = [16, 16] := by decide
example : ∀ c ∈ [List.replicate 17 (1 : Nat), List.replicate 31 2], c.length ≥ 16 := by decide

end SevenZ.C01
