/-
C02 — Directory tree round trip with metadata (attribute word and timestamp arithmetic).
-/
import SevenZ.Model.Attr
import Mathlib.Tactic.Linarith
import Mathlib.Tactic.NormNum
namespace SevenZ.C02
open SevenZ SevenZ.Impl

theorem attr_roundtrip_split : ∀ hi, hi < 16 → ∀ lo, lo < 256 →
    decodeAttr (encodeAttr .file (hi * 256 + lo)) = (.file, some (hi * 256 + lo)) ∧
    decodeAttr (encodeAttr .dir (hi * 256 + lo)) = (.dir, some (hi * 256 + lo)) ∧
    decodeAttr (encodeAttr .symlink (hi * 256 + lo)) = (.symlink, some (hi * 256 + lo)) := by
  decide +kernel

/-- kind and permission bits survive the attribute word: every kind, every mode 0..0o7777 -/
theorem attr_roundtrip (mode : Nat) (h : mode < 4096) :
    decodeAttr (encodeAttr .file mode) = (.file, some mode) ∧
    decodeAttr (encodeAttr .dir mode) = (.dir, some mode) ∧
    decodeAttr (encodeAttr .symlink mode) = (.symlink, some mode) := by
  have := attr_roundtrip_split (mode / 256) (by omega) (mode % 256) (by omega)
  have e : mode / 256 * 256 + mode % 256 = mode := by omega
  rwa [e] at this

theorem attr_fits_split : ∀ hi, hi < 16 → ∀ lo, lo < 256 →
    encodeAttr .file (hi * 256 + lo) < 2 ^ 32 ∧ encodeAttr .dir (hi * 256 + lo) < 2 ^ 32 ∧
    encodeAttr .symlink (hi * 256 + lo) < 2 ^ 32 := by
  decide +kernel

/-- the attribute word written for any kind and any mode 0..0o7777 fits the format's UINT32
    attribute field — the hypothesis under which `C17.attrs_vector_roundtrip` stores it
    exactly, so kind and mode survive the header as well as the word -/
theorem attr_fits_u32 (k : Kind) (mode : Nat) (h : mode < 4096) : encodeAttr k mode < 2 ^ 32 := by
  have := attr_fits_split (mode / 256) (by omega) (mode % 256) (by omega)
  have e : mode / 256 * 256 + mode % 256 = mode := by omega
  rw [e] at this
  cases k
  · exact this.1
  · exact this.2.1
  · exact this.2.2

/-- different kinds or different permission bits never share an attribute word -/
theorem attr_injective (k k' : Kind) (m m' : Nat) (h : m < 4096) (h' : m' < 4096)
    (e : encodeAttr k m = encodeAttr k' m') : k = k' ∧ m = m' := by
  have r := attr_roundtrip m h
  have r' := attr_roundtrip m' h'
  have d := congrArg decodeAttr e
  cases k <;> cases k' <;>
    simp only [r.1, r.2.1, r.2.2, r'.1, r'.2.1, r'.2.2, Prod.mk.injEq, Option.some.injEq, reduceCtorEq,
      false_and, true_and] at d <;> first | exact ⟨rfl, d⟩ | exact absurd d id

/-- Timestamp envelope.  `from_datetime` computes `int((t + A) · 10^7)` and `totimestamp`
    `n / 10^7 − A` in binary64 (A = 11644473600; the bound holds for any A).  For 0 ≤ t ≤ 4102444800 (year 2100) the
    operands stay below 2^34 resp. 2^58, so round-to-nearest errs by at most 2^-20 s on the
    sum and on the quotient, 16 ticks on the product and 2^-22 s on the final difference; the
    truncation loses less than one tick.  Under exactly these rounding bounds (the standard
    model of IEEE-754 arithmetic; validated on sampled timestamps by the check) the round trip
    is within 5 microseconds. -/
theorem filetime_roundtrip_envelope (t a b n c r A : ℚ)
    (ha : |a - (t + A)| ≤ 1 / 2 ^ 20)                 -- fl(t + A)
    (hb : |b - a * 10000000| ≤ 16)                    -- fl(a · 1e7)
    (hn : n ≤ b ∧ b < n + 1)                          -- int(b)
    (hc : |c - n / 10000000| ≤ 1 / 2 ^ 20)            -- fl(n / 1e7)
    (hr : |r - (c - A)| ≤ 1 / 2 ^ 22) :               -- fl(c − A)
    |r - t| ≤ 5 / 1000000 := by
  rw [abs_le] at *
  obtain ⟨ha1, ha2⟩ := ha
  obtain ⟨hb1, hb2⟩ := hb
  obtain ⟨hn1, hn2⟩ := hn
  obtain ⟨hc1, hc2⟩ := hc
  obtain ⟨hr1, hr2⟩ := hr
  have e20 : (1:ℚ) / 2 ^ 20 ≤ 96 / 100000000 := by norm_num
  have e22 : (1:ℚ) / 2 ^ 22 ≤ 24 / 100000000 := by norm_num
  constructor <;> linarith

example : encodeAttr .symlink 0o777 = 0xA1FF8420 := by decide
example : (|(1000:ℚ) + 11644473600 - (1000 + 11644473600)| ≤ 1 / 2 ^ 20) := by norm_num

end SevenZ.C02
