/-
C17 — Header values survive storage across their whole legal range.
Property theorems only; helper lemmas live in SevenZ/Lemmas.
-/
import SevenZ.Lemmas.Number
import SevenZ.Lemmas.BoolVec
import SevenZ.Lemmas.Utf16
import SevenZ.Lemmas.FilesInfo
namespace SevenZ.C17
open SevenZ SevenZ.Impl

/-- every value of 0..2^64-1 written by `write_uint64` is read back by `read_uint64`,
    leaving exactly the bytes that followed it -/
theorem number_roundtrip (v : Nat) (hv : v < 2 ^ 64) (tail : Bytes) :
    readNumber (writeNumber v ++ tail) = some (v, tail) :=
  SevenZ.number_roundtrip v hv tail

/-- … in at most nine bytes -/
theorem number_len (v : Nat) (hv : v < 2 ^ 64) : (writeNumber v).length ≤ 9 :=
  SevenZ.number_len v hv

/-- py7zr reads every specification-conforming encoding (minimal or not) exactly as the
    decoder written from the specification does -/
theorem number_reads_spec (b : Nat) (rest : Bytes) (hb : b < 256)
    (hlen : Spec.leadingOnes b ≤ rest.length) :
    readNumber (b :: rest) = Spec.decodeNumber (b :: rest) :=
  SevenZ.number_reads_spec b rest hb hlen

/-- the decoder written from the specification reads back what `write_uint64` wrote -/
theorem number_write_spec (v : Nat) (hv : v < 2 ^ 64) (tail : Bytes) :
    Spec.decodeNumber (writeNumber v ++ tail) = some (v, tail) :=
  SevenZ.number_spec_roundtrip v hv tail

/-- fixed-width little-endian fields (UINT32 CRCs/attributes, UINT64 FILETIMEs) -/
theorem fixed_roundtrip (v k : Nat) (hv : v < 256 ^ k) (tail : Bytes) :
    ofLE ((leBytes v k ++ tail).take k) = v ∧ (leBytes v k ++ tail).drop k = tail := by
  have hlen := leBytes_length v k
  rw [List.take_left' hlen, List.drop_left' hlen, ofLE_leBytes, Nat.mod_eq_of_lt hv]
  exact ⟨rfl, rfl⟩

theorem crcBytes_length (crcs : List Nat) : (crcBytes crcs).length = 4 * crcs.length := by
  induction crcs with
  | nil => rfl
  | cons c cs ih =>
    simp only [crcBytes, List.flatMap_cons, List.length_append, List.length_cons] at ih ⊢
    rw [leBytes_length, ih]; omega

theorem crcs_go (crcs : List Nat) (hv : ∀ c ∈ crcs, c < 2 ^ 32) :
    pCrcs.go crcs.length (crcBytes crcs) = crcs := by
  induction crcs with
  | nil => rfl
  | cons c cs ih =>
    have hc : c < 256 ^ 4 := by have := hv c (by simp); omega
    have e : crcBytes (c :: cs) = leBytes c 4 ++ crcBytes cs := by simp [crcBytes]
    rw [e, List.length_cons, pCrcs.go]
    obtain ⟨h1, h2⟩ := fixed_roundtrip c 4 hc (crcBytes cs)
    rw [h1, h2, ih (fun d hd => hv d (by simp [hd]))]

/-- CRC lists of any length: `read_crcs(count)` given what `write_crcs` emitted returns exactly
    the written 32-bit values and leaves the cursor right behind them -/
theorem crcs_roundtrip (crcs : List Nat) (hv : ∀ c ∈ crcs, c < 2 ^ 32) (tail : Bytes) :
    pCrcs crcs.length (crcBytes crcs ++ tail) = .ok (crcs, tail) := by
  have hl := crcBytes_length crcs
  unfold pCrcs
  simp only [List.take_left' hl, List.drop_left' hl, hl, Nat.lt_irrefl, if_false]
  rw [crcs_go crcs hv]

/-- … and a list cut short is refused, never read as fewer or other CRCs -/
theorem crcs_short_refused (count : Nat) (bs : Bytes) (h : bs.length < 4 * count) :
    pCrcs count bs = .error .malformed := by
  unfold pCrcs
  have : (bs.take (4 * count)).length < 4 * count := by rw [List.length_take]; omega
  simp only [this, if_true]

/- non-vacuity: extreme values meet the hypothesis, and the bytes are the expected ones -/
example : crcBytes [0xFFFFFFFF, 0x01020304] = [255, 255, 255, 255, 4, 3, 2, 1] ∧
    (∀ c ∈ [0xFFFFFFFF, 0x01020304], c < 2 ^ 32) := by decide
example : pCrcs 2 (crcBytes [0xFFFFFFFF, 0x01020304] ++ [9]) = .ok ([0xFFFFFFFF, 0x01020304], [9]) :=
  crcs_roundtrip [0xFFFFFFFF, 0x01020304] (by decide) [9]

/-- boolean vectors of every length, with and without the all-defined shortcut -/
theorem bools_roundtrip (bs : List Bool) (allDefined : Bool) (tail : Bytes) :
    readBools bs.length allDefined (writeBools bs allDefined ++ tail) = some (bs, tail) :=
  SevenZ.bools_roundtrip bs allDefined tail

/-- a packed vector occupies ⌈n/8⌉ bytes -/
theorem bools_length (bs : List Bool) : (writeBools bs false).length = bitsToBytes bs.length :=
  SevenZ.writeBools_length bs

/-- names: any scalar values except NUL, up to 65535 UTF-16 units -/
theorem utf16_roundtrip (cs : List Nat) (hs : ∀ c ∈ cs, IsScalar c)
    (hlen : (cs.flatMap unitsOf).length < maxLength) (tail : Bytes) :
    readUtf16 (writeUtf16 cs ++ tail) = some (cs, tail) :=
  SevenZ.utf16_roundtrip cs hs hlen tail


/-- one file entry per slot, the reader's view: every key set, to a value or to None -/
def withMtimes (files : List FileEntry) (slots : List (Slot Nat)) : List FileEntry :=
  (files.zip slots).map (fun (f, s) => setTime .m f (normSlot s))

/-- timestamps over the whole unsigned 64-bit range, undefined entries staying undefined:
    the property loop of `FilesInfo._read`, given the block `_write_times` emits, continues
    with exactly the written values (any number of files < 2^32, any definedness pattern) -/
theorem times_vector_roundtrip (fuel n ne : Nat) (fi : FilesInfo) (slots : List (Slot Nat))
    (hlen : slots.length = fi.files.length) (hn : slots.length < 2 ^ 32)
    (hv : ∀ s ∈ slots, ∀ t, s = .val t → t < 2 ^ 64) (rest : Bytes) :
    readFileProps (fuel + 1) n fi ne (timesBlock true 0x14 slots ++ rest) =
      readFileProps fuel n { fi with files := withMtimes fi.files slots } ne rest :=
  times_step fuel n ne fi slots hlen hn hv rest

/-- attribute words, undefined entries staying undefined -/
theorem attrs_vector_roundtrip (fuel n ne : Nat) (fi : FilesInfo) (slots : List (Slot Nat))
    (hlen : slots.length = fi.files.length) (hnf : n = fi.files.length) (hn : slots.length < 2 ^ 32)
    (hv : ∀ s ∈ slots, ∀ t, s = .val t → t < 2 ^ 32) (rest : Bytes) :
    readFileProps (fuel + 1) n fi ne (attrsBlock true slots ++ rest) =
      readFileProps fuel n
        { fi with files := (fi.files.zip slots).map (fun (f, s) => { f with attributes := normSlot s }) } ne rest :=
  attrs_step fuel n ne fi slots hlen hnf hn hv rest

def isOk {ε α} : Except ε α → Bool
  | .ok _ => true
  | .error _ => false

/-- nine files, one defined timestamp -/
def nineOneDefined : List (Slot Nat) :=
  [.undef, .undef, .undef, .val 123456789, .undef, .undef, .undef, .undef, .undef]

/-- The size computation of the tree as pinned (`bits_to_bytes(num_defined)`, finding F1,
    repaired by commit "fix: size of partially defined time/attribute vectors …") made the
    statement false: the block written for nine files with one defined timestamp was not
    parsed back.  Kept as the record of the repaired defect; the correspondence stream runs
    the model with the repaired computation. -/
theorem partial_vector_unrepaired_ce :
    isOk (readFileProps 3 9 { files := List.replicate 9 {} } 0
      (timesBlock false 0x14 nineOneDefined ++ [0x00])) = false ∧
    isOk (readFileProps 3 9 { files := List.replicate 9 {} } 0
      (timesBlock true 0x14 nineOneDefined ++ [0x00])) = true := by
  decide +kernel

/- non-vacuity: the hypotheses are met by concrete non-trivial values -/
example : (14921046061426453453 : Nat) < 2 ^ 64 ∧
    writeNumber 14921046061426453453 = [0xFF, 0xCD, 0xAB, 0x90, 0x78, 0x56, 0x34, 0x12, 0xCF] := by decide
example : writeNumber 0x1234 = [0x92, 0x34] ∧ readNumber [0x92, 0x34, 7] = some (0x1234, [7]) := by decide
example : IsScalar 0x1F600 ∧ IsScalar 1 ∧ (([0x1F600, 1].flatMap unitsOf).length < maxLength) := by decide
example : writeBools [true, false, true, true, false, true, false, false, true] true = [0, 0xB4, 0x80] := by decide

example : nineOneDefined.length = (List.replicate 9 ({} : FileEntry)).length ∧ nineOneDefined.length < 2 ^ 32 := by decide

end SevenZ.C17
