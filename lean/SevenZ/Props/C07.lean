/-
C07 — Writer conformance (property sizes and section shapes of what py7zr's writer emits).
-/
import SevenZ.Lemmas.FilesInfo
import SevenZ.Lemmas.SpecProps
import SevenZ.Lemmas.SpecFiles
import SevenZ.Lemmas.SpecPack
import SevenZ.Lemmas.SpecHeader
import SevenZ.Lemmas.Session
import SevenZ.Lemmas.SpecEncoded
namespace SevenZ.C07
open SevenZ SevenZ.Impl

/-- "file properties are encoded with the sizes the grammar requires": the body of the
    time property is exactly as long as its Size field says, for every definedness pattern -/
theorem times_size_exact (slots : List (Slot Nat)) :
    (writeBools (slots.map Slot.isVal) true ++ [0x00] ++ payload 8 slots).length =
      ((slots.map Slot.isVal).filter id).length * 8 + 2 +
        (if (slots.map Slot.isVal).all id then 0 else bitsToBytes (slots.map Slot.isVal).length) :=
  timesBody_length slots

/-- the same for the attribute property -/
theorem attrs_size_exact (slots : List (Slot Nat)) :
    (writeBools (slots.map Slot.isVal) true ++ [0x00] ++ payload 4 slots).length =
      ((slots.map Slot.isVal).filter id).length * 4 + 2 +
        (if ((slots.map Slot.isVal).filter id).length ≠ (slots.map Slot.isVal).length
         then bitsToBytes (slots.map Slot.isVal).length else 0) :=
  attrsBody_length slots

/-- bit vectors have ⌈n/8⌉ bytes -/
theorem bitvector_bytes (bs : List Bool) : (writeBools bs false).length = bitsToBytes bs.length :=
  writeBools_length bs

/-- An independent reader accepts what the writer emits for the MTime property and recovers
    exactly the written values, undefined entries staying undefined: the strict reader's
    property loop (which insists that the Size field equals the bytes consumed, that the bit
    vector has ⌈n/8⌉ bytes with zero padding, and that the external flag is 0) steps over the
    block written for ANY definedness pattern and any 64-bit values. -/
theorem strict_reader_accepts_times (fuel n ne : Nat) (seen : Bool) (files : List Spec.SFile) (slots : List (Slot Nat))
    (hlen : slots.length = n) (hn : slots.length < 2 ^ 32)
    (hv : ∀ s ∈ slots, ∀ t, s = .val t → t < 256 ^ 8) (rest : Bytes) :
    Spec.sFileProps (fuel + 1) n files ne seen (timesBlock true 0x14 slots ++ rest) =
      Spec.sFileProps fuel n (Spec.setList files (slots.map slotOpt) (fun f t => { f with mtime := t })) ne seen rest :=
  spec_times_step fuel n ne seen files slots hlen hn hv rest

/-- the same for the Attributes property -/
theorem strict_reader_accepts_attrs (fuel n ne : Nat) (seen : Bool) (files : List Spec.SFile) (slots : List (Slot Nat))
    (hlen : slots.length = n) (hn : slots.length < 2 ^ 32)
    (hv : ∀ s ∈ slots, ∀ t, s = .val t → t < 256 ^ 4) (rest : Bytes) :
    Spec.sFileProps (fuel + 1) n files ne seen (attrsBlock true slots ++ rest) =
      Spec.sFileProps fuel n (Spec.setList files (slots.map slotOpt) (fun f t => { f with attr := t })) ne seen rest :=
  spec_attrs_step fuel n ne seen files slots hlen hn hv rest

/-- Writer conformance of the whole FilesInfo section.  For ANY member list — any number of
    members below 2^32, names over all Unicode scalar values (BMP and astral), any pattern of
    empty-stream entries, modification times and attribute words defined or undefined in any
    pattern, written at any file offset (which decides the kDummy padding) — the bytes
    `FilesInfo.write` emits are accepted by the strict reader, a parser written from the format
    document that checks every count, property size, bit-vector length and padding, and it
    recovers for every member exactly the name, the empty-stream flag, the time and the
    attribute word that were written; undefined entries stay undefined. -/
theorem strict_reader_accepts_filesinfo (fi : FilesInfo) (pos : Nat) (rest : Bytes)
    (hnm : ∀ e ∈ fi.files, e.filename.isSome = true) (hsc : ∀ e ∈ fi.files, ∀ c ∈ nameOf e, IsScalar c)
    (hn : fi.files.length < 2 ^ 32)
    (hmt : ∀ e ∈ fi.files, ∀ t, e.mtime = .val t → t < 256 ^ 8) (hat : ∀ e ∈ fi.files, ∀ t, e.attributes = .val t → t < 256 ^ 4)
    (hsize : ((fi.files.map nameOf).map (fun n => 2 * (n.flatMap unitsOf).length + 2)).sum + 1 < 2 ^ 64)
    (hef : (fi.files.map (·.emptystream)).any id = false → fi.emptyfiles.any id = false) :
    Spec.sFilesInfo ((writeFilesInfo true fi pos).drop 1 ++ rest) = .ok (fi.files.map toSFile, rest) :=
  filesinfo_strict_read fi pos rest hnm hsc hn hmt hat hsize hef

/-- the hypotheses are satisfiable: a directory, a file with an astral-plane name, an undefined time -/
example : (Spec.sFilesInfo ((writeFilesInfo true
      { files := [{ emptystream := true, filename := some [100], mtime := .val 5, attributes := .val 16 },
                  { emptystream := false, filename := some [0x1F600, 46, 97], mtime := .undef, attributes := .val 32 }],
        emptyfiles := [false, false] } 35).drop 1 ++ [7, 7])).toOption =
    some ([{ name := some [100], emptyStream := true, mtime := some 5, attr := some 16 },
          { name := some [0x1F600, 46, 97], emptyStream := false, mtime := none, attr := some 32 }], [7, 7]) := by
  decide +kernel

/-- Writer conformance of the PackInfo section: for any number of packed streams, any
    position and sizes below 2^64 and any pattern of defined digests, what `PackInfo.write`
    emits is accepted by the strict reader and decodes to the same position, sizes and digests
    ("packed sizes ... CRCs describe the bytes" is then a statement about these values). -/
theorem strict_reader_accepts_packinfo (p : PackInfo) (bytes rest : Bytes) (hw : writePackInfo p = some bytes)
    (hpos : p.packpos < 2 ^ 64) (hn : p.numstreams < 2 ^ 64) (hv : ∀ v ∈ p.packsizes, v < 2 ^ 64)
    (hd : p.digestdefined.foldl (· || ·) p.enableDigests = true → p.digestdefined.length = p.numstreams)
    (hc : ∀ c ∈ p.crcs, c < 256 ^ 4) :
    Spec.sPackInfo (bytes.drop 1 ++ rest) = .ok (expectedPack p, rest) :=
  packinfo_strict_read p bytes rest hw hpos hn hv hd hc

example : (writePackInfo { packpos := 0, numstreams := 2, packsizes := [300, 70000], digestdefined := [true, false], crcs := [7, 0], enableDigests := true }).isSome = true := by
  decide


/-- Writer conformance of the Folder / UnpackInfo section: for any number of folders, each
    with any coder graph the grammar allows (1..32 coders, simple or complex, with or without
    properties, ids up to 15 bytes, bind pairs in range, one or several packed streams), what
    `UnpackInfo.write` emits is accepted by the strict reader and decodes to the same coders,
    bind pairs, packed streams and per-coder unpack sizes ("counts agree between sections"). -/
theorem strict_reader_accepts_unpackinfo (folders : List Folder) (hn : folders.length < 2 ^ 64)
    (hwf : ∀ f ∈ folders, WFFolder f) (rest : Bytes) :
    Spec.sUnpackInfo ((writeUnpackInfo folders).drop 1 ++ rest) = .ok (folders.map toSFolder, rest) :=
  unpackinfo_strict_read folders hn hwf rest

/-- the folder py7zr builds for the filter chain [Delta, LZMA2]-style two-coder chain is well-formed -/
def exampleFolder : Folder :=
  { coders := [{ method := [0x21], props := some [0x18] }, { method := [3], props := some [0] }],
    bindpairs := [(1, 0)], packedIndices := [], unpacksizes := [30, 30] }

example : WFFolder exampleFolder := by
  refine ⟨by decide, ?_, by decide, by decide, by decide, by decide, by decide, by decide, by decide⟩
  intro c hc
  simp only [exampleFolder, List.mem_cons, List.not_mem_nil, or_false] at hc
  rcases hc with rfl | rfl <;> exact ⟨by decide, by decide, by decide, by intro p hp; cases hp; decide⟩

/-- Writer conformance of the SubStreamsInfo section: for any number of folders, any number
    of sub-streams per folder (none, one, several), sizes that tile each folder's output, and
    any digest-definedness pattern, what `SubstreamsInfo.write` emits — with NumUnpackStream and
    Size elided or present as the writer decides — is accepted by the strict reader, which
    recovers every count, every size (the implicit last one of each folder included) and every
    digest ("declared unpacked sizes and CRCs", "counts agree between sections"). -/
theorem strict_reader_accepts_substreams (s : SubStreams) (sf : List Spec.SFolder) (bytes rest : Bytes)
    (hw : writeSubStreams s = some bytes) (hne : s.numUnpack ≠ [])
    (hlen : s.numUnpack.length = sf.length) (hcrc : ∀ f ∈ sf, f.crc = none)
    (hn : ∀ n ∈ s.numUnpack, n < 2 ^ 64)
    (sizes : List Nat) (hs : s.unpacksizes = some sizes) (hok : SizesOK s.numUnpack sf sizes)
    (hv : ∀ v ∈ sizes, v < 2 ^ 64)
    (hdl : s.digestsdefined.length = s.numUnpack.sum) (hcl : s.digests.length = s.numUnpack.sum)
    (hc : ∀ c ∈ s.digests, c < 256 ^ 4) :
    Spec.sSubStreams sf (bytes.drop 1 ++ rest) = .ok ((s.numUnpack, sizes, expectedSubCrcs s), rest) :=
  substreams_strict_read s sf bytes rest hw hne hlen hcrc hn sizes hs hok hv hdl hcl hc

/-- Writer conformance of the whole StreamsInfo section (PackInfo + UnpackInfo + SubStreamsInfo
    and the agreement of their counts) -/
theorem strict_reader_accepts_streams (s : Streams) (p : PackInfo) (fs : List Folder) (ss : SubStreams) (sizes : List Nat)
    (wf : WFStreams s p fs ss sizes) (bytes rest : Bytes) (hw : writeStreams s = some bytes) :
    Spec.sStreams (bytes.drop 1 ++ rest) = .ok (expectedStreams p fs ss sizes, rest) :=
  streams_strict_read s p fs ss sizes wf bytes rest hw

/-- **Writer conformance of the whole header.**  For EVERY header the writer can hold — any
    number of folders with any legal coder graphs, any number of packed streams with any digest
    pattern, any number of sub-streams per folder whose sizes tile the folder, any member list
    (names over all Unicode scalar values, empty-stream entries anywhere, times and attributes
    defined or not), written at any file offset — the bytes `Header.write` emits in raw form
    are accepted by the strict reader (a parser written from the format document that checks
    every count, size, vector length, END marker and the agreement of counts between
    sections) and decode to exactly the streams and members that were written, with nothing
    left over. -/
theorem strict_reader_accepts_header (h : Header) (s : Streams) (p : PackInfo) (fs : List Folder) (ss : SubStreams)
    (sizes : List Nat) (fi : FilesInfo) (hs : h.mainStreams = some s) (hfi : h.filesInfo = some fi)
    (wf : WFStreams s p fs ss sizes) (wff : WFFiles fi) (pos : Nat) (bytes : Bytes)
    (hw : writeHeaderRaw true h pos = some bytes) :
    Spec.readTop bytes = .ok (.raw (expectedHeader p fs ss sizes fi)) :=
  header_strict_read h s p fs ss sizes fi hs hfi wf wff pos bytes hw


/-- "Declared unpacked sizes and CRCs equal those of the content; packed sizes describe the
    bytes on disk": for ANY chain of codec stages (arbitrary state and compress/flush functions),
    ANY list of members and ANY cutting of each member into read blocks, a fresh
    `SevenZipCompressor` that has compressed them and been flushed reports for every member the
    length and CRC-32 of its bytes; the first stage's input counter — which `unpacksizes` puts
    LAST in the folder's size list, see `unpacksizes_last` — is the total size of the members;
    `packsize` is the number of bytes written and `digest` their CRC-32. -/
theorem compressor_accounting {σ} (chain : List (StageSt σ)) (hne : chain ≠ []) (hfed : headFed chain = 0)
    (members : List (List Bytes)) :
    let c0 : Cmp σ := { chain := chain }
    let r := compressAll c0 members
    let f := flushCmp r.1
    r.2 = members.map (fun m => (m.flatten.length, crc32 m.flatten)) ∧
    headFed f.1.chain = (members.map (fun m => m.flatten.length)).sum ∧
    f.1.packsize = f.1.out.length ∧ f.1.digest = crc32 f.1.out ∧ f.1.chain.length = chain.length :=
  SevenZ.compressor_accounting chain hne hfed members

/-- the `unpacksizes` property lists one size per coder and ends with the first stage's counter,
    whatever the methods map is (native filters sharing a stage or not) -/
theorem unpacksizes_last (m : Bool) (ms : List Bool) (fed R : List Nat) (h : unpacksizesOf (m :: ms) fed = some R) :
    R.getLast? = fed[0]? ∧ R.length = ms.length + 1 :=
  unpacksizesOf_spec m ms fed R h

/-- **A whole create session conforms** (signature header + packed area + raw header).  For
    EVERY list of write calls — any names over all Unicode scalar values, directories and data
    members in any order, every member's bytes delivered in any blocks —, EVERY chain of codec
    stages and any well-formed coder records: the archive file the session leaves is accepted by
    the strict archive reader (magic, start-header CRC, header found by offset and size ending
    exactly at the end of the file, header CRC, every count / size / END check of the header
    database); the packed sizes tile the data area exactly; and the format's assignment returns
    exactly the members written, in order, each data member with the length and CRC-32 of its
    bytes at the offset where its predecessors end.  The three size hypotheses are the 64-bit
    limits of the format (packed area, per-coder sizes, header length). -/
theorem session_archive_conforms {σ} (cfg : WConfig σ) (ms : List WMember) (img : Bytes)
    (wfc : WFConfig cfg) (wfm : WFMembers ms)
    (hout : (sessionCompress cfg ms).1.out.length < 2 ^ 64)
    (hus : ∀ us, unpacksizesOf cfg.methodsMap ((sessionCompress cfg ms).1.chain.map (·.fed)) = some us → ∀ v ∈ us, v < 2 ^ 64)
    (hhl : ∀ H hdr, sessionHeader cfg ms = some H →
      writeHeaderRaw true H (32 + (sessionCompress cfg ms).1.out.length) = some hdr → hdr.length < 2 ^ 64)
    (h : sessionArchive cfg ms = some img) :
    ∃ H st, Spec.readArchive img = .ok { top := .raw H, dataArea := (sessionCompress cfg ms).1.out } ∧
      H.streams = some st ∧ Spec.tilesExactly st (sessionCompress cfg ms).1.out = true ∧
      Spec.members H = .ok (expectedMembers ms) :=
  SevenZ.session_archive_conforms cfg ms img wfc wfm hout hus hhl h

/-- a concrete session (a directory, a 3-byte member in two blocks, an empty member; a chain
    of two stages, one buffering everything until flush) produces an archive: the conclusion
    of `session_archive_conforms` is not vacuous -/
def exampleConfig : WConfig Bytes :=
  { coders := [{ method := [0x21], props := some [0x18] }, { method := [3], props := some [1] }],
    methodsMap := [true, true],
    chain := [{ stage := { compress := fun s d => (s ++ d, []), flush := fun s => ([], s) }, st := [] }],
    enableDigests := true }

def exampleMembers : List WMember :=
  [{ name := [100], emptystream := true, mtime := .val 5, attr := .val 16 },
   { name := [0x1F600, 47, 97], emptystream := false, blocks := [[1, 2], [3]], mtime := .val 7, attr := .val 32 },
   { name := [98], emptystream := false, blocks := [], mtime := .undef, attr := .val 32 }]

example : ((sessionArchive exampleConfig exampleMembers).map List.length) = some 156 := by decide +kernel

/-- names and sub-stream assignment an independent reader recovers from an archive image -/
def recovered (img : Bytes) : Option (List (Option (List Nat) × Option (Nat × Nat × Nat × Option Nat))) :=
  match Spec.readArchive img with
  | .ok a =>
    match a.top with
    | .raw H =>
      match Spec.members H with
      | .ok l => some (l.map (fun m => (m.file.name, m.stream)))
      | .error _ => none
    | _ => none
  | .error _ => none

example : ((sessionArchive exampleConfig exampleMembers).bind recovered ==
    some [(some [100], none), (some [0x1F600, 47, 97], some (0, 0, 3, some 1438416925)), (some [98], some (0, 3, 0, some 0))]) = true := by
  decide +kernel


/-- **The default header mode.**  The same for a create session whose header is stored encoded
    (py7zr's default) or encrypted: the raw header goes through a one-folder compressor of its
    own — any codec stages —, the archive is signature header ++ packed data ++ packed header ++
    EncodedHeader record, and for any decoder of the header folder that inverts what the header
    compressor produced (the one codec hypothesis), the strict reader `Spec.openArchive` accepts
    it — start-header and record CRCs, the record's PackInfo and UnpackInfo with the folder's CRC
    (written since cfa832b), the packed header lying exactly at the end of the data area, the
    decoded header of the declared length and CRC — and finds inside exactly the members written. -/
theorem session_archive_encoded_conforms {σ} (cfg : WConfig σ) (hcfg : HConfig σ) (ms : List WMember) (us : List Nat) (img : Bytes)
    (decode : Spec.SFolder → Bytes → Option Bytes)
    (wfc : WFConfig cfg) (wfm : WFMembers ms) (rs : ReadableSession cfg ms) (wfh : WFHConfig hcfg)
    (hU : unpacksizesOf cfg.methodsMap ((sessionCompress cfg ms).1.chain.map (·.fed)) = some us)
    (husb : ∀ v ∈ us, v < 2 ^ 64)
    (hns : ∀ m ∈ ms, ∀ ch ∈ m.name, ch ≠ 0x5C)
    (hbounds : ∀ raw, writeHeaderRaw true (sessionComps cfg ms us).header 0 = some raw →
      raw.length < 2 ^ 64 ∧ ((sessionCompress cfg ms).1.out ++ (headerCompress hcfg raw).out).length < 2 ^ 64)
    (himgb : img.length < 2 ^ 64)
    (hdec : ∀ raw, writeHeaderRaw true (sessionComps cfg ms us).header 0 = some raw →
      decode (toSFolderCrc (headerFolder hcfg raw)) (headerCompress hcfg raw).out = some raw)
    (h : sessionArchiveEncoded cfg hcfg ms = some img) :
    Spec.openArchive decode img = .ok ((sessionComps cfg ms us).expected, (sessionCompress cfg ms).1.out) ∧
    Spec.members (sessionComps cfg ms us).expected = .ok (expectedMembers ms) :=
  SevenZ.session_archive_encoded_conforms cfg hcfg ms us img decode wfc wfm rs wfh hU husb hns hbounds himgb hdec h

/-- non-vacuity: the example session in encoded mode, header "codec" = identity, evaluated in the kernel -/
def exampleHConfig : HConfig Bytes :=
  { coders := [{ method := [0x21], props := some [0x18] }],
    chain := [{ stage := { compress := fun s d => (s, d), flush := fun s => (s, []) }, st := [] }], blocksize := 7 }

example : ((sessionArchiveEncoded exampleConfig exampleHConfig exampleMembers).map
      (fun img => match Spec.openArchive (fun _ b => some b) img with
        | .ok (H, area) => (Spec.members H).toOption.map (fun l => (l.map (fun m => (m.file.name, m.stream)), area))
        | .error _ => none)) ==
    some (some ([(some [100], none), (some [0x1F600, 47, 97], some (0, 0, 3, some 1438416925)), (some [98], some (0, 3, 0, some 0))],
                [1, 2, 3])) := by
  decide +kernel

/-- boolean vectors as written are read back by the strict reader (all-defined shortcut and
    bit field with zero padding), for every vector -/
theorem strict_reader_accepts_boolvector (bs : List Bool) (tail : Bytes) :
    Spec.sBoolList bs.length "v" (writeBools bs true ++ tail) = .ok (bs, tail) :=
  sBoolList_writeBools bs "v" tail

/-- the pinned size computation (defect F1, repaired): with nine files of which one has a
    time, the Size field is one byte short and the strict reader rejects the header -/
theorem pinned_times_rejected_ce :
    (Spec.sFileProps 5 9 (List.replicate 9 {}) 0 false
      (timesBlock false 0x14 [.val 5, .undef, .undef, .undef, .undef, .undef, .undef, .undef, .undef] ++ [0])).toOption = none ∧
    (Spec.sFileProps 5 9 (List.replicate 9 {}) 0 false
      (timesBlock true 0x14 [.val 5, .undef, .undef, .undef, .undef, .undef, .undef, .undef, .undef] ++ [0])).toOption.isSome = true := by
  decide +kernel

example : timesBlock true 0x14 [.val 5, .undef] =
    [0x14, 11, 0, 0x80, 0, 5, 0, 0, 0, 0, 0, 0, 0] := by decide

end SevenZ.C07
