/-
C07 — Writer conformance (property sizes and section shapes of what py7zr's writer emits).
-/
import SevenZ.Lemmas.FilesInfo
namespace SevenZ.C07
open SevenZ SevenZ.Impl

/-- "file properties are encoded with the sizes the grammar requires": the body of the
    time property is exactly as long as its Size field says, for every definedness pattern -/
theorem times_size_exact (slots : List (Slot Nat)) :
    (writeBools (slots.map Slot.isVal) true ++ [0x00] ++ payload 8 slots).length =
      ((slots.map Slot.isVal).filter id).length * 8 + 2 +
        (if (slots.map Slot.isVal).all id then 0 else bitsToBytes (slots.map Slot.isVal).length) :=
  timesBody_length slots

/-- the same for the attribute property -/
theorem attrs_size_exact (slots : List (Slot Nat)) :
    (writeBools (slots.map Slot.isVal) true ++ [0x00] ++ payload 4 slots).length =
      ((slots.map Slot.isVal).filter id).length * 4 + 2 +
        (if ((slots.map Slot.isVal).filter id).length ≠ (slots.map Slot.isVal).length
         then bitsToBytes (slots.map Slot.isVal).length else 0) :=
  attrsBody_length slots

/-- bit vectors have ⌈n/8⌉ bytes -/
theorem bitvector_bytes (bs : List Bool) : (writeBools bs false).length = bitsToBytes bs.length :=
  writeBools_length bs

example : timesBlock true 0x14 [.val 5, .undef] =
    [0x14, 11, 0, 0x80, 0, 5, 0, 0, 0, 0, 0, 0, 0] := by decide

end SevenZ.C07
