/-
C13 — Extraction results do not depend on scheduling; worker errors reach the caller.
-/
import SevenZ.Model.Conc
namespace SevenZ.C13
open SevenZ SevenZ.Impl

theorem written_append (a b : List CStep) (out : Nat) : written (a ++ b) out = written a out ++ written b out := by
  simp [written]

/-- a worker that never writes to `out` contributes nothing to it -/
theorem written_of_not_mem (w : List CStep) (out : Nat) (h : out ∉ outputsOf w) : written w out = [] := by
  induction w with
  | nil => rfl
  | cons s w ih =>
    cases s with
    | write o c =>
      have ho : o ≠ out := by
        intro e; apply h; simp [outputsOf, e]
      have h' : out ∉ outputsOf w := by
        intro hm; apply h; simp only [outputsOf, List.filterMap_cons]; exact List.mem_cons_of_mem _ hm
      simp only [written, List.flatMap_cons, ho, if_false, List.nil_append]
      exact ih h'
    | raise e =>
      have h' : out ∉ outputsOf w := by
        intro hm; apply h; simpa [outputsOf] using hm
      simp only [written, List.flatMap_cons, List.nil_append]
      exact ih h'

/-- interleaving two step lists, one of which never touches `out`, leaves `out` as the other wrote it -/
theorem shuffle_written {a b l : List CStep} (h : Shuffle a b l) (out : Nat) :
    (out ∉ outputsOf b → written l out = written a out) ∧ (out ∉ outputsOf a → written l out = written b out) := by
  induction h with
  | nil => exact ⟨fun _ => rfl, fun _ => rfl⟩
  | @left x a' b' l' _ ih =>
    constructor
    · intro hb
      have := ih.1 hb
      change written ([x] ++ _) out = written ([x] ++ _) out
      rw [written_append, written_append, this]
    · intro ha
      cases x with
      | write o c =>
        have ho : o ≠ out := by intro e; apply ha; simp [outputsOf, e]
        have ha' : out ∉ outputsOf a' := by
          intro hm; apply ha; simp only [outputsOf, List.filterMap_cons]; exact List.mem_cons_of_mem _ hm
        have := ih.2 ha'
        simp only [written, List.flatMap_cons, ho, if_false, List.nil_append] at this ⊢
        exact this
      | raise e =>
        have ha' : out ∉ outputsOf a' := by intro hm; apply ha; simpa [outputsOf] using hm
        have := ih.2 ha'
        simp only [written, List.flatMap_cons, List.nil_append] at this ⊢
        exact this
  | @right y a' b' l' _ ih =>
    constructor
    · intro hb
      cases y with
      | write o c =>
        have ho : o ≠ out := by intro e; apply hb; simp [outputsOf, e]
        have hb' : out ∉ outputsOf b' := by
          intro hm; apply hb; simp only [outputsOf, List.filterMap_cons]; exact List.mem_cons_of_mem _ hm
        have := ih.1 hb'
        simp only [written, List.flatMap_cons, ho, if_false, List.nil_append] at this ⊢
        exact this
      | raise e =>
        have hb' : out ∉ outputsOf b' := by intro hm; apply hb; simpa [outputsOf] using hm
        have := ih.1 hb'
        simp only [written, List.flatMap_cons, List.nil_append] at this ⊢
        exact this
    · intro ha
      have := ih.2 ha
      change written ([y] ++ _) out = written ([y] ++ _) out
      rw [written_append, written_append, this]

theorem outputsOf_shuffle {a b l : List CStep} (h : Shuffle a b l) (out : Nat) :
    out ∈ outputsOf l ↔ out ∈ outputsOf a ∨ out ∈ outputsOf b := by
  induction h with
  | nil => simp [outputsOf]
  | left x _ ih => cases x <;> simp [outputsOf] at ih ⊢ <;> simp [ih, or_assoc]
  | right y _ ih => cases y <;> simp [outputsOf] at ih ⊢ <;> simp [ih, or_left_comm]

theorem outputsOf_interleave {ws : List (List CStep)} {l : List CStep} (h : Interleave ws l) (out : Nat) :
    out ∈ outputsOf l ↔ ∃ w ∈ ws, out ∈ outputsOf w := by
  induction h with
  | nil => simp [outputsOf]
  | cons _ hs ih => rw [outputsOf_shuffle hs, ih]; simp

/-- Scheduling independence.  If the workers' outputs are pairwise disjoint (own decoder, own
    file handle, distinct output ids), then under EVERY interleaving of their steps each
    output receives exactly what its own worker wrote, in that worker's order — i.e. the same
    as the sequential run, for any number of workers and any number of steps. -/
theorem interleaving_independent {ws : List (List CStep)} {l : List CStep} (h : Interleave ws l)
    (hdisj : ws.Pairwise (fun a b => ∀ o, o ∈ outputsOf a → o ∉ outputsOf b)) :
    ∀ w ∈ ws, ∀ out ∈ outputsOf w, written l out = written w out := by
  induction h with
  | nil => intro w hw; simp at hw
  | @cons w0 ws0 rest l0 hi hs ih =>
    rw [List.pairwise_cons] at hdisj
    obtain ⟨hd0, hdr⟩ := hdisj
    intro w hw out ho
    simp only [List.mem_cons] at hw
    rcases hw with rfl | hw
    · -- the first worker: no later worker writes to `out`
      have hnot : out ∉ outputsOf rest := by
        rw [outputsOf_interleave hi]
        rintro ⟨w', hw', ho'⟩
        exact hd0 w' hw' out ho ho'
      exact (shuffle_written hs out).1 hnot
    · have hnot : out ∉ outputsOf w0 := by
        intro ho0
        exact hd0 w hw out ho0 ho
      rw [(shuffle_written hs out).2 hnot]
      exact ih hdr w hw out ho

theorem raisedIn_shuffle {a b l : List CStep} (h : Shuffle a b l) (e : Nat) :
    e ∈ raisedIn l ↔ e ∈ raisedIn a ∨ e ∈ raisedIn b := by
  induction h with
  | nil => simp [raisedIn]
  | left x _ ih => cases x <;> simp [raisedIn] at ih ⊢ <;> simp [ih, or_assoc]
  | right y _ ih => cases y <;> simp [raisedIn] at ih ⊢ <;> simp [ih, or_left_comm]

theorem raisedIn_interleave {ws : List (List CStep)} {l : List CStep} (h : Interleave ws l) (e : Nat) :
    e ∈ raisedIn l ↔ ∃ w ∈ ws, e ∈ raisedIn w := by
  induction h with
  | nil => simp [raisedIn]
  | cons _ hs ih => rw [raisedIn_shuffle hs, ih]; simp

/-- the least element is an element and a lower bound -/
theorem leastOf_spec : ∀ (l : List Nat) (x : Nat), x ∈ l → ∃ m, leastOf l = some m ∧ m ∈ l ∧ ∀ y ∈ l, m ≤ y
  | [], x, h => by simp at h
  | e :: es, x, _ => by
    cases hes : es with
    | nil => exact ⟨e, by simp [leastOf], by simp, by intro y hy; simp at hy; omega⟩
    | cons e2 es2 =>
      obtain ⟨m, hm, hmem, hle⟩ := leastOf_spec es e2 (by rw [hes]; simp)
      rw [hes] at hm hmem hle
      refine ⟨min e m, by rw [show leastOf (e :: e2 :: es2) = (match leastOf (e2 :: es2) with | none => some e | some m => some (min e m)) from rfl, hm], ?_, ?_⟩
      · by_cases h : e ≤ m
        · rw [Nat.min_eq_left h]; simp
        · rw [Nat.min_eq_right (by omega)]; exact List.mem_cons_of_mem _ hmem
      · intro y hy
        rcases List.mem_cons.mp hy with rfl | hy'
        · exact Nat.min_le_left _ _
        · exact Nat.le_trans (Nat.min_le_right _ _) (hle y hy')

/-- the least element depends on the elements only, not on their order -/
theorem leastOf_congr (l1 l2 : List Nat) (h : ∀ x, x ∈ l1 ↔ x ∈ l2) : leastOf l1 = leastOf l2 := by
  cases h1 : l1 with
  | nil =>
    cases h2 : l2 with
    | nil => rfl
    | cons y ys => have := (h y).2 (by rw [h2]; simp); rw [h1] at this; simp at this
  | cons x xs =>
    obtain ⟨m1, hm1, hmem1, hle1⟩ := leastOf_spec l1 x (by rw [h1]; simp)
    obtain ⟨m2, hm2, hmem2, hle2⟩ := leastOf_spec l2 x ((h x).1 (by rw [h1]; simp))
    have : m1 = m2 := Nat.le_antisymm (hle1 m2 ((h m2).2 hmem2)) (hle2 m1 ((h m1).1 hmem1))
    rw [← h1, hm1, hm2, this]

/-- **Which error is raised does not depend on the schedule** (after the repair 07e0074): under any two
    interleavings of the same workers the caller sees the same error — that of the first failing folder in archive
    order — however many folders fail. -/
theorem raised_error_schedule_independent {ws : List (List CStep)} {l1 l2 : List CStep}
    (h1 : Interleave ws l1) (h2 : Interleave ws l2) : afterJoin true l1 = afterJoin true l2 := by
  simp only [afterJoin, if_true]
  apply leastOf_congr
  intro x
  rw [raisedIn_interleave h1 x, raisedIn_interleave h2 x]

/-- before the repair the first error to reach the queue was raised: two interleavings of the same two failing
    workers gave different errors -/
theorem pinned_error_schedule_dependent_ce :
    afterJoinPinned true [.raise 1, .raise 3] ≠ afterJoinPinned true [.raise 3, .raise 1] ∧
    afterJoin true [.raise 1, .raise 3] = afterJoin true [.raise 3, .raise 1] := by decide

/-- Worker errors reach the caller (thread mode): if any worker raises, then under every
    interleaving `Worker.extract` raises, and what it raises is an exception some worker raised. -/
theorem errors_surface_threads {ws : List (List CStep)} {l : List CStep} (h : Interleave ws l)
    (w : List CStep) (hw : w ∈ ws) (e : Nat) (he : e ∈ raisedIn w) :
    ∃ e', afterJoin true l = some e' ∧ ∃ w' ∈ ws, e' ∈ raisedIn w' := by
  have hmem : e ∈ raisedIn l := (raisedIn_interleave h e).2 ⟨w, hw, he⟩
  obtain ⟨m, hm, hmm, _⟩ := leastOf_spec (raisedIn l) e hmem
  exact ⟨m, by simp [afterJoin, hm], (raisedIn_interleave h m).1 hmm⟩

/-- Process mode as pinned: the exception queue is a thread queue that the child processes do
    not share with the parent, so the caller sees nothing (finding F9). -/
theorem mp_error_lost_ce : afterJoin false [.write 0 [1], .raise 7] = none ∧
    afterJoin true [.write 0 [1], .raise 7] = some 7 := by decide

theorem interleave_nil_of_all_empty {α : Type} (ws : List (List α)) (h : ∀ w ∈ ws, w = []) : Interleave ws [] := by
  induction ws with
  | nil => exact .nil
  | cons w ws ih =>
    have hw : w = [] := h w (by simp)
    subst hw
    exact .cons (ih (fun w' hw' => h w' (by simp [hw']))) .nil

theorem interleave_step {α : Type} (ws : List (List α)) (i : Nat) (s : α) (w' : List α) (l : List α)
    (hi : ws[i]? = some (s :: w')) (h : Interleave (ws.set i w') l) : Interleave ws (s :: l) := by
  induction ws generalizing i l with
  | nil => simp at hi
  | cons w0 ws0 ih =>
    cases i with
    | zero =>
      simp only [List.getElem?_cons_zero, Option.some.injEq] at hi
      subst hi
      simp only [List.set_cons_zero] at h
      cases h with
      | cons hI hs => exact .cons hI (.left s hs)
    | succ j =>
      simp only [List.getElem?_cons_succ] at hi
      simp only [List.set_cons_succ] at h
      cases h with
      | cons hI hs => exact .cons (ih j _ hi hI) (.right s hs)

/-- The executable scheduler only produces interleavings: whenever the schedule runs every
    worker to its end, the resulting step sequence is an `Interleave` of the workers — so the
    theorems above apply to every run the correspondence harness enforces. -/
theorem runSchedule_interleave {α : Type} (ws : List (List α)) (sched : List Nat)
    (hdone : ∀ w ∈ remaining ws sched, w = []) : Interleave ws (runSchedule ws sched) := by
  induction sched generalizing ws with
  | nil => exact interleave_nil_of_all_empty ws hdone
  | cons i rest ih =>
    unfold runSchedule
    unfold remaining at hdone
    split
    · rename_i s w' hi
      rw [hi] at hdone
      exact interleave_step ws i s w' _ hi (ih _ hdone)
    · rename_i hne
      have : remaining ws rest = (match ws[i]? with | some (_ :: w') => remaining (ws.set i w') rest | _ => remaining ws rest) := by
        split
        · rename_i s w' hi; exact absurd hi (hne s w')
        · rfl
      exact ih ws (by rw [this]; exact hdone)

/-- the sequential path is one particular schedule of the truncated workers when nobody raises -/
theorem sequential_no_raise (ws : List (List CStep)) (h : ∀ w ∈ ws, raisedIn w = []) :
    runSequential ws = ws.flatten := by
  induction ws with
  | nil => rfl
  | cons w ws ih =>
    have hw := h w (by simp)
    have htr : truncateAtRaise w = w := by
      clear ih h
      induction w with
      | nil => rfl
      | cons s w ihw =>
        cases s with
        | write o c =>
          simp only [truncateAtRaise]
          rw [ihw (by simpa [raisedIn] using hw)]
        | raise e => simp [raisedIn] at hw
    simp only [runSequential, htr, hw, List.isEmpty_nil, if_true, List.flatten_cons]
    rw [ih (fun w' hw' => h w' (by simp [hw']))]

theorem flatten_interleave (ws : List (List CStep)) : Interleave ws ws.flatten := by
  induction ws with
  | nil => exact .nil
  | cons w ws ih =>
    refine .cons ih ?_
    simp only [List.flatten_cons]
    generalize ws.flatten = r
    induction w with
    | nil =>
      induction r with
      | nil => exact .nil
      | cons y r ihr => exact .right y ihr
    | cons x w ihw => exact .left x ihw

/-- Parallel = sequential on intact archives: under every interleaving each output holds
    exactly what the sequential path delivers to it. -/
theorem parallel_eq_sequential {ws : List (List CStep)} {l : List CStep} (h : Interleave ws l)
    (hdisj : ws.Pairwise (fun a b => ∀ o, o ∈ outputsOf a → o ∉ outputsOf b))
    (hok : ∀ w ∈ ws, raisedIn w = []) :
    ∀ w ∈ ws, ∀ out ∈ outputsOf w, written l out = written (runSequential ws) out := by
  intro w hw out ho
  rw [sequential_no_raise ws hok, interleaving_independent h hdisj w hw out ho,
    interleaving_independent (flatten_interleave ws) hdisj w hw out ho]

example : Interleave [[CStep.write 0 [1], .write 0 [2]], [.write 1 [9]]] [.write 0 [1], .write 1 [9], .write 0 [2]] :=
  .cons (.cons .nil (.left _ .nil)) (.left _ (.right _ (.left _ .nil)))

end SevenZ.C13
