/-
C16 — Member names are kept relative on write.
-/
import SevenZ.Lemmas.Path
namespace SevenZ.C16
open SevenZ SevenZ.Impl

/-- For every string: the gate of `writestr`/`writef` (`check_archive_path`, repaired form)
    accepts exactly the names the independent definition accepts — not absolute, and never
    climbing above a virtual root when `..` is resolved component by component. -/
theorem check_eq_oracle (s : Str) : checkArchivePath s = Spec.nameStaysInside s :=
  SevenZ.check_eq_oracle s

/-- The tree as pinned tested against a literal probe directory and accepted names that walk
    out of it and back in by name (finding F5, repaired by the "fix: check_archive_path …"
    commit).  Record of the repaired defect. -/
theorem probe_dir_ce :
    checkArchivePathProbe "../dafj08sajfa/x".toList = true ∧
    Spec.nameStaysInside "../dafj08sajfa/x".toList = false ∧
    checkArchivePath "../dafj08sajfa/x".toList = false := by
  decide

/-- `write`/`writeall`: what `_sanitize_archive_arcname` lets through is not absolute and has
    no drive prefix … -/
theorem sanitize_relative (s p : Str) (h : sanitizeArcname s = some p) :
    p.head? ≠ some '/' ∧ hasDrive p = false :=
  sanitize_not_absolute s p h

/-- … and the member name stored for it is not absolute either -/
theorem stored_relative (s p : Str) (h : sanitizeArcname s = some p) :
    (storedName p).head? ≠ some '/' :=
  stored_not_absolute p (sanitize_not_absolute s p h).1

/- non-vacuity -/
example : sanitizeArcname "/C:/tmp//x/../y".toList = some "tmp//x/../y".toList ∧
    storedName "tmp//x/../y".toList = "tmp/x/../y".toList := by decide
example : checkArchivePath "a/../b/./c".toList = true ∧ checkArchivePath "a/../../b".toList = false ∧
    checkArchivePath "/a".toList = false ∧ checkArchivePath "..".toList = false := by decide

end SevenZ.C16
