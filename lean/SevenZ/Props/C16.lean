/-
C16 — Member names are kept relative on write.
-/
import SevenZ.Lemmas.Path
namespace SevenZ.C16
open SevenZ SevenZ.Impl

/-- For every string: the gate of `writestr`/`writef` (`check_archive_path`, repaired form)
    accepts exactly the names the independent definition accepts — not absolute, and never
    climbing above a virtual root when `..` is resolved component by component. -/
theorem check_eq_oracle (s : Str) : checkArchivePath s = Spec.nameStaysInside s :=
  SevenZ.check_eq_oracle s

/-- The tree as pinned tested against a literal probe directory and accepted names that walk
    out of it and back in by name (finding F5, repaired by the "fix: check_archive_path …"
    commit).  Record of the repaired defect. -/
theorem probe_dir_ce :
    checkArchivePathProbe "../dafj08sajfa/x".toList = true ∧
    Spec.nameStaysInside "../dafj08sajfa/x".toList = false ∧
    checkArchivePath "../dafj08sajfa/x".toList = false := by
  decide

/-- `write`/`writeall`: what `_sanitize_archive_arcname` lets through is not absolute and has
    no drive prefix … -/
theorem sanitize_relative (s p : Str) (h : sanitizeArcname s = some p) :
    p.head? ≠ some '/' ∧ hasDrive p = false :=
  sanitize_not_absolute s p h

/-- … and the member name stored for it is not absolute either -/
theorem stored_relative (s p : Str) (h : sanitizeArcname s = some p) :
    (storedName p).head? ≠ some '/' :=
  stored_not_absolute p (sanitize_not_absolute s p h).1

/-- `writestr`/`writef`: a name the gate accepts is stored as a relative member name — so the
    second sentence of the property ("no archive produced through these calls contains an
    absolute member name") holds for these two calls too, for every string -/
theorem gate_stored_relative (s : Str) (h : checkArchivePath s = true) :
    (storedName s).head? ≠ some '/' :=
  stored_not_absolute s (check_head s h)

/-- where an accepted name ends up, by the independent definition: a path made of plain
    components only (none empty, none `.`, none `..`) under the archive root — "stays inside"
    is not just "depth never negative" but "resolves to a place inside" -/
theorem accepted_resolves_inside (s : Str) (h : checkArchivePath s = true) :
    ∃ r, Spec.resolve [] (splitSlash s) = some r ∧ ∀ c ∈ r, cleanComp c := by
  rw [check_eq_oracle] at h
  unfold Spec.nameStaysInside at h
  have hh : (Spec.resolve [] (splitSlash s)).isSome = true := by
    cases s with
    | nil => simpa using h
    | cons c rest =>
      by_cases hc : c = '/'
      · subst hc; simp at h
      · split at h
        · rename_i heq; simp at heq; exact absurd heq.1 hc
        · exact h
  obtain ⟨r, hr⟩ := Option.isSome_iff_exists.mp hh
  exact ⟨r, hr, resolve_clean _ [] r hr (by simp)⟩

/-- the gate's depth walk is monotone in the starting depth: a name that stays inside the
    archive root stays inside any directory it is placed under -/
theorem walk_monotone (ps : List Str) (d k : Nat) (h : depthWalk d ps = true) :
    depthWalk (d + k) ps = true :=
  depthWalk_mono ps d k h

/- non-vacuity -/
example : sanitizeArcname "/C:/tmp//x/../y".toList = some "tmp//x/../y".toList ∧
    storedName "tmp//x/../y".toList = "tmp/x/../y".toList := by decide
example : checkArchivePath "a/../b/./c".toList = true ∧ checkArchivePath "a/../../b".toList = false ∧
    checkArchivePath "/a".toList = false ∧ checkArchivePath "..".toList = false := by decide

example : checkArchivePath "a/b/../c".toList = true ∧
    Spec.resolve [] (splitSlash "a/b/../c".toList) = some ["a".toList, "c".toList] ∧
    storedName "a/b/../c".toList = "a/b/../c".toList := by decide

end SevenZ.C16
