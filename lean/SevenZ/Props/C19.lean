/-
C19 — The command line mirrors the library and its exit status tells the truth
(decision-logic part: volume sizes and the exit-status table).
-/
import SevenZ.Model.Cli
namespace SevenZ.C19
open SevenZ SevenZ.Impl

theorem takeWhile_digits (ds rest : Str) (hd : ∀ c ∈ ds, isDigit c = true)
    (hr : ∀ c, rest.head? = some c → isDigit c = false) :
    (ds ++ rest).takeWhile isDigit = ds ∧ (ds ++ rest).dropWhile isDigit = rest := by
  induction ds with
  | nil =>
    cases rest with
    | nil => simp
    | cons c cs => have := hr c rfl; simp [this]
  | cons d ds ih =>
    have hd0 := hd d (by simp)
    have := ih (fun c hc => hd c (by simp [hc]))
    simp [hd0, this]

/-- the nine spellings of the unit the help describes: none, b k m g in either case -/
def helpUnits : List Str := [[], ['b'], ['k'], ['m'], ['g'], ['B'], ['K'], ['M'], ['G']]

def helpMult (u : Str) : Nat := (unitMult u).getD 1

/-- multi-volume creation accepts every size the help describes — `{Size}[b|k|m|g]` — and
    converts it to `Size × unit`; in particular a size without a unit suffix -/
theorem volsize_accepts_help (ds u : Str) (hne : ds ≠ []) (hd : ∀ c ∈ ds, isDigit c = true)
    (hu : u ∈ helpUnits) :
    checkVolumeSize (ds ++ u) = true ∧ unitConv true (ds ++ u) = .size (digitsVal ds * helpMult u) := by
  have hu' : u = [] ∨ u = ['b'] ∨ u = ['k'] ∨ u = ['m'] ∨ u = ['g'] ∨ u = ['B'] ∨ u = ['K'] ∨ u = ['M'] ∨ u = ['G'] := by
    simpa [helpUnits] using hu
  have hr : ∀ c, u.head? = some c → isDigit c = false := by
    intro c hc
    rcases hu' with h|h|h|h|h|h|h|h|h <;> subst h <;> simp at hc <;> subst hc <;> decide
  obtain ⟨ht, hdw⟩ := takeWhile_digits ds u hd hr
  have hm : matchSize (ds ++ u) = some (ds, u) := by
    unfold matchSize
    simp only [ht, hdw, hne, if_false]
    rcases hu' with h|h|h|h|h|h|h|h|h <;> subst h <;> simp [isUnitChar]
  constructor
  · simp [checkVolumeSize, hm]
  · unfold unitConv
    rw [hm]
    rcases hu' with h|h|h|h|h|h|h|h|h <;> subst h <;> simp [unitMult, helpMult]

/-- The pinned tree tested `unit is None`; the group is `''`, so a bare number raised
    KeyError (finding F2, repaired by "fix: accept a volume size without unit suffix"). -/
theorem no_unit_unrepaired_ce :
    unitConv false "1000".toList = .keyError ∧ unitConv true "1000".toList = .size 1000 := by
  decide

/-- `t` and `x`: status 0 exactly when the requested operation succeeded -/
theorem exit_status_table (o : Outcome) :
    (statusTest o = 0 ↔ o = .ok) ∧ (statusExtract o = 0 ↔ o = .ok) := by
  cases o <;> simp [statusTest, statusExtract]

example : "64".toList ≠ [] ∧ (∀ c ∈ "64".toList, isDigit c = true) ∧ ['k'] ∈ helpUnits ∧
    unitConv true "64k".toList = .size 65536 := by decide

end SevenZ.C19
