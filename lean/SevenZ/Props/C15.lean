/-
C15 — A failed write call does not poison the archive (session bookkeeping).
-/
import SevenZ.Model.Writer
namespace SevenZ.C15
open SevenZ SevenZ.Impl

/-- what a state describes: the registered members, their sizes and CRCs -/
def described (st : WState) : List WEntry × List Nat × List Nat := (st.files, st.sizes, st.crcs)

theorem step_ok (st : WState) (k : CallKind) (f : WEntry) (hinv : st.curIdx = st.files.length)
    (hok : callOk (k, f) = true) :
    (writeCall true st k f).2 = false ∧ (writeCall true st k f).1.curIdx = (writeCall true st k f).1.files.length ∧
    (writeCall true st k f).1.files = st.files ++ [f] ∧
    (writeCall true st k f).1.sizes = st.sizes ++ (if f.emptystream then [] else [f.size]) ∧
    (writeCall true st k f).1.crcs = st.crcs ++ (if f.emptystream then [] else [f.crc]) := by
  simp only [callOk, Bool.and_eq_true, beq_iff_eq, Bool.or_eq_true] at hok
  obtain ⟨hk, hs⟩ := hok
  subst hk
  have hget : (st.files ++ [f])[st.curIdx]? = some f := by rw [hinv]; simp
  by_cases he : f.emptystream = true
  · simp [writeCall, archiveStep, hget, he, hinv]
  · have he' : f.emptystream = false := by cases h : f.emptystream <;> simp_all
    have hso : f.sourceOk = true := by rcases hs with h | h <;> simp_all
    simp [writeCall, archiveStep, hget, he', hso, hinv]

theorem step_fail (st : WState) (k : CallKind) (f : WEntry) (hinv : st.curIdx = st.files.length)
    (hok : callOk (k, f) = false) :
    (writeCall true st k f).2 = true ∧ described (writeCall true st k f).1 = described st ∧
    (writeCall true st k f).1.curIdx = st.curIdx := by
  cases k with
  | argRejected => simp [writeCall, described]
  | statFails => simp [writeCall, described]
  | proceed =>
    simp only [callOk, beq_self_eq_true, Bool.true_and, Bool.or_eq_false_iff] at hok
    have hget : (st.files ++ [f])[st.curIdx]? = some f := by rw [hinv]; simp
    simp [writeCall, archiveStep, hget, hok.1, hok.2, described]

/-- For every history of write calls with any number of failing calls at any stage
    (argument rejected, stat fails, source fails after registration): each failing call
    raises, each other call does not, and the closed archive describes exactly the members of
    the successful calls, in order, with their sizes and CRCs — as if the failed calls had
    never been made; the failed source is never retried. -/
theorem failed_calls_transparent (calls : List (CallKind × WEntry)) :
    ∀ st : WState, st.curIdx = st.files.length →
      (runCalls true st calls).2 = calls.map (fun c => !callOk c) ∧
      described (runCalls true st calls).1 = described (runCalls true st (calls.filter callOk)).1 ∧
      (runCalls true st calls).1.curIdx = (runCalls true st calls).1.files.length := by
  induction calls with
  | nil => intro st h; simp [runCalls, h]
  | cons c rest ih =>
    intro st hinv
    obtain ⟨k, f⟩ := c
    by_cases hok : callOk (k, f) = true
    · obtain ⟨h1, h2, _⟩ := step_ok st k f hinv hok
      obtain ⟨i1, i2, i3⟩ := ih (writeCall true st k f).1 h2
      simp only [runCalls, List.map_cons, List.filter_cons, hok, if_true, h1, Bool.not_true]
      exact ⟨by rw [i1], i2, i3⟩
    · have hok' : callOk (k, f) = false := by cases h : callOk (k, f) <;> simp_all
      obtain ⟨h1, h2, h3⟩ := step_fail st k f hinv hok'
      have hinv' : (writeCall true st k f).1.curIdx = (writeCall true st k f).1.files.length := by
        have := congrArg Prod.fst h2
        simp only [described] at this
        rw [h3, this]; exact hinv
      obtain ⟨i1, i2, i3⟩ := ih (writeCall true st k f).1 hinv'
      simp only [runCalls, List.map_cons, List.filter_cons, hok', Bool.false_eq_true, if_false, h1, Bool.not_false]
      refine ⟨by rw [i1], ?_, i3⟩
      rw [i2]
      -- the continuation only depends on what is described and on the index
      have key : ∀ (cs : List (CallKind × WEntry)) (a b : WState), described a = described b → a.curIdx = b.curIdx →
          described (runCalls true a cs).1 = described (runCalls true b cs).1 := by
        intro cs
        induction cs with
        | nil => intro a b h _; simpa [runCalls] using h
        | cons c cs ihc =>
          intro a b hd hc
          obtain ⟨k', f'⟩ := c
          simp only [runCalls]
          have hf : a.files = b.files := congrArg Prod.fst hd
          have hs : a.sizes = b.sizes := congrArg (fun x => x.2.1) hd
          have hcr : a.crcs = b.crcs := congrArg (fun x => x.2.2) hd
          apply ihc
          · cases k' <;> simp [writeCall, described, archiveStep, hf, hs, hcr, hc] <;>
              (split <;> simp_all [described]) <;> (try split <;> simp_all [described])
          · cases k' <;> simp [writeCall, archiveStep, hf, hs, hcr, hc] <;>
              (split <;> simp_all) <;> (try split <;> simp_all)
      exact key _ _ _ h2 h3

def bad : WEntry := { name := 1, size := 9, crc := 1, sourceOk := false }
def good : WEntry := { name := 2, size := 4, crc := 2 }

/-- The pinned tree kept a registered member whose source failed and did not advance the
    index: the next call retried the failed source and raised too, and the closed archive
    described a data member without a size (unreadable).  Finding F7, repaired by
    "fix: a write call that fails after registering its member withdraws the member". -/
theorem stale_index_ce :
    (runCalls false {} [(.proceed, bad), (.proceed, good)]).2 = [true, true] ∧
    consistent (runCalls false {} [(.proceed, bad), (.proceed, good)]).1 = false ∧
    (runCalls true {} [(.proceed, bad), (.proceed, good)]).2 = [true, false] ∧
    consistent (runCalls true {} [(.proceed, bad), (.proceed, good)]).1 = true := by
  decide

end SevenZ.C15
