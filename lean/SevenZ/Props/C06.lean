/-
C06 — Reader conformance (assignment of sub-streams to members).
-/
import SevenZ.Model.Assign
import SevenZ.Spec.Format
namespace SevenZ.C06
open SevenZ

/-- what the format assigns, reduced to the slots the implementation model produces -/
def specSlots (flags : List Bool) (nums sizes : List Nat) (crcs : List (Option Nat)) : Option (List Impl.Slot4) :=
  match Spec.assign (flags.map (fun e => ({ emptyStream := e } : Spec.SFile))) nums sizes crcs with
  | .error _ => none
  | .ok ms => some (ms.map (·.stream))

/-- layout: directory between two files of one folder, a folder without streams, a second
    folder — the cursor and the format's definition agree (this layout was misread before
    the repairs F6/F20) -/
theorem interleaved_and_empty_folder_example :
    Impl.assign [false, true, false, true, false] [2, 0, 1] [10, 20, 7] [some 1, none, some 3] =
      specSlots [false, true, false, true, false] [2, 0, 1] [10, 20, 7] [some 1, none, some 3] ∧
    Impl.assign [false, true, false, true, false] [2, 0, 1] [10, 20, 7] [some 1, none, some 3] =
      some [some (0, 0, 10, some 1), none, some (0, 10, 20, none), none, some (2, 0, 7, some 3)] := by
  decide +kernel

end SevenZ.C06
