/-
C06 — Reader conformance (assignment of sub-streams to members).
-/
import SevenZ.Model.Assign
import SevenZ.Spec.Format
import SevenZ.Lemmas.Assign
import SevenZ.Lemmas.Refine
import SevenZ.Lemmas.Session
import SevenZ.Lemmas.RefineFiles
namespace SevenZ.C06
open SevenZ

/-- what the format assigns, reduced to the slots the implementation model produces -/
def specSlots (flags : List Bool) (nums sizes : List Nat) (crcs : List (Option Nat)) : Option (List Impl.Slot4) :=
  match Spec.assign (flags.map (fun e => ({ emptyStream := e } : Spec.SFile))) nums sizes crcs with
  | .error _ => none
  | .ok ms => some (ms.map (·.stream))

/-- layout: directory between two files of one folder, a folder without streams, a second
    folder — the cursor and the format's definition agree (this layout was misread before
    the repairs F6/F20) -/
theorem interleaved_and_empty_folder_example :
    Impl.assign [false, true, false, true, false] [2, 0, 1] [10, 20, 7] [some 1, none, some 3] =
      specSlots [false, true, false, true, false] [2, 0, 1] [10, 20, 7] [some 1, none, some 3] ∧
    Impl.assign [false, true, false, true, false] [2, 0, 1] [10, 20, 7] [some 1, none, some 3] =
      some [some (0, 0, 10, some 1), none, some (0, 10, 20, none), none, some (2, 0, 7, some 3)] := by
  decide +kernel

/-- Reader conformance of the member/sub-stream assignment, for EVERY layout: whenever the
    format assigns sub-streams to the files of a header (any number of files, any interleaving
    of empty-stream entries, any number of folders including folders without streams, any
    sizes and digests, defined or not), py7zr's cursor (`_real_get_contents`) gives every
    member the same folder, the same offset inside the folder's output, the same size and the
    same digest. -/
theorem assign_refines_spec (files : List Spec.SFile) (nums sizes : List Nat) (crcs : List (Option Nat))
    (ms : List Spec.SMember) (h : Spec.assign files nums sizes crcs = .ok ms) :
    Impl.assign (files.map (·.emptyStream)) nums sizes crcs = some (ms.map (·.stream)) := by
  unfold Spec.assign at h
  unfold Impl.assign
  exact assign_refine_go nums sizes crcs _ files 0 0 0 nums sizes crcs ms 0 0 0 0 [] [] [] h rfl rfl rfl rfl rfl rfl
    (Or.inl ⟨rfl, rfl, rfl, rfl, Nat.le_refl _, fun j h1 h2 => by omega⟩)

/-- the format's assignment hands out every sub-stream exactly once, in order: the sizes of
    the members that have a stream are the SubStreams size list (so the refinement above is
    about all of the archive's data, not a prefix of it) -/
theorem spec_assign_uses_all (fuel : Nat) (files : List Spec.SFile) (folder taken off : Nat) (nums sizes : List Nat)
    (crcs : List (Option Nat)) (ms : List Spec.SMember)
    (h : Spec.assignGo fuel files folder taken off nums sizes crcs = .ok ms) :
    (ms.filterMap (·.stream)).map (fun x => x.2.2.1) = sizes := by
  induction fuel generalizing files folder taken off nums sizes crcs ms with
  | zero => simp [Spec.assignGo] at h
  | succ fuel ih =>
    cases files with
    | nil =>
      unfold Spec.assignGo at h
      split at h
      · cases h
      · rename_i hs
        cases h
        simp only [ne_eq, Decidable.not_not] at hs
        simp [hs]
    | cons f fs =>
      unfold Spec.assignGo at h
      by_cases hf : f.emptyStream = true
      · simp only [hf, if_true] at h
        cases hr : Spec.assignGo fuel fs folder taken off nums sizes crcs with
        | error e => rw [hr] at h; cases h
        | ok r =>
          rw [hr] at h
          simp only [Except.map] at h
          cases h
          simpa using ih _ _ _ _ _ _ _ _ hr
      · simp only [hf, Bool.false_eq_true, if_false] at h
        cases nums with
        | nil => cases h
        | cons n ns =>
          simp only at h
          by_cases hge : taken ≥ n
          · simp only [hge, if_true] at h
            exact ih _ _ _ _ _ _ _ _ h
          · simp only [hge, if_false] at h
            cases sizes with
            | nil => cases h
            | cons s ss =>
              cases crcs with
              | nil => cases h
              | cons c cs =>
                simp only at h
                cases hr : Spec.assignGo fuel fs folder (taken + 1) (off + s) (n :: ns) ss cs with
                | error e => rw [hr] at h; cases h
                | ok r =>
                  rw [hr] at h
                  simp only [Except.map] at h
                  cases h
                  simp only [List.filterMap_cons, List.map_cons, List.cons.injEq, true_and]
                  exact ih _ _ _ _ _ _ _ _ hr

example : (Spec.assign [{ emptyStream := false }, { emptyStream := true }, { emptyStream := false }] [1, 0, 1] [4, 6] [some 9, none]).toOption.isSome = true := by
  decide +kernel

/-! ### the parse half: py7zr's reader against the reader written from the format description -/

/-- **PackInfo, for every input.** Whenever the strict reader of the format description accepts a PackInfo section
    at the head of a byte string (any PackPos, any number of packed streams, with or without the CRC section, CRCs all
    defined or partially defined), the model of `PackInfo._read` succeeds on the same bytes, stops at the same place
    and returns the same position and sizes. No assumption about who wrote the bytes. -/
theorem reader_refines_spec_packinfo (s : Bytes) (hs : Inp s) (sp : Spec.SPack) (r : Bytes)
    (h : Spec.sPackInfo s = .ok (sp, r)) :
    ∃ ip, Impl.readPackInfo s = .ok (ip, r) ∧ ip.packpos = sp.packpos ∧ ip.packsizes = sp.sizes ∧
      ip.numstreams = sp.sizes.length := by
  obtain ⟨ip, g, a, b, c, _⟩ := sPackInfo_refines' hs h
  exact ⟨ip, g, a, b, c⟩

/-- **UnpackInfo (folders), for every input.** Whenever the strict reader accepts an UnpackInfo section — any number
    of folders, each with any chain of simple or complex coders, with or without properties, any bind pairs and packed
    stream indices, unpack sizes, and the folder CRC section absent, all-defined or partially defined — the model of
    `UnpackInfo._read` / `Folder._read` succeeds on the same bytes, stops at the same place and returns, folder by
    folder, the same coders (an id-less coder as id `00`), in/out counts, properties, bind pairs, unpack sizes and CRC
    (`folderOf`). -/
theorem reader_refines_spec_unpackinfo (s : Bytes) (hs : Inp s) (fs : List Spec.SFolder) (r : Bytes)
    (h : Spec.sUnpackInfo s = .ok (fs, r)) :
    Impl.readUnpackInfo s = .ok (fs.map folderOf, r) :=
  (sUnpackInfo_refines hs h).1

/-- the primitives under both: NUMBER and boolean vectors are read alike wherever the strict reader accepts them -/
theorem reader_refines_spec_number (s : Bytes) (hs : Inp s) (w : String) (v : Nat) (r : Bytes)
    (h : Spec.sNumber w s = .ok (v, r)) : Impl.pNumber s = .ok (v, r) :=
  (sNumber_refines' hs h).1

theorem reader_refines_spec_boolvector (s : Bytes) (hs : Inp s) (n : Nat) (w : String) (bits : List Bool) (r : Bytes)
    (h : Spec.sBoolList n w s = .ok (bits, r)) : Impl.pBools n true s = .ok (bits, r) :=
  (sBoolList_refines' hs h).1

/-- **The SIZE section of SubStreamsInfo, for every input**: where the strict reader accepts the explicit sub-stream
    sizes of folders with any numbers of streams (zero included) and derives each folder's last size from the
    folder's unpack size, py7zr's reader reads the same sizes from the same bytes — these are the member boundaries
    inside solid folders. `OneOut`: each folder has one result stream (py7zr takes the LAST unbound output, the
    description the FIRST; folders with several unbound outputs are outside what either reader can decode). -/
theorem reader_refines_spec_subsizes (ns : List Nat) (fs : List Spec.SFolder) (s : Bytes) (hs : Inp s)
    (h1 : ∀ f ∈ fs, OneOut f) (out : List Nat) (r : Bytes) (h : Spec.sSubSizes ns fs s = .ok (out, r)) :
    Impl.readSubSizes ns (fs.map folderOf) s = .ok (out, r) :=
  (sSubSizes_refines ns fs s out r hs h1 h).1

/-- **The whole StreamsInfo record, for every input.** Whenever the strict reader accepts a StreamsInfo (PackInfo,
    UnpackInfo and SubStreamsInfo each present or absent; NumUnpackStream explicit or omitted; SIZE section present or
    absent; digest section present or absent, with folder CRCs or not) whose folders have one result stream each,
    the model of `StreamsInfo.read` — with its count guard `sum(NumUnpackStream) <= 8 * header size`, which the proof
    shows never fires on an accepted record — succeeds on the same bytes, stops at the same place and returns the same
    pack position and sizes, the same folders (`folderOf`), the same stream counts per folder and the same
    sub-stream sizes (explicit where the SIZE section exists; where it does not, no folder has more than one stream
    and py7zr derives the sizes from the folders later). Only the distribution of the digests is not compared (py7zr
    keeps no folder CRC as a member CRC when the digest section is absent). With `assign_refines_spec` this is reader
    conformance of everything that decides which bytes a member gets, as a theorem over all inputs. -/
theorem reader_refines_spec_streams (total : Nat) (s : Bytes) (hs : Inp s) (hst : s.length ≤ total)
    (ss : Spec.SStreams) (r : Bytes) (hone : ∀ f ∈ ss.folders, OneOut f) (h : Spec.sStreams s = .ok (ss, r)) :
    ∃ st, Impl.readStreams total s = .ok (st, r) ∧
      (∀ sp, ss.pack = some sp → ∃ ip, st.packinfo = some ip ∧ ip.packpos = sp.packpos ∧ ip.packsizes = sp.sizes) ∧
      (ss.pack = none → st.packinfo = none) ∧
      st.folders.getD [] = ss.folders.map folderOf ∧
      (∀ x, st.substreams = some x → x.numUnpack = ss.numUnpack ∧
        (x.unpacksizes = some ss.subSizes ∨ (x.unpacksizes = none ∧ ss.numUnpack.any (· > 1) = false))) ∧
      (st.substreams = none → ss.numUnpack = ss.folders.map (fun _ => 1)) := by
  obtain ⟨st, a, b, c, d, e, f, _⟩ := sStreams_refines hs hst hone h
  exact ⟨st, a, b, c, d, e, f⟩

/-- **Time and attribute vectors, for every input** (the bodies of the CTime / ATime / MTime / Attributes properties of
    FilesInfo): where the strict reader accepts a BooleanList + external byte + the values of the defined entries —
    all defined, partially defined or none defined — py7zr's reader reads the same bytes and stores, entry by entry,
    the value or "undefined". -/
theorem reader_refines_spec_times (k : Impl.TimeKind) (w : String) (files : List FileEntry) (vals : List (Option Nat))
    (s r : Bytes) (hs : Inp s) (h : Spec.sOptVector files.length 8 w s = .ok (vals, r)) :
    (do
      let defined ← Impl.pBools files.length true
      let ext ← Impl.read1
      if ext ≠ some 0 then Impl.fail .malformed else Impl.setTimes k files defined : P (List FileEntry)) s =
      .ok ((files.zip vals).map (fun (f, v) => Impl.setTime k f (slotOfOpt v)), r) :=
  (sOptVector_times_refines k w files vals s r hs h).1

theorem reader_refines_spec_attrs (w : String) (files : List FileEntry) (vals : List (Option Nat))
    (s r : Bytes) (hs : Inp s) (h : Spec.sOptVector files.length 4 w s = .ok (vals, r)) :
    (do
      let defined ← Impl.pBools files.length true
      let ext ← Impl.read1
      if ext = some 0 then Impl.setAttrs files defined else Impl.fail .unsupported : P (List FileEntry)) s =
      .ok ((files.zip vals).map (fun (f, v) => { f with attributes := slotOfOpt v }), r) :=
  (sOptVector_attrs_refines w files vals s r hs h).1

/-- the bit fields of FilesInfo (EmptyStream, EmptyFile): where the strict reader accepts `n` bits — most significant
    first, padding bits zero — py7zr's bit loop reads the same bits from the same bytes -/
theorem reader_refines_spec_bitfield (n : Nat) (w : String) (s : Bytes) (hs : Inp s) (bits : List Bool) (r : Bytes)
    (h : Spec.sBitField n w s = .ok (bits, r)) : Impl.readBits n s = some (bits, r) :=
  (sBitField_refines hs.1 h).1

/-- **The next-header buffer as a whole, when it is an EncodedHeader record.** Every byte string the strict reader
    accepts as an EncodedHeader record (id 0x17, a StreamsInfo, nothing behind it) is recognised as one by the model
    of `Header._read`, with the same position and size of the packed header and the same folder — whoever wrote
    it: this is the step that decides WHERE py7zr looks for the packed header and WITH WHICH CODERS it decodes it. -/
theorem reader_refines_spec_encoded_record (buf : Bytes) (hb : Inp buf) (ss : Spec.SStreams)
    (hone : ∀ f ∈ ss.folders, OneOut f) (h : Spec.readTop buf = .ok (.encoded ss)) :
    ∃ st, Impl.readNextHeader buf = .ok (.encoded st) ∧
      (∀ sp, ss.pack = some sp → ∃ ip, st.packinfo = some ip ∧ ip.packpos = sp.packpos ∧ ip.packsizes = sp.sizes) ∧
      st.folders.getD [] = ss.folders.map folderOf := by
  unfold Spec.readTop at h
  split at h
  · simp at h
  · rename_i rest
    cases hh : Spec.sHeaderBody rest with
    | error e => simp [hh, Except.map] at h
    | ok v => simp [hh, Except.map] at h
  · rename_i rest
    cases hs : Spec.sStreams rest with
    | error e => simp [hs] at h
    | ok v =>
      obtain ⟨s', r⟩ := v
      cases r with
      | cons x xs => simp [hs] at h
      | nil =>
        simp only [hs, Except.ok.injEq, Spec.Top.encoded.injEq] at h
        subst h
        have hi : Inp rest := hb.tail
        obtain ⟨st, g, a, _, c, _, _, _⟩ := sStreams_refines (total := (0x17 :: rest).length) hi (by simp) hone hs
        refine ⟨st, ?_, a, c⟩
        simp only [Impl.readNextHeader, g, Except.map]
  · simp at h

/-- **The Names property, for every input**: where the strict reader splits the body of the Names property into one
    name per member (UTF-16-LE, zero-terminated, the body used up exactly), py7zr's per-member loop
    (`read_utf16` + the backslash rewrite) reads the same names from the same bytes and leaves nothing over — for
    names of fewer than 32768 characters (`read_utf16` stops after 65535 units). -/
theorem reader_refines_spec_names (files : List FileEntry) (names : List (List Nat)) (fuel : Nat) (body : Bytes)
    (hb : IsBytes body) (hl : files.length = names.length) (hlen : ∀ cs ∈ names, 2 * cs.length < maxLength)
    (h : Spec.splitNames fuel body [] = .ok names) :
    Impl.setNames files body = .ok ((files.zip names).map (fun (f, cs) => { f with filename := some (Impl.fixSlash cs) }), []) :=
  setNames_refines files names fuel body hb hl hlen h

/-- **py7zr never misreads a header the format defines.** For every next-header buffer (fewer than 131072 bytes, so
    that no name exceeds `read_utf16`'s limit; folders with one result stream) that the strict reader accepts as a
    raw Header — any StreamsInfo, any FilesInfo with its properties in any order: EmptyStream, EmptyFile, Names,
    CTime / ATime / MTime, Attributes, Dummy padding, also Anti and StartPos — the model of `Header._read` either
    returns a header object that agrees with the strict reader's (`HeaderRel`: pack position and sizes, folders,
    stream counts, sub-stream sizes, and member by member the empty-stream flag, the name with backslashes rewritten,
    the three times and the attribute word, defined or not) or raises (py7zr supports neither Anti nor StartPos). It
    never succeeds with other values. With `assign_refines_spec` and the codec assumptions this is the whole of
    C06's "read as the format defines it" at header level, for every input rather than for the layouts explored. -/
theorem reader_never_misreads_header (buf : Bytes) (hb : Inp buf) (hshort : buf.length < 2 * maxLength)
    (sh : Spec.SHeader) (hone : ∀ ss, sh.streams = some ss → ∀ f ∈ ss.folders, OneOut f)
    (h : Spec.readTop buf = .ok (.raw sh)) :
    (∃ H, Impl.readNextHeader buf = .ok (.raw H) ∧ HeaderRel sh H) ∨ (∃ e, Impl.readNextHeader buf = .error e) := by
  unfold Spec.readTop at h
  split at h
  · simp at h
  · rename_i rest
    cases hh : Spec.sHeaderBody rest with
    | error e => simp [hh, Except.map] at h
    | ok v =>
      obtain ⟨sh', r⟩ := v
      simp only [hh, Except.map, Except.ok.injEq, Spec.Top.raw.injEq] at h
      subst h
      have hi : Inp rest := hb.tail
      rcases sHeaderBody_safe (total := (0x01 :: rest).length) hi (by simp) (by simp at hshort ⊢; omega) hone hh with ⟨H, g, hr⟩ | ⟨e, g⟩
      · exact Or.inl ⟨H, by simp only [Impl.readNextHeader, g, Except.map], hr⟩
      · exact Or.inr ⟨e, by simp only [Impl.readNextHeader, g, Except.map]⟩
  · rename_i rest
    cases hs : Spec.sStreams rest with
    | error e => simp [hs] at h
    | ok v =>
      obtain ⟨s', r⟩ := v
      cases r <;> simp [hs] at h
  · simp at h

theorem filesRel_flags {sfs : List Spec.SFile} {fes : List FileEntry} (h : FilesRel sfs fes) :
    fes.map (·.emptystream) = sfs.map (·.emptyStream) := by
  induction h with
  | nil => rfl
  | cons h1 _ ih => simp [ih, h1.1]

/-- **Header parse and cursor together.** When py7zr's reader model has read a header the strict reader accepts
    (`HeaderRel`, from `reader_never_misreads_header`) and the SubStreamsInfo carries explicit sizes, the cursor of
    `_real_get_contents` run on what py7zr's reader returned — its stream counts, its sizes, its empty-stream flags —
    gives every member the folder, offset and size the FORMAT assigns to it (`Spec.members`), digests as the format
    assigns them. Parsing and assignment are thereby one statement about arbitrary accepted input. -/
theorem reader_assigns_as_format (sh : Spec.SHeader) (H : Header) (hr : HeaderRel sh H) (ss : Spec.SStreams)
    (hs : sh.streams = some ss) (hf : sh.hasFiles = true) (ms : List Spec.SMember) (hm : Spec.members sh = .ok ms) :
    ∃ st fi, H.mainStreams = some st ∧ H.filesInfo = some fi ∧
      ∀ x sizesI, st.substreams = some x → x.unpacksizes = some sizesI →
        Impl.assign (fi.files.map (·.emptystream)) x.numUnpack sizesI ss.subCrcs = some (ms.map (·.stream)) := by
  obtain ⟨h1, _, h3, _⟩ := hr
  obtain ⟨st, hst, _, _, hsub, _⟩ := h1 ss hs
  obtain ⟨fi, hfi, hrel⟩ := h3 hf
  refine ⟨st, fi, hst, hfi, ?_⟩
  intro x sizesI hx hsz
  obtain ⟨hn, hz⟩ := hsub x hx
  have hsizes : sizesI = ss.subSizes := by
    rcases hz with h | h
    · rw [hsz] at h; exact Option.some.inj h
    · rw [hsz] at h; simp at h
  unfold Spec.members at hm
  simp only [hs] at hm
  have := assign_refines_spec sh.files ss.numUnpack ss.subSizes ss.subCrcs ms hm
  rw [filesRel_flags hrel, hn, hsizes]
  exact this

-- non-vacuity: a raw header with one stream-less member named "a" (Names, then EmptyStream) is accepted by the strict
-- reader and read by py7zr's model
example : (match Spec.readTop [0x01, 0x05, 0x01, 0x11, 0x05, 0x00, 0x61, 0x00, 0x00, 0x00, 0x0E, 0x01, 0x80, 0x00, 0x00] with
      | .ok (.raw sh) => sh.files.map (fun f => (f.name, f.emptyStream)) | _ => []) = [(some [0x61], true)] ∧
    (match Impl.readNextHeader [0x01, 0x05, 0x01, 0x11, 0x05, 0x00, 0x61, 0x00, 0x00, 0x00, 0x0E, 0x01, 0x80, 0x00, 0x00] with
      | .ok (.raw H) => (H.filesInfo.map (fun fi => fi.files.map (fun f => (f.filename, f.emptystream)))) | _ => none) =
      some [(some [0x61], true)] := by decide +kernel

/-- every folder whose coders are chained linearly without bind pairs to spare — one coder, no bind pair — has one
    result (the shape of every folder of a one-coder chain) -/
theorem oneOut_single (f : Spec.SFolder) (hb : f.bindpairs = []) (hu : f.unpackSizes.length ≤ 1) : OneOut f := by
  intro i j hi hj _ _; omega

/-- every linearly chained folder — coder i+1 fed by coder i, as py7zr and 7-Zip write their simple chains, of any
    length — has exactly one result stream: the hypothesis `OneOut` of the theorems above holds for them -/
theorem oneOut_linear (f : Spec.SFolder) (hb : f.bindpairs = linearPairs f.unpackSizes.length) : OneOut f := by
  intro i j hi hj h1 h2
  rw [hb, linearPairs_out] at h1 h2
  simp only [Bool.not_eq_true', decide_eq_false_iff_not] at h1 h2
  omega

-- non-vacuity: an UnpackInfo with two folders (Copy; BCJ2-like complex coder omitted), folder CRCs partially defined
example : (Spec.sUnpackInfo [0x0B, 0x02, 0x00, 0x01, 0x01, 0x00, 0x01, 0x21, 0x21, 0x01, 0x18,
      0x0C, 0x05, 0x07, 0x0A, 0x00, 0x80, 0x78, 0x56, 0x34, 0x12, 0x00, 0xEE]).toOption.map (fun x => (x.1.length, x.2)) = some (2, [0xEE]) ∧
    Inp [0x0B, 0x02, 0x00, 0x01, 0x01, 0x00, 0x01, 0x21, 0x21, 0x01, 0x18,
      0x0C, 0x05, 0x07, 0x0A, 0x00, 0x80, 0x78, 0x56, 0x34, 0x12, 0x00, 0xEE] := by
  refine ⟨by decide +kernel, ?_, by decide⟩
  intro b hb; simp at hb; omega

end SevenZ.C06
