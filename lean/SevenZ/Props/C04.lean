/-
C04 — Damage is detected (what CRC-32 protection guarantees with certainty).
-/
import SevenZ.Lemmas.Crc32
namespace SevenZ.C04
open SevenZ

/-- Two byte strings of equal length that differ only inside four consecutive bytes — any
    single flipped bit, any burst of up to 32 bits — have different CRC-32, from every
    starting value.  (Linear-register argument; no enumeration, no SAT.) -/
theorem crc32_detects_burst (pre post mid1 mid2 : Bytes) (hlen : mid1.length = mid2.length)
    (h4 : mid1.length ≤ 4) (hne : mid1 ≠ mid2) (hb1 : IsBytes mid1) (hb2 : IsBytes mid2) (value : Nat) :
    crc32Update value (pre ++ mid1 ++ post) ≠ crc32Update value (pre ++ mid2 ++ post) :=
  SevenZ.crc32_detects_burst pre post mid1 mid2 hlen h4 hne hb1 hb2 value

/-- a CRC-protected region (start header, raw next header, a stored member) as py7zr checks it -/
def verify (stored : Nat) (region : Bytes) : Bool := crc32 region == stored

/-- if the pristine region verifies, the same region with a burst of ≤ 32 bits of damage does
    not: the read fails instead of succeeding with different content -/
theorem verify_rejects_burst (stored : Nat) (pre post mid1 mid2 : Bytes) (hlen : mid1.length = mid2.length)
    (h4 : mid1.length ≤ 4) (hne : mid1 ≠ mid2) (hb1 : IsBytes mid1) (hb2 : IsBytes mid2)
    (hok : verify stored (pre ++ mid1 ++ post) = true) : verify stored (pre ++ mid2 ++ post) = false := by
  unfold verify crc32 at *
  have h1 : crc32Update 0 (pre ++ mid1 ++ post) = stored := by simpa using hok
  have := crc32_detects_burst pre post mid1 mid2 hlen h4 hne hb1 hb2 0
  rw [h1] at this
  simp only [beq_eq_false_iff_ne, ne_eq]
  exact fun e => this e.symm

/-- a single flipped bit in a single byte is a burst -/
theorem single_byte_change_detected (stored : Nat) (pre post : Bytes) (b b' : Nat) (hb : b < 256) (hb' : b' < 256)
    (hne : b ≠ b') (hok : verify stored (pre ++ [b] ++ post) = true) : verify stored (pre ++ [b'] ++ post) = false :=
  verify_rejects_burst stored pre post [b] [b'] rfl (by simp) (by simpa using hne)
    (by intro x hx; simp at hx; omega) (by intro x hx; simp at hx; omega) hok

/-- block-wise accumulation (calculate_crc32 with any block size, the incremental CRC of
    Worker.decompress) is the CRC of the concatenation -/
theorem crc32Update_append (value : Nat) (a b : Bytes) :
    crc32Update (crc32Update value a) b = crc32Update value (a ++ b) := by
  unfold crc32Update crcFeed
  rw [bitsOf_append, List.foldl_append]
  congr 2
  rw [BitVec.ofNat_toNat, BitVec.setWidth_eq, BitVec.xor_assoc]
  simp

/-- … for every way of cutting the data into blocks (any block size, any sequence of short
    reads): folding the blocks into the running value gives the CRC of the whole -/
theorem crc32_chunked (value : Nat) (first : Bytes) (chunks : List Bytes) :
    chunks.foldl crc32Update (crc32Update value first) = crc32Update value (first ++ chunks.flatten) := by
  induction chunks generalizing first with
  | nil => simp
  | cons c cs ih =>
    rw [List.foldl_cons, crc32Update_append, ih (first ++ c)]
    simp [List.append_assoc]

/-- so the burst guarantee does not depend on how the reader happened to block the data:
    a pristine region that verifies when accumulated block-wise fails to verify, under every
    other blocking, once ≤ 32 consecutive bits are damaged -/
theorem chunked_verify_rejects_burst (stored : Nat) (pre post mid1 mid2 : Bytes)
    (f1 f2 : Bytes) (cs1 cs2 : List Bytes)
    (e1 : f1 ++ cs1.flatten = pre ++ mid1 ++ post) (e2 : f2 ++ cs2.flatten = pre ++ mid2 ++ post)
    (hlen : mid1.length = mid2.length) (h4 : mid1.length ≤ 4) (hne : mid1 ≠ mid2)
    (hb1 : IsBytes mid1) (hb2 : IsBytes mid2)
    (hok : cs1.foldl crc32Update (crc32Update 0 f1) = stored) :
    cs2.foldl crc32Update (crc32Update 0 f2) ≠ stored := by
  rw [crc32_chunked, e1] at hok
  rw [crc32_chunked, e2, ← hok]
  exact fun e => crc32_detects_burst pre post mid1 mid2 hlen h4 hne hb1 hb2 0 e.symm

example : crc32 [0x31, 0x32, 0x33, 0x34, 0x35, 0x36, 0x37, 0x38, 0x39] = 0xCBF43926 := by decide +kernel
example : verify 0xCBF43926 ([0x31, 0x32] ++ [0x33] ++ [0x34, 0x35, 0x36, 0x37, 0x38, 0x39]) = true := by decide +kernel

end SevenZ.C04
