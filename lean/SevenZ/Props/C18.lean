/-
C18 — Progress callbacks give a complete, well-ordered account.
-/
import SevenZ.Model.Progress
namespace SevenZ.C18
open SevenZ SevenZ.Impl

/-! ### generic facts about interleavings -/

theorem shuffle_filter {α : Type} (p : α → Bool) {a b l : List α} (h : Shuffle a b l) :
    Shuffle (a.filter p) (b.filter p) (l.filter p) := by
  induction h with
  | nil => exact .nil
  | left x _ ih =>
    simp only [List.filter_cons]
    split
    · exact .left x ih
    · exact ih
  | right y _ ih =>
    simp only [List.filter_cons]
    split
    · exact .right y ih
    · exact ih

theorem shuffle_nil_left {α : Type} {b l : List α} (h : Shuffle [] b l) : l = b := by
  generalize ha : ([] : List α) = a at h
  induction h with
  | nil => rfl
  | left x _ _ => cases ha
  | right y _ ih => rw [ih ha]

theorem shuffle_nil_right {α : Type} {a l : List α} (h : Shuffle a [] l) : l = a := by
  generalize hb : ([] : List α) = b at h
  induction h with
  | nil => rfl
  | left x _ ih => rw [ih hb]
  | right y _ _ => cases hb

theorem interleave_filter {α : Type} (p : α → Bool) {ws : List (List α)} {l : List α} (h : Interleave ws l) :
    Interleave (ws.map (List.filter p)) (l.filter p) := by
  induction h with
  | nil => exact .nil
  | cons _ hs ih => exact .cons ih (shuffle_filter p hs)

theorem interleave_all_nil {α : Type} {ws : List (List α)} {l : List α} (h : Interleave ws l) (hn : ∀ w ∈ ws, w = []) : l = [] := by
  induction h with
  | nil => rfl
  | @cons w0 ws0 rest l0 _ hs ih =>
    have h0 : w0 = [] := hn w0 (by simp)
    subst h0
    rw [shuffle_nil_left hs]
    exact ih (fun w hw => hn w (by simp [hw]))

/-- if only one worker has elements satisfying `p`, every interleaving shows exactly that
    worker's `p`-elements, in the worker's order -/
theorem interleave_project {α : Type} (p : α → Bool) {ws : List (List α)} {l : List α} (h : Interleave ws l)
    (pre post : List (List α)) (w : List α) (hws : ws = pre ++ w :: post)
    (hpre : ∀ v ∈ pre, v.filter p = []) (hpost : ∀ v ∈ post, v.filter p = []) :
    l.filter p = w.filter p := by
  induction h generalizing pre with
  | nil => cases pre <;> simp at hws
  | @cons w0 ws0 rest l0 hi hs ih =>
    cases pre with
    | nil =>
      simp only [List.nil_append, List.cons.injEq] at hws
      obtain ⟨rfl, rfl⟩ := hws
      have hr : rest.filter p = [] := by
        have := interleave_filter p hi
        exact interleave_all_nil this (by
          intro v hv
          simp only [List.mem_map] at hv
          obtain ⟨u, hu, rfl⟩ := hv
          exact hpost u hu)
      have := shuffle_filter p hs
      rw [hr] at this
      exact shuffle_nil_right this
    | cons v pre' =>
      simp only [List.cons_append, List.cons.injEq] at hws
      obtain ⟨rfl, rfl⟩ := hws
      have hv : w0.filter p = [] := hpre w0 (by simp)
      have := shuffle_filter p hs
      rw [hv] at this
      rw [shuffle_nil_left this]
      exact ih pre' rfl (fun u hu => hpre u (by simp [hu]))

theorem shuffle_perm {α : Type} {a b l : List α} (h : Shuffle a b l) : l.Perm (a ++ b) := by
  induction h with
  | nil => exact .refl _
  | left x _ ih => exact .cons x ih
  | right y _ ih => exact (List.Perm.cons y ih).trans (List.perm_middle.symm)

theorem interleave_perm {α : Type} {ws : List (List α)} {l : List α} (h : Interleave ws l) : l.Perm ws.flatten := by
  induction h with
  | nil => exact .refl _
  | cons _ hs ih => exact (shuffle_perm hs).trans (List.Perm.append_left _ ih)

/-! ### the events of one member, one worker -/

theorem filter_about_memberEvents_self (m : PMember) : (memberEvents m).filter (about m.id) = memberEvents m := by
  unfold memberEvents
  rw [List.filter_eq_self]
  intro e he
  simp only [List.mem_append, List.mem_singleton] at he
  rcases he with (rfl | he) | rfl
  · simp [about]
  · split at he
    · simp only [List.mem_map] at he
      obtain ⟨c, _, rfl⟩ := he
      simp [about]
    · simp at he
  · simp [about]

theorem filter_about_memberEvents_other (m : PMember) (k : Nat) (h : m.id ≠ k) : (memberEvents m).filter (about k) = [] := by
  unfold memberEvents
  rw [List.filter_eq_nil_iff]
  intro e he
  simp only [List.mem_append, List.mem_singleton] at he
  rcases he with (rfl | he) | rfl
  · simp [about, h]
  · split at he
    · simp only [List.mem_map] at he
      obtain ⟨c, _, rfl⟩ := he
      simp [about, h]
    · simp at he
  · simp [about, h]

theorem filter_about_worker_other (ms : List PMember) (k : Nat) (h : ∀ m ∈ ms, m.id ≠ k) : (workerEvents ms).filter (about k) = [] := by
  induction ms with
  | nil => rfl
  | cons m ms ih =>
    simp only [workerEvents, List.flatMap_cons, List.filter_append]
    rw [filter_about_memberEvents_other m k (h m (by simp))]
    exact ih (fun m' hm' => h m' (by simp [hm']))

theorem filter_about_worker_self (ms : List PMember) (m : PMember) (hm : m ∈ ms) (hnd : (ms.map (·.id)).Nodup) :
    (workerEvents ms).filter (about m.id) = memberEvents m := by
  induction ms with
  | nil => simp at hm
  | cons m0 ms ih =>
    simp only [List.map_cons, List.nodup_cons] at hnd
    simp only [workerEvents, List.flatMap_cons, List.filter_append]
    simp only [List.mem_cons] at hm
    rcases hm with rfl | hm
    · rw [filter_about_memberEvents_self]
      have : (workerEvents ms).filter (about m.id) = [] := filter_about_worker_other ms m.id (by
        intro m' hm' e
        exact hnd.1 (by rw [← e]; exact List.mem_map_of_mem hm'))
      simp only [workerEvents] at this
      rw [this, List.append_nil]
    · have hne : m0.id ≠ m.id := by
        intro e
        exact hnd.1 (by rw [e]; exact List.mem_map_of_mem hm)
      rw [filter_about_memberEvents_other m0 m.id hne, List.nil_append]
      exact ih hm hnd.2

/-! ### the property -/

/-- Per-member pairing under every interleaving.  Member ids pairwise distinct over the whole
    archive; `l` any interleaving of the workers' event lists.  Then the events concerning a
    member are, in this order: its one start, its updates, its one end carrying its size. -/
theorem member_events_well_ordered (pre post : List (List PMember)) (ms : List PMember) (l : List PEv)
    (h : Interleave ((pre ++ ms :: post).map workerEvents) l)
    (hnd : ((pre ++ ms :: post).flatten.map (·.id)).Nodup) (m : PMember) (hm : m ∈ ms) :
    (queued l).filter (about m.id) = memberEvents m := by
  have hflat : (pre ++ ms :: post).flatten = pre.flatten ++ (ms ++ post.flatten) := by simp
  rw [hflat, List.map_append, List.map_append] at hnd
  have hnd_ms : (ms.map (·.id)).Nodup := (List.nodup_append.1 (List.nodup_append.1 hnd).2.1).1
  have hother_pre : ∀ v ∈ pre.map workerEvents, v.filter (about m.id) = [] := by
    intro v hv
    simp only [List.mem_map] at hv
    obtain ⟨ms', hms', rfl⟩ := hv
    apply filter_about_worker_other
    intro m' hm' e
    have h1 : m'.id ∈ pre.flatten.map (·.id) := List.mem_map_of_mem (List.mem_flatten.2 ⟨ms', hms', hm'⟩)
    have h2 : m.id ∈ ms.map (·.id) ++ post.flatten.map (·.id) := List.mem_append_left _ (List.mem_map_of_mem hm)
    exact (List.nodup_append.1 hnd).2.2 _ h1 _ h2 e
  have hother_post : ∀ v ∈ post.map workerEvents, v.filter (about m.id) = [] := by
    intro v hv
    simp only [List.mem_map] at hv
    obtain ⟨ms', hms', rfl⟩ := hv
    apply filter_about_worker_other
    intro m' hm' e
    have h1 : m'.id ∈ post.flatten.map (·.id) := List.mem_map_of_mem (List.mem_flatten.2 ⟨ms', hms', hm'⟩)
    have h2 : m.id ∈ ms.map (·.id) := List.mem_map_of_mem hm
    exact (List.nodup_append.1 (List.nodup_append.1 hnd).2.1).2.2 _ h2 _ h1 e.symm
  have hproj := interleave_project (about m.id) h (pre.map workerEvents) (post.map workerEvents) (workerEvents ms)
    (by simp) hother_pre hother_post
  simp only [queued, List.filter_cons, List.filter_append, about, List.filter_nil]
  simp only [Bool.false_eq_true, if_false, List.append_nil]
  rw [hproj]
  exact filter_about_worker_self ms m hm hnd_ms

/-- corollary: exactly one start and exactly one end per processed member, the end carrying the size -/
theorem one_start_one_end (pre post : List (List PMember)) (ms : List PMember) (l : List PEv)
    (h : Interleave ((pre ++ ms :: post).map workerEvents) l)
    (hnd : ((pre ++ ms :: post).flatten.map (·.id)).Nodup) (m : PMember) (hm : m ∈ ms) :
    (queued l).filter (isStartOf m.id) = [.start m.id] ∧ (queued l).filter (isFinishOf m.id) = [.finish m.id m.size] := by
  have hmain := member_events_well_ordered pre post ms l h hnd m hm
  have hs : ∀ e, isStartOf m.id e = (isStartOf m.id e && about m.id e) := by
    intro e; cases e <;> simp [isStartOf, about]
  have hf : ∀ e, isFinishOf m.id e = (isFinishOf m.id e && about m.id e) := by
    intro e; cases e <;> simp [isFinishOf, about]
  constructor
  · have : (queued l).filter (isStartOf m.id) = ((queued l).filter (about m.id)).filter (isStartOf m.id) := by
      rw [List.filter_filter]; congr 1; funext e; exact hs e
    rw [this, hmain]
    simp only [memberEvents, List.filter_append, List.filter_cons, isStartOf, List.filter_nil]
    have : (if m.delivered then m.chunks.map (PEv.update m.id) else []).filter (isStartOf m.id) = [] := by
      rw [List.filter_eq_nil_iff]; intro e he
      split at he
      · simp only [List.mem_map] at he; obtain ⟨c, _, rfl⟩ := he; simp [isStartOf]
      · simp at he
    simp [this]
  · have : (queued l).filter (isFinishOf m.id) = ((queued l).filter (about m.id)).filter (isFinishOf m.id) := by
      rw [List.filter_filter]; congr 1; funext e; exact hf e
    rw [this, hmain]
    simp only [memberEvents, List.filter_append, List.filter_cons, isFinishOf, List.filter_nil]
    have : (if m.delivered then m.chunks.map (PEv.update m.id) else []).filter (isFinishOf m.id) = [] := by
      rw [List.filter_eq_nil_iff]; intro e he
      split at he
      · simp only [List.mem_map] at he; obtain ⟨c, _, rfl⟩ := he; simp [isFinishOf]
      · simp at he
    simp [this]

/-- preparation first, post-processing last -/
theorem pre_first_post_last (l : List PEv) : (queued l).head? = some .pre ∧ (queued l).getLast? = some .post := by
  constructor
  · rfl
  · show (PEv.pre :: (l ++ [PEv.post])).getLast? = some PEv.post
    rw [← List.cons_append]
    exact List.getLast?_concat

theorem updBytes_memberEvents (m : PMember) : ((memberEvents m).map updBytes).sum = if m.delivered then m.chunks.sum else 0 := by
  unfold memberEvents
  simp only [List.map_append, List.sum_append, List.map_cons, List.map_nil, updBytes, List.sum_cons, List.sum_nil]
  split
  · simp only [List.map_map]
    have : (updBytes ∘ PEv.update m.id) = id := by funext c; rfl
    rw [this]; simp
  · simp

theorem updBytes_workerEvents (ms : List PMember) :
    ((workerEvents ms).map updBytes).sum = (ms.map (fun m => if m.delivered then m.chunks.sum else 0)).sum := by
  induction ms with
  | nil => rfl
  | cons m ms ih =>
    simp only [workerEvents, List.flatMap_cons, List.map_append, List.sum_append, List.map_cons, List.sum_cons]
    rw [updBytes_memberEvents]
    simp only [workerEvents] at ih
    rw [ih]

/-- the update events sum to the bytes decoded for delivered members, under every interleaving
    (given that each member's updates sum to its size — `updates_sum_decoded` below) -/
theorem updates_sum (wss : List (List PMember)) (l : List PEv) (h : Interleave (wss.map workerEvents) l)
    (hch : ∀ ms ∈ wss, ∀ m ∈ ms, m.delivered = true → m.chunks.sum = m.size) :
    ((queued l).map updBytes).sum = ((wss.flatten.filter (·.delivered)).map (·.size)).sum := by
  have hp := interleave_perm h
  have h1 : ((queued l).map updBytes).sum = (l.map updBytes).sum := by
    simp [queued, updBytes]
  rw [h1, ((hp.map updBytes).sum_nat)]
  clear hp h h1
  induction wss with
  | nil => rfl
  | cons ms wss ih =>
    simp only [List.map_cons, List.flatten_cons, List.map_append, List.sum_append, List.filter_append]
    rw [ih (fun ms' hms' => hch ms' (by simp [hms'])), updBytes_workerEvents]
    congr 1
    have hms := hch ms (by simp)
    clear ih hch
    induction ms with
    | nil => rfl
    | cons m ms ihm =>
      simp only [List.map_cons, List.sum_cons, List.filter_cons]
      rw [ihm (fun m' hm' => hms m' (by simp [hm']))]
      by_cases hd : m.delivered = true
      · simp [hd, hms m (by simp) hd]
      · simp [hd]

/-- `Worker.decompress` accounting: whatever iterations trigger a periodic update, the reported
    amounts add up to the bytes decoded (the counter is reset after each report) -/
theorem updates_sum_decoded (acc : Nat) (its : List (Nat × Bool)) (hne : its ≠ []) :
    (updatesGo acc its).sum = acc + (its.map (·.1)).sum := by
  induction its generalizing acc with
  | nil => exact absurd rfl hne
  | cons it rest ih =>
    obtain ⟨n, due⟩ := it
    cases rest with
    | nil => simp [updatesGo]
    | cons it2 rest2 =>
      unfold updatesGo
      split
      · simp only [List.sum_cons, List.map_cons]
        rw [ih 0 (by simp)]
        simp only [List.map_cons, List.sum_cons]; omega
      · rw [ih (acc + n) (by simp)]
        simp only [List.map_cons, List.sum_cons]; omega

/-! ### the queue and close() -/

theorem drain_sentinel (q : List PEv) (after : List (Option PEv)) : drain (q.map some ++ none :: after) = q := by
  induction q with
  | nil => rfl
  | cons e q ih => simp only [List.map_cons, List.cons_append, drain, ih]

/-- FIFO invariant under every interleaving of producers (enq) and the reporter (deq): what was
    delivered followed by what is pending is exactly what was enqueued, in enqueue order -/
theorem queue_invariant (ops : List QOp) :
    let s := ops.foldl qstep qinit
    s.delivered ++ s.pending = s.hist := by
  suffices h : ∀ s : QState, s.delivered ++ s.pending = s.hist →
      (ops.foldl qstep s).delivered ++ (ops.foldl qstep s).pending = (ops.foldl qstep s).hist from h qinit rfl
  induction ops with
  | nil => intro s hs; exact hs
  | cons op ops ih =>
    intro s hs
    apply ih
    cases op with
    | enq e => simp only [qstep]; rw [← List.append_assoc, hs]
    | deq =>
      simp only [qstep]
      split
      · exact hs
      · rename_i x r hp
        rw [hp] at hs
        simp only [List.append_assoc, List.singleton_append]; exact hs

/-- All events are delivered before close() returns (close waits for the reporter): whatever the
    interleaving so far, close leaves exactly the enqueue history delivered. -/
theorem close_delivers_all (ops : List QOp) :
    closeDelivers (ops.foldl qstep qinit) none = (ops.foldl qstep qinit).hist := by
  simp only [closeDelivers]
  exact queue_invariant ops

/-- The pinned `join(1)`: with a backlog larger than what the reporter manages within the
    time-out, close() gives up with events still undelivered (they arrive after close). -/
theorem close_timeout_ce :
    let s := [QOp.enq .pre, .enq (.start 0), .enq (.finish 0 5), .enq .post].foldl qstep qinit
    closeDelivers s (some 1) = [.pre] ∧ closeDelivers s none = [.pre, .start 0, .finish 0 5, .post] := by
  decide

example : updatesGo 0 [(100, false), (100, true), (50, false), (6, false)] = [200, 56] := by decide

end SevenZ.C18
