/-
C11 — Encryption: nothing leaks, nothing is delivered without the right password
(bookkeeping and decision logic; the cipher itself is a parameter).
-/
import SevenZ.Lemmas.Aes
import SevenZ.Model.Crypto
namespace SevenZ.C11
open SevenZ SevenZ.Impl

/-- Everything a chain ending in 7zAES emits into the packed area is cipher output: the
    cipher is applied to the whole (zero-padded) stream, each byte exactly once, in 16-byte
    aligned calls, for every chunking of the input; nothing bypasses it or stays behind. -/
theorem all_content_through_aes (xs : List Bytes) :
    let st := aesFlush (aesRun {} xs)
    st.fed.flatten = xs.flatten ++ List.replicate ((16 - xs.flatten.length % 16) % 16) 0 ∧
    (∀ c ∈ st.fed, c.length % 16 = 0) ∧ st.buf = [] :=
  SevenZ.aes_feed_eq_pad16 xs

def runModes (m : HeaderMode) : List ModeOp → HeaderMode
  | [] => m
  | op :: ops => runModes (stepMode m op) ops

/-- header-mode machine: whatever sequence of set_encoded_header_mode / set_encrypted_header
    calls follows the constructor, an encrypted header is always an encoded one, and the
    AES filter is selected exactly when encryption is on -/
theorem header_mode_machine (flag : Bool) (ops : List ModeOp) :
    let m := runModes (initMode flag) ops
    (m.encrypted = true → m.encoded = true) ∧ (headerForm m = .encrypted ↔ m.encrypted = true) := by
  have inv : ∀ (ops : List ModeOp) (m : HeaderMode), (m.encrypted = true → m.encoded = true) →
      ((runModes m ops).encrypted = true → (runModes m ops).encoded = true) := by
    intro ops
    induction ops with
    | nil => intro m h; simpa [runModes] using h
    | cons op ops ih =>
      intro m h
      apply ih
      cases op with
      | setEncoded b => cases b <;> simp [stepMode]
      | setEncrypted b => cases b <;> simp [stepMode]
  refine ⟨inv ops (initMode flag) (by simp [initMode]), ?_⟩
  generalize runModes (initMode flag) ops = m
  unfold headerForm
  cases h : m.encrypted <;> cases h2 : m.encoded <;> simp

/-- the last call wins: after set_encrypted_header(True) the header is encrypted, after
    set_encoded_header_mode(False) it is raw -/
theorem last_setter_wins (m : HeaderMode) :
    headerForm (stepMode m (.setEncrypted true)) = .encrypted ∧
    headerForm (stepMode m (.setEncoded false)) = .raw := by
  simp [stepMode, headerForm]

/-- no password, no delivery: with an AES coder and no password the decoder is refused before
    a single byte is decoded -/
theorem no_password_no_delivery (coders : List Bytes) (h : aesId ∈ coders) :
    decoderGate coders none = .passwordRequired := by
  unfold decoderGate
  have : coders.any (fun id => id = aesId) = true := by
    simp only [List.any_eq_true, decide_eq_true_eq]; exact ⟨aesId, h, rfl⟩
  simp [this]

/-- wrong key: whatever garbage `g` a wrong key decrypts to, it is delivered in place of the
    original `d` only if it collides with `d` under CRC-32 -/
theorem wrong_key_needs_collision (crc : Bytes → Nat) (d g : Bytes)
    (h : deliver crc (some (crc d)) g = some g) (hne : g ≠ d) : crc g = crc d ∧ g ≠ d := by
  unfold deliver at h
  simp only [] at h
  split at h
  · rename_i he; exact ⟨he, hne⟩
  · simp at h

example : runModes (initMode false) [.setEncrypted true, .setEncoded false, .setEncrypted true] =
    { encoded := true, encrypted := true } := by decide

end SevenZ.C11
