/-
C11 — Encryption: nothing leaks, nothing is delivered without the right password
(bookkeeping and decision logic; the cipher itself is a parameter).
-/
import SevenZ.Lemmas.Aes
import SevenZ.Model.Crypto
import SevenZ.Lemmas.Utf16
namespace SevenZ.C11
open SevenZ SevenZ.Impl

/-- Everything a chain ending in 7zAES emits into the packed area is cipher output: the
    cipher is applied to the whole (zero-padded) stream, each byte exactly once, in 16-byte
    aligned calls, for every chunking of the input; nothing bypasses it or stays behind. -/
theorem all_content_through_aes (xs : List Bytes) :
    let st := aesFlush (aesRun {} xs)
    st.fed.flatten = xs.flatten ++ List.replicate ((16 - xs.flatten.length % 16) % 16) 0 ∧
    (∀ c ∈ st.fed, c.length % 16 = 0) ∧ st.buf = [] :=
  SevenZ.aes_feed_eq_pad16 xs

def runModes (m : HeaderMode) : List ModeOp → HeaderMode
  | [] => m
  | op :: ops => runModes (stepMode m op) ops

/-- header-mode machine: whatever sequence of set_encoded_header_mode / set_encrypted_header
    calls follows the constructor, an encrypted header is always an encoded one, and the
    AES filter is selected exactly when encryption is on -/
theorem header_mode_machine (flag : Bool) (ops : List ModeOp) :
    let m := runModes (initMode flag) ops
    (m.encrypted = true → m.encoded = true) ∧ (headerForm m = .encrypted ↔ m.encrypted = true) := by
  have inv : ∀ (ops : List ModeOp) (m : HeaderMode), (m.encrypted = true → m.encoded = true) →
      ((runModes m ops).encrypted = true → (runModes m ops).encoded = true) := by
    intro ops
    induction ops with
    | nil => intro m h; simpa [runModes] using h
    | cons op ops ih =>
      intro m h
      apply ih
      cases op with
      | setEncoded b => cases b <;> simp [stepMode]
      | setEncrypted b => cases b <;> simp [stepMode]
  refine ⟨inv ops (initMode flag) (by simp [initMode]), ?_⟩
  generalize runModes (initMode flag) ops = m
  unfold headerForm
  cases h : m.encrypted <;> cases h2 : m.encoded <;> simp

/-- the last call wins: after set_encrypted_header(True) the header is encrypted, after
    set_encoded_header_mode(False) it is raw -/
theorem last_setter_wins (m : HeaderMode) :
    headerForm (stepMode m (.setEncrypted true)) = .encrypted ∧
    headerForm (stepMode m (.setEncoded false)) = .raw := by
  simp [stepMode, headerForm]

/-- asking for an encoded header never withdraws a header encryption asked for earlier: after
    `set_encoded_header_mode(True)` the header is encrypted exactly if it was going to be before -/
theorem encoded_on_keeps_encryption (m : HeaderMode) :
    (headerForm (stepMode m (.setEncoded true)) = .encrypted ↔ m.encrypted = true) ∧
    (stepMode m (.setEncoded true)).encrypted = m.encrypted := by
  cases h : m.encrypted <;> simp [stepMode, headerForm, h]

/-- no password, no delivery: with an AES coder and no password the decoder is refused before
    a single byte is decoded -/
theorem no_password_no_delivery (coders : List Bytes) (h : aesId ∈ coders) :
    decoderGate coders none = .passwordRequired := by
  unfold decoderGate
  have : coders.any (fun id => id = aesId) = true := by
    simp only [List.any_eq_true, decide_eq_true_eq]; exact ⟨aesId, h, rfl⟩
  simp [this]

/-- wrong key: whatever garbage `g` a wrong key decrypts to, it is delivered in place of the
    original `d` only if it collides with `d` under CRC-32 -/
theorem wrong_key_needs_collision (crc : Bytes → Nat) (d g : Bytes)
    (h : deliver crc (some (crc d)) g = some g) (hne : g ≠ d) : crc g = crc d ∧ g ≠ d := by
  unfold deliver at h
  simp only [] at h
  split at h
  · rename_i he; exact ⟨he, hne⟩
  · simp at h

example : runModes (initMode false) [.setEncrypted true, .setEncoded false, .setEncrypted true] =
    { encoded := true, encrypted := true } := by decide


/-- little-endian bytes of 16-bit units determine the units -/
theorem unitsToBytes_inj : ∀ (us vs : List Nat), (∀ u ∈ us, u < 65536) → (∀ v ∈ vs, v < 65536) →
    unitsToBytes us = unitsToBytes vs → us = vs
  | [], [], _, _, _ => rfl
  | [], _ :: _, _, _, h => by simp [unitsToBytes] at h
  | _ :: _, [], _, _, h => by simp [unitsToBytes] at h
  | u :: us, v :: vs, hu, hv, h => by
    simp only [unitsToBytes, List.cons.injEq] at h
    obtain ⟨h1, h2, h3⟩ := h
    have := hu u (by simp); have := hv v (by simp)
    have huv : u = v := by omega
    rw [huv, unitsToBytes_inj us vs (fun x hx => hu x (by simp [hx])) (fun x hx => hv x (by simp [hx])) h3]

/-- The key is derived from exactly the password the caller gave: for a fixed salt, two passwords (lists of
    Unicode scalar values, in any normalisation form) feed the same bytes to the key derivation only if they are
    the same list of scalar values. In particular a password is never replaced by a canonically equivalent one
    (`a` + U+0308 and U+00E4 are different keys, as for every other 7z implementation). -/
theorem key_material_injective (salt : Bytes) (p q : List Nat)
    (hp : ∀ c ∈ p, IsScalar c) (hq : ∀ c ∈ q, IsScalar c)
    (h : keyMaterial salt p = keyMaterial salt q) : p = q := by
  unfold keyMaterial at h
  have hb := List.append_cancel_left h
  have hup : ∀ u ∈ p.flatMap unitsOf, u < 65536 := by
    intro u hu; rw [List.mem_flatMap] at hu; obtain ⟨c, hc, huc⟩ := hu
    exact (unitsOf_ok c (hp c hc) u huc).2
  have huq : ∀ u ∈ q.flatMap unitsOf, u < 65536 := by
    intro u hu; rw [List.mem_flatMap] at hu; obtain ⟨c, hc, huc⟩ := hu
    exact (unitsOf_ok c (hq c hc) u huc).2
  have hunits := unitsToBytes_inj _ _ hup huq hb
  have h1 := decode_flatMap p hp
  have h2 := decode_flatMap q hq
  rw [hunits, h2] at h1
  exact (Option.some.inj h1).symm

/-- the key material is the salt followed by two bytes per UTF-16 unit: nothing else (no terminator, no
    length prefix) enters the hash besides the round counter -/
theorem key_material_length (salt : Bytes) (p : List Nat) :
    (keyMaterial salt p).length = salt.length + 2 * (p.flatMap unitsOf).length := by
  unfold keyMaterial
  rw [List.length_append]
  congr 1
  generalize p.flatMap unitsOf = us
  induction us with
  | nil => rfl
  | cons u us ih => simp only [unitsToBytes, List.length_cons, ih]; omega

/-- non-vacuity: the decomposed and the precomposed spelling of "ä" are both legal passwords and give
    different key material -/
example : keyMaterial [1, 2] [0x61, 0x308] = [1, 2, 0x61, 0, 0x08, 0x03] ∧
    keyMaterial [1, 2] [0xE4] = [1, 2, 0xE4, 0] ∧ IsScalar 0x61 ∧ IsScalar 0x308 ∧ IsScalar 0xE4 := by decide

end SevenZ.C11
