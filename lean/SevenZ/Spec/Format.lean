/-
A strict reader for the 7z header database, written from docs/archive_format.rst (and the
BNF appendix), sharing no code with the model of py7zr's reader.  It is the "independent
reader" of C06/C07/C08/C14: it validates every structural invariant the format states —
counts agree between sections, property sizes equal the bytes that follow, bit vectors have
⌈n/8⌉ bytes, reserved flag bits are zero, every section ends with END — and assigns
sub-streams to files the way the format defines.
-/
import SevenZ.Model.Number
namespace SevenZ.Spec

abbrev SP (α : Type) := StateT Bytes (Except String) α

def sfail {α} (msg : String) : SP α := fun _ => .error msg

def sByte (what : String) : SP Nat := fun bs =>
  match bs with
  | [] => .error s!"truncated: {what}"
  | b :: rest => .ok (b, rest)

def sNumber (what : String) : SP Nat := fun bs =>
  match decodeNumber bs with
  | none => .error s!"truncated NUMBER: {what}"
  | some r => .ok r

def sFixed (k : Nat) (what : String) : SP Nat := fun bs =>
  if bs.length < k then .error s!"truncated: {what}" else .ok (ofLE (bs.take k), bs.drop k)

def sTake (n : Nat) (what : String) : SP Bytes := fun bs =>
  if bs.length < n then .error s!"truncated: {what}" else .ok (bs.take n, bs.drop n)

def sExpect (id : Nat) (what : String) : SP Unit := do
  let b ← sByte what
  if b = id then pure () else sfail s!"expected id {id} ({what}) but found {b}"

def sRepeat {α} (n : Nat) (p : SP α) : SP (List α) :=
  match n with
  | 0 => pure []
  | n + 1 => do
    let a ← p
    let r ← sRepeat n p
    pure (a :: r)

/-- BitField: ⌈n/8⌉ bytes, most significant bit first, padding bits zero -/
def sBitField (n : Nat) (what : String) : SP (List Bool) := do
  let bytes ← sTake ((n + 7) / 8) what
  let bits := bytes.flatMap (fun b => (List.range 8).map (fun i => decide ((b / 2 ^ (7 - i)) % 2 = 1)))
  if (bits.drop n).any id then sfail s!"non-zero padding bits in {what}" else
  pure (bits.take n)

/-- BooleanList: an all-defined byte, then (if it is zero) a BitField -/
def sBoolList (n : Nat) (what : String) : SP (List Bool) := do
  let all ← sByte what
  if all = 0 then sBitField n what
  else if all = 1 then pure (List.replicate n true)
  else sfail s!"all-defined byte of {what} is {all}"

structure SCoder where
  method : Bytes
  numIn : Nat
  numOut : Nat
  props : Option Bytes
  deriving Repr, DecidableEq

structure SFolder where
  coders : List SCoder
  bindpairs : List (Nat × Nat)
  packed : List Nat
  unpackSizes : List Nat := []
  crc : Option Nat := none
  deriving Repr, DecidableEq

structure SPack where
  packpos : Nat
  sizes : List Nat
  crcs : List (Option Nat)
  deriving Repr, DecidableEq

structure SFile where
  name : Option (List Nat) := none
  emptyStream : Bool := false
  emptyFile : Bool := false
  anti : Bool := false
  ctime : Option Nat := none
  atime : Option Nat := none
  mtime : Option Nat := none
  attr : Option Nat := none
  deriving Repr, DecidableEq

structure SStreams where
  pack : Option SPack := none
  folders : List SFolder := []
  numUnpack : List Nat := []          -- per folder
  subSizes : List Nat := []           -- per sub-stream, the last of each folder made explicit
  subCrcs : List (Option Nat) := []   -- per sub-stream
  deriving Repr, DecidableEq

structure SHeader where
  streams : Option SStreams := none
  files : List SFile := []
  hasFiles : Bool := false
  deriving Repr, DecidableEq

def sCoder : SP SCoder := do
  let flag ← sByte "coder flag"
  if flag ≥ 0x40 then sfail "reserved coder flag bits set" else
  let idSize := flag % 16
  let complex := (flag / 16) % 2 = 1
  let hasProps := (flag / 32) % 2 = 1
  let method ← sTake idSize "coder id"
  let (nin, nout) ← (if complex then do
      let a ← sNumber "NumInStreams"
      let b ← sNumber "NumOutStreams"
      pure (a, b)
    else pure (1, 1) : SP (Nat × Nat))
  let props ← (if hasProps then do
      let n ← sNumber "PropertiesSize"
      let p ← sTake n "coder properties"
      pure (some p)
    else pure none : SP (Option Bytes))
  pure { method, numIn := nin, numOut := nout, props }

def sFolder : SP SFolder := do
  let n ← sNumber "NumCoders"
  if n = 0 then sfail "folder without coders" else
  if n > 32 then sfail "too many coders" else
  let coders ← sRepeat n sCoder
  let totIn := (coders.map (·.numIn)).sum
  let totOut := (coders.map (·.numOut)).sum
  if totOut = 0 then sfail "folder without output streams" else
  let numBind := totOut - 1
  let pairs ← sRepeat numBind (do
    let i ← sNumber "bind InIndex"
    let o ← sNumber "bind OutIndex"
    if i ≥ totIn ∨ o ≥ totOut then sfail "bind pair index out of range" else pure (i, o))
  if totIn < numBind then sfail "more bind pairs than input streams" else
  let numPacked := totIn - numBind
  let packed ← (if numPacked = 1 then
      match (List.range totIn).find? (fun i => !(pairs.any (fun p => p.1 = i))) with
      | some i => pure [i]
      | none => sfail "no unbound input stream"
    else sRepeat numPacked (sNumber "packed stream index") : SP (List Nat))
  pure { coders, bindpairs := pairs, packed }

def sPackInfo : SP SPack := do
  let packpos ← sNumber "PackPos"
  let n ← sNumber "NumPackStreams"
  let id ← sByte "PackInfo property"
  let (sizes, id) ← (if id = 0x09 then do
      let s ← sRepeat n (sNumber "pack size")
      let id ← sByte "PackInfo property"
      pure (s, id)
    -- digests of streams whose sizes are not given describe nothing (7-Zip's own reader waits for the size section)
    else if id = 0x0A then sfail "pack digests without pack sizes"
    else pure ([], id) : SP (List Nat × Nat))
  if sizes.length ≠ n then sfail "pack sizes missing although NumPackStreams > 0" else
  let (crcs, id) ← (if id = 0x0A then do
      let defined ← sBoolList n "pack CRC defined"
      let cs ← defined.mapM (fun d => if d then (do let c ← sFixed 4 "pack CRC"; pure (some c)) else pure none)
      let id ← sByte "PackInfo property"
      pure (cs, id)
    else pure (List.replicate n none, id) : SP (List (Option Nat) × Nat))
  if id ≠ 0 then sfail s!"PackInfo: END expected, found {id}" else
  pure { packpos, sizes, crcs }

def sFolderSizes : List SFolder → SP (List SFolder)
  | [] => pure []
  | f :: fs => do
    let sizes ← sRepeat ((f.coders.map (·.numOut)).sum) (sNumber "coder unpack size")
    let rest ← sFolderSizes fs
    pure ({ f with unpackSizes := sizes } :: rest)

def sUnpackInfo : SP (List SFolder) := do
  sExpect 0x0B "Folder"
  let n ← sNumber "NumFolders"
  let ext ← sByte "folders external flag"
  if ext ≠ 0 then sfail "external folder definitions are not supported by this reader" else
  let folders ← sRepeat n sFolder
  sExpect 0x0C "CodersUnpackSize"
  let folders ← sFolderSizes folders
  let id ← sByte "UnpackInfo property"
  let (folders, id) ← (if id = 0x0A then do
      let defined ← sBoolList n "folder CRC defined"
      let cs ← defined.mapM (fun d => if d then (do let c ← sFixed 4 "folder CRC"; pure (some c)) else pure none)
      let id ← sByte "UnpackInfo property"
      pure ((folders.zip cs).map (fun (f, c) => { f with crc := c }), id)
    else pure (folders, id) : SP (List SFolder × Nat))
  if id ≠ 0 then sfail s!"UnpackInfo: END expected, found {id}" else pure folders

/-- the unpack size of a folder: the output stream that is not bound to any input -/
def folderOut (f : SFolder) : Except String Nat :=
  match (List.range f.unpackSizes.length).find? (fun o => !(f.bindpairs.any (fun p => p.2 = o))) with
  | some o => .ok (f.unpackSizes.getD o 0)
  | none => .error "folder has no unbound output stream"

def sSubSizes : List Nat → List SFolder → SP (List Nat)
  | [], _ => pure []
  | _ :: _, [] => sfail "more NumUnpackStream entries than folders"
  | n :: ns, f :: fs => do
    if n = 0 then sSubSizes ns fs else
    let explicit ← sRepeat (n - 1) (sNumber "sub-stream size")
    match folderOut f with
    | .error e => sfail e
    | .ok total =>
      if explicit.sum > total then sfail "sub-stream sizes exceed the folder's unpack size" else
      let rest ← sSubSizes ns fs
      pure (explicit ++ [total - explicit.sum] ++ rest)

/-- digests are stored only for the sub-streams whose CRC is not already known from a
    single-stream folder with a defined folder CRC -/
def spreadCrcs : List Nat → List SFolder → List (Option Nat) → Except String (List (Option Nat))
  | [], _, [] => .ok []
  | [], _, _ :: _ => .error "surplus sub-stream digests"
  | _ :: _, [], _ => .error "more NumUnpackStream entries than folders"
  | n :: ns, f :: fs, cs =>
    if n = 1 ∧ f.crc.isSome then
      (spreadCrcs ns fs cs).map (fun r => f.crc :: r)
    else if cs.length < n then .error "missing sub-stream digests"
    else (spreadCrcs ns fs (cs.drop n)).map (fun r => cs.take n ++ r)

def sSubStreams (folders : List SFolder) : SP (List Nat × List Nat × List (Option Nat)) := do
  let id ← sByte "SubStreamsInfo property"
  let (nums, id) ← (if id = 0x0D then do
      let ns ← sRepeat folders.length (sNumber "NumUnpackStream")
      let id ← sByte "SubStreamsInfo property"
      pure (ns, id)
    else pure (List.replicate folders.length 1, id) : SP (List Nat × Nat))
  let (sizes, id) ← (if id = 0x09 then do
      let s ← sSubSizes nums folders
      let id ← sByte "SubStreamsInfo property"
      pure (s, id)
    else
      if nums.any (· > 1) then sfail "sub-stream sizes missing although a folder has several streams"
      else match (nums.zip folders).mapM (fun ((n, f) : Nat × SFolder) => if n = 0 then (Except.ok [] : Except String (List Nat)) else (folderOut f).map (fun t => [t])) with
        | .error e => sfail e
        | .ok l => pure (l.flatten, id) : SP (List Nat × Nat))
  let unknown := ((nums.zip folders).map (fun (n, f) => if n = 1 ∧ f.crc.isSome then 0 else n)).sum
  let (crcs, id) ← (if id = 0x0A then do
      let defined ← sBoolList unknown "sub-stream CRC defined"
      let cs ← defined.mapM (fun d => if d then (do let c ← sFixed 4 "sub-stream CRC"; pure (some c)) else pure none)
      let id ← sByte "SubStreamsInfo property"
      pure (cs, id)
    else pure (List.replicate unknown none, id) : SP (List (Option Nat) × Nat))
  if id ≠ 0 then sfail s!"SubStreamsInfo: END expected, found {id}" else
  match spreadCrcs nums folders crcs with
  | .error e => sfail e
  | .ok all => pure (nums, sizes, all)

def sStreams : SP SStreams := do
  let id ← sByte "StreamsInfo property"
  let (pack, id) ← (if id = 0x06 then do
      let p ← sPackInfo
      let id ← sByte "StreamsInfo property"
      pure (some p, id)
    else pure (none, id) : SP (Option SPack × Nat))
  let (folders, hasFolders, id) ← (if id = 0x07 then do
      let f ← sUnpackInfo
      let id ← sByte "StreamsInfo property"
      pure (f, true, id)
    else pure ([], false, id) : SP (List SFolder × Bool × Nat))
  let (sub, id) ← (if id = 0x08 then do
      if !hasFolders then sfail "SubStreamsInfo without UnpackInfo" else
      let s ← sSubStreams folders
      let id ← sByte "StreamsInfo property"
      pure (some s, id)
    else pure (none, id) : SP (Option (List Nat × List Nat × List (Option Nat)) × Nat))
  if id ≠ 0 then sfail s!"StreamsInfo: END expected, found {id}" else
  -- counts agree between sections
  let needPacked := (folders.map (fun f => f.packed.length)).sum
  let havePacked := match pack with | none => 0 | some p => p.sizes.length
  if needPacked ≠ havePacked then
    sfail s!"folders consume {needPacked} packed streams but PackInfo declares {havePacked}" else
  match sub with
  | some (nums, sizes, crcs) => pure { pack, folders, numUnpack := nums, subSizes := sizes, subCrcs := crcs }
  | none =>
    match folders.mapM folderOut with
    | .error e => sfail e
    | .ok outs => pure { pack, folders, numUnpack := folders.map (fun _ => 1), subSizes := outs,
                         subCrcs := folders.map (·.crc) }

def decodeUtf16Units : List Nat → Option (List Nat)
  | [] => some []
  | u :: rest =>
    if 0xD800 ≤ u ∧ u < 0xDC00 then
      match rest with
      | l :: rest' =>
        if 0xDC00 ≤ l ∧ l < 0xE000 then
          (decodeUtf16Units rest').map (fun cs => (0x10000 + (u - 0xD800) * 1024 + (l - 0xDC00)) :: cs)
        else none
      | [] => none
    else if 0xDC00 ≤ u ∧ u < 0xE000 then none
    else (decodeUtf16Units rest).map (fun cs => u :: cs)

/-- names: UTF-16-LE, each terminated by 0x0000, exactly filling the buffer -/
def splitNames : Nat → Bytes → List Nat → Except String (List (List Nat))
  | _, [], [] => .ok []
  | _, [], _ :: _ => .error "file name without terminator"
  | _, [_], _ => .error "odd number of bytes in names"
  | 0, _, _ => .error "names too long"
  | fuel + 1, lo :: hi :: rest, acc =>
    let u := lo + 256 * hi
    if u = 0 then
      match decodeUtf16Units acc.reverse with
      | none => .error "invalid UTF-16 in file name"
      | some cs => (splitNames fuel rest []).map (fun r => cs :: r)
    else splitNames fuel rest (u :: acc)

def setList {α} (files : List SFile) (vals : List α) (f : SFile → α → SFile) : List SFile :=
  (files.zip vals).map (fun (x, v) => f x v)

/-- an optional fixed-width vector property: BooleanList, external byte, values for the defined -/
def sOptVector (n width : Nat) (what : String) : SP (List (Option Nat)) := do
  let defined ← sBoolList n what
  let ext ← sByte (what ++ " external flag")
  if ext ≠ 0 then sfail s!"external {what} are not supported by this reader" else
  defined.mapM (fun d => if d then (do let v ← sFixed width what; pure (some v)) else pure none)

/-- run `p` on exactly `size` bytes: it must consume all of them -/
def sSized {α} (size : Nat) (what : String) (p : SP α) : SP α := fun bs =>
  if bs.length < size then .error s!"truncated property {what}" else
  match p (bs.take size) with
  | .error e => .error e
  | .ok (a, []) => .ok (a, bs.drop size)
  | .ok (_, _ :: _) => .error s!"property {what}: Size is larger than its content"

/-- distribute one bit per empty-stream entry -/
def spreadBits (upd : SFile → Bool → SFile) : List SFile → List Bool → List SFile
  | [], _ => []
  | f :: fs, bs =>
    if f.emptyStream then
      match bs with
      | b :: bs' => upd f b :: spreadBits upd fs bs'
      | [] => f :: spreadBits upd fs []
    else f :: spreadBits upd fs bs

/-- the content of the Names property: external flag 0, then the names filling the property exactly -/
def sNamesBody : SP (List (List Nat)) := do
  let ext ← sByte "names external flag"
  if ext ≠ 0 then sfail "external names are not supported by this reader" else
  let body ← get
  set ([] : Bytes)
  match splitNames (body.length + 1) body [] with
  | .error e => sfail e
  | .ok ns => pure ns

def sFileProps : Nat → Nat → List SFile → Nat → Bool → SP (List SFile)
  | 0, _, _, _, _ => sfail "too many file properties"
  | fuel + 1, n, files, numEmpty, seenEmptyStream => do
    let id ← sByte "file property id"
    if id = 0 then pure files else
    let size ← sNumber "file property size"
    match id with
    | 0x0E => do
      let bits ← sSized size "EmptyStream" (sBitField n "EmptyStream")
      sFileProps fuel n (setList files bits (fun f b => { f with emptyStream := b }))
        (bits.filter (fun b => b)).length true
    | 0x0F => do
      if !seenEmptyStream then sfail "EmptyFile before EmptyStream" else
      let bits ← sSized size "EmptyFile" (sBitField numEmpty "EmptyFile")
      -- the vector has one bit per empty-stream entry
      sFileProps fuel n (spreadBits (fun f b => { f with emptyFile := b }) files bits) numEmpty seenEmptyStream
    | 0x10 => do
      let bits ← sSized size "Anti" (sBitField numEmpty "Anti")
      sFileProps fuel n (spreadBits (fun f b => { f with anti := b }) files bits) numEmpty seenEmptyStream
    | 0x11 => do
      let names ← sSized size "Names" sNamesBody
      if names.length ≠ n then sfail s!"{names.length} names for {n} files" else
      sFileProps fuel n (setList files names (fun f v => { f with name := some v })) numEmpty seenEmptyStream
    | 0x12 => do
      let v ← sSized size "CTime" (sOptVector n 8 "CTime")
      sFileProps fuel n (setList files v (fun f t => { f with ctime := t })) numEmpty seenEmptyStream
    | 0x13 => do
      let v ← sSized size "ATime" (sOptVector n 8 "ATime")
      sFileProps fuel n (setList files v (fun f t => { f with atime := t })) numEmpty seenEmptyStream
    | 0x14 => do
      let v ← sSized size "MTime" (sOptVector n 8 "MTime")
      sFileProps fuel n (setList files v (fun f t => { f with mtime := t })) numEmpty seenEmptyStream
    | 0x15 => do
      let v ← sSized size "Attributes" (sOptVector n 4 "Attributes")
      sFileProps fuel n (setList files v (fun f t => { f with attr := t })) numEmpty seenEmptyStream
    | 0x19 => do
      let pad ← sTake size "Dummy"
      if pad.any (· ≠ 0) then sfail "non-zero Dummy padding" else
      sFileProps fuel n files numEmpty seenEmptyStream
    | 0x18 => do
      let _ ← sTake size "StartPos"
      sFileProps fuel n files numEmpty seenEmptyStream
    | _ => sfail s!"unknown file property {id}"

def sFilesInfo : SP (List SFile) := do
  let n ← sNumber "NumFiles"
  let rest ← get
  if n > rest.length * 8 + 8 then sfail "NumFiles exceeds what the header can describe" else
  sFileProps (rest.length + 1) n (List.replicate n {}) 0 false

def sHeaderBody : SP SHeader := do
  let id ← sByte "Header property"
  -- ArchiveProperties (0x02) and AdditionalStreamsInfo (0x03) are not produced by any writer under test
  let (streams, id) ← (if id = 0x04 then do
      let s ← sStreams
      let id ← sByte "Header property"
      pure (some s, id)
    else pure (none, id) : SP (Option SStreams × Nat))
  let (files, hasFiles, id) ← (if id = 0x05 then do
      let f ← sFilesInfo
      let id ← sByte "Header property"
      pure (f, true, id)
    else pure ([], false, id) : SP (List SFile × Bool × Nat))
  if id ≠ 0 then sfail s!"Header: END expected, found {id}" else
  let rest ← get
  if rest ≠ [] then sfail "bytes after the end of the header" else
  pure { streams, files, hasFiles }

inductive Top where
  | empty
  | raw (h : SHeader)
  | encoded (s : SStreams)

def readTop (buf : Bytes) : Except String Top :=
  match buf with
  | [] => .ok .empty
  | 0x01 :: rest => (sHeaderBody rest).map (fun r => .raw r.1)
  | 0x17 :: rest =>
    match sStreams rest with
    | .error e => .error e
    | .ok (s, []) => .ok (.encoded s)
    | .ok (_, _ :: _) => .error "bytes after the EncodedHeader record"
  | b :: _ => .error s!"next header starts with id {b}"

/-- a member as the format defines it -/
structure SMember where
  file : SFile
  stream : Option (Nat × Nat × Nat × Option Nat)   -- folder, offset in folder output, size, CRC
  deriving Repr, DecidableEq

/-- the format's assignment of sub-streams to files: files that are not EmptyStream take the
    sub-streams in order, folder by folder.  `nums` is the list of stream counts from the
    current folder on, `taken` how many of the current folder's streams are already given
    out, `off` the offset reached in its output.  (`fuel` ≥ files + folders makes the
    recursion structural.) -/
def assignGo : Nat → List SFile → Nat → Nat → Nat → List Nat → List Nat → List (Option Nat) →
    Except String (List SMember)
  | 0, _, _, _, _, _, _, _ => .error "assignment did not finish"
  | _ + 1, [], _, _, _, _, sizes, _ =>
    if sizes ≠ [] then .error "more sub-streams than files with a stream" else .ok []
  | fuel + 1, f :: fs, folder, taken, off, nums, sizes, crcs =>
    if f.emptyStream then (assignGo fuel fs folder taken off nums sizes crcs).map (fun r => ⟨f, none⟩ :: r)
    else
      match nums with
      | [] => .error "file with a stream but no sub-stream left"
      | n :: ns =>
        if taken ≥ n then
          -- this folder is used up: go on with the next one
          assignGo fuel (f :: fs) (folder + 1) 0 0 ns sizes crcs
        else
          match sizes, crcs with
          | s :: ss, c :: cs =>
            (assignGo fuel fs folder (taken + 1) (off + s) (n :: ns) ss cs).map
              (fun r => ⟨f, some (folder, off, s, c)⟩ :: r)
          | _, _ => .error "sub-stream size or digest list too short"

def assign (files : List SFile) (nums : List Nat) (sizes : List Nat) (crcs : List (Option Nat)) :
    Except String (List SMember) :=
  assignGo (files.length + nums.length + 1) files 0 0 0 nums sizes crcs

def members (h : SHeader) : Except String (List SMember) :=
  match h.streams with
  | none =>
    if h.files.any (fun f => !f.emptyStream) then .error "file with a stream but no StreamsInfo"
    else .ok (h.files.map (fun f => ⟨f, none⟩))
  | some s => assign h.files s.numUnpack s.subSizes s.subCrcs

end SevenZ.Spec
