/-
The strict reader for the archive file as a whole, written from docs/archive_format.rst
("SignatureHeader", "StartHeader"): magic, start-header CRC over the 20 field bytes, the next
header located by offset and size inside the file, its CRC, then the header database.
-/
import SevenZ.Spec.Format
import SevenZ.Model.Crc32
namespace SevenZ.Spec

def magic : Bytes := [0x37, 0x7A, 0xBC, 0xAF, 0x27, 0x1C]

structure Archive where
  top : Top
  dataArea : Bytes        -- the bytes between the signature header and the next header

/-- strict: every field must describe the bytes actually present -/
def readArchive (img : Bytes) : Except String Archive :=
  if img.length < 32 then .error "shorter than a signature header"
  else if img.take 6 ≠ magic then .error "bad magic"
  else
    let startCrc := ofLE ((img.drop 8).take 4)
    let fields := (img.drop 12).take 20
    if crc32 fields ≠ startCrc then .error "start header CRC mismatch"
    else
      let ofs := ofLE (fields.take 8)
      let size := ofLE ((fields.drop 8).take 8)
      let crc := ofLE ((fields.drop 16).take 4)
      if 32 + ofs + size ≠ img.length then .error "next header does not end exactly at the end of the file"
      else
        let hdr := (img.drop (32 + ofs)).take size
        if crc32 hdr ≠ crc then .error "next header CRC mismatch"
        else
          match readTop hdr with
          | .error e => .error e
          | .ok top => .ok { top, dataArea := (img.drop 32).take ofs }

/-- the same checks for an archive file that may carry bytes behind the next header (py7zr never
    truncates the file it appends to, so a header shorter than its predecessor leaves a tail):
    the header must lie inside the file, everything else is as strict as `readArchive` -/
def readArchiveTail (img : Bytes) : Except String Archive :=
  if img.length < 32 then .error "shorter than a signature header"
  else if img.take 6 ≠ magic then .error "bad magic"
  else
    let startCrc := ofLE ((img.drop 8).take 4)
    let fields := (img.drop 12).take 20
    if crc32 fields ≠ startCrc then .error "start header CRC mismatch"
    else
      let ofs := ofLE (fields.take 8)
      let size := ofLE ((fields.drop 8).take 8)
      let crc := ofLE ((fields.drop 16).take 4)
      if 32 + ofs + size > img.length then .error "next header lies outside the file"
      else
        let hdr := (img.drop (32 + ofs)).take size
        if crc32 hdr ≠ crc then .error "next header CRC mismatch"
        else
          match readTop hdr with
          | .error e => .error e
          | .ok top => .ok { top, dataArea := (img.drop 32).take ofs }

/-- Opening an archive whose next header may be an EncodedHeader record.  `decode` is the codec
    of the header folder (a parameter: the format leaves it to the coders).  Strict: one
    folder, one packed stream lying at the very end of the data area, the decoded header exactly
    as long as the folder's unpack size and matching the folder's CRC — which must be present —,
    and a raw header inside.  Returns the header database and the data area of the members. -/
def openArchive (decode : SFolder → Bytes → Option Bytes) (img : Bytes) : Except String (SHeader × Bytes) :=
  match readArchive img with
  | .error e => .error e
  | .ok a =>
    match a.top with
    | .raw h => .ok (h, a.dataArea)
    | .empty => .ok ({}, a.dataArea)
    | .encoded s =>
      match s.pack, s.folders with
      | some p, [f] =>
        match p.sizes with
        | [sz] =>
          if p.packpos + sz ≠ a.dataArea.length then .error "the packed header does not end the data area"
          else
            match decode f ((a.dataArea.drop p.packpos).take sz), folderOut f, f.crc with
            | some raw, .ok u, some c =>
              if raw.length ≠ u then .error "decoded header has the wrong length"
              else if crc32 raw ≠ c then .error "decoded header fails its CRC"
              else
                match readTop raw with
                | .ok (.raw h) => .ok (h, a.dataArea.take p.packpos)
                | .ok _ => .error "nested encoded header"
                | .error e => .error e
            | none, _, _ => .error "the header stream does not decode"
            | _, .error e, _ => .error e
            | _, _, none => .error "encoded header without a CRC"
        | _ => .error "encoded header: exactly one packed stream expected"
      | _, _ => .error "encoded header: exactly one folder expected"

/-- "packed sizes tile the data area exactly" -/
def tilesExactly (s : SStreams) (area : Bytes) : Bool :=
  match s.pack with
  | none => area.isEmpty
  | some p => p.packpos + p.sizes.sum == area.length

end SevenZ.Spec
