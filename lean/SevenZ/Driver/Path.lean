/- Driver handlers for the `path` stream. Strings travel as comma-separated code points. -/
import SevenZ.Driver.Util
import SevenZ.Model.Path
import SevenZ.Model.Cli
import SevenZ.Model.Select
import SevenZ.Model.Attr
namespace SevenZ.Driver
open SevenZ

def parseStr (s : String) : Option Str := do
  let ns ← parseNats s
  pure (ns.map Char.ofNat)

def showStr (s : Str) : String := showNats (s.map Char.toNat)

def b01 (b : Bool) : String := if b then "1" else "0"

def pathHandler (op : String) (args : List String) : Option String :=
  match op, args with
  | "path.check", [a] => do pure (b01 (Impl.checkArchivePath (← parseStr a)))
  | "path.checkprobe", [a] => do pure (b01 (Impl.checkArchivePathProbe (← parseStr a)))
  | "path.oracle", [a] => do pure (b01 (Spec.nameStaysInside (← parseStr a)))
  | "path.parts", [a] => do
    let p := parse (← parseStr a)
    pure (s!"{showStr p.root} " ++ " ".intercalate (p.comps.map showStr))
  | "path.str", [a] => do pure (showStr (parse (← parseStr a)).toStr)
  | "path.canon", [a] => do pure (showStr (Impl.canonicalPath (parse (← parseStr a))).toStr)
  | "path.relto", [a, b] => do
    pure (b01 (Impl.isRelativeTo (parse (← parseStr a)) (parse (← parseStr b))))
  | "path.valid", [a, b] => do
    pure (b01 (Impl.isPathValid (parse (← parseStr a)) (parse (← parseStr b))))
  | "path.out", [f, p] => do
    pure (match Impl.sanitizedOutputPath (← parseStr f) (parse (← parseStr p)) with
      | none => "bad"
      | some q => "ok " ++ showStr q.toStr)
  | "path.outcwd", [f, c] => do
    pure (match Impl.sanitizedOutputPathCwd (← parseStr f) (parse (← parseStr c)) with
      | none => "bad"
      | some q => "ok " ++ showStr q.toStr)
  | "path.outcwd-pinned", [f, c] => do
    pure (match Impl.sanitizedOutputPathCwdPinned (← parseStr f) (parse (← parseStr c)) with
      | none => "bad"
      | some q => "ok " ++ showStr q.toStr)
  | "path.sanitize", [a] => do
    pure (match Impl.sanitizeArcname (← parseStr a) with
      | none => "err"
      | some q => "ok " ++ showStr q)
  | "path.stored", [a] => do pure (showStr (Impl.storedName (← parseStr a)))
  | "sel.run", [r, ts, name] => do
    let targets ← (if ts = "." then some [] else (ts.splitOn ";").mapM parseStr)
    pure (b01 (Impl.selected (← parseBool r) targets (← parseStr name)))
  | "attr.enc", [k, m] => do
    let kind ← (match k with | "file" => some Impl.Kind.file | "dir" => some .dir | "symlink" => some .symlink | _ => none)
    pure (toString (Impl.encodeAttr kind (← m.toNat?)))
  | "attr.dec", [a] => do
    let r := Impl.decodeAttr (← a.toNat?)
    let k := match r.1 with | .file => "file" | .dir => "dir" | .symlink => "symlink"
    pure (k ++ " " ++ (match r.2 with | none => "N" | some m => toString m))
  | "cli.check", [a] => do pure (b01 (Impl.checkVolumeSize (← parseStr a)))
  | "cli.conv", [r, a] => do
    pure (match Impl.unitConv (← parseBool r) (← parseStr a) with
      | .size n => toString n
      | .minusOne => "-1"
      | .keyError => "KeyError")
  | _, _ => none

end SevenZ.Driver
