/- Driver handlers for the `hdr` stream: token (de)serialisation of headers. -/
import SevenZ.Driver.Util
import SevenZ.Model.Header
namespace SevenZ.Driver
open SevenZ

abbrev TP (α : Type) := StateT (List String) Option α

def tok : TP String := fun ts =>
  match ts with
  | [] => none
  | t :: rest => some (t, rest)

def tfail {α} : TP α := fun _ => none

def tNat : TP Nat := do
  let t ← tok
  match t.toNat? with
  | some n => pure n
  | none => tfail

def tNats : TP (List Nat) := do
  let t ← tok
  match parseNats t with
  | some n => pure n
  | none => tfail

def tBits : TP (List Bool) := do
  let t ← tok
  match parseBits t with
  | some n => pure n
  | none => tfail

def tBool : TP Bool := do
  let t ← tok
  match parseBool t with
  | some n => pure n
  | none => tfail

def tHexOpt : TP (Option Bytes) := do
  let t ← tok
  if t = "N" then pure none else
  match parseHex t with
  | some b => pure (some b)
  | none => tfail

def tNatOpt : TP (Option Nat) := do
  let t ← tok
  if t = "N" then pure none else
  match t.toNat? with
  | some b => pure (some b)
  | none => tfail

def tRepeat {α} (n : Nat) (p : TP α) : TP (List α) :=
  match n with
  | 0 => pure []
  | n + 1 => do
    let a ← p
    let r ← tRepeat n p
    pure (a :: r)

def tCoder : TP Coder := do
  let c ← tok
  if c ≠ "C" then tfail else
  let m ← tHexOpt
  let i ← tNat
  let o ← tNat
  let p ← tHexOpt
  pure { method := m.getD [], numIn := i, numOut := o, props := p }

def tFolder : TP Folder := do
  let c ← tok
  if c ≠ "F" then tfail else
  let n ← tNat
  let coders ← tRepeat n tCoder
  let nb ← tNat
  let pairs ← tRepeat nb (do
    let a ← tNat
    let b ← tNat
    pure (a, b))
  let packed ← tNats
  let sizes ← tNats
  let dd ← tBool
  let crc ← tNatOpt
  pure { coders, bindpairs := pairs, packedIndices := packed, unpacksizes := sizes,
         digestdefined := dd, crc }

def tPack : TP (Option PackInfo) := do
  let c ← tok
  if c = "N" then pure none else
  if c ≠ "P" then tfail else
  let packpos ← tNat
  let numstreams ← tNat
  let sizes ← tNats
  let dd ← tBits
  let crcs ← tNats
  let en ← tBool
  pure (some { packpos, numstreams, packsizes := sizes, digestdefined := dd, crcs, enableDigests := en })

def tFolders : TP (Option (List Folder)) := do
  let c ← tok
  if c = "N" then pure none else
  if c ≠ "U" then tfail else
  let k ← tNat
  let fs ← tRepeat k tFolder
  pure (some fs)

def tSub : TP (Option SubStreams) := do
  let c ← tok
  if c = "N" then pure none else
  if c ≠ "B" then tfail else
  let nums ← tNats
  let t ← tok
  let sizes ← (if t = "N" then pure none else
    match parseNats t with
    | some l => pure (some l)
    | none => tfail : TP (Option (List Nat)))
  let dd ← tBits
  let ds ← tNats
  pure (some { numUnpack := nums, unpacksizes := sizes, digestsdefined := dd, digests := ds })

def tStreams : TP (Option Streams) := do
  let c ← tok
  if c = "N" then pure none else
  if c ≠ "S" then tfail else
  let p ← tPack
  let f ← tFolders
  let s ← tSub
  pure (some { packinfo := p, folders := f, substreams := s })

def tSlot : TP (Slot Nat) := do
  let t ← tok
  if t = "A" then pure .absent else
  if t = "U" then pure .undef else
  match t.toNat? with
  | some n => pure (.val n)
  | none => tfail

def tFile : TP FileEntry := do
  let c ← tok
  if c ≠ "E" then tfail else
  let es ← tBool
  let t ← tok
  let name ← (if t = "N" then pure none else
    match parseNats t with
    | some l => pure (some l)
    | none => tfail : TP (Option (List Nat)))
  let ct ← tSlot
  let at_ ← tSlot
  let mt ← tSlot
  let attr ← tSlot
  pure { emptystream := es, filename := name, ctime := ct, atime := at_, mtime := mt, attributes := attr }

def tFilesInfo : TP (Option FilesInfo) := do
  let c ← tok
  if c = "N" then pure none else
  if c ≠ "I" then tfail else
  let k ← tNat
  let fs ← tRepeat k tFile
  let ef ← tBits
  pure (some { files := fs, emptyfiles := ef })

def tHeader : TP Header := do
  let c ← tok
  if c ≠ "H" then tfail else
  let ms ← tStreams
  let fi ← tFilesInfo
  pure { mainStreams := ms, filesInfo := fi }

/-! printers -/

def optHex : Option Bytes → String
  | none => "N"
  | some b => toHex b

def dCoder (c : Coder) : String :=
  s!"C {toHex c.method} {c.numIn} {c.numOut} {optHex c.props}"

def dFolder (f : Folder) : String :=
  let pairs := " ".intercalate (f.bindpairs.map (fun (a, b) => s!"{a} {b}"))
  let crc := match f.crc with | none => "N" | some c => toString c
  let cs := " ".intercalate (f.coders.map dCoder)
  let parts := [s!"F {f.coders.length}"] ++ (if cs = "" then [] else [cs]) ++
    [toString f.bindpairs.length] ++ (if pairs = "" then [] else [pairs]) ++
    [showNats f.packedIndices, showNats f.unpacksizes, if f.digestdefined then "1" else "0", crc]
  " ".intercalate parts

def dPack : Option PackInfo → String
  | none => "N"
  | some p => s!"P {p.packpos} {p.numstreams} {showNats p.packsizes} {showBits p.digestdefined} {showNats p.crcs} {if p.enableDigests then 1 else 0}"

def dFolders : Option (List Folder) → String
  | none => "N"
  | some fs => " ".intercalate ([s!"U {fs.length}"] ++ fs.map dFolder)

def dSub : Option SubStreams → String
  | none => "N"
  | some s =>
    let sz := match s.unpacksizes with | none => "N" | some l => showNats l
    s!"B {showNats s.numUnpack} {sz} {showBits s.digestsdefined} {showNats s.digests}"

def dStreams : Option Streams → String
  | none => "N"
  | some s => s!"S {dPack s.packinfo} {dFolders s.folders} {dSub s.substreams}"

def dSlot : Slot Nat → String
  | .absent => "A"
  | .undef => "U"
  | .val n => toString n

def dFile (f : FileEntry) : String :=
  let nm := match f.filename with | none => "N" | some l => showNats l
  s!"E {if f.emptystream then 1 else 0} {nm} {dSlot f.ctime} {dSlot f.atime} {dSlot f.mtime} {dSlot f.attributes}"

def dFilesInfo : Option FilesInfo → String
  | none => "N"
  | some fi => " ".intercalate ([s!"I {fi.files.length}"] ++ fi.files.map dFile ++ [showBits fi.emptyfiles])

def dHeader (h : Header) : String := s!"H {dStreams h.mainStreams} {dFilesInfo h.filesInfo}"

def dErr : Err → String
  | .bad7z => "bad7z"
  | .malformed => "malformed"
  | .unsupported => "unsupported"

def headerHandler (op : String) (args : List String) : Option String :=
  match op, args with
  | "hdr.w", fx :: pos :: rest => do
    let f ← parseBool fx
    let p ← pos.toNat?
    let (h, left) ← tHeader rest
    if left ≠ [] then none else
    pure (match Impl.writeHeaderRaw f h p with
      | none => "err"
      | some b => toHex b)
  | "hdr.r", [hx] => do
    let bs ← parseHex hx
    pure (match Impl.readNextHeader bs with
      | .error e => dErr e
      | .ok .empty => "empty"
      | .ok (.raw h) => "ok " ++ dHeader h
      | .ok (.encoded s) => "encoded " ++ dStreams (some s))
  | _, _ => none

end SevenZ.Driver
