/- Line-protocol helpers for the correspondence driver (hex, bit strings, number lists). -/
import SevenZ.Model.Number
namespace SevenZ.Driver

def hexDigit (c : Char) : Option Nat :=
  if '0' ≤ c ∧ c ≤ '9' then some (c.toNat - '0'.toNat)
  else if 'a' ≤ c ∧ c ≤ 'f' then some (c.toNat - 'a'.toNat + 10)
  else if 'A' ≤ c ∧ c ≤ 'F' then some (c.toNat - 'A'.toNat + 10)
  else none

/-- "-" is the empty byte string -/
def parseHex (s : String) : Option Bytes :=
  if s = "-" then some []
  else
    let rec go : List Char → Option Bytes
      | [] => some []
      | [_] => none
      | a :: b :: rest => do
        let x ← hexDigit a
        let y ← hexDigit b
        let r ← go rest
        pure ((16 * x + y) :: r)
    go s.toList

def hexNibble (n : Nat) : Char := "0123456789abcdef".toList.getD n '?'

def toHex (bs : Bytes) : String :=
  if bs.isEmpty then "-"
  else String.ofList (bs.flatMap (fun b => [hexNibble (b / 16 % 16), hexNibble (b % 16)]))

def parseBits (s : String) : Option (List Bool) :=
  if s = "-" then some []
  else s.toList.mapM (fun c => if c = '1' then some true else if c = '0' then some false else none)

def showBits (bs : List Bool) : String :=
  if bs.isEmpty then "-" else String.ofList (bs.map (fun b => if b then '1' else '0'))

def parseNats (s : String) : Option (List Nat) :=
  if s = "-" then some [] else (s.splitOn ",").mapM String.toNat?

def showNats (ns : List Nat) : String :=
  if ns.isEmpty then "-" else ",".intercalate (ns.map toString)

def parseBool (s : String) : Option Bool :=
  if s = "1" then some true else if s = "0" then some false else none

end SevenZ.Driver
