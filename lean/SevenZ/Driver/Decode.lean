/- Driver handlers for the `dec` stream: the decode model run with scripted decoders. -/
import SevenZ.Driver.Util
import SevenZ.Model.Decode
import SevenZ.Model.Stages
namespace SevenZ.Driver
open SevenZ

/-- scripted decoder: `sizes` are consumed one per call -/
structure Script where
  mode : String            -- "ignore" | "honour" | "copy"
  sizes : List Nat
  backlog : Nat := 0
  counter : Nat := 0
  held : Bytes := []

def genBytes (start n : Nat) : Bytes := (List.range n).map (fun i => (start + i) % 251)

def scriptChain : Chain Script where
  dec := fun s data maxLen =>
    if s.mode = "copy" then (s, data)
    else if s.mode = "pass" then
      -- a filter stage with an internal buffer that honours the limit
      ({ s with held := (s.held ++ data).drop maxLen }, (s.held ++ data).take maxLen)
    else
      let n := s.sizes.headD 0
      let rest := s.sizes.tail
      if s.mode = "honour" then
        let total := s.backlog + n
        let k := min total maxLen
        ({ s with sizes := rest, backlog := total - k, counter := s.counter + k }, genBytes s.counter k)
      else
        ({ s with sizes := rest, counter := s.counter + n }, genBytes s.counter n)

def mkState (mode : String) (sizes : List Nat) (srcLen : Nat) : DecState Script :=
  { chain := { mode, sizes }, src := (List.range srcLen).map (· % 256) }

def decHandler (op : String) (args : List String) : Option String :=
  match op, args with
  | "dec.calls", [mode, sizes, isz, bsz, srcLen, reqs] => do
    let sizes ← parseNats sizes
    let cfg : DecCfg := { inputSize := ← isz.toNat?, blockSize := ← bsz.toNat? }
    let reqs ← parseNats reqs
    let st0 := mkState mode sizes (← srcLen.toNat?)
    let (outs, st) := reqs.foldl (fun (acc : List String × DecState Script) m =>
      let r := Impl.decompress scriptChain cfg acc.2 m
      (acc.1 ++ [toHex r.1], r.2.2)) ([], st0)
    pure (";".intercalate outs ++ s!";buf={st.buf.length} pos={st.pos} consumed={st.consumed}")
  | "dec.loop", [mode, sizes, isz, bsz, srcLen, size, mb, lim] => do
    let sizes ← parseNats sizes
    let cfg : DecCfg := { inputSize := ← isz.toNat?, blockSize := ← bsz.toNat? }
    let st0 := mkState mode sizes (← srcLen.toNat?)
    let limit : Option Nat := if lim = "N" then none else lim.toNat?
    pure (match Impl.workerLoop scriptChain cfg (← mb.toNat?) limit 20000 st0 (← size.toNat?) 0 [] with
      | .done out _ => "done " ++ toHex out
      | .stalled out => "stalled " ++ toHex out
      | .outOfFuel => "spin")
  | "dec.stages", [stagesS, callsS] => do
    let stages ← (stagesS.splitOn ";").mapM (fun t =>
      match t.splitOn ":" with
      | [mode, size, sizes] => do
        let sz ← parseNats (sizes.replace "+" ",")
        pure ({ st := { mode, sizes := sz }, unpacked := 0, size := ← size.toNat? } : StageSt Script)
      | _ => none)
    let calls ← (callsS.splitOn ";").mapM (fun t =>
      match t.splitOn ":" with
      | [k, n] => do pure (← k.toNat?, ← n.toNat?)
      | _ => none)
    let (outs, _, _) := calls.foldl (fun (acc : List String × List (StageSt Script) × Nat) c =>
      let (outs, sts, idx) := acc
      match Impl.stagesStep scriptChain.dec sts (genBytes (idx * 7) c.2) c.1 with
      | some (res, lens, sts') => (outs ++ ["res=" ++ toHex res ++ " lens=" ++ showNats lens], sts', idx + 1)
      | none => (outs ++ ["EOF"], sts, idx + 1)) ([], stages, 0)
    pure ("|".intercalate outs)
  | _, _ => none

end SevenZ.Driver
