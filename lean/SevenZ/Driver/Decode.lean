/- Driver handlers for the `dec` stream: the decode model run with scripted decoders. -/
import SevenZ.Driver.Util
import SevenZ.Model.Decode
namespace SevenZ.Driver
open SevenZ

/-- scripted decoder: `sizes` are consumed one per call -/
structure Script where
  mode : String            -- "ignore" | "honour" | "copy"
  sizes : List Nat
  backlog : Nat := 0
  counter : Nat := 0

def genBytes (start n : Nat) : Bytes := (List.range n).map (fun i => (start + i) % 251)

def scriptChain : Chain Script where
  dec := fun s data maxLen =>
    if s.mode = "copy" then (s, data)
    else
      let n := s.sizes.headD 0
      let rest := s.sizes.tail
      if s.mode = "honour" then
        let total := s.backlog + n
        let k := min total maxLen
        ({ s with sizes := rest, backlog := total - k, counter := s.counter + k }, genBytes s.counter k)
      else
        ({ s with sizes := rest, counter := s.counter + n }, genBytes s.counter n)

def mkState (mode : String) (sizes : List Nat) (srcLen : Nat) : DecState Script :=
  { chain := { mode, sizes }, src := (List.range srcLen).map (· % 256) }

def decHandler (op : String) (args : List String) : Option String :=
  match op, args with
  | "dec.calls", [mode, sizes, isz, bsz, srcLen, reqs] => do
    let sizes ← parseNats sizes
    let cfg : DecCfg := { inputSize := ← isz.toNat?, blockSize := ← bsz.toNat? }
    let reqs ← parseNats reqs
    let st0 := mkState mode sizes (← srcLen.toNat?)
    let (outs, st) := reqs.foldl (fun (acc : List String × DecState Script) m =>
      let r := Impl.decompress scriptChain cfg acc.2 m
      (acc.1 ++ [toHex r.1], r.2.2)) ([], st0)
    pure (";".intercalate outs ++ s!";buf={st.buf.length} pos={st.pos} consumed={st.consumed}")
  | "dec.loop", [mode, sizes, isz, bsz, srcLen, size, mb, lim] => do
    let sizes ← parseNats sizes
    let cfg : DecCfg := { inputSize := ← isz.toNat?, blockSize := ← bsz.toNat? }
    let st0 := mkState mode sizes (← srcLen.toNat?)
    let limit : Option Nat := if lim = "N" then none else lim.toNat?
    pure (match Impl.workerLoop scriptChain cfg (← mb.toNat?) limit 20000 st0 (← size.toNat?) 0 [] with
      | .done out _ => "done " ++ toHex out
      | .stalled out => "stalled " ++ toHex out
      | .outOfFuel => "spin")
  | _, _ => none

end SevenZ.Driver
