/- Driver handler for the `asg` stream: the sub-stream-to-member cursor. -/
import SevenZ.Driver.Util
import SevenZ.Model.Assign
namespace SevenZ.Driver
open SevenZ

def parseOptNats (s : String) : Option (List (Option Nat)) :=
  if s = "-" then some [] else
  (s.splitOn ",").mapM (fun t => if t = "N" then some none else t.toNat?.map some)

def showSlot : Impl.Slot4 → String
  | none => "-"
  | some (fo, off, sz, crc) => s!"{fo}:{off}:{sz}:" ++ (match crc with | some c => toString c | none => "N")

def assignHandler (op : String) (args : List String) : Option String :=
  match op, args with
  | "asg.run", [flags, nums, sizes, crcs] => do
    let fl ← parseBits flags
    match Impl.assign fl (← parseNats nums) (← parseNats sizes) (← parseOptNats crcs) with
    | none => pure "none"
    | some slots => pure (if slots.isEmpty then "empty" else ",".intercalate (slots.map showSlot))
  | _, _ => none

end SevenZ.Driver
