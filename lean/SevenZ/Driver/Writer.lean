/- Driver handler for the `ws` (write session with failing calls) stream. -/
import SevenZ.Driver.Util
import SevenZ.Model.Writer
namespace SevenZ.Driver
open SevenZ SevenZ.Impl

def parseCallW (s : String) : Option (CallKind × WEntry) :=
  match s.splitOn ":" with
  | [k, name, size, crc, es, ok] => do
    let kind ← (match k with | "A" => some CallKind.argRejected | "S" => some .statFails | "P" => some .proceed | _ => none)
    pure (kind, { name := ← name.toNat?, size := ← size.toNat?, crc := ← crc.toNat?, emptystream := ← parseBool es, sourceOk := ← parseBool ok })
  | _ => none

def writerHandler (op : String) (args : List String) : Option String :=
  match op, args with
  | "ws.run", [wd, calls] => do
    let cs ← (if calls = "." then some [] else (calls.splitOn ";").mapM parseCallW)
    let r := runCalls (← parseBool wd) {} cs
    let raised := String.ofList (r.2.map (fun b => if b then '1' else '0'))
    pure (s!"raised={if raised = "" then "-" else raised} files={showNats (r.1.files.map (·.name))} sizes={showNats r.1.sizes} crcs={showNats r.1.crcs} consistent={if consistent r.1 then 1 else 0}")
  | _, _ => none

end SevenZ.Driver
