/- Driver handlers for the primitive streams `num`, `bools`, `utf16`. -/
import SevenZ.Driver.Util
import SevenZ.Model.BoolVec
import SevenZ.Model.Utf16
import SevenZ.Model.Header
namespace SevenZ.Driver
open SevenZ

def showNumRes : Option (Nat × Bytes) → String
  | none => "err"
  | some (v, rest) => s!"ok {v} {toHex rest}"

def primHandler (op : String) (args : List String) : Option String :=
  match op, args with
  | "num.w", [v] => do
    let n ← v.toNat?
    pure (toHex (Impl.writeNumber n))
  | "num.r", [h] => do
    let bs ← parseHex h
    pure (showNumRes (Impl.readNumber bs))
  | "num.s", [h] => do
    let bs ← parseHex h
    pure (showNumRes (Spec.decodeNumber bs))
  | "bools.w", [bits, ad] => do
    let bs ← parseBits bits
    let a ← parseBool ad
    pure (toHex (Impl.writeBools bs a))
  | "bools.r", [count, chk, h] => do
    let n ← count.toNat?
    let c ← parseBool chk
    let bs ← parseHex h
    pure (match Impl.readBools n c bs with
      | none => "err"
      | some (bits, rest) => s!"ok {showBits bits} {toHex rest}")
  | "utf16.w", [cs] => do
    let name ← parseNats cs
    pure (toHex (Impl.writeUtf16 name))
  | "utf16.r", [h] => do
    let bs ← parseHex h
    pure (match Impl.readUtf16 bs with
      | none => "err"
      | some (cs, rest) => s!"ok {showNats cs} {toHex rest}")
  | "utf16.name", [h] => do
    let bs ← parseHex h
    pure (match Impl.readUtf16 bs with
      | none => "err"
      | some (cs, rest) => s!"ok {showNats (Impl.fixSlash cs)} {toHex rest}")
  | "crcs.w", [cs] => do
    let crcs ← parseNats cs
    pure (toHex (Impl.crcBytes crcs))
  | "crcs.r", [count, h] => do
    let n ← count.toNat?
    let bs ← parseHex h
    pure (match Impl.pCrcs n bs with
      | .error _ => "err"
      | .ok (cs, rest) => s!"ok {showNats cs} {toHex rest}")
  | _, _ => none

end SevenZ.Driver
