/- Driver handlers for the `aes` stream: residue-buffer models with a recording cipher. -/
import SevenZ.Driver.Util
import SevenZ.Model.Aes
import SevenZ.Model.Crypto
namespace SevenZ.Driver
open SevenZ

def parseChunks (s : String) : Option (List Bytes) :=
  if s = "." then some [] else (s.splitOn ";").mapM parseHex

def showAes (st : Impl.AesState) : String :=
  (if st.fed.isEmpty then "." else ";".intercalate (st.fed.map toHex)) ++ " buf=" ++ toHex st.buf

def aesHandler (op : String) (args : List String) : Option String :=
  match op, args with
  | "aes.c", [chunks] => do
    let xs ← parseChunks chunks
    pure (showAes (Impl.aesFlush (xs.foldl Impl.aesCompress {})))
  | "aes.d", [chunks] => do
    let xs ← parseChunks chunks
    pure (showAes (xs.foldl Impl.aesDecompress {}))
  | "aes.km", [salt, cs] => do
    let sb ← if salt = "-" then some [] else parseHex salt
    let pw ← parseNats cs
    pure (toHex (Impl.keyMaterial sb pw))
  | "aes.mode", [ctor, ops] => do
    let c ← parseBool ctor
    let os ← (if ops = "-" then some [] else (ops.splitOn ",").mapM (fun o =>
      if o = "enc+" then some (Impl.ModeOp.setEncrypted true)
      else if o = "enc-" then some (Impl.ModeOp.setEncrypted false)
      else if o = "encoded+" then some (Impl.ModeOp.setEncoded true)
      else if o = "encoded-" then some (Impl.ModeOp.setEncoded false)
      else none))
    let m := os.foldl Impl.stepMode (Impl.initMode c)
    let form := match Impl.headerForm m with
      | .raw => "raw" | .encoded => "encoded" | .encrypted => "encrypted"
    pure s!"{if m.encoded then 1 else 0} {if m.encrypted then 1 else 0} {form}"
  | _, _ => none

end SevenZ.Driver
