/- Driver handlers for the `cmp` (compressor accounting) and `ws.arch` (whole create session) streams. -/
import SevenZ.Driver.Header
import SevenZ.Model.WriteSession
import SevenZ.Model.AppendSession
import SevenZ.Model.EncodedHeader
import SevenZ.Model.CrashSession
namespace SevenZ.Driver
open SevenZ SevenZ.Impl

/-- scripted codec stages; the state is a byte buffer -/
def scriptedStage (kind : String) : Option (Stage Bytes) :=
  match kind with
  | "copy" => some { compress := fun s d => (s, d), flush := fun s => (s, []) }
  | "hold" => some { compress := fun s d => (s ++ d, []), flush := fun s => ([], s) }
  | "half" => some { compress := fun s d => (s, (d.zipIdx.filter (fun x => x.2 % 2 = 0)).map (·.1)), flush := fun s => (s, []) }
  | "tag" => some { compress := fun s d => (s, d ++ [d.length % 256]), flush := fun s => (s, [0xEE]) }
  | "lag" => some { compress := fun s d => (d, s), flush := fun s => ([], s) }   -- emits the previous block
  | _ => none

def parseWStages (s : String) : Option (List (StageSt Bytes)) :=
  if s = "-" then some [] else
  (s.splitOn ",").mapM (fun k => (scriptedStage k).map (fun st => ({ stage := st, st := [] } : StageSt Bytes)))

def parseWBlocks (s : String) : Option (List Bytes) :=
  if s = "-" then some [] else (s.splitOn ",").mapM parseHex

def parseWSlot (s : String) : Option (Slot Nat) :=
  if s = "a" then some .absent else if s = "u" then some .undef else s.toNat?.map Slot.val

def parseWMember (s : String) : Option WMember :=
  match s.splitOn "/" with
  | [nm, es, bl, mt, att] => do
    pure { name := ← parseNats nm, emptystream := ← parseBool es, blocks := ← parseWBlocks bl, mtime := ← parseWSlot mt, attr := ← parseWSlot att }
  | _ => none

def parseCoderS (s : String) : Option Coder :=
  match s.splitOn ":" with
  | [m, p] => do
    let method ← parseHex m
    let props ← (if p = "N" then some none else (parseHex p).map some)
    pure { method, props }
  | _ => none

/-- the write sequence in canonical form: consecutive writes at consecutive offsets merged, empty writes dropped -/
def mergeOps : List WriteOp → List WriteOp
  | [] => []
  | w :: rest =>
    if w.data.isEmpty then mergeOps rest else
    match mergeOps rest with
    | [] => [w]
    | v :: more => if v.offset = w.offset + w.data.length then ⟨w.offset, w.data ++ v.data⟩ :: more else w :: v :: more

def showOps : Option (List WriteOp) → String
  | none => "none"
  | some ops => ";".intercalate ((mergeOps ops).map (fun w => s!"{w.offset}:{toHex w.data}"))

def sessionHandler (op : String) (args : List String) : Option String :=
  match op, args with
  | "cmp.run", [mm, stages, members] => do
    -- members: ';'-separated block lists
    let chain ← parseWStages stages
    let mmap ← parseBits mm
    let ms ← (if members = "." then some [] else (members.splitOn ";").mapM parseWBlocks)
    let r := compressAll { chain := chain } ms
    let f := flushCmp r.1
    let fed := f.1.chain.map (·.fed)
    let us := match unpacksizesOf mmap fed with | none => "IndexError" | some l => showNats l
    let per := ";".intercalate (r.2.map (fun x => s!"{x.1}:{x.2}"))
    pure s!"fed={showNats fed} us={us} pack={f.1.packsize} digest={f.1.digest} flushed={f.2} out={toHex f.1.out} per={if per = "" then "-" else per}"
  | "ws.arch", [en, coders, mm, stages, members] => do
    let chain ← parseWStages stages
    let mmap ← parseBits mm
    let cs ← (coders.splitOn "|").mapM parseCoderS
    let ms ← (if members = "." then some [] else (members.splitOn ";").mapM parseWMember)
    let cfg : WConfig Bytes := { coders := cs, methodsMap := mmap, chain := chain, enableDigests := ← parseBool en }
    pure (match sessionArchive cfg ms with
      | none => "none"
      | some b => toHex b)
  | "ws.enc", [hcoders, hstages, hbs, en, coders, mm, stages, members] => do
    let chain ← parseWStages stages
    let mmap ← parseBits mm
    let cs ← (coders.splitOn "|").mapM parseCoderS
    let ms ← (if members = "." then some [] else (members.splitOn ";").mapM parseWMember)
    let cfg : WConfig Bytes := { coders := cs, methodsMap := mmap, chain := chain, enableDigests := ← parseBool en }
    let hcfg : HConfig Bytes := { coders := ← (hcoders.splitOn "|").mapM parseCoderS, chain := ← parseWStages hstages, blocksize := ← hbs.toNat? }
    pure (match sessionArchiveEncoded cfg hcfg ms with
      | none => "none"
      | some b => toHex b)
  | "ws.app", [base, en, coders, mm, stages, members] => do
    let b ← parseHex base
    let chain ← parseWStages stages
    let mmap ← parseBits mm
    let cs ← (if coders = "-" then some [] else (coders.splitOn "|").mapM parseCoderS)
    let ms ← (if members = "." then some [] else (members.splitOn ";").mapM parseWMember)
    let cfg : WConfig Bytes := { coders := cs, methodsMap := mmap, chain := chain, enableDigests := ← parseBool en }
    pure (match appendArchive b cfg ms with
      | none => "none"
      | some r => toHex r)
  | "ws.eapp", [base, hcoders, hstages, hbs, en, coders, mm, stages, members] => do
    let b ← parseHex base
    let chain ← parseWStages stages
    let mmap ← parseBits mm
    let cs ← (if coders = "-" then some [] else (coders.splitOn "|").mapM parseCoderS)
    let ms ← (if members = "." then some [] else (members.splitOn ";").mapM parseWMember)
    let cfg : WConfig Bytes := { coders := cs, methodsMap := mmap, chain := chain, enableDigests := ← parseBool en }
    let hcfg : HConfig Bytes := { coders := ← (hcoders.splitOn "|").mapM parseCoderS, chain := ← parseWStages hstages, blocksize := ← hbs.toNat? }
    pure (match appendArchiveEncoded b cfg hcfg ms with
      | none => "none"
      | some r => toHex r)
  | "ws.eaops", [base, hcoders, hstages, hbs, en, coders, mm, stages, members] => do
    let b ← parseHex base
    let chain ← parseWStages stages
    let mmap ← parseBits mm
    let cs ← (if coders = "-" then some [] else (coders.splitOn "|").mapM parseCoderS)
    let ms ← (if members = "." then some [] else (members.splitOn ";").mapM parseWMember)
    let cfg : WConfig Bytes := { coders := cs, methodsMap := mmap, chain := chain, enableDigests := ← parseBool en }
    let hcfg : HConfig Bytes := { coders := ← (hcoders.splitOn "|").mapM parseCoderS, chain := ← parseWStages hstages, blocksize := ← hbs.toNat? }
    pure (showOps (appendSessionOpsEncoded b cfg hcfg ms))
  | "ws.ops", [en, coders, mm, stages, members] => do
    let chain ← parseWStages stages
    let mmap ← parseBits mm
    let cs ← (coders.splitOn "|").mapM parseCoderS
    let ms ← (if members = "." then some [] else (members.splitOn ";").mapM parseWMember)
    let cfg : WConfig Bytes := { coders := cs, methodsMap := mmap, chain := chain, enableDigests := ← parseBool en }
    pure (showOps (sessionOps cfg ms))
  | "ws.eops", [hcoders, hstages, hbs, en, coders, mm, stages, members] => do
    let chain ← parseWStages stages
    let mmap ← parseBits mm
    let cs ← (coders.splitOn "|").mapM parseCoderS
    let ms ← (if members = "." then some [] else (members.splitOn ";").mapM parseWMember)
    let cfg : WConfig Bytes := { coders := cs, methodsMap := mmap, chain := chain, enableDigests := ← parseBool en }
    let hcfg : HConfig Bytes := { coders := ← (hcoders.splitOn "|").mapM parseCoderS, chain := ← parseWStages hstages, blocksize := ← hbs.toNat? }
    pure (showOps (sessionOpsEncoded cfg hcfg ms))
  | "ws.aops", [base, en, coders, mm, stages, members] => do
    let b ← parseHex base
    let chain ← parseWStages stages
    let mmap ← parseBits mm
    let cs ← (if coders = "-" then some [] else (coders.splitOn "|").mapM parseCoderS)
    let ms ← (if members = "." then some [] else (members.splitOn ";").mapM parseWMember)
    let cfg : WConfig Bytes := { coders := cs, methodsMap := mmap, chain := chain, enableDigests := ← parseBool en }
    pure (showOps (appendSessionOps b cfg ms))
  | _, _ => none

end SevenZ.Driver
