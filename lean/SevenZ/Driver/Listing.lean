/- Driver handlers for the `ls` stream (summary logic). -/
import SevenZ.Driver.Util
import SevenZ.Model.Listing
namespace SevenZ.Driver
open SevenZ

def parseIdFolders (s : String) : Option (List (List Bytes)) :=
  if s = "-" then some [] else
  (s.splitOn "|").mapM (fun f => if f = "" then some [] else (f.splitOn ",").mapM parseHex)

def listingHandler (op : String) (args : List String) : Option String :=
  match op, args with
  | "ls.names", [fs] => do
    let folders ← parseIdFolders fs
    let r := Impl.getMethodsNames Impl.methodsNamelist folders
    pure (if r.isEmpty then "-" else ",".intercalate r)
  | "ls.needpw", [g, fs] => do
    pure (if Impl.needsPassword (← parseBool g) (← parseIdFolders fs) then "1" else "0")
  | "ls.solid", [ns] => do
    pure (if Impl.isSolid (← parseNats ns) then "1" else "0")
  | _, _ => none

end SevenZ.Driver
