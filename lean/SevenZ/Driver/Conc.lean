/- Driver handlers for the `conc` stream (parallel extraction model). -/
import SevenZ.Driver.Util
import SevenZ.Model.Conc
namespace SevenZ.Driver
open SevenZ SevenZ.Impl

def parseCStep (s : String) : Option CStep :=
  match s.toList with
  | 'w' :: rest =>
    match (String.ofList rest).splitOn "." with
    | [o, c] => do pure (.write (← o.toNat?) [← c.toNat?])
    | _ => none
  | 'r' :: rest => do pure (.raise (← (String.ofList rest).toNat?))
  | _ => none

def parseWorker (s : String) : Option (List CStep) :=
  if s = "-" then some [] else (s.splitOn ",").mapM parseCStep

def dedupNat : List Nat → List Nat
  | [] => []
  | x :: xs => x :: (dedupNat xs).filter (· ≠ x)

def showRun (ws : List (List CStep)) (steps : List CStep) (raised : Option Nat) (done : Bool) : String :=
  let outs := dedupNat (ws.flatMap outputsOf)
  let body := outs.map (fun o => toString o ++ "=" ++ "+".intercalate ((written steps o).map toString))
  " ".intercalate body ++ " raise=" ++ (match raised with | some e => toString e | none => "-") ++ " done=" ++ (if done then "1" else "0")

def concHandler (op : String) (args : List String) : Option String :=
  match op, args with
  | "conc.run", [mode, wsS, schedS] => do
    let ws ← (wsS.splitOn ";").mapM parseWorker
    let sched ← parseNats schedS
    if mode = "s" then
      let steps := runSequential ws
      pure (showRun ws steps (raisedIn steps).head? true)
    else
      let tws := ws.map truncateAtRaise
      let steps := runSchedule tws sched
      let done := (remaining tws sched).all List.isEmpty
      pure (showRun ws steps (afterJoin (mode = "t") steps) done)
  | _, _ => none

end SevenZ.Driver
