/- Driver handler for the `rs` (read session) stream. -/
import SevenZ.Driver.Util
import SevenZ.Model.Reader
namespace SevenZ.Driver
open SevenZ

def parseMember (s : String) : Option Member :=
  match s.splitOn ":" with
  | [a, b] => do pure { id := ← a.toNat?, size := ← b.toNat? }
  | _ => none

def parseFolders (s : String) : Option (List (List Member)) :=
  if s = "-" then some [] else
  (s.splitOn "|").mapM (fun f => if f = "" then some [] else (f.splitOn ",").mapM parseMember)

def parseCall (s : String) : Option Call :=
  match s with
  | "getnames" => some .getnames
  | "list" => some .list
  | "getinfo" => some .getinfo
  | "archiveinfo" => some .archiveinfo
  | "needs_password" => some .needsPassword
  | "test" => some .test
  | "testzip" => some .testzip
  | "extractall" => some .extractall
  | "reset" => some .reset
  | _ =>
    match s.splitOn "=" with
    | ["extract", ts] => do pure (.extract (← parseNats ts))
    | _ => none

def showRes : Res → String
  | .names => "names"
  | .verdictOk => "vok"
  | .verdictBad => "vbad"
  | .stall => "stall"
  | .unit => "unit"
  | .delivered ss =>
    "d:" ++ (if ss.isEmpty then "-" else ",".intercalate (ss.map (fun s => s!"{s.id}@{s.folder}+{s.offset}/{s.size}")))

def readerHandler (op : String) (args : List String) : Option String :=
  match op, args with
  | "rs.run", [sr, folders, calls] => do
    let selfReset ← parseBool sr
    let fs ← parseFolders folders
    let cs ← (calls.splitOn ";").mapM parseCall
    let a : RArchive := { folders := fs }
    pure (";".intercalate ((Impl.runSession selfReset a (Impl.freshCache a) cs).map showRes))
  | _, _ => none

end SevenZ.Driver
