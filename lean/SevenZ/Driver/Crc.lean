/- Driver handlers for the `crc` stream. -/
import SevenZ.Driver.Util
import SevenZ.Model.Crc32
import SevenZ.Model.Crash
import SevenZ.Model.CrashSession
namespace SevenZ.Driver
open SevenZ

def crcHandler (op : String) (args : List String) : Option String :=
  match op, args with
  | "crc.u", [v, hx] => do pure (toString (crc32Update (← v.toNat?) (← parseHex hx)))
  | "crc.c", [v, bs, hx] => do pure (toString (Impl.calculateCrc32 (← parseHex hx) (← v.toNat?) (← bs.toNat?)))
  | "crash.gate", [hx] => do
    pure (match Impl.headerGate (← parseHex hx) with
      | none => "none"
      | some hdr => s!"ok {hdr.length} {crc32 hdr}")
  | "crash.ok", [hx] => do pure (if Impl.startHeaderOk (← parseHex hx) then "1" else "0")
  | _, _ => none

end SevenZ.Driver
