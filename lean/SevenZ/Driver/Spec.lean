/- Driver handler for the strict reference reader: JSON out. -/
import SevenZ.Driver.Util
import SevenZ.Spec.Format
namespace SevenZ.Driver
open SevenZ SevenZ.Spec

def jOptNat : Option Nat → String
  | none => "null"
  | some n => toString n

def jList (xs : List String) : String := "[" ++ ",".intercalate xs ++ "]"

def jStr (s : String) : String := "\"" ++ s ++ "\""

def jBool (b : Bool) : String := if b then "true" else "false"

def jCoder (c : SCoder) : String :=
  "{" ++ s!"\"method\":{jStr (toHex c.method)},\"props\":{match c.props with | none => "null" | some p => jStr (toHex p)},\"nin\":{c.numIn},\"nout\":{c.numOut}" ++ "}"

def jFolder (f : SFolder) : String :=
  "{" ++ s!"\"coders\":{jList (f.coders.map jCoder)},\"bind\":{jList (f.bindpairs.map (fun p => s!"[{p.1},{p.2}]"))},\"packed\":{jList (f.packed.map toString)},\"unpack\":{jList (f.unpackSizes.map toString)},\"crc\":{jOptNat f.crc}" ++ "}"

def jPack : Option SPack → String
  | none => "null"
  | some p => "{" ++ s!"\"packpos\":{p.packpos},\"sizes\":{jList (p.sizes.map toString)},\"crcs\":{jList (p.crcs.map jOptNat)}" ++ "}"

def jStreams (s : SStreams) : String :=
  "{" ++ s!"\"pack\":{jPack s.pack},\"folders\":{jList (s.folders.map jFolder)},\"nums\":{jList (s.numUnpack.map toString)},\"sizes\":{jList (s.subSizes.map toString)},\"crcs\":{jList (s.subCrcs.map jOptNat)}" ++ "}"

def jMember (m : SMember) : String :=
  let f := m.file
  let nm := match f.name with | none => "null" | some cs => jList (cs.map toString)
  let st := match m.stream with
    | none => "null"
    | some (fo, off, sz, c) => s!"[{fo},{off},{sz},{jOptNat c}]"
  "{" ++ s!"\"name\":{nm},\"es\":{jBool f.emptyStream},\"ef\":{jBool f.emptyFile},\"anti\":{jBool f.anti},\"ctime\":{jOptNat f.ctime},\"atime\":{jOptNat f.atime},\"mtime\":{jOptNat f.mtime},\"attr\":{jOptNat f.attr},\"stream\":{st}" ++ "}"

def jHeader (h : SHeader) : String :=
  match members h with
  | .error e => "{\"error\":" ++ jStr e ++ "}"
  | .ok ms =>
    let st := match h.streams with | none => "null" | some s => jStreams s
    "{" ++ s!"\"kind\":\"raw\",\"streams\":{st},\"members\":{jList (ms.map jMember)}" ++ "}"

def specHandler (op : String) (args : List String) : Option String :=
  match op, args with
  | "spec.top", [hx] => do
    let bs ← parseHex hx
    pure (match readTop bs with
      | .error e => "{\"error\":" ++ jStr e ++ "}"
      | .ok .empty => "{\"kind\":\"empty\"}"
      | .ok (.raw h) => jHeader h
      | .ok (.encoded s) => "{\"kind\":\"encoded\",\"streams\":" ++ jStreams s ++ "}")
  | _, _ => none

end SevenZ.Driver
