/- Driver handlers for the `prog` stream (progress-callback model). -/
import SevenZ.Driver.Util
import SevenZ.Model.Progress
namespace SevenZ.Driver
open SevenZ SevenZ.Impl

def parsePMember (s : String) : Option PMember :=
  match s.splitOn ":" with
  | [i, sz, d, cs] => do
    let chunks ← if cs = "-" then some [] else (cs.splitOn "+").mapM String.toNat?
    pure { id := ← i.toNat?, size := ← sz.toNat?, delivered := ← parseBool d, chunks := chunks }
  | _ => none

def parsePWorker (s : String) : Option (List PMember) :=
  if s = "-" then some [] else (s.splitOn ",").mapM parsePMember

def showPEv : PEv → String
  | .pre => "pre"
  | .post => "post"
  | .start m => "s" ++ toString m
  | .update _ b => "u" ++ toString b
  | .finish m b => "e" ++ toString m ++ ":" ++ toString b

def parseIts (s : String) : Option (List (Nat × Bool)) :=
  if s = "-" then some [] else (s.splitOn ",").mapM (fun t =>
    match t.splitOn ":" with
    | [n, d] => do pure (← n.toNat?, ← parseBool d)
    | _ => none)

def progHandler (op : String) (args : List String) : Option String :=
  match op, args with
  | "prog.run", [wsS, schedS] => do
    let ws ← (wsS.splitOn ";").mapM parsePWorker
    let sched ← parseNats schedS
    let evs := ws.map workerEvents
    let l := runSchedule evs sched
    let done := (remaining evs sched).all List.isEmpty
    pure (" ".intercalate ((queued l).map showPEv) ++ " done=" ++ (if done then "1" else "0"))
  | "prog.upd", [its] => do pure (showNats (updatesGo 0 (← parseIts its)))
  | _, _ => none

end SevenZ.Driver
