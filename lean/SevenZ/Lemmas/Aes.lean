/- Invariant proofs for the AES residue-buffer model (core Lean only). -/
import SevenZ.Model.Aes
namespace SevenZ
open Impl

def AesInv (st : AesState) (input : Bytes) : Prop :=
  st.fed.flatten ++ st.buf = input ∧ st.buf.length < 16 ∧ ∀ c ∈ st.fed, c.length % 16 = 0

theorem flatten_len_mod (l : List Bytes) (h : ∀ c ∈ l, c.length % 16 = 0) : l.flatten.length % 16 = 0 := by
  induction l with
  | nil => simp
  | cons c cs ih =>
    have hc := h c (by simp)
    have := ih (fun x hx => h x (by simp [hx]))
    simp only [List.flatten_cons, List.length_append]
    omega

theorem aesCompress_inv (st : AesState) (input data : Bytes) (h : AesInv st input) :
    AesInv (aesCompress st data) (input ++ data) := by
  obtain ⟨h1, h2, h3⟩ := h
  unfold aesCompress
  by_cases c1 : st.buf.length + data.length ≥ 16 ∧ (st.buf.length + data.length) % 16 = 0
  · rw [if_pos c1]
    refine ⟨?_, by simp, ?_⟩
    · simp [← h1, List.append_assoc]
    · intro c hc
      simp only [List.mem_append, List.mem_singleton] at hc
      rcases hc with hc | hc
      · exact h3 c hc
      · subst hc; simp [c1.2]
  · rw [if_neg c1]
    by_cases c2 : st.buf.length + data.length > 16
    · rw [if_pos c2]
      have hk : (st.buf.length + data.length) / 16 * 16 - st.buf.length ≤ data.length := by omega
      refine ⟨?_, ?_, ?_⟩
      · simp only [List.flatten_append, List.flatten_cons, List.flatten_nil, List.append_nil, List.append_assoc]
        rw [List.take_append_drop, ← h1, List.append_assoc]
      · simp only [List.length_drop]; omega
      · intro c hc
        simp only [List.mem_append, List.mem_singleton] at hc
        rcases hc with hc | hc
        · exact h3 c hc
        · subst hc
          simp only [List.length_append, List.length_take]
          rw [Nat.min_eq_left hk]
          have : st.buf.length + ((st.buf.length + data.length) / 16 * 16 - st.buf.length) = (st.buf.length + data.length) / 16 * 16 := by omega
          rw [this]; exact Nat.mul_mod_left _ _
    · rw [if_neg c2]
      refine ⟨?_, ?_, h3⟩
      · simp [← h1, List.append_assoc]
      · simp only [List.length_append]; omega

def aesRun (st : AesState) : List Bytes → AesState
  | [] => st
  | x :: xs => aesRun (aesCompress st x) xs

theorem aesRun_inv (xs : List Bytes) : ∀ (st : AesState) (input : Bytes), AesInv st input →
    AesInv (aesRun st xs) (input ++ xs.flatten) := by
  induction xs with
  | nil => intro st input h; simpa [aesRun] using h
  | cons x xs ih =>
    intro st input h
    have := ih _ _ (aesCompress_inv st input x h)
    simpa [aesRun, List.append_assoc] using this

/-- the arguments of the cipher calls over compress* ; flush, concatenated, are the input
    followed by zero padding to a multiple of 16; every argument is a whole number of blocks;
    nothing is left in the buffer -/
theorem aes_feed_eq_pad16 (xs : List Bytes) :
    let st := aesFlush (aesRun {} xs)
    st.fed.flatten = xs.flatten ++ List.replicate ((16 - xs.flatten.length % 16) % 16) 0 ∧
    (∀ c ∈ st.fed, c.length % 16 = 0) ∧ st.buf = [] := by
  have hinv := aesRun_inv xs {} [] ⟨rfl, by decide, by simp⟩
  simp only [List.nil_append] at hinv
  obtain ⟨h1, h2, h3⟩ := hinv
  generalize aesRun {} xs = st at h1 h2 h3
  have hmod := flatten_len_mod st.fed h3
  have hlen : xs.flatten.length % 16 = st.buf.length % 16 := by
    rw [← h1, List.length_append]; omega
  simp only []
  unfold aesFlush
  by_cases hb : st.buf.length > 0
  · rw [if_pos hb]
    refine ⟨?_, ?_, rfl⟩
    · simp only [List.flatten_append, List.flatten_cons, List.flatten_nil, List.append_nil]
      rw [← List.append_assoc, h1, hlen]
    · intro c hc
      simp only [List.mem_append, List.mem_singleton] at hc
      rcases hc with hc | hc
      · exact h3 c hc
      · subst hc; simp only [List.length_append, List.length_replicate]; omega
  · rw [if_neg hb]
    have hb0 : st.buf = [] := by
      cases hbb : st.buf with
      | nil => rfl
      | cons a as => rw [hbb] at hb; simp at hb
    refine ⟨?_, h3, hb0⟩
    rw [hb0] at h1 hlen
    simp only [List.append_nil] at h1
    simp only [List.length_nil, Nat.zero_mod] at hlen
    rw [h1, hlen]; simp


theorem aesDecompress_inv (st : AesState) (input data : Bytes) (h : AesInv st input)
    (hd : data.length ≥ 16) : AesInv (aesDecompress st data) (input ++ data) := by
  obtain ⟨h1, h2, h3⟩ := h
  unfold aesDecompress
  have hpos : data.length > 0 := by omega
  by_cases c1 : data.length > 0 ∧ (st.buf.length + data.length) % 16 = 0
  · rw [if_pos c1]
    refine ⟨?_, by simp, ?_⟩
    · simp [← h1, List.append_assoc]
    · intro c hc
      simp only [List.mem_append, List.mem_singleton] at hc
      rcases hc with hc | hc
      · exact h3 c hc
      · subst hc; simp [c1.2]
  · rw [if_neg c1, if_pos hpos]
    have hk0 : ((st.buf.length + data.length) / 16 * 16 : Nat) ≥ st.buf.length := by omega
    have hk : (((st.buf.length + data.length) / 16 * 16 : Nat) : Int) - (st.buf.length : Int) ≥ 0 := by omega
    have hkn : ((((st.buf.length + data.length) / 16 * 16 : Nat) : Int) - (st.buf.length : Int)).toNat =
        (st.buf.length + data.length) / 16 * 16 - st.buf.length := by omega
    simp only [pyFrom, pyUpTo, hk, if_true, hkn]
    have hle : (st.buf.length + data.length) / 16 * 16 - st.buf.length ≤ data.length := by omega
    refine ⟨?_, ?_, ?_⟩
    · simp only [List.flatten_append, List.flatten_cons, List.flatten_nil, List.append_nil, List.append_assoc]
      rw [List.take_append_drop, ← h1, List.append_assoc]
    · simp only [List.length_drop]; omega
    · intro c hc
      simp only [List.mem_append, List.mem_singleton] at hc
      rcases hc with hc | hc
      · exact h3 c hc
      · subst hc
        simp only [List.length_append, List.length_take]
        rw [Nat.min_eq_left hle]
        have : st.buf.length + ((st.buf.length + data.length) / 16 * 16 - st.buf.length) = (st.buf.length + data.length) / 16 * 16 := by omega
        rw [this]; exact Nat.mul_mod_left _ _

def aesDecRun (st : AesState) : List Bytes → AesState
  | [] => st
  | x :: xs => aesDecRun (aesDecompress st x) xs

theorem aesDecRun_inv (xs : List Bytes) (hx : ∀ c ∈ xs, c.length ≥ 16) : ∀ (st : AesState) (input : Bytes),
    AesInv st input → AesInv (aesDecRun st xs) (input ++ xs.flatten) := by
  induction xs with
  | nil => intro st input h; simpa [aesDecRun] using h
  | cons x xs ih =>
    intro st input h
    have := ih (fun c hc => hx c (by simp [hc])) _ _ (aesDecompress_inv st input x h (hx x (by simp)))
    simpa [aesDecRun, List.append_assoc] using this

/-- decryption side: for every chunking of a ciphertext whose length is a multiple of 16
    into pieces of at least one block, the cipher sees exactly the ciphertext, in whole
    blocks, and nothing stays buffered -/
theorem aes_decrypt_feed (xs : List Bytes) (hx : ∀ c ∈ xs, c.length ≥ 16) (htot : xs.flatten.length % 16 = 0) :
    let st := aesDecRun {} xs
    st.fed.flatten = xs.flatten ∧ (∀ c ∈ st.fed, c.length % 16 = 0) ∧ st.buf = [] := by
  have hinv := aesDecRun_inv xs hx {} [] ⟨rfl, by decide, by simp⟩
  simp only [List.nil_append] at hinv
  obtain ⟨h1, h2, h3⟩ := hinv
  generalize aesDecRun {} xs = st at h1 h2 h3
  have hmod := flatten_len_mod st.fed h3
  have hb : st.buf = [] := by
    have : st.buf.length % 16 = 0 := by
      have := congrArg List.length h1
      simp only [List.length_append] at this
      omega
    have : st.buf.length = 0 := by omega
    exact List.eq_nil_of_length_eq_zero this
  refine ⟨?_, h3, hb⟩
  rw [hb] at h1; simpa using h1

end SevenZ
