/-
The strict reader (`Spec/Format.lean`) on what the writer model emits: boolean vectors and the
optional fixed-width vector properties (times, attributes).
-/
import SevenZ.Lemmas.FilesInfo
import SevenZ.Spec.Format
namespace SevenZ
open Impl Spec

theorem SP.bind_ok {α β} {x : SP α} {f : α → SP β} {s s' : Bytes} {a : α} (h : x s = .ok (a, s')) :
    (x >>= f) s = f a s' := by
  simp [bind, StateT.bind, Except.bind, h]

@[simp] theorem SP.pure_run {α} (a : α) (s : Bytes) : (pure a : SP α) s = .ok (a, s) := rfl

/-- the strict reader's view of one byte: eight bits, most significant first -/
def specByteBits (b : Nat) : List Bool := (List.range 8).map (fun i => decide ((b / 2 ^ (7 - i)) % 2 = 1))

theorem spec_chunk : ∀ (l : List Bool), l.length ≤ 8 →
    specByteBits (bitsVal l 128) = l ++ List.replicate (8 - l.length) false := by
  intro l hl
  match l, hl with
  | [], _ => decide
  | [a], _ => revert a; decide
  | [a,b], _ => revert a b; decide
  | [a,b,c], _ => revert a b c; decide
  | [a,b,c,d], _ => revert a b c d; decide
  | [a,b,c,d,e], _ => revert a b c d e; decide
  | [a,b,c,d,e,f], _ => revert a b c d e f; decide
  | [a,b,c,d,e,f,g], _ => revert a b c d e f g; decide
  | [a,b,c,d,e,f,g,h], _ => revert a b c d e f g h; decide
  | _ :: _ :: _ :: _ :: _ :: _ :: _ :: _ :: _ :: _, h => simp at h

theorem packBitsF_specBits (n : Nat) : ∀ (bs : List Bool), bs.length = n → ∀ f, bs.length ≤ f →
    ∃ pad, (packBitsF f bs).flatMap specByteBits = bs ++ List.replicate pad false := by
  induction n using Nat.strongRecOn with
  | _ n ih =>
    intro bs h f hf
    match bs, h with
    | [], _ => exact ⟨0, by cases f <;> simp [packBitsF]⟩
    | b :: rest, h =>
      subst h
      cases f with
      | zero => simp at hf
      | succ f =>
        simp only [packBitsF, List.flatMap_cons]
        simp only [List.length_cons] at hf
        by_cases hshort : rest.length + 1 ≤ 8
        · -- last byte
          have hd : (b :: rest).drop 8 = [] := List.drop_eq_nil_of_le (by simpa using hshort)
          have ht : (b :: rest).take 8 = b :: rest := List.take_of_length_le (by simpa using hshort)
          rw [hd, ht]
          have : packBitsF f [] = [] := by cases f <;> rfl
          rw [this, spec_chunk _ (by simpa using hshort)]
          exact ⟨8 - (b :: rest).length, by simp⟩
        · have hlen8 : ((b :: rest).take 8).length = 8 := by simp [List.length_take]; omega
          obtain ⟨pad, hp⟩ := ih ((b :: rest).drop 8).length (by simp; omega) _ rfl f (by simp; omega)
          rw [hp, spec_chunk _ (by omega), hlen8]
          refine ⟨pad, ?_⟩
          simp only [Nat.sub_self, List.replicate_zero, List.append_nil]
          rw [← List.append_assoc, List.take_append_drop]

theorem sTake_append (a tail : Bytes) (what : String) : sTake a.length what (a ++ tail) = .ok (a, tail) := by
  simp [sTake]

theorem sBitField_packBits (bs : List Bool) (what : String) (tail : Bytes) :
    sBitField bs.length what (packBits bs ++ tail) = .ok (bs, tail) := by
  have hlen : (packBits bs).length = (bs.length + 7) / 8 := by
    have := packBitsF_length bs.length bs rfl bs.length (Nat.le_refl _)
    simpa [packBits, bitsToBytes] using this
  obtain ⟨pad, hp⟩ := packBitsF_specBits bs.length bs rfl bs.length (Nat.le_refl _)
  unfold sBitField
  rw [← hlen, SP.bind_ok (sTake_append _ tail what)]
  have hbits : (packBits bs).flatMap (fun b => (List.range 8).map (fun i => decide ((b / 2 ^ (7 - i)) % 2 = 1))) =
      bs ++ List.replicate pad false := hp
  simp only [hbits, List.drop_left, List.take_left]
  have : (List.replicate pad false).any id = false := by simp
  simp [this]

theorem sByte_cons (b : Nat) (rest : Bytes) (what : String) : sByte what (b :: rest) = .ok (b, rest) := rfl

theorem sBoolList_writeBools (bs : List Bool) (what : String) (tail : Bytes) :
    sBoolList bs.length what (writeBools bs true ++ tail) = .ok (bs, tail) := by
  unfold sBoolList writeBools
  by_cases hall : bs.all id = true
  · simp only [Bool.true_and, hall, if_true, List.cons_append, List.nil_append]
    rw [SP.bind_ok (sByte_cons 1 tail what)]
    simp only [show (1 : Nat) ≠ 0 by decide, if_false, if_true]
    rw [all_id_replicate bs hall]
    rfl
  · simp only [Bool.true_and, hall, if_true, Bool.false_eq_true, if_false, List.cons_append, List.nil_append,
      List.append_assoc]
    rw [SP.bind_ok (sByte_cons 0 _ what)]
    simp only [if_true]
    exact sBitField_packBits bs what tail

def slotOpt : Slot Nat → Option Nat
  | .val t => some t
  | _ => none

theorem sFixed_le (v k : Nat) (hv : v < 256 ^ k) (what : String) (tail : Bytes) :
    sFixed k what (leBytes v k ++ tail) = .ok (v, tail) := by
  have hlen := leBytes_length v k
  simp [sFixed, hlen, List.take_left' hlen, List.drop_left' hlen, ofLE_leBytes, Nat.mod_eq_of_lt hv]

theorem optvec_payload (w : Nat) (what : String) (slots : List (Slot Nat))
    (hv : ∀ s ∈ slots, ∀ t, s = .val t → t < 256 ^ w) (tail : Bytes) :
    ((slots.map Slot.isVal).mapM (fun d => if d then (do let v ← sFixed w what; pure (some v)) else pure none) : SP (List (Option Nat)))
      (payload w slots ++ tail) = .ok (slots.map slotOpt, tail) := by
  induction slots with
  | nil => rfl
  | cons s ss ih =>
    have ih' := ih (fun s' hs' => hv s' (List.mem_cons_of_mem _ hs'))
    simp only [List.map_cons, List.mapM_cons]
    cases s with
    | val t =>
      have ht := hv (.val t) (by simp) t rfl
      simp only [Slot.isVal, if_true, payload, List.append_assoc]
      rw [SP.bind_ok (a := some t) (s' := payload w ss ++ tail)]
      · rw [SP.bind_ok ih']; rfl
      · rw [SP.bind_ok (sFixed_le t w ht what _)]; rfl
    | absent =>
      simp only [Slot.isVal, Bool.false_eq_true, if_false, payload]
      rw [SP.bind_ok (a := none) (s' := payload w ss ++ tail) rfl, SP.bind_ok ih']; rfl
    | undef =>
      simp only [Slot.isVal, Bool.false_eq_true, if_false, payload]
      rw [SP.bind_ok (a := none) (s' := payload w ss ++ tail) rfl, SP.bind_ok ih']; rfl

/-- the strict reader decodes the body of a written time/attribute property to the slots -/
theorem sOptVector_written (w : Nat) (what : String) (slots : List (Slot Nat))
    (hv : ∀ s ∈ slots, ∀ t, s = .val t → t < 256 ^ w) (tail : Bytes) :
    sOptVector slots.length w what (writeBools (slots.map Slot.isVal) true ++ [0x00] ++ payload w slots ++ tail) =
      .ok (slots.map slotOpt, tail) := by
  unfold sOptVector
  have hl : slots.length = (slots.map Slot.isVal).length := by simp
  rw [hl, List.append_assoc, List.append_assoc, SP.bind_ok (sBoolList_writeBools _ what _)]
  simp only [List.cons_append, List.nil_append]
  rw [SP.bind_ok (sByte_cons 0 _ _)]
  simp only [ne_eq, not_true_eq_false, if_false]
  exact optvec_payload w what slots hv tail

end SevenZ

namespace SevenZ
open Impl Spec

theorem sNumber_write (v : Nat) (hv : v < 2 ^ 64) (what : String) (tail : Bytes) :
    sNumber what (writeNumber v ++ tail) = .ok (v, tail) := by
  simp [sNumber, number_spec_roundtrip v hv tail]

theorem sSized_exact {α} (p : SP α) (what : String) (body rest : Bytes) (a : α) (h : p body = .ok (a, [])) :
    sSized body.length what p (body ++ rest) = .ok (a, rest) := by
  simp [sSized, h]

/-- one step of the strict reader's property loop over a written MTime block -/
theorem spec_times_step (fuel n ne : Nat) (seen : Bool) (files : List SFile) (slots : List (Slot Nat))
    (hlen : slots.length = n) (hn : slots.length < 2 ^ 32)
    (hv : ∀ s ∈ slots, ∀ t, s = .val t → t < 256 ^ 8) (rest : Bytes) :
    sFileProps (fuel + 1) n files ne seen (timesBlock true 0x14 slots ++ rest) =
      sFileProps fuel n (setList files (slots.map slotOpt) (fun f t => { f with mtime := t })) ne seen rest := by
  have hbody := timesBody_length slots
  have hnd : ((slots.map Slot.isVal).filter id).length ≤ slots.length := by
    have := List.length_filter_le id (slots.map Slot.isVal); simpa using this
  have hbb : bitsToBytes (slots.map Slot.isVal).length ≤ slots.length := by simp [bitsToBytes]; omega
  generalize hsz : ((slots.map Slot.isVal).filter id).length * 8 + 2 +
        (if (slots.map Slot.isVal).all id then 0 else bitsToBytes (slots.map Slot.isVal).length) = size at hbody
  have hsize : size < 2 ^ 64 := by
    have : (2:Nat) ^ 32 * 16 < 2 ^ 64 := by decide
    subst hsz; split <;> omega
  unfold timesBlock
  simp only [payload_eq_flatMap, if_true, hsz, List.append_assoc, List.cons_append, List.nil_append]
  rw [sFileProps]
  rw [SP.bind_ok (sByte_cons _ _ _)]
  simp only [show (0x14 : Nat) ≠ 0 by decide, if_false]
  rw [SP.bind_ok (sNumber_write size hsize _ _)]
  have hb : (writeBools (slots.map Slot.isVal) true ++ (0 :: (payload 8 slots ++ rest))) =
      (writeBools (slots.map Slot.isVal) true ++ [0x00] ++ payload 8 slots) ++ rest := by simp
  have hinner := sOptVector_written 8 "MTime" slots hv []
  simp only [List.append_nil] at hinner
  rw [hlen] at hinner
  show (do
      let v ← sSized size "MTime" (sOptVector n 8 "MTime")
      sFileProps fuel n (setList files v (fun f t => { f with mtime := t })) ne seen) _ = _
  rw [hb, ← hbody, SP.bind_ok (sSized_exact _ _ _ rest _ hinner)]

/-- and over a written Attributes block -/
theorem spec_attrs_step (fuel n ne : Nat) (seen : Bool) (files : List SFile) (slots : List (Slot Nat))
    (hlen : slots.length = n) (hn : slots.length < 2 ^ 32)
    (hv : ∀ s ∈ slots, ∀ t, s = .val t → t < 256 ^ 4) (rest : Bytes) :
    sFileProps (fuel + 1) n files ne seen (attrsBlock true slots ++ rest) =
      sFileProps fuel n (setList files (slots.map slotOpt) (fun f t => { f with attr := t })) ne seen rest := by
  have hbody := attrsBody_length slots
  have hnd : ((slots.map Slot.isVal).filter id).length ≤ slots.length := by
    have := List.length_filter_le id (slots.map Slot.isVal); simpa using this
  have hbb : bitsToBytes (slots.map Slot.isVal).length ≤ slots.length := by simp [bitsToBytes]; omega
  generalize hsz : ((slots.map Slot.isVal).filter id).length * 4 + 2 +
        (if ((slots.map Slot.isVal).filter id).length ≠ (slots.map Slot.isVal).length
         then bitsToBytes (slots.map Slot.isVal).length else 0) = size at hbody
  have hsize : size < 2 ^ 64 := by
    have : (2:Nat) ^ 32 * 16 < 2 ^ 64 := by decide
    subst hsz; split <;> omega
  unfold attrsBlock
  simp only [payload_eq_flatMap, if_true, hsz, List.append_assoc, List.cons_append, List.nil_append]
  rw [sFileProps]
  rw [SP.bind_ok (sByte_cons _ _ _)]
  simp only [show (0x15 : Nat) ≠ 0 by decide, if_false]
  rw [SP.bind_ok (sNumber_write size hsize _ _)]
  have hb : (writeBools (slots.map Slot.isVal) true ++ (0 :: (payload 4 slots ++ rest))) =
      (writeBools (slots.map Slot.isVal) true ++ [0x00] ++ payload 4 slots) ++ rest := by simp
  have hinner := sOptVector_written 4 "Attributes" slots hv []
  simp only [List.append_nil] at hinner
  rw [hlen] at hinner
  show (do
      let v ← sSized size "Attributes" (sOptVector n 4 "Attributes")
      sFileProps fuel n (setList files v (fun f t => { f with attr := t })) ne seen) _ = _
  rw [hb, ← hbody, SP.bind_ok (sSized_exact _ _ _ rest _ hinner)]

end SevenZ
