/- Helper lemmas and main proofs about the UTF-16 name model (core Lean only). -/
import SevenZ.Model.Utf16
namespace SevenZ
open Impl

theorem readUnits_units (us : List Nat) (fuel : Nat) (tail : Bytes)
    (hu : ∀ u ∈ us, 0 < u ∧ u < 65536) (hf : us.length < fuel) :
    readUnits fuel (unitsToBytes us ++ 0 :: 0 :: tail) = (us, false, tail) := by
  induction us generalizing fuel with
  | nil =>
    cases fuel with
    | zero => simp at hf
    | succ f => simp [unitsToBytes, readUnits]
  | cons u us ih =>
    cases fuel with
    | zero => simp at hf
    | succ f =>
      have hu0 := hu u (by simp)
      have hne : ¬ (u % 256 = 0 ∧ u / 256 = 0) := by omega
      simp only [unitsToBytes, List.cons_append, readUnits, hne, if_false]
      rw [ih f (fun x hx => hu x (by simp [hx])) (by simp at hf; omega)]
      have : u % 256 + 256 * (u / 256) = u := by omega
      simp [this]

theorem unitsOf_ok (c : Nat) (hc : IsScalar c) : ∀ u ∈ unitsOf c, 0 < u ∧ u < 65536 := by
  obtain ⟨h0, h1, h2⟩ := hc
  intro u hu
  unfold unitsOf at hu
  split at hu
  · simp at hu; omega
  · simp at hu; rcases hu with h | h <;> omega

theorem decode_unitsOf (c : Nat) (hc : IsScalar c) (rest : List Nat) :
    decodeUnits (unitsOf c ++ rest) = (decodeUnits rest).map (fun cs => c :: cs) := by
  obtain ⟨h0, h1, h2⟩ := hc
  unfold unitsOf
  split
  · rename_i hlt
    simp only [List.cons_append, List.nil_append]
    rw [decodeUnits.eq_def]
    have a : ¬ (0xD800 ≤ c ∧ c < 0xDC00) := by omega
    have b : ¬ (0xDC00 ≤ c ∧ c < 0xE000) := by omega
    simp only [a, b, if_false]
  · rename_i hge
    simp only [List.cons_append, List.nil_append]
    rw [decodeUnits.eq_def]
    have a : (0xD800 ≤ 0xD800 + (c - 0x10000) / 1024 ∧ 0xD800 + (c - 0x10000) / 1024 < 0xDC00) := by omega
    have b : (0xDC00 ≤ 0xDC00 + (c - 0x10000) % 1024 ∧ 0xDC00 + (c - 0x10000) % 1024 < 0xE000) := by omega
    simp only [a, b, if_true, and_self]
    have : 0x10000 + (0xD800 + (c - 0x10000) / 1024 - 0xD800) * 1024 + (0xDC00 + (c - 0x10000) % 1024 - 0xDC00) = c := by omega
    rw [this]

theorem decode_flatMap (cs : List Nat) (hs : ∀ c ∈ cs, IsScalar c) :
    decodeUnits (cs.flatMap unitsOf) = some cs := by
  induction cs with
  | nil => simp [decodeUnits]
  | cons c cs ih =>
    rw [List.flatMap_cons, decode_unitsOf c (hs c (by simp)), ih (fun x hx => hs x (by simp [hx]))]
    rfl

theorem utf16_roundtrip (cs : List Nat) (hs : ∀ c ∈ cs, IsScalar c)
    (hlen : (cs.flatMap unitsOf).length < maxLength) (tail : Bytes) :
    readUtf16 (writeUtf16 cs ++ tail) = some (cs, tail) := by
  have hu : ∀ u ∈ cs.flatMap unitsOf, 0 < u ∧ u < 65536 := by
    intro u hu
    rw [List.mem_flatMap] at hu
    obtain ⟨c, hc, huc⟩ := hu
    exact unitsOf_ok c (hs c hc) u huc
  have h1 : readUnits maxLength (writeUtf16 cs ++ tail) = (cs.flatMap unitsOf, false, tail) := by
    unfold writeUtf16
    rw [List.append_assoc]
    exact readUnits_units _ _ _ hu hlen
  unfold readUtf16
  rw [h1]
  simp [decode_flatMap cs hs]

end SevenZ
