/-
py7zr's own reader on the whole raw header py7zr's writer emits, and on the archive a create
session leaves: what `Header._read` reconstructs and what `_real_get_contents`' cursor then
assigns to the members.
-/
import SevenZ.Lemmas.ImplFiles
import SevenZ.Model.Assign
import SevenZ.Lemmas.Assign
namespace SevenZ
open Impl

/-- a StreamsInfo record of linear folders as py7zr's writer holds it -/
structure LinearStreams (s : Streams) (p : PackInfo) (fs : List Folder) (ss : SubStreams) (sizes : List Nat) : Prop where
  hp : s.packinfo = some p
  hf : s.folders = some fs
  hs : s.substreams = some ss
  pack : WFPack p
  nfolders : fs.length < 2 ^ 64
  fne : fs ≠ []
  folders : ∀ f ∈ fs, LinearFolder f
  nlen : ss.numUnpack.length = fs.length
  nums : ∀ n ∈ ss.numUnpack, n < 2 ^ 64
  usizes : ss.unpacksizes = some sizes
  tiles : ImplSizesOK ss.numUnpack (fs.map readBackFolder) sizes
  sizesBound : ∀ v ∈ sizes, v < 2 ^ 64
  ddlen : ss.digestsdefined.length = ss.numUnpack.sum
  dlen : ss.digests.length = ss.numUnpack.sum
  dbound : ∀ c ∈ ss.digests, c < 256 ^ 4

def readBackStreams (p : PackInfo) (fs : List Folder) (ss : SubStreams) (sizes : List Nat) : Streams :=
  { packinfo := some (readBackPack p), folders := some (fs.map readBackFolder), substreams := some (readBackSub ss sizes) }

theorem impl_reads_streams (total : Nat) (s : Streams) (p : PackInfo) (fs : List Folder) (ss : SubStreams) (sizes : List Nat)
    (wf : LinearStreams s p fs ss sizes) (hcount : ss.numUnpack.sum ≤ total * 8) (bytes rest : Bytes) (hw : writeStreams s = some bytes) :
    readStreams total (bytes.drop 1 ++ rest) = .ok (readBackStreams p fs ss sizes, rest) := by
  unfold writeStreams at hw
  rw [wf.hp, wf.hf, wf.hs] at hw
  cases ha : writePackInfo p with
  | none => simp [ha] at hw
  | some a =>
    cases hc : writeSubStreams ss with
    | none => simp [ha, hc] at hw
    | some c =>
      simp only [ha, hc, bind, Option.bind, pure, Option.some.injEq] at hw
      subst hw
      have hne : ss.numUnpack ≠ [] := by
        intro h0
        have := wf.nlen
        rw [h0] at this
        exact wf.fne (List.eq_nil_of_length_eq_zero this.symm)
      have hah := writePackInfo_head p a ha
      have hch := writeSubStreams_head ss c hc hne
      have hpk := fun r => impl_reads_packinfo p a r ha wf.pack
      have hup := fun r => impl_reads_unpackinfo fs wf.nfolders wf.folders r
      have hsb := fun r => impl_reads_substreams total ss (fs.map readBackFolder) c r hcount hc hne (by simpa using wf.nlen)
        (by intro f hf; simp only [List.mem_map] at hf; obtain ⟨g, _, hg⟩ := hf; rw [← hg]; rfl)
        wf.nums sizes wf.usizes wf.tiles wf.sizesBound wf.ddlen wf.dlen wf.dbound
      have hub : writeUnpackInfo fs = 0x07 :: (writeUnpackInfo fs).drop 1 := by simp [writeUnpackInfo]
      unfold readStreams
      rw [hah, hub, hch]
      simp only [List.cons_append, List.nil_append, List.append_assoc, List.drop_succ_cons, List.drop_zero]
      rw [P.bind_ok (read1_cons _ _)]
      simp only [if_true]
      rw [P.bind_ok (a := (some (readBackPack p), some 0x07)) (s' := _)]
      · simp only [if_true]
        rw [P.bind_ok (a := (some (fs.map readBackFolder), some 0x08)) (s' := _)]
        · simp only [if_true]
          rw [P.bind_ok (a := (some (readBackSub ss sizes), some 0)) (s' := rest)]
          · simp [readBackStreams]
          · rw [P.bind_ok (hsb _), P.bind_ok (read1_cons _ _)]
            rfl
        · rw [P.bind_ok (hup _), P.bind_ok (read1_cons _ _)]
          rfl
      · rw [P.bind_ok (hpk _), P.bind_ok (read1_cons _ _)]
        rfl

/-- what `Header._read` reconstructs from a written raw header -/
def readBackHeader (p : PackInfo) (fs : List Folder) (ss : SubStreams) (sizes : List Nat) (fi : FilesInfo) : Header :=
  { mainStreams := some (readBackStreams p fs ss sizes),
    filesInfo := some { files := fi.files.map readBackFile, emptyfiles := [] } }

/-- **py7zr reads back its own raw header**: for every header of linear folders the writer can
    hold and every member list, `Header._read` returns the same positions, sizes, coders, bind
    pairs, counts, digests, names (backslashes rewritten), flags, times and attributes -/
theorem impl_reads_header (h : Header) (s : Streams) (p : PackInfo) (fs : List Folder) (ss : SubStreams)
    (sizes : List Nat) (fi : FilesInfo) (hs : h.mainStreams = some s) (hfi : h.filesInfo = some fi)
    (wf : LinearStreams s p fs ss sizes) (rf : ReadableFiles fi) (hsf : ss.numUnpack.sum ≤ fi.files.length) (pos : Nat) (bytes : Bytes)
    (hw : writeHeaderRaw true h pos = some bytes) :
    readNextHeader bytes = .ok (.raw (readBackHeader p fs ss sizes fi)) := by
  unfold writeHeaderRaw at hw
  rw [hs, hfi] at hw
  cases hm : writeStreams s with
  | none => simp [hm] at hw
  | some ms =>
    simp only [hm, bind, Option.bind, pure, Option.some.injEq] at hw
    subst hw
    have hmh : ms = 0x04 :: ms.drop 1 := by
      unfold writeStreams at hm
      rw [wf.hp, wf.hf, wf.hs] at hm
      cases ha : writePackInfo p with
      | none => simp [ha] at hm
      | some a =>
        cases hc : writeSubStreams ss with
        | none => simp [ha, hc] at hm
        | some c =>
          simp only [ha, hc, bind, Option.bind, pure, Option.some.injEq] at hm
          rw [← hm]; simp
    have hlen := writeFilesInfo_length_ge fi (pos + 1 + ms.length) rf.wf.named
    have hfl := fun (total : Nat) (ht : fi.files.length ≤ total * 8) r =>
      impl_reads_filesinfo fi (pos + 1 + ms.length) total r rf ht
    simp only [List.cons_append, List.nil_append, List.append_assoc]
    have hb : ∀ rest : Bytes, readNextHeader (0x01 :: rest) =
        (readHeaderBody (0x01 :: rest).length rest).map (fun r => NextHeader.raw r.1) := fun _ => rfl
    rw [hb]
    generalize htotal : (1 :: (ms ++ (writeFilesInfo true fi (pos + 1 + ms.length) ++ [0]))).length = total
    have htot : fi.files.length ≤ total * 8 := by
      rw [← htotal]; simp only [List.length_cons, List.length_append]; omega
    have hfl' := hfl total htot
    have hst := fun r => impl_reads_streams total s p fs ss sizes wf (by omega) ms r hm
    unfold readHeaderBody
    generalize (pos + 1 + ms.length) = q at hfl' ⊢
    rw [hmh, writeFilesInfo_head]
    simp only [List.cons_append, List.append_assoc, List.drop_succ_cons, List.drop_zero]
    rw [P.bind_ok (read1_cons _ _)]
    simp only [if_true]
    rw [P.bind_ok (a := (some (readBackStreams p fs ss sizes), some 0x05)) (s' := _)]
    · simp only [if_true]
      rw [P.bind_ok (a := (some { files := fi.files.map readBackFile, emptyfiles := [] }, some 0)) (s' := [])]
      · simp [readBackHeader, Except.map]
      · rw [P.bind_ok (hfl' _), P.bind_ok (read1_cons _ _)]
        rfl
    · rw [P.bind_ok (hst _), P.bind_ok (read1_cons _ _)]
      rfl


/-! ### the archive of a create session, read back by py7zr's own reader -/

/-- additional limits of py7zr's *reader*: coder ids non-empty, properties and the name table
    below 2^63 bytes, names of at most 65535 UTF-16 units -/
structure ReadableSession {σ} (cfg : WConfig σ) (ms : List WMember) : Prop where
  ids : ∀ c ∈ cfg.coders, c.method ≠ []
  props : ∀ c ∈ cfg.coders, ∀ p, c.props = some p → p.length < 2 ^ 63
  nameLen : ∀ m ∈ ms, (m.name.flatMap unitsOf).length < maxLength
  namesSize63 : ((ms.map (·.name)).map (fun n => 2 * (n.flatMap unitsOf).length + 2)).sum + 1 < 2 ^ 63

theorem folderUnpackSize_linear (f : Folder) (k : Nat) (hk : 0 < k) (hb : f.bindpairs = linearPairs k)
    (hl : f.unpacksizes.length = k) : folderUnpackSize f = f.unpacksizes[k - 1]? := by
  unfold folderUnpackSize
  obtain ⟨k', rfl⟩ : ∃ k', k = k' + 1 := ⟨k - 1, by omega⟩
  simp only [hl, List.range_succ, List.reverse_append, List.reverse_cons, List.reverse_nil, List.nil_append,
    List.cons_append, List.find?_cons]
  have : (!findOutBindPair f k') = true := by
    unfold findOutBindPair; rw [hb, linearPairs_out]; simp
  simp [this]

theorem sessionFiles_wf (ms : List WMember) (wfm : WFMembers ms) : WFFiles (sessionFiles ms) := by
  refine ⟨?_, ?_, by simpa [sessionFiles] using wfm.count, ?_, ?_, ?_, ?_⟩
  · intro e he; simp only [sessionFiles, List.mem_map] at he; obtain ⟨m, _, rfl⟩ := he; rfl
  · intro e he c hc; simp only [sessionFiles, List.mem_map] at he; obtain ⟨m, hm, rfl⟩ := he
    exact wfm.scalar m hm c (by simpa [nameOf] using hc)
  · intro e he t ht; simp only [sessionFiles, List.mem_map] at he; obtain ⟨m, hm, rfl⟩ := he
    exact wfm.mtimes m hm t ht
  · intro e he t ht; simp only [sessionFiles, List.mem_map] at he; obtain ⟨m, hm, rfl⟩ := he
    exact wfm.attrs m hm t ht
  · have := wfm.namesSize
    simpa [sessionFiles, nameOf, Function.comp_def] using this
  · intro he; simpa [sessionFiles, Function.comp_def] using he

/-- what py7zr's reader reconstructs of the member records of a session -/
def sessionReadBackFiles (ms : List WMember) : List FileEntry :=
  ms.map (fun m => { emptystream := m.emptystream, filename := some (fixSlash m.name), mtime := normSlot m.mtime,
                     attributes := normSlot m.attr })

/-- **py7zr reads back what a create session wrote.**  For every list of write calls, every
    codec chain and coder list within the reader's limits: `Header._read` on the session's raw
    header returns a header whose member records carry the written names (backslashes
    rewritten), flags, times and attributes in call order, whose single folder holds one
    sub-stream per data member, and whose sub-stream digests are the CRC-32s of the members'
    bytes. -/
theorem impl_reads_session {σ} (cfg : WConfig σ) (ms : List WMember) (H0 : Header) (hdr : Bytes) (pos : Nat)
    (wfc : WFConfig cfg) (wfm : WFMembers ms) (rs : ReadableSession cfg ms)
    (hout : (sessionCompress cfg ms).1.out.length < 2 ^ 64)
    (hus : ∀ us, unpacksizesOf cfg.methodsMap ((sessionCompress cfg ms).1.chain.map (·.fed)) = some us → ∀ v ∈ us, v < 2 ^ 64)
    (hH : sessionHeader cfg ms = some H0) (hW : writeHeaderRaw true H0 pos = some hdr) :
    ∃ H', readNextHeader hdr = .ok (.raw H') ∧
      H'.filesInfo = some { files := sessionReadBackFiles ms, emptyfiles := [] } ∧
      (∃ st sub, H'.mainStreams = some st ∧ st.substreams = some sub ∧
        sub.numUnpack = [(dataMembers ms).length] ∧
        (sub.digestsdefined.zip sub.digests).map (fun (d, c) => if d then some c else none) =
          (dataMembers ms).map (fun m => some (crc32 m.blocks.flatten))) := by
  obtain ⟨f1, f2, f3, f4, f5⟩ := sessionCompress_facts cfg wfc ms
  unfold sessionHeader at hH
  simp only at hH
  cases hU : unpacksizesOf cfg.methodsMap ((sessionCompress cfg ms).1.chain.map (·.fed)) with
  | none => simp [hU] at hH
  | some us =>
    simp only [hU, Option.some.injEq] at hH
    have husb := hus us hU
    obtain ⟨m0, mrest, hmm⟩ : ∃ m0 mrest, cfg.methodsMap = m0 :: mrest := by
      cases hm : cfg.methodsMap with
      | nil => have := wfc.mapLen; rw [hm] at this; have := wfc.ncoders.1; simp at *; omega
      | cons a b => exact ⟨a, b, rfl⟩
    rw [hmm] at hU
    obtain ⟨u1, u2⟩ := unpacksizesOf_spec m0 mrest _ us hU
    have huslen : us.length = cfg.coders.length := by
      rw [u2, ← wfc.mapLen, hmm]; simp
    have huslast : us[cfg.coders.length - 1]? = some ((dataMembers ms).map (fun m => m.blocks.flatten.length)).sum := by
      rw [headFed_getElem _ f5, f2, List.getLast?_eq_getElem?, huslen] at u1
      exact u1
    let p : PackInfo := { packpos := 0, numstreams := 1, packsizes := [(sessionCompress cfg ms).1.packsize],
                          digestdefined := if cfg.enableDigests then [true] else [],
                          crcs := if cfg.enableDigests then [(sessionCompress cfg ms).1.digest] else [],
                          enableDigests := cfg.enableDigests }
    let ss : SubStreams := { numUnpack := [(sessionCompress cfg ms).2.length],
                             unpacksizes := some ((sessionCompress cfg ms).2.map (·.1)),
                             digestsdefined := (sessionCompress cfg ms).2.map (fun _ => true),
                             digests := (sessionCompress cfg ms).2.map (·.2) }
    let sizes := (sessionCompress cfg ms).2.map (·.1)
    let s : Streams := { packinfo := some p, folders := some [sessionFolder cfg us], substreams := some ss }
    have hsizes : sizes = (dataMembers ms).map (fun m => m.blocks.flatten.length) := by
      show (sessionCompress cfg ms).2.map (·.1) = _
      rw [f1]; simp [Function.comp_def]
    have hlf : LinearFolder (sessionFolder cfg us) :=
      ⟨wfc.ncoders, wfc.simple, wfc.coders, rs.ids, rs.props, rfl, huslen, husb⟩
    have wf : LinearStreams s p [sessionFolder cfg us] ss sizes := by
      refine ⟨rfl, rfl, rfl, ⟨by show (0:Nat) < 2 ^ 64; decide, by show (1:Nat) < 2 ^ 64; decide, ?_, ?_, ?_⟩,
        by show (1:Nat) < 2 ^ 64; decide, by simp, ?_, by simp [ss], ?_, rfl, ?_, ?_, by simp [ss], by simp [ss], ?_⟩
      · intro v hv; simp only [p, List.mem_singleton] at hv; rw [hv, f3]; exact hout
      · intro he
        cases hed : cfg.enableDigests <;> simp [p, hed] at he ⊢
      · intro c hc
        cases hed : cfg.enableDigests <;> simp [p, hed] at hc
        rw [hc, f4]; exact crc32Update_lt 0 _
      · intro f hf; simp only [List.mem_singleton] at hf; rw [hf]; exact hlf
      · intro n hn; simp only [ss, List.mem_singleton] at hn
        rw [hn, f1, List.length_map]
        have : (dataMembers ms).length ≤ ms.length := List.length_filter_le _ _
        have := wfm.count
        have : (2 : Nat) ^ 32 < 2 ^ 64 := by decide
        omega
      · show ImplSizesOK [(sessionCompress cfg ms).2.length] [readBackFolder (sessionFolder cfg us)] sizes
        have hl : sizes.length = (sessionCompress cfg ms).2.length := by simp [sizes]
        refine ⟨by omega, Or.inr ?_, ?_⟩
        · rw [folderUnpackSize_linear (readBackFolder (sessionFolder cfg us)) cfg.coders.length wfc.ncoders.1 rfl huslen]
          show us[cfg.coders.length - 1]? = _
          rw [huslast, ← hl, take_all_sum, hsizes]
        · show sizes.drop _ = []
          rw [← hl]; simp
      · intro v hv
        rw [hsizes] at hv
        simp only [List.mem_map] at hv
        obtain ⟨m, hm, rfl⟩ := hv
        exact wfm.sizes m (List.mem_filter.mp hm).1
      · intro c hc
        simp only [ss, f1, List.map_map, List.mem_map, Function.comp] at hc
        obtain ⟨m, _, rfl⟩ := hc
        exact crc32Update_lt 0 _
    have rf : ReadableFiles (sessionFiles ms) := by
      refine ⟨sessionFiles_wf ms wfm, ?_, ?_⟩
      · intro e he; simp only [sessionFiles, List.mem_map] at he; obtain ⟨m, hm, rfl⟩ := he
        exact rs.nameLen m hm
      · have := rs.namesSize63
        simpa [sessionFiles, nameOf, Function.comp_def] using this
    have hs : H0.mainStreams = some s := by rw [← hH]
    have hfi : H0.filesInfo = some (sessionFiles ms) := by rw [← hH]
    have hread := impl_reads_header H0 s p [sessionFolder cfg us] ss sizes (sessionFiles ms) hs hfi wf rf (by
      show [(sessionCompress cfg ms).2.length].sum ≤ (sessionFiles ms).files.length
      have : (dataMembers ms).length ≤ ms.length := List.length_filter_le _ _
      simp [f1, sessionFiles]; omega) pos hdr hW
    refine ⟨_, hread, ?_, _, _, rfl, rfl, ?_, ?_⟩
    · simp [readBackHeader, sessionFiles, sessionReadBackFiles, readBackFile, nameOf, Function.comp_def]
    · simp [readBackSub, ss, f1]
    · simp only [readBackSub, ss, f1, List.map_map]
      generalize dataMembers ms = dm
      have hz : ∀ (l : List WMember),
          ((l.map (fun _ => true)).zip ((((l.map (fun _ => true)).zip (l.map (fun m => crc32 m.blocks.flatten))).map
            (fun (x : Bool × Nat) => if x.1 then x.2 else 0)))).map (fun (x : Bool × Nat) => if x.1 then some x.2 else none) =
          l.map (fun m => some (crc32 m.blocks.flatten)) := by
        intro l
        induction l with
        | nil => rfl
        | cons a b ih => simp only [List.map_cons, List.zip_cons_cons, if_true, ih]
      cases dm with
      | nil => simp
      | cons a b =>
        have := hz (a :: b)
        simpa [Function.comp_def] using this

end SevenZ
