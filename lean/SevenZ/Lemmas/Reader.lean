/- Lemmas about the read-session model: skip arithmetic of selective extraction (core Lean only). -/
import SevenZ.Model.Reader
namespace SevenZ
open Impl

/-- decoding the members of a folder from position `p` never stalls when they fit -/
theorem decodeFolder_some (i total : Nat) (sel : Nat → Bool) (ms : List Member) :
    ∀ p, p + folderTotal ms ≤ total → ∃ ss, decodeFolder i total sel ms p = some (ss, p + folderTotal ms) := by
  induction ms with
  | nil => intro p _; exact ⟨[], by simp [decodeFolder, folderTotal]⟩
  | cons m ms ih =>
    intro p h
    have hm : folderTotal (m :: ms) = m.size + folderTotal ms := by simp [folderTotal]
    rw [hm] at h
    obtain ⟨ss, hss⟩ := ih (p + m.size) (by omega)
    refine ⟨(if sel m.id then [⟨m.id, i, p, m.size⟩] else []) ++ ss, ?_⟩
    simp only [decodeFolder, show ¬ (p + m.size > total) by omega, if_false, hss, hm]
    simp [Nat.add_assoc]

/-- the slices delivered for a selection are the selected ones among those of the full decode -/
theorem decodeFolder_filter (i total : Nat) (sel : Nat → Bool) (ms : List Member) :
    ∀ p ss q ss' q', decodeFolder i total sel ms p = some (ss, q) →
      decodeFolder i total (fun _ => true) ms p = some (ss', q') →
      ss = ss'.filter (fun s => sel s.id) ∧ q = q' := by
  induction ms with
  | nil =>
    intro p ss q ss' q' h h'
    simp [decodeFolder] at h h'
    obtain ⟨rfl, rfl⟩ := h
    obtain ⟨rfl, rfl⟩ := h'
    simp
  | cons m ms ih =>
    intro p ss q ss' q' h h'
    simp only [decodeFolder] at h h'
    by_cases hst : p + m.size > total
    · simp [hst] at h
    · simp only [hst, if_false] at h h'
      cases h1 : decodeFolder i total sel ms (p + m.size) with
      | none => simp [h1] at h
      | some r1 =>
        cases h2 : decodeFolder i total (fun _ => true) ms (p + m.size) with
        | none => simp [h2] at h'
        | some r2 =>
          obtain ⟨s1, q1⟩ := r1
          obtain ⟨s2, q2⟩ := r2
          simp only [h1, h2, Option.some.injEq, Prod.mk.injEq, if_true] at h h'
          obtain ⟨hs, hq⟩ := h
          obtain ⟨hs', hq'⟩ := h'
          obtain ⟨e1, e2⟩ := ih (p + m.size) s1 q1 s2 q2 h1 h2
          subst hs hs' hq hq'
          refine ⟨?_, e2⟩
          by_cases hm : sel m.id = true
          · simp [hm, e1]
          · simp [hm, e1]


theorem decodeFolder_append (i total : Nat) (sel : Nat → Bool) (a b : List Member) :
    ∀ p, decodeFolder i total sel (a ++ b) p =
      match decodeFolder i total sel a p with
      | none => none
      | some (s1, q1) =>
        match decodeFolder i total sel b q1 with
        | none => none
        | some (s2, q2) => some (s1 ++ s2, q2) := by
  induction a with
  | nil =>
    intro p
    simp only [List.nil_append, decodeFolder]
    cases decodeFolder i total sel b p with
    | none => rfl
    | some r => obtain ⟨s, q⟩ := r; simp
  | cons m ms ih =>
    intro p
    simp only [List.cons_append, decodeFolder]
    by_cases hst : p + m.size > total
    · simp [hst]
    · simp only [hst, if_false]
      rw [ih (p + m.size)]
      cases decodeFolder i total sel ms (p + m.size) with
      | none => rfl
      | some r1 =>
        obtain ⟨s1, q1⟩ := r1
        simp only []
        cases decodeFolder i total sel b q1 with
        | none => rfl
        | some r2 => obtain ⟨s2, q2⟩ := r2; simp [List.append_assoc]

theorem trim_split (sel : Nat → Bool) (ms : List Member) :
    ∃ suf, ms = trimAfterLastSelected sel ms ++ suf ∧ ∀ m ∈ suf, sel m.id = false := by
  unfold trimAfterLastSelected
  refine ⟨(ms.reverse.takeWhile (fun m => !sel m.id)).reverse, ?_, ?_⟩
  · have := List.takeWhile_append_dropWhile (p := fun m => !sel m.id) (l := ms.reverse)
    have h2 := congrArg List.reverse this
    simp only [List.reverse_append, List.reverse_reverse] at h2
    exact h2.symm
  · intro m hm
    rw [List.mem_reverse] at hm
    have hall := List.all_takeWhile (l := ms.reverse) (p := fun m => !sel m.id)
    rw [List.all_eq_true] at hall
    have := hall m hm
    simpa using this

theorem decodeFolder_unselected (i total : Nat) (sel : Nat → Bool) (ms : List Member)
    (h : ∀ m ∈ ms, sel m.id = false) : ∀ p ss q, decodeFolder i total (fun _ => true) ms p = some (ss, q) →
      ss.filter (fun s => sel s.id) = [] := by
  induction ms with
  | nil => intro p ss q hd; simp [decodeFolder] at hd; simp [hd.1]
  | cons m ms ih =>
    intro p ss q hd
    simp only [decodeFolder] at hd
    by_cases hst : p + m.size > total
    · simp [hst] at hd
    · simp only [hst, if_false, if_true] at hd
      cases h2 : decodeFolder i total (fun _ => true) ms (p + m.size) with
      | none => simp [h2] at hd
      | some r =>
        obtain ⟨s2, q2⟩ := r
        simp only [h2, Option.some.injEq, Prod.mk.injEq] at hd
        obtain ⟨rfl, _⟩ := hd
        have := ih (fun x hx => h x (by simp [hx])) (p + m.size) s2 q2 h2
        simp [this, h m (by simp)]

/-- one folder: what `extract` delivers (decoding only up to the last selected member) is the
    selected part of what the full decode of the folder delivers -/
theorem folder_restriction (i : Nat) (sel : Nat → Bool) (ms : List Member) :
    ∃ ss ss' q q', decodeFolder i (folderTotal ms) sel (trimAfterLastSelected sel ms) 0 = some (ss, q) ∧
      decodeFolder i (folderTotal ms) (fun _ => true) ms 0 = some (ss', q') ∧
      ss = ss'.filter (fun s => sel s.id) := by
  obtain ⟨suf, hsplit, hsuf⟩ := trim_split sel ms
  obtain ⟨ssAll, hAll⟩ := decodeFolder_some i (folderTotal ms) (fun _ => true) ms 0 (by omega)
  have hApp := decodeFolder_append i (folderTotal ms) (fun _ => true) (trimAfterLastSelected sel ms) suf 0
  rw [← hsplit, hAll] at hApp
  cases hpre : decodeFolder i (folderTotal ms) (fun _ => true) (trimAfterLastSelected sel ms) 0 with
  | none => rw [hpre] at hApp; simp at hApp
  | some r1 =>
    obtain ⟨s1, q1⟩ := r1
    rw [hpre] at hApp
    simp only [] at hApp
    cases hsufd : decodeFolder i (folderTotal ms) (fun _ => true) suf q1 with
    | none => rw [hsufd] at hApp; simp at hApp
    | some r2 =>
      obtain ⟨s2, q2⟩ := r2
      rw [hsufd] at hApp
      simp only [Option.some.injEq, Prod.mk.injEq] at hApp
      obtain ⟨hss, _⟩ := hApp
      have htot : folderTotal (trimAfterLastSelected sel ms) ≤ folderTotal ms := by
        have := congrArg folderTotal hsplit
        simp only [folderTotal, List.map_append, List.sum_append] at this ⊢
        omega
      obtain ⟨ssSel, hSel⟩ := decodeFolder_some i (folderTotal ms) sel (trimAfterLastSelected sel ms) 0 (by omega)
      obtain ⟨e1, _⟩ := decodeFolder_filter i (folderTotal ms) sel _ 0 _ _ _ _ hSel hpre
      refine ⟨ssSel, ssAll, _, _, hSel, hAll, ?_⟩
      rw [e1, hss, List.filter_append, decodeFolder_unselected i _ sel suf hsuf q1 s2 q2 hsufd]
      simp


theorem trim_all (ms : List Member) : trimAfterLastSelected (fun _ => true) ms = ms := by
  unfold trimAfterLastSelected
  cases h : ms.reverse with
  | nil => have : ms = [] := by simpa using h
           subst this; rfl
  | cons a as =>
    simp only [List.dropWhile_cons, Bool.not_true, Bool.false_eq_true, if_false]
    rw [← h, List.reverse_reverse]

/-- `extract(T)` over all folders of a freshly opened archive = the selected part of
    `extractall`, with the very same offsets -/
theorem extract_restriction (sel : Nat → Bool) : ∀ (folders : List (List Member)) (i : Nat),
    ∃ ss ss' c c',
      extractFolders sel false i folders (folders.map (fun _ => none)) = some (ss, c) ∧
      extractFolders (fun _ => true) false i folders (folders.map (fun _ => none)) = some (ss', c') ∧
      ss = ss'.filter (fun s => sel s.id) := by
  intro folders
  induction folders with
  | nil => intro i; exact ⟨[], [], [], [], rfl, rfl, rfl⟩
  | cons ms rest ih =>
    intro i
    obtain ⟨rs, rs', rc, rc', h1, h2, h3⟩ := ih (i + 1)
    obtain ⟨fs, fs', q, q', g1, g2, g3⟩ := folder_restriction i sel ms
    simp only [List.map_cons, extractFolders, List.headD_cons, List.tail_cons, Option.getD_none,
      Bool.not_false, Bool.true_and, trim_all, Bool.false_eq_true, if_false]
    by_cases hany : ms.any (fun m => sel m.id) = true
    · -- some member of this folder is selected
      have hanyAll : ms.any (fun _ => true) = true := by
        rw [List.any_eq_true] at hany ⊢
        obtain ⟨m, hm, _⟩ := hany
        exact ⟨m, hm, rfl⟩
      simp only [hany, hanyAll, Bool.not_true, Bool.false_eq_true, if_false, g1, g2, h1, h2]
      exact ⟨_, _, _, _, rfl, rfl, by rw [g3, h3, List.filter_append]⟩
    · have hnone : ∀ m ∈ ms, sel m.id = false := by
        intro m hm
        cases hs : sel m.id with
        | false => rfl
        | true => exact absurd (List.any_eq_true.mpr ⟨m, hm, hs⟩) hany
      have hany' : ms.any (fun m => sel m.id) = false := by
        cases h : ms.any (fun m => sel m.id) with
        | false => rfl
        | true => exact absurd h hany
      simp only [hany', Bool.not_false, if_true, h1]
      by_cases hall : ms.any (fun _ => true) = true
      · simp only [hall, Bool.not_true, Bool.false_eq_true, if_false, g2, h2]
        refine ⟨_, _, _, _, rfl, rfl, ?_⟩
        rw [List.filter_append, decodeFolder_unselected i _ sel ms hnone 0 fs' q' g2, h3]
        simp
      · have hall' : ms.any (fun _ => true) = false := by
          cases h : ms.any (fun _ => true) with
          | false => rfl
          | true => exact absurd h hall
        simp only [hall', Bool.not_false, if_true, h2]
        exact ⟨_, _, _, _, rfl, rfl, h3⟩

end SevenZ
