/- CRC-32 as a linear shift register: burst detection (core Lean only, no bv_decide). -/
import SevenZ.Model.Crc32
namespace SevenZ

theorem bv_xor_ac1 (a b c : BitVec 32) : a ^^^ (b ^^^ c) = b ^^^ (a ^^^ c) := by
  ext i hi; simp [Bool.xor_left_comm]

theorem crcShift_xor (x y : BitVec 32) : crcShift (x ^^^ y) = crcShift x ^^^ crcShift y := by
  unfold crcShift
  have h1 : (x ^^^ y) >>> 1 = (x >>> 1) ^^^ (y >>> 1) := by
    ext i hi; simp
  rw [h1]
  have h2 : (x ^^^ y).getLsbD 0 = (x.getLsbD 0 ^^ y.getLsbD 0) := by simp
  rw [h2]
  cases x.getLsbD 0 <;> cases y.getLsbD 0
  · simp
  · simp; ext i hi; simp [Bool.xor_left_comm, Bool.xor_comm]
  · simp; ext i hi; simp [Bool.xor_left_comm, Bool.xor_comm, Bool.xor_assoc]
  · simp; ext i hi; simp [Bool.xor_left_comm, Bool.xor_comm, Bool.xor_assoc]

theorem crcShift_zero : crcShift 0#32 = 0#32 := by decide

/-- the register difference evolves linearly: shift of (difference xor differing message bit) -/
theorem crcBit_diff (c1 c2 : BitVec 32) (b1 b2 : Bool) :
    crcBit c1 b1 ^^^ crcBit c2 b2 = crcShift ((c1 ^^^ c2) ^^^ (if (b1 != b2) then 1#32 else 0#32)) := by
  unfold crcBit
  rw [← crcShift_xor]
  congr 1
  cases b1 <;> cases b2 <;> simp <;> (ext i hi; simp [Bool.xor_left_comm, Bool.xor_comm, Bool.xor_assoc])


theorem crcShift_eq_zero (z : BitVec 32) (h : crcShift z = 0#32) : z = 0#32 := by
  have hl : z.getLsbD 0 = false := by
    cases hz : z.getLsbD 0 with
    | false => rfl
    | true =>
      have := congrArg (fun v => v.getLsbD 31) h
      simp [crcShift, hz, crcPoly] at this
  have h1 : z >>> 1 = 0#32 := by
    unfold crcShift at h
    rw [hl] at h
    simpa using h
  ext i hi
  by_cases h0 : i = 0
  · subst h0; simpa using hl
  · have := congrArg (fun v => v.getLsbD (i - 1)) h1
    simp only [BitVec.getLsbD_ushiftRight, BitVec.getLsbD_zero] at this
    have e : 1 + (i - 1) = i := by omega
    rw [e] at this
    simp [BitVec.getLsbD_eq_getElem hi] at this ⊢
    exact this

def ofBoolBit (b : Bool) : BitVec 32 := if b then 1#32 else 0#32

/-- evolution of the register difference driven by the message difference bits -/
def diffRun (d : BitVec 32) (δs : List Bool) : BitVec 32 :=
  δs.foldl (fun d δ => crcShift (d ^^^ ofBoolBit δ)) d

/-- some bit among the top `i` is set -/
def TopSet (i : Nat) (d : BitVec 32) : Prop := ∃ j, j < 32 ∧ 32 - i ≤ j ∧ d.getLsbD j = true

theorem topSet_step (d : BitVec 32) (i : Nat) (hi1 : 1 ≤ i) (hi : i < 32) (h : TopSet i d) (δ : Bool) :
    TopSet (i + 1) (crcShift (d ^^^ ofBoolBit δ)) := by
  obtain ⟨j, hj, hji, hb⟩ := h
  by_cases hl : (d ^^^ ofBoolBit δ).getLsbD 0 = true
  · refine ⟨31, by omega, by omega, ?_⟩
    unfold crcShift
    rw [if_pos hl, BitVec.getLsbD_xor, BitVec.getLsbD_ushiftRight]
    have : (d ^^^ ofBoolBit δ).getLsbD (1 + 31) = false := BitVec.getLsbD_of_ge _ _ (by omega)
    rw [this]; decide
  · have hl' : (d ^^^ ofBoolBit δ).getLsbD 0 = false := by
      cases h : (d ^^^ ofBoolBit δ).getLsbD 0 with
      | false => rfl
      | true => exact absurd h hl
    refine ⟨j - 1, by omega, by omega, ?_⟩
    have hj1 : 1 ≤ j := by omega
    simp only [crcShift, hl', Bool.false_eq_true, if_false, BitVec.xor_zero, BitVec.getLsbD_ushiftRight]
    have e : 1 + (j - 1) = j := by omega
    rw [e, BitVec.getLsbD_xor, hb]
    have : (ofBoolBit δ).getLsbD j = false := by
      unfold ofBoolBit
      cases δ
      · simp
      · simp; omega
    simp [this]

theorem topSet_first : TopSet 1 (crcShift (0#32 ^^^ ofBoolBit true)) :=
  ⟨31, by omega, by omega, by decide⟩

theorem topSet_ne_zero (i : Nat) (d : BitVec 32) (h : TopSet i d) : d ≠ 0#32 := by
  obtain ⟨j, _, _, hb⟩ := h
  intro e; subst e; simp at hb

/-- a burst: first difference bit set, at most 31 more difference bits -/
theorem diffRun_burst (w : List Bool) (hw : w.length ≤ 31) :
    TopSet (w.length + 1) (diffRun 0#32 (true :: w)) := by
  have key : ∀ (w : List Bool) (d : BitVec 32) (i : Nat), 1 ≤ i → i + w.length ≤ 32 → TopSet i d →
      TopSet (i + w.length) (diffRun d w) := by
    intro w
    induction w with
    | nil => intro d i _ _ h; simpa [diffRun] using h
    | cons δ w ih =>
      intro d i h1 h2 h
      simp only [List.length_cons] at h2
      have := ih (crcShift (d ^^^ ofBoolBit δ)) (i + 1) (by omega) (by omega) (topSet_step d i h1 (by omega) h δ)
      simp only [diffRun, List.foldl_cons, List.length_cons] at this ⊢
      have e : i + (w.length + 1) = i + 1 + w.length := by omega
      rw [e]; exact this
  have := key w (crcShift (0#32 ^^^ ofBoolBit true)) 1 (by omega) (by omega) topSet_first
  simp only [diffRun, List.foldl_cons] at this ⊢
  rw [Nat.add_comm]; exact this

theorem diffRun_zeros_zero (n : Nat) : diffRun 0#32 (List.replicate n false) = 0#32 := by
  induction n with
  | zero => rfl
  | succ n ih =>
    simp only [List.replicate_succ, diffRun, List.foldl_cons, ofBoolBit, Bool.false_eq_true, if_false,
      BitVec.xor_zero] at ih ⊢
    rw [crcShift_zero]; exact ih

theorem diffRun_zeros_ne (n : Nat) (d : BitVec 32) (h : d ≠ 0#32) :
    diffRun d (List.replicate n false) ≠ 0#32 := by
  induction n generalizing d with
  | zero => simpa [diffRun] using h
  | succ n ih =>
    simp only [List.replicate_succ, diffRun, List.foldl_cons, ofBoolBit, Bool.false_eq_true, if_false,
      BitVec.xor_zero]
    exact ih _ (fun e => h (crcShift_eq_zero d e))

theorem diffRun_append (d : BitVec 32) (a b : List Bool) : diffRun d (a ++ b) = diffRun (diffRun d a) b := by
  simp [diffRun, List.foldl_append]

/-- two registers fed two bit strings of equal length differ by the linear run over the bit differences -/
theorem feed_diff (m1 : List Bool) : ∀ (m2 : List Bool) (c1 c2 : BitVec 32), m1.length = m2.length →
    m1.foldl crcBit c1 ^^^ m2.foldl crcBit c2 = diffRun (c1 ^^^ c2) (List.zipWith (· != ·) m1 m2) := by
  induction m1 with
  | nil => intro m2 c1 c2 h; cases m2 with
    | nil => simp [diffRun]
    | cons _ _ => simp at h
  | cons b1 m1 ih =>
    intro m2 c1 c2 h
    cases m2 with
    | nil => simp at h
    | cons b2 m2 =>
      simp only [List.foldl_cons, List.zipWith_cons_cons, diffRun]
      rw [ih m2 _ _ (by simpa using h), crcBit_diff]
      rfl


theorem zipWith_self_false (p : List Bool) : List.zipWith (· != ·) p p = List.replicate p.length false := by
  induction p with
  | nil => rfl
  | cons b p ih => simp only [List.zipWith_cons_cons, bne_self_eq_false, ih, List.length_cons, List.replicate_succ]

/-- bit level: two messages that agree except inside a window of at most 32 bits whose first
    bit differs leave the register in different states -/
theorem burst_bits (p s w1 w2 : List Bool) (b1 b2 : Bool) (c : BitVec 32)
    (hlen : w1.length = w2.length) (hw : w1.length ≤ 31) (hb : b1 ≠ b2) :
    (p ++ (b1 :: w1) ++ s).foldl crcBit c ≠ (p ++ (b2 :: w2) ++ s).foldl crcBit c := by
  intro heq
  have hx : (p ++ (b1 :: w1) ++ s).foldl crcBit c ^^^ (p ++ (b2 :: w2) ++ s).foldl crcBit c = 0#32 := by
    rw [heq]; simp
  rw [feed_diff _ _ c c (by simp [hlen])] at hx
  rw [List.zipWith_append (by simp [hlen]), List.zipWith_append rfl] at hx
  simp only [BitVec.xor_self, zipWith_self_false, List.zipWith_cons_cons] at hx
  have hne : (b1 != b2) = true := by cases b1 <;> cases b2 <;> simp_all
  rw [hne, diffRun_append, diffRun_append, diffRun_zeros_zero] at hx
  have hlenz : (List.zipWith (· != ·) w1 w2).length ≤ 31 := by simp [hlen]; omega
  have h1 := diffRun_burst (List.zipWith (· != ·) w1 w2) hlenz
  exact diffRun_zeros_ne s.length _ (topSet_ne_zero _ _ h1) hx

theorem bitsOf_append (a b : Bytes) : bitsOf (a ++ b) = bitsOf a ++ bitsOf b := by
  induction a with
  | nil => rfl
  | cons x xs ih => simp [bitsOf, ih, List.append_assoc]

theorem bitsOf_length (a : Bytes) : (bitsOf a).length = 8 * a.length := by
  induction a with
  | nil => rfl
  | cons x xs ih => simp [bitsOf, ih]; omega

def byteBits (x : Nat) : List Bool := (List.range 8).map (fun i => decide ((x / 2 ^ i) % 2 = 1))

def fromBits : List Bool → Nat
  | [] => 0
  | b :: bs => (if b then 1 else 0) + 2 * fromBits bs

theorem fromBits_byteBits : ∀ x, x < 256 → fromBits (byteBits x) = x := by decide +kernel

/-- the eight bits determine a byte -/
theorem byteBits_inj (x y : Nat) (hx : x < 256) (hy : y < 256)
    (h : (List.range 8).map (fun i => decide ((x / 2 ^ i) % 2 = 1)) = (List.range 8).map (fun i => decide ((y / 2 ^ i) % 2 = 1))) :
    x = y := by
  have := congrArg fromBits h
  change fromBits (byteBits x) = fromBits (byteBits y) at this
  rwa [fromBits_byteBits x hx, fromBits_byteBits y hy] at this

theorem bitsOf_inj (a : Bytes) : ∀ b : Bytes, a.length = b.length → IsBytes a → IsBytes b →
    bitsOf a = bitsOf b → a = b := by
  induction a with
  | nil => intro b h _ _ _; cases b with
    | nil => rfl
    | cons _ _ => simp at h
  | cons x xs ih =>
    intro b h ha hb he
    cases b with
    | nil => simp at h
    | cons y ys =>
      simp only [bitsOf] at he
      have hl : ((List.range 8).map (fun i => decide ((x / 2 ^ i) % 2 = 1))).length =
          ((List.range 8).map (fun i => decide ((y / 2 ^ i) % 2 = 1))).length := by simp
      obtain ⟨e1, e2⟩ := List.append_inj he hl
      have hx := byteBits_inj x y (ha x (by simp)) (hb y (by simp)) e1
      have := ih ys (by simpa using h) (fun z hz => ha z (by simp [hz])) (fun z hz => hb z (by simp [hz])) e2
      rw [hx, this]

/-- two different bit lists of equal length: common prefix, then a differing bit -/
theorem first_difference (a : List Bool) : ∀ b : List Bool, a.length = b.length → a ≠ b →
    ∃ p x y a' b', a = p ++ x :: a' ∧ b = p ++ y :: b' ∧ x ≠ y ∧ a'.length = b'.length := by
  induction a with
  | nil => intro b h hne; cases b with
    | nil => exact absurd rfl hne
    | cons _ _ => simp at h
  | cons x xs ih =>
    intro b h hne
    cases b with
    | nil => simp at h
    | cons y ys =>
      by_cases hxy : x = y
      · subst hxy
        have hne' : xs ≠ ys := fun e => hne (by rw [e])
        obtain ⟨p, u, v, a', b', h1, h2, h3, h4⟩ := ih ys (by simpa using h) hne'
        exact ⟨x :: p, u, v, a', b', by rw [h1]; rfl, by rw [h2]; rfl, h3, h4⟩
      · exact ⟨[], x, y, xs, ys, rfl, rfl, hxy, by simpa using h⟩

/-- byte level: two byte strings of equal length that differ only inside four consecutive
    bytes (a burst of at most 32 bits, in particular any single flipped bit) have different CRC-32 -/
theorem crc32_detects_burst (pre post mid1 mid2 : Bytes) (hlen : mid1.length = mid2.length)
    (h4 : mid1.length ≤ 4) (hne : mid1 ≠ mid2) (hb1 : IsBytes mid1) (hb2 : IsBytes mid2) (value : Nat) :
    crc32Update value (pre ++ mid1 ++ post) ≠ crc32Update value (pre ++ mid2 ++ post) := by
  have hbits : bitsOf mid1 ≠ bitsOf mid2 := fun e => hne (bitsOf_inj mid1 mid2 hlen hb1 hb2 e)
  obtain ⟨p, x, y, a', b', e1, e2, hxy, hl⟩ :=
    first_difference (bitsOf mid1) (bitsOf mid2) (by simp [bitsOf_length, hlen]) hbits
  have hlen1 : a'.length ≤ 31 := by
    have := congrArg List.length e1
    simp only [bitsOf_length, List.length_append, List.length_cons] at this
    omega
  intro heq
  unfold crc32Update crcFeed at heq
  simp only [bitsOf_append, e1, e2] at heq
  have hinj : ∀ u v : BitVec 32, (u ^^^ 0xFFFFFFFF#32).toNat = (v ^^^ 0xFFFFFFFF#32).toNat → u = v := by
    intro u v h
    have := BitVec.eq_of_toNat_eq h
    have h2 := congrArg (· ^^^ 0xFFFFFFFF#32) this
    simpa [BitVec.xor_assoc] using h2
  have := hinj _ _ heq
  have hb := burst_bits (bitsOf pre ++ p) (b' ++ bitsOf post |>.drop b'.length |> fun _ => bitsOf post) a' b' x y
    (BitVec.ofNat 32 value ^^^ 0xFFFFFFFF#32) hl hlen1 hxy
  apply hb
  simpa [List.append_assoc] using this

end SevenZ
