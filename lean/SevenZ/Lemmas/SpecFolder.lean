/-
The strict reader on the Folder / UnpackInfo section the writer model emits
(`Impl.writeFolder`, `Impl.writeUnpackInfo`): coders of any shape (simple or complex, with or
without properties), bind pairs, packed-stream indices, per-coder unpack sizes.
-/
import SevenZ.Lemmas.SpecPack
namespace SevenZ
open Impl Spec

/-- `sRepeat` over the concatenation of per-element encodings -/
theorem sRepeat_flatMap {α β} (p : SP β) (enc : α → Bytes) (dec : α → β) :
    ∀ (xs : List α), (∀ x ∈ xs, ∀ rest, p (enc x ++ rest) = .ok (dec x, rest)) → ∀ rest,
    sRepeat xs.length p (xs.flatMap enc ++ rest) = .ok (xs.map dec, rest) := by
  intro xs
  induction xs with
  | nil => intro _ rest; rfl
  | cons x xs ih =>
    intro h rest
    simp only [List.length_cons, sRepeat, List.flatMap_cons, List.append_assoc, List.map_cons]
    rw [SP.bind_ok (h x (by simp) _)]
    rw [SP.bind_ok (ih (fun y hy => h y (by simp [hy])) rest)]
    rfl

theorem sExpect_cons (id : Nat) (what : String) (rest : Bytes) : sExpect id what (id :: rest) = .ok ((), rest) := by
  unfold sExpect
  rw [SP.bind_ok (sByte_cons _ _ _)]
  simp

def toSCoder (c : Coder) : SCoder :=
  { method := c.method, numIn := c.numIn, numOut := c.numOut, props := c.props }

/-- a coder record the grammar can carry: id of at most 15 bytes, stream counts and property
    length representable as NUMBER -/
structure WFCoder (c : Coder) : Prop where
  idlen : c.method.length < 16
  nin : c.numIn < 2 ^ 64
  nout : c.numOut < 2 ^ 64
  plen : ∀ p, c.props = some p → p.length < 2 ^ 64

/-- the flag byte `Folder.write` emits for one coder -/
def coderFlag (c : Coder) : Nat :=
  (c.method.length &&& 0x0F) ||| (if isSimple c then 0 else 0x10) ||| (if c.props.isSome then 0x20 else 0)

/-- the bytes `Folder.write` emits for one coder -/
def coderBytes (c : Coder) : Bytes :=
  [coderFlag c] ++ c.method.take (c.method.length &&& 0x0F) ++
  (if isSimple c then [] else writeNumber c.numIn ++ writeNumber c.numOut) ++
  (match c.props with
   | none => []
   | some p => writeNumber p.length ++ p)

theorem flag_decode : ∀ k, k < 16 → ∀ (a b : Bool),
    ((k &&& 0x0F) ||| (if a then 0 else 0x10) ||| (if b then 0x20 else 0)) < 0x40 ∧
    ((k &&& 0x0F) ||| (if a then 0 else 0x10) ||| (if b then 0x20 else 0)) % 16 = k ∧
    (decide (((k &&& 0x0F) ||| (if a then 0 else 0x10) ||| (if b then 0x20 else 0)) / 16 % 2 = 1) = !a) ∧
    (decide (((k &&& 0x0F) ||| (if a then 0 else 0x10) ||| (if b then 0x20 else 0)) / 32 % 2 = 1) = b) := by
  decide

theorem and15_of_lt (n : Nat) (h : n < 16) : n &&& 0x0F = n := by
  have : ∀ k, k < 16 → k &&& 0x0F = k := by decide
  exact this n h

theorem coderFlag_spec (c : Coder) (h : c.method.length < 16) :
    coderFlag c < 0x40 ∧ coderFlag c % 16 = c.method.length ∧
    ((coderFlag c / 16 % 2 = 1) ↔ isSimple c = false) ∧ ((coderFlag c / 32 % 2 = 1) ↔ c.props.isSome = true) := by
  obtain ⟨h1, h2, h3, h4⟩ := flag_decode c.method.length h (isSimple c) c.props.isSome
  refine ⟨h1, h2, ?_, ?_⟩
  · unfold coderFlag
    cases hs : isSimple c <;> simp [hs] at h3 ⊢ <;> exact h3
  · unfold coderFlag
    cases hs : c.props.isSome <;> simp [hs] at h4 ⊢ <;> exact h4

theorem sCoder_written (c : Coder) (wf : WFCoder c) (rest : Bytes) :
    sCoder (coderBytes c ++ rest) = .ok (toSCoder c, rest) := by
  unfold sCoder coderBytes
  have hid := and15_of_lt _ wf.idlen
  obtain ⟨h1, h2, h3, h4⟩ := coderFlag_spec c wf.idlen
  generalize coderFlag c = flag at h1 h2 h3 h4
  simp only [hid, List.take_length, List.cons_append, List.nil_append, List.append_assoc]
  rw [SP.bind_ok (sByte_cons _ _ _)]
  have hnot : ¬ flag ≥ 0x40 := by omega
  simp only [hnot, if_false, h2]
  rw [SP.bind_ok (sTake_append _ _ _)]
  -- stream counts
  have hcounts : ∀ tail, ((if flag / 16 % 2 = 1 then do
        let a ← sNumber "NumInStreams"
        let b ← sNumber "NumOutStreams"
        pure (a, b)
      else pure (1, 1) : SP (Nat × Nat)))
      ((if isSimple c = true then [] else writeNumber c.numIn ++ writeNumber c.numOut) ++ tail) = .ok ((c.numIn, c.numOut), tail) := by
    intro tail
    by_cases hs : isSimple c = true
    · have hx : ¬ (flag / 16 % 2 = 1) := by
        intro hx; rw [h3.mp hx] at hs; exact absurd hs (by decide)
      simp only [hx, if_false, hs, if_true, List.nil_append]
      have hs' := hs
      simp only [isSimple, Bool.and_eq_true, decide_eq_true_eq] at hs'
      rw [hs'.1, hs'.2]; rfl
    · have hx : flag / 16 % 2 = 1 := h3.mpr (by simpa using hs)
      simp only [hx, if_true, hs, if_false, List.append_assoc, Bool.false_eq_true]
      rw [SP.bind_ok (sNumber_write _ wf.nin _ _), SP.bind_ok (sNumber_write _ wf.nout _ _)]
      rfl
  rw [SP.bind_ok (hcounts _)]
  -- properties
  cases hp : c.props with
  | none =>
    have hx : ¬ (flag / 32 % 2 = 1) := by
      intro hx; have := h4.mp hx; simp [hp] at this
    simp only [hx, if_false, List.nil_append]
    simp [toSCoder, hp, bind, StateT.bind, Except.bind, pure, StateT.pure, Except.pure]
  | some p =>
    have hx : flag / 32 % 2 = 1 := h4.mpr (by simp [hp])
    simp only [hx, if_true, List.append_assoc]
    rw [SP.bind_ok (a := some p) (s' := rest)]
    · simp [toSCoder, hp]
    · rw [SP.bind_ok (sNumber_write _ (wf.plen p hp) _ _), SP.bind_ok (sTake_append _ _ _)]
      rfl

def totIn (f : Folder) : Nat := (f.coders.map (·.numIn)).sum
def totOut (f : Folder) : Nat := (f.coders.map (·.numOut)).sum

/-- the packed streams of a folder as the format defines them: with exactly one packed stream
    it is the (first) input that no bind pair feeds and nothing is stored (py7zr's writer
    leaves `packed_indices` empty then); otherwise the stored index list -/
def packedOf (f : Folder) : List Nat :=
  if totIn f - (totOut f - 1) = 1 then
    match (List.range (totIn f)).find? (fun i => !(f.bindpairs.any (fun p => p.1 = i))) with
    | some i => [i]
    | none => []
  else f.packedIndices

def toSFolder (f : Folder) : SFolder :=
  { coders := f.coders.map toSCoder, bindpairs := f.bindpairs, packed := packedOf f,
    unpackSizes := f.unpacksizes, crc := none }

/-- a folder record the format allows -/
structure WFFolder (f : Folder) : Prop where
  ncoders : 0 < f.coders.length ∧ f.coders.length ≤ 32
  coders : ∀ c ∈ f.coders, WFCoder c
  outPos : 0 < totOut f
  nbind : f.bindpairs.length = totOut f - 1
  bindRange : ∀ b ∈ f.bindpairs, b.1 < totIn f ∧ b.2 < totOut f ∧ b.1 < 2 ^ 64 ∧ b.2 < 2 ^ 64
  inGe : totOut f - 1 ≤ totIn f
  packed : if totIn f - (totOut f - 1) = 1
    then ((List.range (totIn f)).find? (fun i => !(f.bindpairs.any (fun p => p.1 = i)))).isSome = true
    else f.packedIndices.length = totIn f - (totOut f - 1) ∧ ∀ i ∈ f.packedIndices, i < 2 ^ 64
  nsizes : f.unpacksizes.length = totOut f
  sizes : ∀ v ∈ f.unpacksizes, v < 2 ^ 64

theorem writeFolder_eq (f : Folder) :
    writeFolder f = writeNumber f.coders.length ++ f.coders.flatMap coderBytes ++
      f.bindpairs.flatMap (fun b => writeNumber b.1 ++ writeNumber b.2) ++
      (if totIn f > totOut f then f.packedIndices.flatMap writeNumber else []) := rfl

theorem map_numIn (cs : List Coder) : (cs.map toSCoder).map (·.numIn) = cs.map (·.numIn) := by
  simp [toSCoder, Function.comp_def]
theorem map_numOut (cs : List Coder) : (cs.map toSCoder).map (·.numOut) = cs.map (·.numOut) := by
  simp [toSCoder, Function.comp_def]

/-- the folder record as written (without sizes: those come in their own property) -/
theorem sFolder_written (f : Folder) (wf : WFFolder f) (rest : Bytes) :
    sFolder (writeFolder f ++ rest) = .ok ({ toSFolder f with unpackSizes := [] }, rest) := by
  rw [writeFolder_eq]
  unfold sFolder
  simp only [List.append_assoc]
  have hn64 : f.coders.length < 2 ^ 64 := by have := wf.ncoders.2; omega
  rw [SP.bind_ok (sNumber_write _ hn64 _ _)]
  have h0 : ¬ f.coders.length = 0 := by have := wf.ncoders.1; omega
  have h32 : ¬ f.coders.length > 32 := by have := wf.ncoders.2; omega
  simp only [h0, h32, if_false]
  rw [SP.bind_ok (sRepeat_flatMap sCoder coderBytes toSCoder f.coders
    (fun c hc r => sCoder_written c (wf.coders c hc) r) _)]
  simp only [map_numIn, map_numOut]
  have hout : ¬ (f.coders.map (·.numOut)).sum = 0 := by have := wf.outPos; unfold totOut at this; omega
  simp only [hout, if_false]
  -- bind pairs
  have hpairs : ∀ tail, sRepeat ((f.coders.map (·.numOut)).sum - 1) (do
      let i ← sNumber "bind InIndex"
      let o ← sNumber "bind OutIndex"
      if i ≥ (f.coders.map (·.numIn)).sum ∨ o ≥ (f.coders.map (·.numOut)).sum then sfail "bind pair index out of range" else pure (i, o))
      (f.bindpairs.flatMap (fun b => writeNumber b.1 ++ writeNumber b.2) ++ tail) = .ok (f.bindpairs, tail) := by
    intro tail
    have := sRepeat_flatMap (do
      let i ← sNumber "bind InIndex"
      let o ← sNumber "bind OutIndex"
      if i ≥ (f.coders.map (·.numIn)).sum ∨ o ≥ (f.coders.map (·.numOut)).sum then sfail "bind pair index out of range" else pure (i, o))
      (fun b : Nat × Nat => writeNumber b.1 ++ writeNumber b.2) id f.bindpairs (by
        intro b hb r
        obtain ⟨hb1, hb2, hb3, hb4⟩ := wf.bindRange b hb
        simp only [List.append_assoc]
        rw [SP.bind_ok (sNumber_write _ hb3 _ _), SP.bind_ok (sNumber_write _ hb4 _ _)]
        have : ¬ (b.1 ≥ (f.coders.map (·.numIn)).sum ∨ b.2 ≥ (f.coders.map (·.numOut)).sum) := by
          simp only [totIn, totOut] at hb1 hb2; omega
        simp [this]) tail
    rw [wf.nbind] at this
    simpa [totOut] using this
  rw [SP.bind_ok (hpairs _)]
  have hge : ¬ (f.coders.map (·.numIn)).sum < (f.coders.map (·.numOut)).sum - 1 := by
    have := wf.inGe; unfold totIn totOut at this; omega
  simp only [hge, if_false]
  have hpk := wf.packed
  unfold totIn totOut at hpk
  by_cases h1 : (f.coders.map (·.numIn)).sum - ((f.coders.map (·.numOut)).sum - 1) = 1
  · simp only [h1, if_true] at hpk ⊢
    have hnot : ¬ totIn f > totOut f := by unfold totIn totOut; omega
    simp only [hnot, if_false, List.nil_append]
    cases hf : (List.range (f.coders.map (·.numIn)).sum).find? (fun i => !(f.bindpairs.any (fun p => p.1 = i))) with
    | none => rw [hf] at hpk; simp at hpk
    | some i =>
      have hpo : packedOf f = [i] := by
        unfold packedOf totIn totOut
        simp only [h1, if_true, hf]
      simp [toSFolder, hpo, bind, StateT.bind, Except.bind, pure, StateT.pure, Except.pure]
  · simp only [h1, if_false] at hpk ⊢
    have hbytes : (if totIn f > totOut f then f.packedIndices.flatMap writeNumber else []) =
        f.packedIndices.flatMap writeNumber := by
      by_cases hgt : totIn f > totOut f
      · simp [hgt]
      · have : f.packedIndices.length = 0 := by
          have := wf.inGe; have := wf.outPos; unfold totIn totOut at *; omega
        have : f.packedIndices = [] := List.eq_nil_of_length_eq_zero this
        simp [this]
    have hpo : packedOf f = f.packedIndices := by
      unfold packedOf totIn totOut
      simp only [h1, if_false]
    rw [hbytes, ← hpk.1]
    rw [SP.bind_ok (sRepeat_flatMap (sNumber "packed stream index") writeNumber id f.packedIndices
      (fun i hi r => sNumber_write i (hpk.2 i hi) _ r) rest)]
    simp [toSFolder, hpo]

/-- the per-coder unpack sizes as written, folder by folder -/
theorem sFolderSizes_written : ∀ (fs : List Folder), (∀ f ∈ fs, WFFolder f) → ∀ rest,
    sFolderSizes (fs.map (fun f => { toSFolder f with unpackSizes := [] }))
      (fs.flatMap (fun f => f.unpacksizes.flatMap writeNumber) ++ rest) = .ok (fs.map toSFolder, rest) := by
  intro fs
  induction fs with
  | nil => intro _ rest; rfl
  | cons f fs ih =>
    intro h rest
    have wf := h f (by simp)
    simp only [List.map_cons, sFolderSizes, List.flatMap_cons, List.append_assoc]
    have hlen : ((toSFolder f).coders.map (·.numOut)).sum = f.unpacksizes.length := by
      rw [wf.nsizes]; simp [toSFolder, totOut, toSCoder, Function.comp_def]
    simp only [hlen]
    rw [SP.bind_ok (sRepeat_flatMap (sNumber "coder unpack size") writeNumber id f.unpacksizes
      (fun v hv r => sNumber_write v (wf.sizes v hv) _ r) _)]
    rw [SP.bind_ok (ih (fun g hg => h g (by simp [hg])) rest)]
    simp [toSFolder]

/-- Writer conformance of the UnpackInfo section: any number of folders, each with any legal
    coder graph, is accepted by the strict reader and decodes to the same coders, bind pairs,
    packed-stream indices and unpack sizes; no folder CRC is present (py7zr never writes one). -/
theorem unpackinfo_strict_read (folders : List Folder) (hn : folders.length < 2 ^ 64)
    (hwf : ∀ f ∈ folders, WFFolder f) (rest : Bytes) :
    sUnpackInfo ((writeUnpackInfo folders).drop 1 ++ rest) = .ok (folders.map toSFolder, rest) := by
  unfold writeUnpackInfo sUnpackInfo
  simp only [List.cons_append, List.nil_append, List.append_assoc, List.drop_succ_cons, List.drop_zero]
  rw [SP.bind_ok (sExpect_cons _ _ _)]
  rw [SP.bind_ok (sNumber_write _ hn _ _), SP.bind_ok (sByte_cons _ _ _)]
  have h00 : ¬ ((0 : Nat) ≠ 0) := by decide
  simp only [h00, if_false]
  rw [SP.bind_ok (sRepeat_flatMap sFolder writeFolder (fun f => { toSFolder f with unpackSizes := [] }) folders
    (fun f hf r => sFolder_written f (hwf f hf) r) _)]
  rw [SP.bind_ok (sExpect_cons _ _ _)]
  rw [SP.bind_ok (sFolderSizes_written folders hwf _), SP.bind_ok (sByte_cons _ _ _)]
  simp

end SevenZ
