/- Parser-monad lemmas and the property-block steps of `FilesInfo._read` on what
   `FilesInfo.write` emits (core Lean only). -/
import SevenZ.Model.Header
import SevenZ.Lemmas.Number
import SevenZ.Lemmas.BoolVec
namespace SevenZ
open Impl

theorem P.bind_ok {α β} {x : P α} {f : α → P β} {s s' : Bytes} {a : α} (h : x s = .ok (a, s')) :
    (x >>= f) s = f a s' := by
  simp [bind, StateT.bind, Except.bind, h]

theorem P.bind_err {α β} {x : P α} {f : α → P β} {s : Bytes} {e : Err} (h : x s = .error e) :
    (x >>= f) s = .error e := by
  simp [bind, StateT.bind, Except.bind, h]

@[simp] theorem P.pure_run {α} (a : α) (s : Bytes) : (pure a : P α) s = .ok (a, s) := rfl

@[simp] theorem read1_cons (b : Nat) (rest : Bytes) : read1 (b :: rest) = .ok (some b, rest) := rfl

theorem pNumber_write (v : Nat) (hv : v < 2 ^ 64) (tail : Bytes) :
    pNumber (writeNumber v ++ tail) = .ok (v, tail) := by
  simp [pNumber, number_roundtrip v hv tail]

theorem readBytes_append (a tail : Bytes) : readBytes a.length (a ++ tail) = .ok (a, tail) := by
  simp [readBytes]

theorem pBools_write (bs : List Bool) (ad : Bool) (tail : Bytes) :
    pBools bs.length ad (writeBools bs ad ++ tail) = .ok (bs, tail) := by
  simp [pBools, bools_roundtrip]

theorem pFixed_le (v k : Nat) (hv : v < 256 ^ k) (tail : Bytes) :
    pFixed k (leBytes v k ++ tail) = .ok (v, tail) := by
  have hlen := leBytes_length v k
  simp [pFixed, hlen, List.take_left' hlen, List.drop_left' hlen, ofLE_leBytes, Nat.mod_eq_of_lt hv]

/-- reader's view of a slot list: every key is set, to a value or to None -/
def normSlot : Slot Nat → Slot Nat
  | .val t => .val t
  | _ => .undef

def payload (w : Nat) : List (Slot Nat) → Bytes
  | [] => []
  | .val t :: ss => leBytes t w ++ payload w ss
  | .absent :: ss => payload w ss
  | .undef :: ss => payload w ss

theorem payload_eq_flatMap (w : Nat) (slots : List (Slot Nat)) :
    slots.flatMap (slotBytes w) = payload w slots := by
  induction slots with
  | nil => rfl
  | cons s ss ih => cases s <;> simp [payload, slotBytes, ih]

theorem setTimes_payload (k : TimeKind) (files : List FileEntry) (slots : List (Slot Nat))
    (hlen : slots.length = files.length) (hv : ∀ s ∈ slots, ∀ t, s = .val t → t < 256 ^ 8) (tail : Bytes) :
    setTimes k files (slots.map Slot.isVal) (payload 8 slots ++ tail) =
      .ok ((files.zip slots).map (fun (f, s) => setTime k f (normSlot s)), tail) := by
  induction files generalizing slots with
  | nil => 
    cases slots with
    | nil => simp [setTimes, payload]
    | cons _ _ => simp at hlen
  | cons f fs ih =>
    cases slots with
    | nil => simp at hlen
    | cons s ss =>
      have ih' := ih ss (by simpa using hlen) (fun x hx => hv x (by simp [hx]))
      cases s with
      | val t =>
        have ht : t < 256 ^ 8 := hv (.val t) (by simp) t rfl
        simp only [List.map_cons, Slot.isVal, setTimes, payload, List.append_assoc]
        rw [P.bind_ok (a := Slot.val t) (s' := payload 8 ss ++ tail)]
        · rw [P.bind_ok ih']; simp [normSlot]
        · simp only [if_true]
          rw [P.bind_ok (pFixed_le t 8 ht _)]; rfl
      | absent =>
        simp only [List.map_cons, Slot.isVal, setTimes, payload]
        rw [P.bind_ok (a := Slot.undef) (s' := payload 8 ss ++ tail) (by simp)]
        rw [P.bind_ok ih']; simp [normSlot]
      | undef =>
        simp only [List.map_cons, Slot.isVal, setTimes, payload]
        rw [P.bind_ok (a := Slot.undef) (s' := payload 8 ss ++ tail) (by simp)]
        rw [P.bind_ok ih']; simp [normSlot]


theorem payload_length (w : Nat) (slots : List (Slot Nat)) :
    (payload w slots).length = ((slots.map Slot.isVal).filter id).length * w := by
  induction slots with
  | nil => simp [payload]
  | cons s ss ih =>
    cases s <;> simp [payload, Slot.isVal, ih, leBytes_length, Nat.add_mul] <;> omega

theorem writeBools_true_length (bs : List Bool) :
    (writeBools bs true).length = if bs.all id then 1 else 1 + bitsToBytes bs.length := by
  by_cases h : bs.all id = true
  · simp [writeBools, h]
  · have := writeBools_length bs
    simp only [writeBools, Bool.false_and, Bool.false_eq_true, if_false, List.nil_append] at this
    simp [writeBools, h, this]; omega

/-- the body of a time property has exactly the length its (repaired) Size field announces -/
theorem timesBody_length (slots : List (Slot Nat)) :
    (writeBools (slots.map Slot.isVal) true ++ [0x00] ++ payload 8 slots).length =
      ((slots.map Slot.isVal).filter id).length * 8 + 2 +
        (if (slots.map Slot.isVal).all id then 0 else bitsToBytes (slots.map Slot.isVal).length) := by
  simp only [List.length_append, writeBools_true_length, payload_length, List.length_singleton]
  split <;> omega

theorem times_step (fuel n ne : Nat) (fi : FilesInfo) (slots : List (Slot Nat))
    (hlen : slots.length = fi.files.length) (hn : slots.length < 2 ^ 32)
    (hv : ∀ s ∈ slots, ∀ t, s = .val t → t < 256 ^ 8) (rest : Bytes) :
    readFileProps (fuel + 1) n fi ne (timesBlock true 0x14 slots ++ rest) =
      readFileProps fuel n
        { fi with files := (fi.files.zip slots).map (fun (f, s) => setTime .m f (normSlot s)) } ne rest := by
  have hbody := timesBody_length slots
  have hnd : ((slots.map Slot.isVal).filter id).length ≤ slots.length := by
    have := List.length_filter_le id (slots.map Slot.isVal); simpa using this
  have hbb : bitsToBytes (slots.map Slot.isVal).length ≤ slots.length := by simp [bitsToBytes]; omega
  generalize hsz : ((slots.map Slot.isVal).filter id).length * 8 + 2 +
        (if (slots.map Slot.isVal).all id then 0 else bitsToBytes (slots.map Slot.isVal).length) = size at hbody
  have hsize63 : size < 2 ^ 63 := by
    have : (2:Nat) ^ 32 * 16 < 2 ^ 63 := by decide
    subst hsz; split <;> omega
  have hsize : size < 2 ^ 64 := by
    have : (2:Nat) ^ 63 < 2 ^ 64 := by decide
    omega
  unfold timesBlock
  simp only [payload_eq_flatMap, if_true, hsz, List.append_assoc, List.cons_append, List.nil_append]
  rw [readFileProps]
  rw [P.bind_ok (read1_cons _ _)]
  simp only [show (some 0x14 : Option Nat) ≠ some 0 by decide, if_false]
  rw [P.bind_ok (pNumber_write size hsize _)]
  rw [if_neg (show ¬ size ≥ 2 ^ 63 by omega)]
  simp only [show (some 0x14 : Option Nat) ≠ some 0x19 by decide, if_false]
  have hb : (writeBools (slots.map Slot.isVal) true ++ (0 :: (payload 8 slots ++ rest))) =
      (writeBools (slots.map Slot.isVal) true ++ [0x00] ++ payload 8 slots) ++ rest := by simp
  rw [hb, ← hbody, P.bind_ok (readBytes_append _ rest)]
  simp only [show (some 0x14 : Option Nat) ≠ some 0x12 by decide, show (some 0x14 : Option Nat) ≠ some 0x13 by decide, if_false]
  have hinner : (do
        let defined ← pBools fi.files.length true
        let ext ← read1
        if ext ≠ some 0 then fail Err.malformed else setTimes TimeKind.m fi.files defined : P (List FileEntry))
      (writeBools (slots.map Slot.isVal) true ++ [0x00] ++ payload 8 slots) =
      .ok ((fi.files.zip slots).map (fun (f, s) => setTime .m f (normSlot s)), []) := by
    have hl : fi.files.length = (slots.map Slot.isVal).length := by simp [hlen]
    rw [hl, List.append_assoc, P.bind_ok (pBools_write _ true _)]
    simp only [List.cons_append, List.nil_append]
    rw [P.bind_ok (read1_cons _ _)]
    simp only [ne_eq, not_true_eq_false, if_false]
    have := setTimes_payload .m fi.files slots hlen hv []
    simpa using this
  rw [P.bind_ok (a := (fi.files.zip slots).map (fun (f, s) => setTime .m f (normSlot s))) (s' := rest)]
  · unfold onBuffer
    rw [hinner]

theorem setAttrs_payload (files : List FileEntry) (slots : List (Slot Nat))
    (hlen : slots.length = files.length) (hv : ∀ s ∈ slots, ∀ t, s = .val t → t < 256 ^ 4) (tail : Bytes) :
    setAttrs files (slots.map Slot.isVal) (payload 4 slots ++ tail) =
      .ok ((files.zip slots).map (fun (f, s) => { f with attributes := normSlot s }), tail) := by
  induction files generalizing slots with
  | nil =>
    cases slots with
    | nil => simp [setAttrs, payload]
    | cons _ _ => simp at hlen
  | cons f fs ih =>
    cases slots with
    | nil => simp at hlen
    | cons s ss =>
      have ih' := ih ss (by simpa using hlen) (fun x hx => hv x (by simp [hx]))
      cases s with
      | val t =>
        have ht : t < 256 ^ 4 := hv (.val t) (by simp) t rfl
        simp only [List.map_cons, Slot.isVal, setAttrs, payload, List.append_assoc]
        rw [P.bind_ok (a := Slot.val t) (s' := payload 4 ss ++ tail)]
        · rw [P.bind_ok ih']; simp [normSlot]
        · simp only [if_true]
          rw [P.bind_ok (pFixed_le t 4 ht _)]; rfl
      | absent =>
        simp only [List.map_cons, Slot.isVal, setAttrs, payload]
        rw [P.bind_ok (a := Slot.undef) (s' := payload 4 ss ++ tail) (by simp)]
        rw [P.bind_ok ih']; simp [normSlot]
      | undef =>
        simp only [List.map_cons, Slot.isVal, setAttrs, payload]
        rw [P.bind_ok (a := Slot.undef) (s' := payload 4 ss ++ tail) (by simp)]
        rw [P.bind_ok ih']; simp [normSlot]

/-- the body of the attribute property has exactly the length its (repaired) Size announces -/
theorem attrsBody_length (slots : List (Slot Nat)) :
    (writeBools (slots.map Slot.isVal) true ++ [0x00] ++ payload 4 slots).length =
      ((slots.map Slot.isVal).filter id).length * 4 + 2 +
        (if ((slots.map Slot.isVal).filter id).length ≠ (slots.map Slot.isVal).length
         then bitsToBytes (slots.map Slot.isVal).length else 0) := by
  have hall : ((slots.map Slot.isVal).all id = true) ↔
      ((slots.map Slot.isVal).filter id).length = (slots.map Slot.isVal).length := by
    generalize slots.map Slot.isVal = bs
    induction bs with
    | nil => simp
    | cons b bs ih =>
      cases b
      · simp; have := List.length_filter_le id bs; omega
      · simp [ih]
  simp only [List.length_append, writeBools_true_length, payload_length, List.length_singleton]
  by_cases h : (slots.map Slot.isVal).all id = true
  · simp only [h, if_true, hall.mp h, ne_eq, not_true_eq_false, if_false]; omega
  · have h2 : ¬ ((slots.map Slot.isVal).filter id).length = (slots.map Slot.isVal).length := fun e => h (hall.mpr e)
    have h2' : ¬ ((slots.map Slot.isVal).filter id).length = slots.length := by simpa using h2
    simp [h, h2']; omega

theorem attrs_step (fuel n ne : Nat) (fi : FilesInfo) (slots : List (Slot Nat))
    (hlen : slots.length = fi.files.length) (hnf : n = fi.files.length) (hn : slots.length < 2 ^ 32)
    (hv : ∀ s ∈ slots, ∀ t, s = .val t → t < 256 ^ 4) (rest : Bytes) :
    readFileProps (fuel + 1) n fi ne (attrsBlock true slots ++ rest) =
      readFileProps fuel n
        { fi with files := (fi.files.zip slots).map (fun (f, s) => { f with attributes := normSlot s }) } ne rest := by
  have hbody := attrsBody_length slots
  have hnd : ((slots.map Slot.isVal).filter id).length ≤ slots.length := by
    have := List.length_filter_le id (slots.map Slot.isVal); simpa using this
  have hbb : bitsToBytes (slots.map Slot.isVal).length ≤ slots.length := by simp [bitsToBytes]; omega
  generalize hsz : ((slots.map Slot.isVal).filter id).length * 4 + 2 +
        (if ((slots.map Slot.isVal).filter id).length ≠ (slots.map Slot.isVal).length
         then bitsToBytes (slots.map Slot.isVal).length else 0) = size at hbody
  have hsize63 : size < 2 ^ 63 := by
    have : (2:Nat) ^ 32 * 16 < 2 ^ 63 := by decide
    subst hsz; split <;> omega
  have hsize : size < 2 ^ 64 := by
    have : (2:Nat) ^ 63 < 2 ^ 64 := by decide
    omega
  unfold attrsBlock
  simp only [payload_eq_flatMap, if_true, hsz, List.append_assoc, List.cons_append, List.nil_append]
  rw [readFileProps]
  rw [P.bind_ok (read1_cons _ _)]
  simp only [show (some 0x15 : Option Nat) ≠ some 0 by decide, if_false]
  rw [P.bind_ok (pNumber_write size hsize _)]
  rw [if_neg (show ¬ size ≥ 2 ^ 63 by omega)]
  simp only [show (some 0x15 : Option Nat) ≠ some 0x19 by decide, if_false]
  have hb : (writeBools (slots.map Slot.isVal) true ++ (0 :: (payload 4 slots ++ rest))) =
      (writeBools (slots.map Slot.isVal) true ++ [0x00] ++ payload 4 slots) ++ rest := by simp
  rw [hb, ← hbody, P.bind_ok (readBytes_append _ rest)]
  have hinner : (do
        let defined ← pBools n true
        let ext ← read1
        if ext = some 0 then setAttrs fi.files defined else fail Err.unsupported : P (List FileEntry))
      (writeBools (slots.map Slot.isVal) true ++ [0x00] ++ payload 4 slots) =
      .ok ((fi.files.zip slots).map (fun (f, s) => { f with attributes := normSlot s }), []) := by
    have hl : n = (slots.map Slot.isVal).length := by simp [hlen, hnf]
    rw [hl, List.append_assoc, P.bind_ok (pBools_write _ true _)]
    simp only [List.cons_append, List.nil_append]
    rw [P.bind_ok (read1_cons _ _)]
    simp only [if_true]
    have := setAttrs_payload fi.files slots hlen hv []
    simpa using this
  rw [P.bind_ok (a := (fi.files.zip slots).map (fun (f, s) => { f with attributes := normSlot s })) (s' := rest)]
  · unfold onBuffer
    rw [hinner]

end SevenZ
