/- Lemmas about the chunked decode model (core Lean only). -/
import SevenZ.Model.Decode
namespace SevenZ
open Impl

theorem readData_spec {σ} (cfg : DecCfg) (st : DecState σ) :
    (readData cfg st).2.buf = st.buf ∧ (readData cfg st).2.pos = st.pos ∧
    (readData cfg st).2.chain = st.chain ∧
    st.consumed ≤ (readData cfg st).2.consumed ∧
    cfg.inputSize - (readData cfg st).2.consumed ≤ cfg.inputSize - st.consumed ∧
    ((readData cfg st).2.consumed ≠ st.consumed →
      cfg.inputSize - (readData cfg st).2.consumed < cfg.inputSize - st.consumed) := by
  by_cases h : min (cfg.inputSize - st.consumed) cfg.blockSize > 0
  · simp only [readData, h, if_true, List.length_take]
    refine ⟨trivial, trivial, trivial, by omega, by omega, ?_⟩
    intro hne
    omega
  · simp only [readData, h, if_false]
    exact ⟨trivial, trivial, trivial, Nat.le_refl _, Nat.le_refl _, fun h => absurd rfl h⟩

theorem measure_step (X Y k fuel s : Nat) (h1 : X + 1 ≤ Y)
    (h : Y * (k + 2) + (k + 1 - s) + 1 < fuel + 1) : X * (k + 2) + (k + 1 - 0) + 1 < fuel := by
  have := Nat.mul_le_mul_right (k + 2) h1
  rw [Nat.add_mul, Nat.one_mul] at this
  omega

/-- T1: a call never returns more than it was asked for -/
theorem decompress_len_le {σ} (ch : Chain σ) (cfg : DecCfg) (st : DecState σ) (m : Nat) :
    (decompress ch cfg st m).1.length ≤ m := by
  obtain ⟨hb, hp, _⟩ := readData_spec cfg st
  unfold decompress
  by_cases h : st.buf.length - st.pos ≥ m
  · rw [if_pos h]; simp [List.length_take]; omega
  · rw [if_neg h]
    simp only []
    by_cases h2 : st.buf.length - st.pos + (ch.dec (readData cfg st).2.chain (readData cfg st).1 m).2.length ≤ m
    · rw [if_pos h2]; simp [hb, hp]; omega
    · rw [if_neg h2]; simp [hb, hp, List.length_take]; omega

/-- T2: nothing is lost and nothing is duplicated across the carry-over buffer -/
theorem decompress_conserve {σ} (ch : Chain σ) (cfg : DecCfg) (st : DecState σ) (m : Nat) :
    (decompress ch cfg st m).1 ++ (decompress ch cfg st m).2.2.live =
      st.live ++ (decompress ch cfg st m).2.1 := by
  obtain ⟨hb, hp, _⟩ := readData_spec cfg st
  unfold decompress DecState.live
  by_cases h : st.buf.length - st.pos ≥ m
  · rw [if_pos h]
    simp only [List.append_nil]
    rw [← List.drop_drop, List.take_append_drop]
  · rw [if_neg h]
    simp only []
    by_cases h2 : st.buf.length - st.pos + (ch.dec (readData cfg st).2.chain (readData cfg st).1 m).2.length ≤ m
    · rw [if_pos h2]; simp [hb, hp]
    · rw [if_neg h2]; simp [hb, hp, List.append_assoc]

theorem decompress_consumed {σ} (ch : Chain σ) (cfg : DecCfg) (st : DecState σ) (m : Nat) :
    cfg.inputSize - (decompress ch cfg st m).2.2.consumed ≤ cfg.inputSize - st.consumed ∧
    ((decompress ch cfg st m).2.2.consumed ≠ st.consumed →
      cfg.inputSize - (decompress ch cfg st m).2.2.consumed < cfg.inputSize - st.consumed) := by
  obtain ⟨_, _, _, _, h1, h2⟩ := readData_spec cfg st
  unfold decompress
  by_cases h : st.buf.length - st.pos ≥ m
  · rw [if_pos h]; exact ⟨Nat.le_refl _, fun h => absurd rfl h⟩
  · rw [if_neg h]
    simp only []
    split <;> exact ⟨h1, h2⟩

def isOutOfFuel {σ} : LoopResult σ → Bool
  | .outOfFuel => true
  | _ => false

/-- T3: with the progress guard the loop ends — for every decoder, every input — within
    `(out + unread input + 1)·(k+2)` iterations -/
theorem workerLoop_terminates {σ} (ch : Chain σ) (cfg : DecCfg) (mb k : Nat) :
    ∀ (fuel : Nat) (st : DecState σ) (out stalled : Nat) (acc : Bytes),
      (out + (cfg.inputSize - st.consumed)) * (k + 2) + (k + 1 - stalled) + 1 < fuel →
      isOutOfFuel (workerLoop ch cfg mb (some k) fuel st out stalled acc) = false := by
  intro fuel
  induction fuel with
  | zero => intro st out stalled acc h; omega
  | succ fuel ih =>
    intro st out stalled acc h
    unfold workerLoop
    split
    · rfl
    · rename_i hout
      have hc := decompress_consumed ch cfg st (min out mb)
      have hl := decompress_len_le ch cfg st (min out mb)
      simp only []
      generalize decompress ch cfg st (min out mb) = r at hc hl
      obtain ⟨tmp, prod, st'⟩ := r
      simp only [] at hc hl ⊢
      split
      · rename_i hpos
        apply ih
        have h1 : out - tmp.length + (cfg.inputSize - st'.consumed) + 1 ≤ out + (cfg.inputSize - st.consumed) := by
          have := hc.1; omega
        exact measure_step _ _ k fuel stalled h1 h
      · split
        · rename_i hne
          apply ih
          have h1 : out + (cfg.inputSize - st'.consumed) + 1 ≤ out + (cfg.inputSize - st.consumed) := by
            have := hc.2 hne; omega
          exact measure_step _ _ k fuel stalled h1 h
        · rename_i heq
          simp only [ne_eq, Decidable.not_not] at heq
          split
          · rfl
          · rename_i hk
            apply ih
            rw [heq]
            omega


/-- a decoder that never produces anything -/
def emptyChain : Chain Unit := { dec := fun s _ _ => (s, []) }

/-- T4: without the guard the loop of the pinned tree never ends once the input is used up
    and the decoder yields nothing: it is still running after any number of iterations -/
theorem workerLoop_spins (cfg : DecCfg) (mb : Nat) (hmb : 0 < mb) (st : DecState Unit)
    (hb : st.buf = []) (hp : st.pos = 0) (hs : st.src = []) :
    ∀ (fuel out stalled : Nat) (acc : Bytes), 0 < out →
      isOutOfFuel (workerLoop emptyChain cfg mb none fuel st out stalled acc) = true := by
  intro fuel
  induction fuel with
  | zero => intro out stalled acc _; rfl
  | succ fuel ih =>
    intro out stalled acc hout
    have hd : decompress emptyChain cfg st (min out mb) = ([], [], st) := by
      unfold decompress
      have : ¬ (st.buf.length - st.pos ≥ min out mb) := by simp [hb, hp]; omega
      rw [if_neg this]
      have hr : readData cfg st = ([], st) := by
        by_cases hq : min (cfg.inputSize - st.consumed) cfg.blockSize > 0
        · simp only [readData, hq, if_true, hs, List.take_nil, List.length_nil, Nat.add_zero, List.drop_nil]
          cases st; simp_all
        · simp only [readData, hq, if_false]
      simp only [hr, emptyChain, hb, hp, List.length_nil, List.drop_nil, List.append_nil]
      cases st; simp_all
    unfold workerLoop
    rw [if_neg (by omega)]
    simp only [hd, List.length_nil, Nat.lt_irrefl, if_false, ne_eq, not_true_eq_false]
    exact ih out (stalled + 1) acc hout

/-- T5 (bounded carry-over): a chain whose output honours `max_length` never leaves anything
    in the carry-over buffer -/
theorem buf_stays_empty {σ} (ch : Chain σ) (cfg : DecCfg) (st : DecState σ) (m : Nat)
    (hon : ∀ s d k, (ch.dec s d k).2.length ≤ k) (hb : st.buf = []) :
    (decompress ch cfg st m).2.2.buf = [] := by
  obtain ⟨hrb, _, _⟩ := readData_spec cfg st
  unfold decompress
  by_cases h : st.buf.length - st.pos ≥ m
  · rw [if_pos h]; exact hb
  · rw [if_neg h]
    simp only []
    have := hon (readData cfg st).2.chain (readData cfg st).1 m
    rw [if_pos (by simp [hb]; exact this)]

/-- … and in general the buffer never holds more than one call's decoder output -/
theorem buf_le_output {σ} (ch : Chain σ) (cfg : DecCfg) (st : DecState σ) (m : Nat) :
    (decompress ch cfg st m).2.2.buf.length ≤ max st.buf.length (decompress ch cfg st m).2.1.length := by
  unfold decompress
  by_cases h : st.buf.length - st.pos ≥ m
  · rw [if_pos h]; simp
  · rw [if_neg h]
    simp only []
    split
    · simp
    · simp; omega

/-- running a sequence of requests -/
def runCalls {σ} (ch : Chain σ) (cfg : DecCfg) : DecState σ → List Nat → List Bytes × List Bytes × DecState σ
  | st, [] => ([], [], st)
  | st, m :: ms =>
    let r := decompress ch cfg st m
    let rest := runCalls ch cfg r.2.2 ms
    (r.1 :: rest.1, r.2.1 :: rest.2.1, rest.2.2)

/-- decompress_concat: over any sequence of requests, the bytes handed out followed by
    what is still buffered are exactly the bytes the chain produced, in order -/
theorem decompress_concat {σ} (ch : Chain σ) (cfg : DecCfg) (ms : List Nat) :
    ∀ st : DecState σ,
      (runCalls ch cfg st ms).1.flatten ++ (runCalls ch cfg st ms).2.2.live =
        st.live ++ (runCalls ch cfg st ms).2.1.flatten := by
  induction ms with
  | nil => intro st; simp [runCalls]
  | cons m ms ih =>
    intro st
    simp only [runCalls, List.flatten_cons, List.append_assoc]
    rw [ih, ← List.append_assoc, decompress_conserve, List.append_assoc]

end SevenZ
