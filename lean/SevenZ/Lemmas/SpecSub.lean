/-
The strict reader on the SubStreamsInfo section the writer model emits (`Impl.writeSubStreams`):
NumUnpackStream elided or present, explicit sizes (all but the last of each folder), digests
for any definedness pattern.
-/
import SevenZ.Lemmas.SpecFolder
namespace SevenZ
open Impl Spec

/-- the sub-stream sizes tile each folder's output: `sizes` is cut into groups of `n` entries,
    one group per folder, and a non-empty group sums to the folder's unpack size -/
def SizesOK : List Nat → List SFolder → List Nat → Prop
  | [], _, sizes => sizes = []
  | _ :: _, [], _ => False
  | n :: ns, f :: fs, sizes =>
    n ≤ sizes.length ∧ (n = 0 ∨ folderOut f = .ok (sizes.take n).sum) ∧ SizesOK ns fs (sizes.drop n)

theorem dropLast_sum_le (g : List Nat) (h : g ≠ []) :
    g.dropLast.sum ≤ g.sum ∧ g.dropLast ++ [g.sum - g.dropLast.sum] = g := by
  have hg := List.dropLast_concat_getLast h
  have hsum : g.sum = g.dropLast.sum + g.getLast h := by
    conv => lhs; rw [← hg]
    simp
  constructor
  · omega
  · have : g.sum - g.dropLast.sum = g.getLast h := by omega
    rw [this]; exact hg

theorem sSubSizes_written : ∀ (nums : List Nat) (sf : List SFolder) (sizes l : List Nat),
    SizesOK nums sf sizes → subSizesToWrite nums sizes = some l → (∀ v ∈ sizes, v < 2 ^ 64) → ∀ rest,
    sSubSizes nums sf (l.flatMap writeNumber ++ rest) = .ok (sizes, rest) := by
  intro nums
  induction nums with
  | nil =>
    intro sf sizes l hok hw _ rest
    simp only [SizesOK] at hok
    simp only [subSizesToWrite, Option.some.injEq] at hw
    subst hw; subst hok
    rfl
  | cons n ns ih =>
    intro sf sizes l hok hw hv rest
    cases sf with
    | nil => simp [SizesOK] at hok
    | cons f fs =>
      obtain ⟨hlen, hsum, hrest⟩ := hok
      unfold subSizesToWrite at hw
      have hnl : ¬ sizes.length < n := by omega
      simp only [hnl, if_false] at hw
      cases hr : subSizesToWrite ns (sizes.drop n) with
      | none => simp [hr] at hw
      | some r =>
        simp only [hr, Option.some.injEq] at hw
        subst hw
        have hvd : ∀ v ∈ sizes.drop n, v < 2 ^ 64 := fun v hv' => hv v (List.mem_of_mem_drop hv')
        have ih' := ih fs (sizes.drop n) r hrest hr hvd rest
        unfold sSubSizes
        by_cases h0 : n = 0
        · subst h0
          simp only [if_true, List.take_zero, List.dropLast_nil, List.nil_append, List.drop_zero] at ih' ⊢
          exact ih'
        · simp only [h0, if_false]
          have hsum' : folderOut f = .ok (sizes.take n).sum := by
            cases hsum with
            | inl h => exact absurd h h0
            | inr h => exact h
          have hgl : (sizes.take n).length = n := by simp; omega
          have hgne : sizes.take n ≠ [] := by
            intro h; rw [h] at hgl; simp at hgl; omega
          have hdl : (sizes.take n).dropLast.length = n - 1 := by simp; omega
          simp only [List.flatMap_append, List.append_assoc]
          rw [← hdl]
          rw [SP.bind_ok (sRepeat_flatMap (sNumber "sub-stream size") writeNumber id (sizes.take n).dropLast
            (fun v hv' r => sNumber_write v (hv v (List.mem_of_mem_take (List.dropLast_subset _ hv'))) _ r) _)]
          simp only [List.map_id_fun, id_eq, hsum']
          obtain ⟨hle, hcat⟩ := dropLast_sum_le (sizes.take n) hgne
          have hng : ¬ (sizes.take n).dropLast.sum > (sizes.take n).sum := by omega
          simp only [hng, if_false]
          rw [SP.bind_ok ih']
          simp only [SP.pure_run]
          rw [← List.append_assoc, hcat, List.take_append_drop]

/-- without a Size property every folder has at most one stream, whose size is the folder's -/
theorem implicit_sizes : ∀ (nums : List Nat) (sf : List SFolder) (sizes : List Nat),
    SizesOK nums sf sizes → (∀ n ∈ nums, n ≤ 1) →
    ∃ L, (nums.zip sf).mapM (fun ((n, f) : Nat × SFolder) =>
        if n = 0 then (Except.ok [] : Except String (List Nat)) else (folderOut f).map (fun t => [t])) = .ok L ∧
      L.flatten = sizes := by
  intro nums
  induction nums with
  | nil =>
    intro sf sizes hok _
    simp only [SizesOK] at hok
    exact ⟨[], by simp [pure, Except.pure], by simp [hok]⟩
  | cons n ns ih =>
    intro sf sizes hok hle
    cases sf with
    | nil => simp [SizesOK] at hok
    | cons f fs =>
      obtain ⟨hlen, hsum, hrest⟩ := hok
      obtain ⟨L, hL, hflat⟩ := ih fs (sizes.drop n) hrest (fun m hm => hle m (by simp [hm]))
      have hn1 := hle n (by simp)
      by_cases h0 : n = 0
      · subst h0
        refine ⟨[] :: L, ?_, ?_⟩
        · rw [List.zip_cons_cons, List.mapM_cons, hL]
          simp [bind, Except.bind, pure, Except.pure]
        · simpa using hflat
      · have h1 : n = 1 := by omega
        subst h1
        have hsum' : folderOut f = .ok (sizes.take 1).sum := by
          cases hsum with
          | inl h => exact absurd h h0
          | inr h => exact h
        cases sizes with
        | nil => simp at hlen
        | cons v vs =>
          simp only [List.take_succ_cons, List.take_zero, List.sum_cons, List.sum_nil, Nat.add_zero] at hsum'
          refine ⟨[v] :: L, ?_, ?_⟩
          · rw [List.zip_cons_cons, List.mapM_cons, hL]
            simp [hsum', bind, Except.bind, Except.map, pure, Except.pure]
          · simpa using hflat

/-- the digests as `SubstreamsInfo.write` lays them out (`zip … filter`), read by the strict reader -/
theorem crc_vector_written_zip (what : String) : ∀ (defined : List Bool) (crcs : List Nat) (rest : Bytes),
    crcs.length = defined.length → (∀ c ∈ crcs, c < 256 ^ 4) →
    (defined.mapM (fun d => if d then (do let c ← sFixed 4 what; pure (some c)) else pure none) : SP (List (Option Nat)))
      (((crcs.zip defined).filter (·.2)).flatMap (fun c => leBytes c.1 4) ++ rest) =
      .ok ((defined.zip crcs).map (fun (d, c) => if d then some c else none), rest) := by
  intro defined
  induction defined with
  | nil => intro crcs rest hl _; cases crcs <;> simp_all <;> rfl
  | cons d ds ih =>
    intro crcs rest hl hc
    cases crcs with
    | nil => simp at hl
    | cons c cs =>
      have hcs : cs.length = ds.length := by simpa using hl
      have ih' := ih cs rest hcs (fun x hx => hc x (by simp [hx]))
      simp only [List.mapM_cons, List.zip_cons_cons, List.map_cons]
      cases d with
      | true =>
        simp only [List.filter_cons, if_true, List.flatMap_cons, List.append_assoc]
        rw [SP.bind_ok (a := some c) (s' := _)]
        · rw [SP.bind_ok ih']; rfl
        · rw [SP.bind_ok (sFixed_le c 4 (hc c (by simp)) what _)]; rfl
      | false =>
        simp only [List.filter_cons, Bool.false_eq_true, if_false]
        rw [SP.bind_ok (a := none) (s' := _) rfl, SP.bind_ok ih']; rfl

theorem unknown_eq_sum : ∀ (nums : List Nat) (sf : List SFolder), nums.length = sf.length → (∀ f ∈ sf, f.crc = none) →
    ((nums.zip sf).map (fun ((n, f) : Nat × SFolder) => if n = 1 ∧ f.crc.isSome then 0 else n)).sum = nums.sum := by
  intro nums
  induction nums with
  | nil => intro sf _ _; rfl
  | cons n ns ih =>
    intro sf hl hc
    cases sf with
    | nil => simp at hl
    | cons f fs =>
      have hf : f.crc = none := hc f (by simp)
      have := ih fs (by simpa using hl) (fun g hg => hc g (by simp [hg]))
      simp [hf, this]

theorem spreadCrcs_none : ∀ (nums : List Nat) (sf : List SFolder) (cs : List (Option Nat)),
    nums.length = sf.length → (∀ f ∈ sf, f.crc = none) → cs.length = nums.sum →
    spreadCrcs nums sf cs = .ok cs := by
  intro nums
  induction nums with
  | nil =>
    intro sf cs _ _ hl
    have : cs = [] := List.eq_nil_of_length_eq_zero (by simpa using hl)
    subst this; rfl
  | cons n ns ih =>
    intro sf cs hl hc hcl
    cases sf with
    | nil => simp at hl
    | cons f fs =>
      have hf : f.crc = none := hc f (by simp)
      unfold spreadCrcs
      simp only [List.sum_cons] at hcl
      have hlt : ¬ cs.length < n := by omega
      simp only [hf, Option.isSome_none, Bool.false_eq_true, and_false, if_false, hlt]
      rw [ih fs (cs.drop n) (by simpa using hl) (fun g hg => hc g (by simp [hg])) (by simp; omega)]
      simp [Except.map]

theorem all_one_replicate : ∀ (nums : List Nat), nums.any (· ≠ 1) = false → nums = List.replicate nums.length 1 := by
  intro nums
  induction nums with
  | nil => intro _; rfl
  | cons n ns ih =>
    intro h
    simp only [List.any_cons, Bool.or_eq_false_iff, decide_eq_false_iff_not, ne_eq, Decidable.not_not] at h
    rw [List.length_cons, List.replicate_succ, ← ih h.2, h.1]

theorem any_gt_of_any_ne (nums : List Nat) (h : nums.any (· ≠ 1) = false) : nums.any (· > 1) = false := by
  rw [all_one_replicate nums h]
  simp

/-- what the strict reader must recover as per-stream digests -/
def expectedSubCrcs (s : SubStreams) : List (Option Nat) :=
  (s.digestsdefined.zip s.digests).map (fun (d, c) => if d then some c else none)

theorem no_digest_replicate : ∀ (dd : List Bool) (ds : List Nat), dd.length = ds.length → dd.any id = false →
    (dd.zip ds).map (fun ((d, c) : Bool × Nat) => if d then some c else none) = List.replicate dd.length none := by
  intro dd
  induction dd with
  | nil => intro ds _ _; rfl
  | cons d dd ih =>
    intro ds hl h
    cases ds with
    | nil => simp at hl
    | cons c cs =>
      simp only [List.any_cons, id_eq, Bool.or_eq_false_iff] at h
      simp [h.1, ih cs (by simpa using hl) h.2, List.replicate_succ]

/-- Writer conformance of the SubStreamsInfo section, for any number of folders, any number
    of sub-streams per folder (zero, one, many), and any digest-definedness pattern: the
    strict reader accepts the bytes and recovers the counts, every sub-stream size (the
    implicit last one of each folder included) and every digest. -/
theorem substreams_strict_read (s : SubStreams) (sf : List SFolder) (bytes rest : Bytes)
    (hw : writeSubStreams s = some bytes) (hne : s.numUnpack ≠ [])
    (hlen : s.numUnpack.length = sf.length) (hcrc : ∀ f ∈ sf, f.crc = none)
    (hn : ∀ n ∈ s.numUnpack, n < 2 ^ 64)
    (sizes : List Nat) (hs : s.unpacksizes = some sizes) (hok : SizesOK s.numUnpack sf sizes)
    (hv : ∀ v ∈ sizes, v < 2 ^ 64)
    (hdl : s.digestsdefined.length = s.numUnpack.sum) (hcl : s.digests.length = s.numUnpack.sum)
    (hc : ∀ c ∈ s.digests, c < 256 ^ 4) :
    sSubStreams sf (bytes.drop 1 ++ rest) = .ok ((s.numUnpack, sizes, expectedSubCrcs s), rest) := by
  unfold writeSubStreams at hw
  have hne' : s.numUnpack.isEmpty = false := by cases h : s.numUnpack <;> simp_all
  simp only [hne', Bool.false_eq_true, if_false] at hw
  -- tail of the section: digests + END, given the counts and sizes already read
  have htail : ∀ (id0 : Nat) (tailBytes : Bytes),
      (id0 :: tailBytes = (if (s.digestsdefined.any id = true) then
        [0x0A] ++ writeBools s.digestsdefined true ++
          ((s.digests.zip s.digestsdefined).filter (·.2)).flatMap (fun c => leBytes c.1 4)
      else []) ++ [0x00] ++ rest) →
      (do
        let (crcs, id) ← (if id0 = 0x0A then do
            let defined ← sBoolList (((s.numUnpack.zip sf).map (fun ((n, f) : Nat × SFolder) => if n = 1 ∧ f.crc.isSome then 0 else n)).sum) "sub-stream CRC defined"
            let cs ← defined.mapM (fun d => if d then (do let c ← sFixed 4 "sub-stream CRC"; pure (some c)) else pure none)
            let id ← sByte "SubStreamsInfo property"
            pure (cs, id)
          else pure (List.replicate (((s.numUnpack.zip sf).map (fun ((n, f) : Nat × SFolder) => if n = 1 ∧ f.crc.isSome then 0 else n)).sum) none, id0) : SP (List (Option Nat) × Nat))
        if id ≠ 0 then sfail s!"SubStreamsInfo: END expected, found {id}" else
        match spreadCrcs s.numUnpack sf crcs with
        | .error e => sfail e
        | .ok all => pure (s.numUnpack, sizes, all) : SP (List Nat × List Nat × List (Option Nat))) tailBytes =
        .ok ((s.numUnpack, sizes, expectedSubCrcs s), rest) := by
    intro id0 tailBytes heq
    rw [unknown_eq_sum s.numUnpack sf hlen hcrc]
    have hexpLen : (expectedSubCrcs s).length = s.numUnpack.sum := by
      simp [expectedSubCrcs, hdl, hcl]
    by_cases hany : s.digestsdefined.any id = true
    · simp only [hany, if_true, List.cons_append, List.nil_append, List.append_assoc, List.cons.injEq] at heq
      obtain ⟨hid, htb⟩ := heq
      subst hid; subst htb
      simp only [if_true]
      rw [SP.bind_ok (a := (expectedSubCrcs s, 0)) (s' := rest)]
      · simp only [ne_eq, not_true_eq_false, if_false]
        rw [spreadCrcs_none s.numUnpack sf _ hlen hcrc hexpLen]
        rfl
      · rw [← hdl, SP.bind_ok (sBoolList_writeBools _ _ _)]
        rw [SP.bind_ok (crc_vector_written_zip "sub-stream CRC" s.digestsdefined s.digests (0 :: rest) (by omega) hc)]
        rw [SP.bind_ok (sByte_cons _ _ _)]
        rfl
    · have hany' : s.digestsdefined.any id = false := by simpa using hany
      simp only [hany', Bool.false_eq_true, if_false, List.nil_append, List.cons_append, List.cons.injEq] at heq
      obtain ⟨hid, htb⟩ := heq
      subst hid; subst htb
      have h0A : ¬ ((0 : Nat) = 0x0A) := by decide
      simp only [h0A, if_false]
      rw [SP.bind_ok (SP.pure_run _ _)]
      simp only [ne_eq, not_true_eq_false, if_false]
      have : List.replicate s.numUnpack.sum (none : Option Nat) = expectedSubCrcs s := by
        unfold expectedSubCrcs
        rw [no_digest_replicate s.digestsdefined s.digests (by omega) hany', hdl]
      rw [this, spreadCrcs_none s.numUnpack sf _ hlen hcrc hexpLen]
      rfl
  unfold sSubStreams
  by_cases hsolid : s.numUnpack.any (· ≠ 1) = true
  · -- NumUnpackStream is written
    simp only [hsolid, if_true] at hw
    by_cases hmulti : s.numUnpack.any (· > 1) = true
    · -- with explicit sizes
      simp only [hmulti, if_true, hs] at hw
      cases sizes with
      | nil =>
        -- impossible: a folder with several streams needs sizes
        exfalso
        simp at hw
      | cons v vs =>
        simp only at hw
        cases hl : subSizesToWrite s.numUnpack (v :: vs) with
        | none => simp [hl] at hw
        | some l =>
          simp only [hl, Option.map_some, Option.some.injEq] at hw
          subst hw
          simp only [List.cons_append, List.nil_append, List.append_assoc, List.drop_succ_cons, List.drop_zero]
          rw [SP.bind_ok (sByte_cons _ _ _)]
          simp only [if_true]
          have hnums : ∀ tail, (do
              let ns ← sRepeat sf.length (sNumber "NumUnpackStream")
              let id ← sByte "SubStreamsInfo property"
              pure (ns, id) : SP (List Nat × Nat)) (s.numUnpack.flatMap writeNumber ++ 0x09 :: tail) =
              .ok ((s.numUnpack, 0x09), tail) := by
            intro tail
            rw [← hlen, SP.bind_ok (sRepeat_flatMap (sNumber "NumUnpackStream") writeNumber id s.numUnpack
              (fun n hn' r => sNumber_write n (hn n hn') _ r) _)]
            simp [sByte, bind, StateT.bind, Except.bind, pure, StateT.pure, Except.pure]
          rw [SP.bind_ok (hnums _)]
          simp only [if_true]
          cases hd : s.digestsdefined.any id with
          | true =>
            simp only [if_true, List.cons_append, List.nil_append, List.append_assoc]
            rw [SP.bind_ok (a := (v :: vs, 0x0A)) (s' := writeBools s.digestsdefined true ++
              (((s.digests.zip s.digestsdefined).filter (·.2)).flatMap (fun c => leBytes c.1 4) ++ 0 :: rest))]
            · exact htail 0x0A _ (by simp [hd])
            · rw [SP.bind_ok (sSubSizes_written s.numUnpack sf (v :: vs) l hok hl hv _)]
              simp [sByte, bind, StateT.bind, Except.bind, pure, StateT.pure, Except.pure]
          | false =>
            simp only [Bool.false_eq_true, if_false, List.nil_append, List.cons_append]
            rw [SP.bind_ok (a := (v :: vs, 0)) (s' := rest)]
            · exact htail 0 _ (by simp [hd])
            · rw [SP.bind_ok (sSubSizes_written s.numUnpack sf (v :: vs) l hok hl hv _)]
              simp [sByte, bind, StateT.bind, Except.bind, pure, StateT.pure, Except.pure]
    · -- counts present, every folder has at most one stream: sizes are implicit
      have hmulti' : s.numUnpack.any (· > 1) = false := by simpa using hmulti
      simp only [hmulti', Bool.false_eq_true, if_false, Option.some.injEq] at hw
      subst hw
      simp only [List.cons_append, List.nil_append, List.append_assoc, List.drop_succ_cons, List.drop_zero]
      rw [SP.bind_ok (sByte_cons _ _ _)]
      simp only [if_true]
      have hle : ∀ n ∈ s.numUnpack, n ≤ 1 := by
        intro n hn'
        have := List.any_eq_false.mp hmulti' n hn'
        simpa using this
      obtain ⟨L, hL, hflat⟩ := implicit_sizes s.numUnpack sf sizes hok hle
      cases hd : s.digestsdefined.any id with
      | true =>
        simp only [if_true, List.cons_append, List.nil_append, List.append_assoc]
        rw [SP.bind_ok (a := (s.numUnpack, 0x0A)) (s' := writeBools s.digestsdefined true ++
          (((s.digests.zip s.digestsdefined).filter (·.2)).flatMap (fun c => leBytes c.1 4) ++ 0 :: rest))]
        · have h09 : ¬ ((0x0A : Nat) = 0x09) := by decide
          simp only [h09, if_false, hmulti', Bool.false_eq_true, hL]
          rw [SP.bind_ok (SP.pure_run _ _)]
          rw [hflat]
          exact htail 0x0A _ (by simp [hd])
        · rw [← hlen, SP.bind_ok (sRepeat_flatMap (sNumber "NumUnpackStream") writeNumber id s.numUnpack
            (fun n hn' r => sNumber_write n (hn n hn') _ r) _)]
          simp [sByte, bind, StateT.bind, Except.bind, pure, StateT.pure, Except.pure]
      | false =>
        simp only [Bool.false_eq_true, if_false, List.nil_append, List.cons_append]
        rw [SP.bind_ok (a := (s.numUnpack, 0)) (s' := rest)]
        · have h09 : ¬ ((0 : Nat) = 0x09) := by decide
          simp only [h09, if_false, hmulti', Bool.false_eq_true, hL]
          rw [SP.bind_ok (SP.pure_run _ _)]
          rw [hflat]
          exact htail 0 _ (by simp [hd])
        · rw [← hlen, SP.bind_ok (sRepeat_flatMap (sNumber "NumUnpackStream") writeNumber id s.numUnpack
            (fun n hn' r => sNumber_write n (hn n hn') _ r) _)]
          simp [sByte, bind, StateT.bind, Except.bind, pure, StateT.pure, Except.pure]
  · -- every folder has exactly one stream: counts and sizes are elided
    have hsolid' : s.numUnpack.any (· ≠ 1) = false := by simpa using hsolid
    have hmulti' := any_gt_of_any_ne s.numUnpack hsolid'
    simp only [hsolid', hmulti', Bool.false_eq_true, if_false, Option.some.injEq] at hw
    subst hw
    have hrep : List.replicate sf.length 1 = s.numUnpack := by
      rw [← hlen]; exact (all_one_replicate s.numUnpack hsolid').symm
    have hle : ∀ n ∈ s.numUnpack, n ≤ 1 := by
      intro n hn'
      have := List.any_eq_false.mp hmulti' n hn'
      simpa using this
    obtain ⟨L, hL, hflat⟩ := implicit_sizes s.numUnpack sf sizes hok hle
    simp only [List.cons_append, List.nil_append, List.append_assoc, List.drop_succ_cons, List.drop_zero]
    cases hd : s.digestsdefined.any id with
    | true =>
      simp only [if_true, List.cons_append, List.nil_append, List.append_assoc]
      rw [SP.bind_ok (sByte_cons _ _ _)]
      have h0D : ¬ ((0x0A : Nat) = 0x0D) := by decide
      have h09 : ¬ ((0x0A : Nat) = 0x09) := by decide
      simp only [h0D, if_false]
      rw [SP.bind_ok (SP.pure_run _ _)]
      simp only [h09, if_false, hrep, hmulti', Bool.false_eq_true, hL]
      rw [SP.bind_ok (SP.pure_run _ _)]
      rw [hflat]
      exact htail 0x0A _ (by simp [hd])
    | false =>
      simp only [Bool.false_eq_true, if_false, List.nil_append, List.cons_append]
      rw [SP.bind_ok (sByte_cons _ _ _)]
      have h0D : ¬ ((0 : Nat) = 0x0D) := by decide
      have h09 : ¬ ((0 : Nat) = 0x09) := by decide
      simp only [h0D, if_false]
      rw [SP.bind_ok (SP.pure_run _ _)]
      simp only [h09, if_false, hrep, hmulti', Bool.false_eq_true, hL]
      rw [SP.bind_ok (SP.pure_run _ _)]
      rw [hflat]
      exact htail 0 _ (by simp [hd])

end SevenZ
