/- Helper lemmas and main proofs about the NUMBER model (core Lean only). -/
import SevenZ.Model.Number
namespace SevenZ
open Impl

theorem leBytes_length (n k : Nat) : (leBytes n k).length = k := by
  induction k generalizing n with
  | zero => rfl
  | succ k ih => simp [leBytes, ih]

theorem ofLE_leBytes (n k : Nat) : ofLE (leBytes n k) = n % 256 ^ k := by
  induction k generalizing n with
  | zero => simp [leBytes, ofLE, Nat.mod_one]
  | succ k ih =>
    simp only [leBytes, ofLE, ih]
    rw [Nat.pow_succ, Nat.mul_comm (256 ^ k) 256, Nat.mod_mul]

theorem leBytes_take (n k j : Nat) (h : j ≤ k) : (leBytes n k).take j = leBytes n j := by
  induction k generalizing n j with
  | zero => have : j = 0 := by omega
            subst this; simp [leBytes]
  | succ k ih =>
    cases j with
    | zero => simp [leBytes]
    | succ j => simp only [leBytes, List.take_succ_cons]; rw [ih]; omega

theorem leBytes_getLastD (n k d : Nat) : (leBytes n (k+1)).getLastD d = (n / 256 ^ k) % 256 := by
  induction k generalizing n d with
  | zero => simp [leBytes]
  | succ k ih =>
    rw [leBytes, List.getLastD_cons, ih, Nat.pow_succ, Nat.div_div_eq_div_mul, Nat.mul_comm]

/-- reading back the two shapes `write_uint64` produces, for a fixed length class -/
theorem read_shapeA (L hb first mask : Nat) (v : Nat) (tail : Bytes)
    (hscan : scanBlen first = (L, mask)) (hL : L ≠ 0) (hne : first ≠ 255)
    (hand : first &&& (mask - 1) = hb) (hv : v / 256 ^ L = hb) :
    readNumber (first :: (leBytes v L ++ tail)) = some (v, tail) := by
  simp only [readNumber, hne, if_false, hscan, hL, hand]
  have hlen : (leBytes v L).length = L := leBytes_length v L
  rw [List.take_left' hlen, List.drop_left' hlen, ofLE_leBytes, Nat.shiftLeft_eq]
  congr 2
  rw [← hv, Nat.mul_comm L 8, Nat.pow_mul]
  have : (2:Nat)^8 = 256 := by decide
  rw [this, Nat.add_comm, Nat.div_add_mod']

theorem byteLenF_eq (L : Nat) : ∀ (f v : Nat), 256 ^ L ≤ v → v < 256 ^ (L+1) → L < f →
    byteLenF f v = L + 1 := by
  induction L with
  | zero =>
    intro f v _ h2 hf
    cases f with
    | zero => omega
    | succ f => simp at h2; simp [byteLenF, h2]
  | succ L ih =>
    intro f v h1 h2 hf
    cases f with
    | zero => omega
    | succ f =>
      have : ¬ v < 256 := by
        have : 256 ^ 1 ≤ 256 ^ (L+1) := Nat.pow_le_pow_right (by decide) (by omega)
        omega
      simp only [byteLenF, this, if_false]
      rw [ih f (v/256)]
      · omega
      · rw [Nat.pow_succ] at h1; exact (Nat.le_div_iff_mul_le (by decide)).mpr h1
      · rw [Nat.pow_succ] at h2; exact (Nat.div_lt_iff_lt_mul (by decide)).mpr h2
      · omega

theorem byteLen_eq (v L : Nat) (h1 : 256 ^ L ≤ v) (h2 : v < 256 ^ (L+1)) : byteLen v = L + 1 := by
  have : L < 256 ^ L := Nat.lt_pow_self (by decide)
  exact byteLenF_eq L v v h1 h2 (by omega)

/-- finite facts about the first byte, by exhaustive evaluation -/
theorem firstA (k : Nat) (hk1 : 1 ≤ k) (hk : k ≤ 6) :
    ∀ hb, hb < 2 <<< (8 - (k+1) - 1) →
      scanBlen (hb ||| prefixMask k) = (k, 0x80 >>> k) ∧ (hb ||| prefixMask k) ≠ 255 ∧
      (hb ||| prefixMask k) &&& (0x80 >>> k - 1) = hb := by
  match k, hk1, hk with
  | 1, _, _ => decide
  | 2, _, _ => decide
  | 3, _, _ => decide
  | 4, _, _ => decide
  | 5, _, _ => decide
  | 6, _, _ => decide

theorem firstB (L : Nat) (h1 : 1 ≤ L) (h7 : L ≤ 7) :
    scanBlen (0x80 ||| prefixMask L) = (L, 0x80 >>> L) ∧ (0x80 ||| prefixMask L) ≠ 255 ∧
    (0x80 ||| prefixMask L) &&& (0x80 >>> L - 1) = 0 := by
  match L, h1, h7 with
  | 1, _, _ => decide
  | 2, _, _ => decide
  | 3, _, _ => decide
  | 4, _, _ => decide
  | 5, _, _ => decide
  | 6, _, _ => decide
  | 7, _, _ => decide

theorem write_case (v k : Nat) (tail : Bytes) (h1 : 256 ^ k ≤ v) (h2 : v < 256 ^ (k+1)) (hk : k ≤ 6)
    (h80 : 0x80 ≤ v) : readNumber (writeNumber v ++ tail) = some (v, tail) := by
  have hbl : byteLen v = k + 1 := byteLen_eq v k h1 h2
  have hsmall : ¬ v > 0xFFFFFFFFFFFFFF := by
    have : 256 ^ (k+1) ≤ 256 ^ 7 := Nat.pow_le_pow_right (by decide) (by omega)
    have e : (256:Nat) ^ 7 = 0xFFFFFFFFFFFFFF + 1 := by decide
    omega
  have hhb : (v / 256 ^ k) % 256 = v / 256 ^ k := by
    apply Nat.mod_eq_of_lt
    rw [Nat.pow_succ] at h2
    exact (Nat.div_lt_iff_lt_mul (Nat.pow_pos (by decide))).mpr (by rw [Nat.mul_comm]; exact h2)
  unfold writeNumber
  simp only [show ¬ v < 0x80 by omega, hsmall, if_false, hbl, leBytes_getLastD, hhb,
    Nat.add_sub_cancel]
  split
  · rename_i hlt
    have hk1 : 1 ≤ k := by
      cases k with
      | zero => simp at hlt h1 hhb; omega
      | succ k => omega
    obtain ⟨hs, hne, ha⟩ := firstA k hk1 hk _ hlt
    rw [leBytes_take _ _ _ (by omega), List.cons_append]
    exact read_shapeA k _ _ _ v tail hs (by omega) hne ha rfl
  · obtain ⟨hs, hne, ha⟩ := firstB (k+1) (by omega) (by omega)
    rw [List.cons_append]
    refine read_shapeA (k+1) 0 _ _ v tail hs (by omega) hne ha ?_
    exact Nat.div_eq_of_lt h2

theorem number_roundtrip (v : Nat) (hv : v < 2 ^ 64) (tail : Bytes) :
    readNumber (writeNumber v ++ tail) = some (v, tail) := by
  by_cases h80 : v < 0x80
  · have hs : scanBlen v = (0, 0x80) := by
      have : ∀ v, v < 0x80 → scanBlen v = (0, 0x80) := by decide
      exact this v h80
    have hand : v &&& (0x80 - 1) = v := by
      have : ∀ v, v < 0x80 → v &&& (0x80 - 1) = v := by decide
      exact this v h80
    simp only [writeNumber, h80, if_true, List.cons_append, List.nil_append, readNumber,
      show v ≠ 255 by omega, if_false, hs, hand]
  · by_cases hbig : v > 0xFFFFFFFFFFFFFF
    · simp only [writeNumber, h80, hbig, if_true, if_false, List.cons_append, readNumber]
      have hlen : (leBytes v 8).length = 8 := leBytes_length v 8
      have : ¬ (leBytes v 8 ++ tail).length < 8 := by simp [hlen]
      simp only [this, if_false, List.take_left' hlen, List.drop_left' hlen, ofLE_leBytes]
      have e : (256:Nat) ^ 8 = 2 ^ 64 := by decide
      rw [e, Nat.mod_eq_of_lt hv]
    · have e1 : (256:Nat)^1 = 256 := by decide
      have e2 : (256:Nat)^2 = 65536 := by decide
      have e3 : (256:Nat)^3 = 16777216 := by decide
      have e4 : (256:Nat)^4 = 4294967296 := by decide
      have e5 : (256:Nat)^5 = 1099511627776 := by decide
      have e6 : (256:Nat)^6 = 281474976710656 := by decide
      have e7 : (256:Nat)^7 = 72057594037927936 := by decide
      have e0 : (256:Nat)^0 = 1 := by decide
      have : (256^0 ≤ v ∧ v < 256^1) ∨ (256^1 ≤ v ∧ v < 256^2) ∨ (256^2 ≤ v ∧ v < 256^3) ∨
             (256^3 ≤ v ∧ v < 256^4) ∨ (256^4 ≤ v ∧ v < 256^5) ∨ (256^5 ≤ v ∧ v < 256^6) ∨
             (256^6 ≤ v ∧ v < 256^7) := by omega
      rcases this with h|h|h|h|h|h|h
      · exact write_case v 0 tail h.1 h.2 (by omega) (by omega)
      · exact write_case v 1 tail h.1 h.2 (by omega) (by omega)
      · exact write_case v 2 tail h.1 h.2 (by omega) (by omega)
      · exact write_case v 3 tail h.1 h.2 (by omega) (by omega)
      · exact write_case v 4 tail h.1 h.2 (by omega) (by omega)
      · exact write_case v 5 tail h.1 h.2 (by omega) (by omega)
      · exact write_case v 6 tail h.1 h.2 (by omega) (by omega)



theorem scan_spec : ∀ b, b < 256 → b ≠ 255 →
    scanBlen b = (Spec.leadingOnes b, 0x80 >>> Spec.leadingOnes b) ∧
    b &&& ((0x80 >>> Spec.leadingOnes b) - 1) =
      (if Spec.leadingOnes b ≥ 7 then 0 else b % 2 ^ (7 - Spec.leadingOnes b)) := by
  decide +kernel

theorem number_reads_spec (b : Nat) (rest : Bytes) (hb : b < 256)
    (hlen : Spec.leadingOnes b ≤ rest.length) :
    readNumber (b :: rest) = Spec.decodeNumber (b :: rest) := by
  by_cases h255 : b = 255
  · subst h255
    have : Spec.leadingOnes 255 = 8 := by decide
    rw [this] at hlen
    simp [readNumber, Spec.decodeNumber, this, show ¬ rest.length < 8 by omega]
  · obtain ⟨hs, ha⟩ := scan_spec b hb h255
    simp only [readNumber, h255, if_false, hs, Spec.decodeNumber, show ¬ rest.length < Spec.leadingOnes b by omega]
    by_cases h0 : Spec.leadingOnes b = 0
    · simp only [h0, if_true] 
      rw [h0] at ha
      have ha' : b &&& 127 = b % 128 := by simpa using ha
      simp [ha', ofLE]
    · simp only [h0, if_false, ha, Nat.shiftLeft_eq]
      rw [Nat.mul_comm (Spec.leadingOnes b) 8, Nat.pow_mul]


/-- the first byte of the two multi-byte shapes is a byte -/
theorem firstA_lt (k : Nat) (hk1 : 1 ≤ k) (hk : k ≤ 6) :
    ∀ hb, hb < 2 <<< (8 - (k+1) - 1) → (hb ||| prefixMask k) < 256 := by
  match k, hk1, hk with
  | 1, _, _ => decide
  | 2, _, _ => decide
  | 3, _, _ => decide
  | 4, _, _ => decide
  | 5, _, _ => decide
  | 6, _, _ => decide

theorem firstB_lt (L : Nat) (h1 : 1 ≤ L) (h7 : L ≤ 7) : (0x80 ||| prefixMask L) < 256 := by
  match L, h1, h7 with
  | 1, _, _ => decide
  | 2, _, _ => decide
  | 3, _, _ => decide
  | 4, _, _ => decide
  | 5, _, _ => decide
  | 6, _, _ => decide
  | 7, _, _ => decide

/-- shape of the output of `write_uint64` in the 2..8-byte classes -/
theorem write_shape (v k : Nat) (h1 : 256 ^ k ≤ v) (h2 : v < 256 ^ (k+1)) (hk : k ≤ 6)
    (h80 : 0x80 ≤ v) :
    ∃ first L, writeNumber v = first :: leBytes v L ∧ first < 256 ∧ first ≠ 255 ∧ L ≠ 0 ∧
      scanBlen first = (L, 0x80 >>> L) ∧ first &&& (0x80 >>> L - 1) = v / 256 ^ L := by
  have hbl : byteLen v = k + 1 := byteLen_eq v k h1 h2
  have hsmall : ¬ v > 0xFFFFFFFFFFFFFF := by
    have : 256 ^ (k+1) ≤ 256 ^ 7 := Nat.pow_le_pow_right (by decide) (by omega)
    have e : (256:Nat) ^ 7 = 0xFFFFFFFFFFFFFF + 1 := by decide
    omega
  have hhb : (v / 256 ^ k) % 256 = v / 256 ^ k := by
    apply Nat.mod_eq_of_lt
    rw [Nat.pow_succ] at h2
    exact (Nat.div_lt_iff_lt_mul (Nat.pow_pos (by decide))).mpr (by rw [Nat.mul_comm]; exact h2)
  unfold writeNumber
  simp only [show ¬ v < 0x80 by omega, hsmall, if_false, hbl, leBytes_getLastD, hhb,
    Nat.add_sub_cancel]
  split
  · rename_i hlt
    have hk1 : 1 ≤ k := by
      cases k with
      | zero => simp at hlt h1 hhb; omega
      | succ k => omega
    obtain ⟨hs, hne, ha⟩ := firstA k hk1 hk _ hlt
    rw [leBytes_take _ _ _ (by omega)]
    exact ⟨_, k, rfl, firstA_lt k hk1 hk _ hlt, hne, by omega, hs, ha⟩
  · obtain ⟨hs, hne, ha⟩ := firstB (k+1) (by omega) (by omega)
    exact ⟨_, k+1, rfl, firstB_lt (k+1) (by omega) (by omega), hne, by omega, hs,
      by rw [ha]; exact (Nat.div_eq_of_lt h2).symm⟩

theorem spec_shape (L first : Nat) (v : Nat) (tail : Bytes) (hlt : first < 256) (hne : first ≠ 255)
    (hL : L ≠ 0) (hscan : scanBlen first = (L, 0x80 >>> L))
    (hand : first &&& (0x80 >>> L - 1) = v / 256 ^ L) :
    Spec.decodeNumber (first :: (leBytes v L ++ tail)) = some (v, tail) := by
  obtain ⟨hs, ha⟩ := scan_spec first hlt hne
  have hLe : Spec.leadingOnes first = L := by
    have := hs.symm.trans hscan
    exact (Prod.mk.inj this).1
  have hlen : (leBytes v L).length = L := leBytes_length v L
  simp only [Spec.decodeNumber, hLe, List.length_append, hlen, show ¬ L + tail.length < L by omega,
    if_false, List.take_left' hlen, List.drop_left' hlen, ofLE_leBytes]
  rw [hLe, hand] at ha
  rw [← ha, Nat.mul_comm, Nat.add_comm, Nat.div_add_mod]

theorem number_len (v : Nat) (hv : v < 2 ^ 64) : (writeNumber v).length ≤ 9 := by
  unfold writeNumber
  split
  · simp
  · split
    · simp [leBytes_length]
    · rename_i h1 h2
      have hb : byteLen v ≤ 7 := by
        have e7 : (256:Nat)^7 = 72057594037927936 := by decide
        have e1 : (256:Nat)^1 = 256 := by decide
        have e2 : (256:Nat)^2 = 65536 := by decide
        have e3 : (256:Nat)^3 = 16777216 := by decide
        have e4 : (256:Nat)^4 = 4294967296 := by decide
        have e5 : (256:Nat)^5 = 1099511627776 := by decide
        have e6 : (256:Nat)^6 = 281474976710656 := by decide
        have e0 : (256:Nat)^0 = 1 := by decide
        have : (256^0 ≤ v ∧ v < 256^1) ∨ (256^1 ≤ v ∧ v < 256^2) ∨ (256^2 ≤ v ∧ v < 256^3) ∨
             (256^3 ≤ v ∧ v < 256^4) ∨ (256^4 ≤ v ∧ v < 256^5) ∨ (256^5 ≤ v ∧ v < 256^6) ∨
             (256^6 ≤ v ∧ v < 256^7) := by omega
        rcases this with h|h|h|h|h|h|h
        · rw [byteLen_eq v 0 h.1 h.2]; omega
        · rw [byteLen_eq v 1 h.1 h.2]; omega
        · rw [byteLen_eq v 2 h.1 h.2]; omega
        · rw [byteLen_eq v 3 h.1 h.2]; omega
        · rw [byteLen_eq v 4 h.1 h.2]; omega
        · rw [byteLen_eq v 5 h.1 h.2]; omega
        · rw [byteLen_eq v 6 h.1 h.2]; omega
      simp only []
      split <;> simp [leBytes_length] <;> omega


theorem number_spec_roundtrip (v : Nat) (hv : v < 2 ^ 64) (tail : Bytes) :
    Spec.decodeNumber (writeNumber v ++ tail) = some (v, tail) := by
  by_cases h80 : v < 0x80
  · have hl : Spec.leadingOnes v = 0 := by simp [Spec.leadingOnes, h80]
    simp only [writeNumber, h80, if_true, List.cons_append, List.nil_append, Spec.decodeNumber, hl]
    simp [ofLE, Nat.mod_eq_of_lt h80]
  · by_cases hbig : v > 0xFFFFFFFFFFFFFF
    · simp only [writeNumber, h80, hbig, if_true, if_false, List.cons_append, Spec.decodeNumber]
      have hl : Spec.leadingOnes 255 = 8 := by decide
      have hlen : (leBytes v 8).length = 8 := leBytes_length v 8
      simp only [hl, List.length_append, hlen, show ¬ 8 + tail.length < 8 by omega, if_false,
        List.take_left' hlen, List.drop_left' hlen, ofLE_leBytes]
      have e : (256:Nat) ^ 8 = 2 ^ 64 := by decide
      simp [e, Nat.mod_eq_of_lt hv]
    · have e1 : (256:Nat)^1 = 256 := by decide
      have e2 : (256:Nat)^2 = 65536 := by decide
      have e3 : (256:Nat)^3 = 16777216 := by decide
      have e4 : (256:Nat)^4 = 4294967296 := by decide
      have e5 : (256:Nat)^5 = 1099511627776 := by decide
      have e6 : (256:Nat)^6 = 281474976710656 := by decide
      have e7 : (256:Nat)^7 = 72057594037927936 := by decide
      have e0 : (256:Nat)^0 = 1 := by decide
      have : (256^0 ≤ v ∧ v < 256^1) ∨ (256^1 ≤ v ∧ v < 256^2) ∨ (256^2 ≤ v ∧ v < 256^3) ∨
             (256^3 ≤ v ∧ v < 256^4) ∨ (256^4 ≤ v ∧ v < 256^5) ∨ (256^5 ≤ v ∧ v < 256^6) ∨
             (256^6 ≤ v ∧ v < 256^7) := by omega
      have key : ∀ k, k ≤ 6 → 256 ^ k ≤ v → v < 256 ^ (k+1) →
          Spec.decodeNumber (writeNumber v ++ tail) = some (v, tail) := by
        intro k hk a b
        obtain ⟨first, L, hw, hlt, hne, hL, hs, ha⟩ := write_shape v k a b hk (by omega)
        rw [hw, List.cons_append]
        exact spec_shape L first v tail hlt hne hL hs ha
      rcases this with h|h|h|h|h|h|h
      · exact key 0 (by omega) h.1 h.2
      · exact key 1 (by omega) h.1 h.2
      · exact key 2 (by omega) h.1 h.2
      · exact key 3 (by omega) h.1 h.2
      · exact key 4 (by omega) h.1 h.2
      · exact key 5 (by omega) h.1 h.2
      · exact key 6 (by omega) h.1 h.2

end SevenZ
