/-
The format's assignment of sub-streams to files under an append: the members of the base keep
their assignment and the members of one more folder follow.
-/
import SevenZ.Lemmas.Session
namespace SevenZ
open Spec

/-- members of one folder with index `fo`, starting at offset `off` -/
def folderMembers (fo : Nat) : List SFile → Nat → List Nat → List (Option Nat) → List SMember
  | [], _, _, _ => []
  | f :: fs, off, sizes, crcs =>
    if f.emptyStream then ⟨f, none⟩ :: folderMembers fo fs off sizes crcs
    else match sizes, crcs with
      | s :: ss, c :: cs => ⟨f, some (fo, off, s, c)⟩ :: folderMembers fo fs (off + s) ss cs
      | _, _ => []

theorem folderMembers_zero (files : List SFile) (off : Nat) (sizes : List Nat) (crcs : List (Option Nat)) :
    folderMembers 0 files off sizes crcs = singleFolderMembers files off sizes crcs := by
  induction files generalizing off sizes crcs with
  | nil => rfl
  | cons f fs ih =>
    unfold folderMembers singleFolderMembers
    split
    · rw [ih]
    · cases sizes <;> cases crcs <;> simp [ih]

/-- the last folder of the list: all files go to folder `fo`, the only one left -/
theorem assignGo_last : ∀ (files : List SFile) (fuel fo taken off n : Nat) (sizes : List Nat) (crcs : List (Option Nat)),
    files.length < fuel → sizes.length = crcs.length →
    (files.filter (fun f => !f.emptyStream)).length = sizes.length → taken + sizes.length = n →
    assignGo fuel files fo taken off [n] sizes crcs = .ok (folderMembers fo files off sizes crcs) := by
  intro files
  induction files with
  | nil =>
    intro fuel fo taken off n sizes crcs hf hl hc hn
    cases fuel with
    | zero => omega
    | succ fuel =>
      have : sizes = [] := List.eq_nil_of_length_eq_zero (by simpa using hc.symm)
      subst this
      simp [assignGo, folderMembers]
  | cons f fs ih =>
    intro fuel fo taken off n sizes crcs hf hl hc hn
    cases fuel with
    | zero => simp at hf
    | succ fuel =>
      have hf' : fs.length < fuel := by simpa using hf
      unfold assignGo folderMembers
      by_cases he : f.emptyStream = true
      · simp only [he, if_true]
        have hc' : (fs.filter (fun f => !f.emptyStream)).length = sizes.length := by
          simpa [List.filter_cons, he] using hc
        rw [ih fuel fo taken off n sizes crcs hf' hl hc' hn]
        rfl
      · have he' : f.emptyStream = false := by simpa using he
        simp only [he', Bool.false_eq_true, if_false]
        cases sizes with
        | nil => simp [List.filter_cons, he'] at hc
        | cons s ss =>
          cases crcs with
          | nil => simp at hl
          | cons c cs =>
            have hge : ¬ taken ≥ n := by simp at hn; omega
            simp only [hge, if_false]
            have hc' : (fs.filter (fun f => !f.emptyStream)).length = ss.length := by
              simpa [List.filter_cons, he'] using hc
            rw [ih fuel fo (taken + 1) (off + s) n ss cs hf' (by simpa using hl) hc' (by simp at hn; omega)]
            rfl

/-- a file with a stream at the head: folders without streams are stepped over one by one -/
theorem assignGo_skip_zeros (f : SFile) (hf : f.emptyStream = false) (fs : List SFile) (n2 : Nat) (sizes : List Nat)
    (crcs : List (Option Nat)) (hl : sizes.length = crcs.length)
    (hc : ((f :: fs).filter (fun f => !f.emptyStream)).length = sizes.length) (hn : sizes.length = n2) :
    ∀ (ns : List Nat), (∀ m ∈ ns, m = 0) → ∀ (k fo : Nat), (f :: fs).length < k →
    assignGo (k + ns.length) (f :: fs) fo 0 0 (ns ++ [n2]) sizes crcs =
      .ok (folderMembers (fo + ns.length) (f :: fs) 0 sizes crcs) := by
  intro ns
  induction ns with
  | nil =>
    intro _ k fo hk
    simp only [List.length_nil, Nat.add_zero, List.nil_append]
    exact assignGo_last (f :: fs) k fo 0 0 n2 sizes crcs hk hl hc (by omega)
  | cons n ns ih =>
    intro hz k fo hk
    have hn0 : n = 0 := hz n (by simp)
    subst hn0
    have hfu : k + (0 :: ns).length = (k + ns.length) + 1 := by simp; omega
    rw [hfu]
    unfold assignGo
    simp only [hf, Bool.false_eq_true, if_false, List.cons_append, Nat.le_refl, ge_iff_le, if_true]
    rw [ih (fun m hm => hz m (by simp [hm])) k (fo + 1) hk]
    congr 2
    simp; omega

/-- the current folder has no stream taken yet and every folder up to the appended one is
    empty: the files are assigned in the appended folder -/
theorem assignGo_zero_prefix (n2 : Nat) : ∀ (files : List SFile) (ns : List Nat) (fuel fo : Nat) (sizes : List Nat)
    (crcs : List (Option Nat)), (∀ m ∈ ns, m = 0) → files.length + ns.length < fuel → sizes.length = crcs.length →
    (files.filter (fun f => !f.emptyStream)).length = sizes.length → sizes.length = n2 →
    assignGo fuel files fo 0 0 (ns ++ [n2]) sizes crcs = .ok (folderMembers (fo + ns.length) files 0 sizes crcs) := by
  intro files
  induction files with
  | nil =>
    intro ns fuel fo sizes crcs _ hf _ hc _
    cases fuel with
    | zero => omega
    | succ fuel =>
      have : sizes = [] := List.eq_nil_of_length_eq_zero (by simpa using hc.symm)
      subst this
      simp [assignGo, folderMembers]
  | cons f fs ih =>
    intro ns fuel fo sizes crcs hz hf hl hc hn
    by_cases he : f.emptyStream = true
    · cases fuel with
      | zero => omega
      | succ fuel =>
        unfold assignGo folderMembers
        simp only [he, if_true]
        have hc' : (fs.filter (fun f => !f.emptyStream)).length = sizes.length := by
          simpa [List.filter_cons, he] using hc
        rw [ih ns fuel fo sizes crcs hz (by simp at hf; omega) hl hc' hn]
        rfl
    · have he' : f.emptyStream = false := by simpa using he
      obtain ⟨k, hk⟩ : ∃ k, fuel = k + ns.length := ⟨fuel - ns.length, by omega⟩
      rw [hk]
      exact assignGo_skip_zeros f he' fs n2 sizes crcs hl hc hn ns hz k fo (by simp at hf ⊢; omega)

/-- the base is used up — the current folder has given out all its streams and the later ones
    have none: the files that follow are assigned in the appended folder -/
theorem assignGo_after_base (n n2 : Nat) (ns : List Nat) (hz : ∀ m ∈ ns, m = 0) :
    ∀ (files : List SFile) (fuel fo taken off : Nat) (sizes : List Nat) (crcs : List (Option Nat)),
    files.length + ns.length + 1 < fuel → sizes.length = crcs.length → taken ≥ n →
    (files.filter (fun f => !f.emptyStream)).length = sizes.length → sizes.length = n2 →
    assignGo fuel files fo taken off (n :: ns ++ [n2]) sizes crcs =
      .ok (folderMembers (fo + 1 + ns.length) files 0 sizes crcs) := by
  intro files
  induction files with
  | nil =>
    intro fuel fo taken off sizes crcs hf _ _ hc _
    cases fuel with
    | zero => omega
    | succ fuel =>
      have : sizes = [] := List.eq_nil_of_length_eq_zero (by simpa using hc.symm)
      subst this
      simp [assignGo, folderMembers]
  | cons f fs ih =>
    intro fuel fo taken off sizes crcs hf hl ht hc hn
    cases fuel with
    | zero => omega
    | succ fuel =>
      by_cases he : f.emptyStream = true
      · unfold assignGo folderMembers
        simp only [he, if_true]
        have hc' : (fs.filter (fun f => !f.emptyStream)).length = sizes.length := by
          simpa [List.filter_cons, he] using hc
        rw [ih fuel fo taken off sizes crcs (by simp at hf; omega) hl ht hc' hn]
        rfl
      · have he' : f.emptyStream = false := by simpa using he
        have := assignGo_zero_prefix n2 (f :: fs) ns fuel (fo + 1) sizes crcs hz (by simp at hf ⊢; omega) hl hc hn
        unfold assignGo
        have ht' : n ≤ taken := ht
        simp only [he', Bool.false_eq_true, if_false, List.cons_append, ge_iff_le, ht', if_true]
        rw [this]

theorem mem_le_sum (l : List Nat) (m : Nat) (h : m ∈ l) : m ≤ l.sum := by
  induction l with
  | nil => simp at h
  | cons a l ih =>
    simp only [List.mem_cons] at h
    simp only [List.sum_cons]
    rcases h with rfl | h
    · omega
    · have := ih h; omega

/-- what is left to give out from the current folder on -/
def capacity (taken : Nat) : List Nat → Nat
  | [] => 0
  | n :: ns => (n - taken) + ns.sum

/-- **The format's assignment under an append.**  If the base header assigns `M1` to its files,
    and all its sub-streams are given out, then with one more folder of `n2` streams and the
    files `files2` appended, the assignment is `M1` followed by the members of the new folder. -/
theorem assignGo_append (files2 : List SFile) (n2 : Nat) (sizes2 : List Nat) (crcs2 : List (Option Nat))
    (hl2 : sizes2.length = crcs2.length) (hc2 : (files2.filter (fun f => !f.emptyStream)).length = sizes2.length)
    (hn2 : sizes2.length = n2) :
    ∀ (fuel : Nat) (files1 : List SFile) (fo taken off : Nat) (nums sizes1 : List Nat) (crcs1 : List (Option Nat))
      (M1 : List SMember) (d : Nat),
    assignGo fuel files1 fo taken off nums sizes1 crcs1 = .ok M1 → nums ≠ [] →
    capacity taken nums = sizes1.length → sizes1.length = crcs1.length →
    files1.length + nums.length < fuel → files2.length ≤ d →
    assignGo (fuel + d) (files1 ++ files2) fo taken off (nums ++ [n2]) (sizes1 ++ sizes2) (crcs1 ++ crcs2) =
      .ok (M1 ++ folderMembers (fo + nums.length) files2 0 sizes2 crcs2) := by
  intro fuel
  induction fuel with
  | zero => intro files1 fo taken off nums sizes1 crcs1 M1 d h; simp [assignGo] at h
  | succ fuel ih =>
    intro files1 fo taken off nums sizes1 crcs1 M1 d h hne hcap hl1 hfuel hd
    cases files1 with
    | nil =>
      -- the base is finished: its sizes are used up, hence every folder is exhausted
      unfold assignGo at h
      split at h
      · cases h
      · rename_i hs
        simp only [ne_eq, Decidable.not_not] at hs
        cases h
        subst hs
        have hcr : crcs1 = [] := List.eq_nil_of_length_eq_zero (by simpa using hl1.symm)
        subst hcr
        cases nums with
        | nil => exact absurd rfl hne
        | cons n ns =>
          simp only [capacity, List.length_nil] at hcap
          have ht : taken ≥ n := by omega
          have hz : ∀ m ∈ ns, m = 0 := by
            intro m hm
            have : m ≤ ns.sum := mem_le_sum ns m hm
            omega
          simp only [List.nil_append]
          have := assignGo_after_base n n2 ns hz files2 (fuel + 1 + d) fo taken off sizes2 crcs2
            (by simp at hfuel; omega) hl2 ht hc2 hn2
          rw [this]
          congr 2
          simp; omega
    | cons f fs =>
      have hstep : fuel + 1 + d = (fuel + d) + 1 := by omega
      rw [hstep]
      unfold assignGo at h ⊢
      simp only [List.cons_append]
      by_cases he : f.emptyStream = true
      · simp only [he, if_true] at h ⊢
        cases hr : assignGo fuel fs fo taken off nums sizes1 crcs1 with
        | error e => rw [hr] at h; cases h
        | ok r =>
          rw [hr] at h
          simp only [Except.map] at h
          cases h
          rw [ih fs fo taken off nums sizes1 crcs1 r d hr hne hcap hl1 (by simp at hfuel; omega) hd]
          rfl
      · simp only [he, Bool.false_eq_true, if_false] at h ⊢
        cases nums with
        | nil => exact absurd rfl hne
        | cons n ns =>
          simp only [List.cons_append] at h ⊢
          by_cases hge : taken ≥ n
          · simp only [hge, if_true] at h ⊢
            cases ns with
            | nil =>
              -- moving past the last base folder: the base itself fails here (no sub-stream left for this file)
              exfalso
              cases fuel with
              | zero => simp [assignGo] at h
              | succ fuel' =>
                unfold assignGo at h
                simp [he] at h
            | cons n' ns' =>
              have hcap' : capacity 0 (n' :: ns') = sizes1.length := by
                simp only [capacity, List.sum_cons] at hcap ⊢
                omega
              have := ih (f :: fs) (fo + 1) 0 0 (n' :: ns') sizes1 crcs1 M1 d h (by simp) hcap' hl1 (by simp at hfuel ⊢; omega) hd
              simp only [List.cons_append] at this ⊢
              have hidx : fo + 1 + (n' :: ns').length = fo + (n :: n' :: ns').length := by
                simp only [List.length_cons]; omega
              rw [this, hidx]
          · simp only [hge, if_false] at h ⊢
            cases sizes1 with
            | nil => cases h
            | cons s ss =>
              cases crcs1 with
              | nil => cases h
              | cons c cs =>
                simp only [List.cons_append] at h ⊢
                cases hr : assignGo fuel fs fo (taken + 1) (off + s) (n :: ns) ss cs with
                | error e => rw [hr] at h; cases h
                | ok r =>
                  rw [hr] at h
                  simp only [Except.map] at h
                  cases h
                  have hcap' : capacity (taken + 1) (n :: ns) = ss.length := by
                    simp only [capacity, List.length_cons] at hcap ⊢
                    omega
                  have := ih fs fo (taken + 1) (off + s) (n :: ns) ss cs r d hr (by simp) hcap' (by simpa using hl1)
                    (by simp at hfuel ⊢; omega) hd
                  simp only [List.cons_append] at this
                  rw [this]
                  rfl


/-- top-level form: `Spec.assign` of a header extended by one folder -/
theorem assign_append (files1 files2 : List SFile) (nums : List Nat) (n2 : Nat) (sizes1 sizes2 : List Nat)
    (crcs1 crcs2 : List (Option Nat)) (M1 : List SMember)
    (hbase : assign files1 nums sizes1 crcs1 = .ok M1) (hne : nums ≠ [])
    (hcap : nums.sum = sizes1.length) (hl1 : sizes1.length = crcs1.length)
    (hl2 : sizes2.length = crcs2.length) (hc2 : (files2.filter (fun f => !f.emptyStream)).length = sizes2.length)
    (hn2 : sizes2.length = n2) :
    assign (files1 ++ files2) (nums ++ [n2]) (sizes1 ++ sizes2) (crcs1 ++ crcs2) =
      .ok (M1 ++ folderMembers nums.length files2 0 sizes2 crcs2) := by
  unfold assign at hbase ⊢
  have hcap' : capacity 0 nums = sizes1.length := by
    cases nums with
    | nil => exact absurd rfl hne
    | cons n ns => simpa [capacity] using hcap
  have := assignGo_append files2 n2 sizes2 crcs2 hl2 hc2 hn2 (files1.length + nums.length + 1) files1 0 0 0 nums sizes1 crcs1 M1
    (files2.length + 1) hbase hne hcap' hl1 (by omega) (by omega)
  have hfu : (files1 ++ files2).length + (nums ++ [n2]).length + 1 = files1.length + nums.length + 1 + (files2.length + 1) := by
    simp only [List.length_append, List.length_cons, List.length_nil]; omega
  rw [hfu, this]
  simp

end SevenZ
