/-
Append sessions at the level of the archive file: an invariant of the archives py7zr writes
(create session, then any append sessions, raw header mode) that is established by a create
session, preserved by an append session, and implies that the strict archive reader recovers the
members of all sessions in order.
-/
import SevenZ.Lemmas.ImplHeader
import SevenZ.Lemmas.AssignAppend
import SevenZ.Model.AppendSession
namespace SevenZ
open Impl Spec

/-! ### linear folders in general -/

theorem linear_tot (f : Folder) (lf : LinearFolder f) :
    totIn f = f.coders.length ∧ totOut f = f.coders.length :=
  ⟨sum_map_one _ _ (fun c hc => (lf.simple c hc).1), sum_map_one _ _ (fun c hc => (lf.simple c hc).2)⟩

theorem linear_find_in (f : Folder) (lf : LinearFolder f) :
    (List.range f.coders.length).find? (fun i => !(f.bindpairs.any (fun p => p.1 = i))) = some 0 := by
  apply find_range_first _ _ 0 lf.ncoders.1 (fun i hi => by omega)
  rw [lf.pairs, linearPairs_in]; simp

theorem linear_wf (f : Folder) (lf : LinearFolder f) : WFFolder f := by
  obtain ⟨hin, hout⟩ := linear_tot f lf
  have hk := lf.ncoders
  refine ⟨hk, lf.coders, by rw [hout]; exact hk.1, ?_, ?_, by rw [hin, hout]; omega, ?_, by rw [hout]; exact lf.nsizes, lf.sizes⟩
  · rw [hout, lf.pairs]; simp [linearPairs]
  · intro b hb'
    rw [lf.pairs] at hb'
    simp only [linearPairs, List.mem_map, List.mem_range] at hb'
    obtain ⟨i, hi, rfl⟩ := hb'
    rw [hin, hout]
    have : (32 : Nat) < 2 ^ 64 := by decide
    refine ⟨by omega, by omega, by omega, by omega⟩
  · have h1 : totIn f - (totOut f - 1) = 1 := by rw [hin, hout]; omega
    simp only [h1, if_true]
    rw [hin, linear_find_in f lf]; rfl

theorem linear_packedOf (f : Folder) (lf : LinearFolder f) : packedOf f = [0] := by
  obtain ⟨hin, hout⟩ := linear_tot f lf
  have hk := lf.ncoders
  unfold packedOf
  have h1 : totIn f - (totOut f - 1) = 1 := by rw [hin, hout]; omega
  simp only [h1, if_true]
  rw [hin, linear_find_in f lf]

/-- the unpack size of a linear folder, both as the format defines it and as py7zr computes it -/
def lastSize (f : Folder) : Nat := f.unpacksizes.getD (f.coders.length - 1) 0

theorem linear_folderOut (f : Folder) (lf : LinearFolder f) : folderOut (toSFolder f) = .ok (lastSize f) := by
  have hk := lf.ncoders
  unfold folderOut
  have hf : (List.range (toSFolder f).unpackSizes.length).find?
      (fun o => !((toSFolder f).bindpairs.any (fun p => p.2 = o))) = some (f.coders.length - 1) := by
    show (List.range f.unpacksizes.length).find? (fun o => !(f.bindpairs.any (fun p => p.2 = o))) = _
    rw [lf.nsizes, lf.pairs]
    apply find_range_first _ _ _ (by omega)
    · intro i hi
      rw [linearPairs_out]; simp; omega
    · rw [linearPairs_out]; simp; omega
  rw [hf]
  rfl

theorem linear_unpackSize (f : Folder) (lf : LinearFolder f) : folderUnpackSize f = some (lastSize f) := by
  rw [folderUnpackSize_linear f f.coders.length lf.ncoders.1 lf.pairs lf.nsizes]
  have : f.coders.length - 1 < f.unpacksizes.length := by rw [lf.nsizes]; have := lf.ncoders.1; omega
  simp [lastSize, List.getD, List.getElem?_eq_getElem this]

theorem readBack_linear (f : Folder) (lf : LinearFolder f) : LinearFolder (readBackFolder f) :=
  ⟨lf.ncoders, lf.simple, lf.coders, lf.ids, lf.props, lf.pairs, lf.nsizes, lf.sizes⟩

theorem readBack_lastSize (f : Folder) : lastSize (readBackFolder f) = lastSize f := rfl

theorem toSFolder_readBack (f : Folder) (lf : LinearFolder f) : toSFolder (readBackFolder f) = toSFolder f := by
  unfold toSFolder
  rw [linear_packedOf _ (readBack_linear f lf), linear_packedOf f lf]
  rfl

/-! ### the tiling of sub-stream sizes, stated once for linear folders -/

/-- `sizes` is cut into groups of `n` entries, one group per folder, and a non-empty group sums
    to the folder's unpack size -/
def Tiles : List Nat → List Folder → List Nat → Prop
  | [], [], sizes => sizes = []
  | n :: ns, f :: fs, sizes => n ≤ sizes.length ∧ (n = 0 ∨ lastSize f = (sizes.take n).sum) ∧ Tiles ns fs (sizes.drop n)
  | _, _, _ => False

theorem tiles_spec : ∀ (nums : List Nat) (fs : List Folder) (sizes : List Nat), (∀ f ∈ fs, LinearFolder f) →
    Tiles nums fs sizes → SizesOK nums (fs.map toSFolder) sizes := by
  intro nums
  induction nums with
  | nil => intro fs sizes _ h; cases fs <;> simp_all [Tiles, SizesOK]
  | cons n ns ih =>
    intro fs sizes hl h
    cases fs with
    | nil => simp [Tiles] at h
    | cons f fs =>
      obtain ⟨h1, h2, h3⟩ := h
      refine ⟨h1, ?_, ih fs _ (fun g hg => hl g (by simp [hg])) h3⟩
      rcases h2 with h2 | h2
      · exact Or.inl h2
      · right; rw [linear_folderOut f (hl f (by simp)), h2]

theorem tiles_impl : ∀ (nums : List Nat) (fs : List Folder) (sizes : List Nat), (∀ f ∈ fs, LinearFolder f) →
    Tiles nums fs sizes → ImplSizesOK nums (fs.map readBackFolder) sizes := by
  intro nums
  induction nums with
  | nil => intro fs sizes _ h; cases fs <;> simp_all [Tiles, ImplSizesOK]
  | cons n ns ih =>
    intro fs sizes hl h
    cases fs with
    | nil => simp [Tiles] at h
    | cons f fs =>
      obtain ⟨h1, h2, h3⟩ := h
      refine ⟨h1, ?_, ih fs _ (fun g hg => hl g (by simp [hg])) h3⟩
      rcases h2 with h2 | h2
      · exact Or.inl h2
      · right; rw [linear_unpackSize _ (readBack_linear f (hl f (by simp))), readBack_lastSize, h2]

theorem tiles_length : ∀ (nums : List Nat) (fs : List Folder) (sizes : List Nat),
    Tiles nums fs sizes → nums.length = fs.length ∧ sizes.length = nums.sum := by
  intro nums
  induction nums with
  | nil => intro fs sizes h; cases fs <;> simp_all [Tiles]
  | cons n ns ih =>
    intro fs sizes h
    cases fs with
    | nil => simp [Tiles] at h
    | cons f fs =>
      obtain ⟨h1, _, h3⟩ := h
      obtain ⟨i1, i2⟩ := ih fs _ h3
      refine ⟨by simp [i1], ?_⟩
      simp only [List.length_drop] at i2
      simp only [List.sum_cons]; omega

theorem tiles_append : ∀ (nums : List Nat) (fs : List Folder) (sizes : List Nat) (n2 : Nat) (f2 : Folder) (sizes2 : List Nat),
    Tiles nums fs sizes → sizes2.length = n2 → (n2 = 0 ∨ lastSize f2 = sizes2.sum) →
    Tiles (nums ++ [n2]) (fs ++ [f2]) (sizes ++ sizes2) := by
  intro nums
  induction nums with
  | nil =>
    intro fs sizes n2 f2 sizes2 h hn hs
    cases fs with
    | nil =>
      simp only [Tiles] at h
      subst h
      simp only [List.nil_append, Tiles]
      refine ⟨by omega, ?_, by simp [← hn]⟩
      rcases hs with hs | hs
      · exact Or.inl hs
      · right; rw [hs, ← hn, List.take_length]
    | cons f fs => simp [Tiles] at h
  | cons n ns ih =>
    intro fs sizes n2 f2 sizes2 h hn hs
    cases fs with
    | nil => simp [Tiles] at h
    | cons f fs =>
      obtain ⟨h1, h2, h3⟩ := h
      simp only [List.cons_append, Tiles]
      refine ⟨by simp; omega, ?_, ?_⟩
      · rcases h2 with h2 | h2
        · exact Or.inl h2
        · right; rw [List.take_append_of_le_length h1]; exact h2
      · rw [List.drop_append_of_le_length h1]
        exact ih fs _ n2 f2 sizes2 h3 hn hs

/-- without a Size property (`unpacksizes is None`) `Header.initialize()` rebuilds the sizes from
    the folders: they are the tiling sizes when no folder has more than one stream -/
theorem implicitSizes_tiles : ∀ (nums : List Nat) (fs : List Folder) (sizes : List Nat),
    (∀ f ∈ fs, LinearFolder f) → Tiles nums fs sizes → (∀ n ∈ nums, n ≤ 1) → ∀ extra,
    implicitSizes (fs.map readBackFolder ++ extra) nums = some sizes := by
  intro nums
  induction nums with
  | nil =>
    intro fs sizes _ h _ extra
    cases fs with
    | nil => simp only [Tiles] at h; subst h; cases extra <;> rfl
    | cons f fs => simp [Tiles] at h
  | cons n ns ih =>
    intro fs sizes hl h hle extra
    cases fs with
    | nil => simp [Tiles] at h
    | cons f fs =>
      obtain ⟨h1, h2, h3⟩ := h
      have ih' := ih fs (sizes.drop n) (fun g hg => hl g (by simp [hg])) h3 (fun m hm => hle m (by simp [hm])) extra
      have hn1 := hle n (by simp)
      simp only [List.map_cons, List.cons_append, implicitSizes]
      by_cases h0 : n = 0
      · subst h0
        simp only [show ¬ (0 = 1) by decide, if_false]
        simpa using ih'
      · have h1' : n = 1 := by omega
        subst h1'
        simp only [if_true]
        rw [linear_unpackSize _ (readBack_linear f (hl f (by simp))), readBack_lastSize, ih']
        cases sizes with
        | nil => simp at h1
        | cons v vs =>
          rcases h2 with h2 | h2
          · exact absurd h2 h0
          · simp only [List.take_succ_cons, List.take_zero, List.sum_cons, List.sum_nil, Nat.add_zero] at h2
            simp [h2]


/-! ### the invariant -/

/-- the parts of a header object with data streams -/
structure HParts where
  p : PackInfo
  fs : List Folder
  ss : SubStreams
  sizes : List Nat
  fi : FilesInfo

def HParts.streams (c : HParts) : Streams := { packinfo := some c.p, folders := some c.fs, substreams := some c.ss }
def HParts.header (c : HParts) : Header := { mainStreams := some c.streams, filesInfo := some c.fi }

/-- what `Header._read` makes of it -/
def HParts.readBack (c : HParts) : HParts :=
  { p := readBackPack c.p, fs := c.fs.map readBackFolder, ss := readBackSub c.ss c.sizes, sizes := c.sizes,
    fi := { files := c.fi.files.map readBackFile, emptyfiles := [] } }

/-- what the strict reader makes of it -/
def HParts.expected (c : HParts) : SHeader := expectedHeader c.p c.fs c.ss c.sizes c.fi

/-- the header objects py7zr holds for the archives it writes (raw header mode): packed streams
    one per folder, tiling the data area; pack digests for all streams or for none; linear
    folders; every sub-stream with a digest; readable member records whose names hold no backslash -/
structure Inv (c : HParts) (area : Bytes) : Prop where
  usizes : c.ss.unpacksizes = some c.sizes
  packpos : c.p.packpos = 0
  nstreams : c.p.numstreams = c.fs.length
  npack : c.p.packsizes.length = c.fs.length
  packsum : c.p.packsizes.sum = area.length
  areaBound : area.length < 2 ^ 64
  digests : (c.p.enableDigests = false ∧ c.p.digestdefined = [] ∧ c.p.crcs = []) ∨
    (c.p.enableDigests = true ∧ c.p.digestdefined = List.replicate c.fs.length true ∧ c.p.crcs.length = c.fs.length ∧
      ∀ x ∈ c.p.crcs, x < 256 ^ 4)
  fne : c.fs ≠ []
  nfolders : c.fs.length < 2 ^ 64
  linear : ∀ f ∈ c.fs, LinearFolder f
  nums : ∀ n ∈ c.ss.numUnpack, n < 2 ^ 64
  tiles : Tiles c.ss.numUnpack c.fs c.sizes
  sizesBound : ∀ v ∈ c.sizes, v < 2 ^ 64
  dd : c.ss.digestsdefined = List.replicate c.ss.numUnpack.sum true
  dlen : c.ss.digests.length = c.ss.numUnpack.sum
  dbound : ∀ x ∈ c.ss.digests, x < 256 ^ 4
  files : ReadableFiles c.fi
  noSlash : ∀ e ∈ c.fi.files, ∀ ch ∈ nameOf e, ch ≠ 0x5C
  streamsLeFiles : c.ss.numUnpack.sum ≤ c.fi.files.length

theorem foldl_or_replicate_true (k : Nat) (hk : 0 < k) : (List.replicate k true).foldl (· || ·) true = true := by
  induction k with
  | zero => omega
  | succ k ih =>
    simp only [List.replicate_succ, List.foldl_cons, Bool.or_true]
    cases k with
    | zero => rfl
    | succ k => exact ih (by omega)

theorem foldl_or_true (l : List Bool) : l.foldl (· || ·) true = true := by
  induction l with
  | nil => rfl
  | cons a l ih => simpa using ih

theorem mem_le_sum' (l : List Nat) (m : Nat) (h : m ∈ l) : m ≤ l.sum := mem_le_sum l m h

theorem Inv.wfPack {c : HParts} {area : Bytes} (inv : Inv c area) : WFPack c.p := by
  refine ⟨by rw [inv.packpos]; decide, by rw [inv.nstreams]; exact inv.nfolders, ?_, ?_, ?_⟩
  · intro v hv
    have := mem_le_sum' _ _ hv
    have := inv.packsum; have := inv.areaBound; omega
  · intro he
    rcases inv.digests with ⟨h1, h2, _⟩ | ⟨_, h2, _, _⟩
    · rw [h1, h2] at he; simp at he
    · rw [h2, inv.nstreams]; simp
  · rcases inv.digests with ⟨_, _, h3⟩ | ⟨_, _, _, h4⟩
    · rw [h3]; simp
    · exact h4

theorem Inv.wfStreams {c : HParts} {area : Bytes} (inv : Inv c area) : WFStreams c.streams c.p c.fs c.ss c.sizes := by
  obtain ⟨hl, hs⟩ := tiles_length _ _ _ inv.tiles
  refine ⟨rfl, rfl, rfl, inv.wfPack, inv.nfolders, inv.fne, fun f hf => linear_wf f (inv.linear f hf), ?_, hl, inv.nums,
    inv.usizes, tiles_spec _ _ _ inv.linear inv.tiles, inv.sizesBound, by rw [inv.dd]; simp, inv.dlen, inv.dbound⟩
  rw [inv.npack]
  have : ∀ (l : List Folder), (∀ f ∈ l, LinearFolder f) → (l.map (fun f => (packedOf f).length)).sum = l.length := by
    intro l hl'
    exact sum_map_one l _ (fun f hf => by rw [linear_packedOf f (hl' f hf)]; rfl)
  exact this c.fs inv.linear

theorem Inv.linearStreams {c : HParts} {area : Bytes} (inv : Inv c area) : LinearStreams c.streams c.p c.fs c.ss c.sizes := by
  obtain ⟨hl, hs⟩ := tiles_length _ _ _ inv.tiles
  exact ⟨rfl, rfl, rfl, inv.wfPack, inv.nfolders, inv.fne, inv.linear, hl, inv.nums, inv.usizes,
    tiles_impl _ _ _ inv.linear inv.tiles, inv.sizesBound, by rw [inv.dd]; simp, inv.dlen, inv.dbound⟩

/-- an image of the shape every archive py7zr writes has: signature header, the packed streams
    of all sessions, the header, and whatever an earlier, longer file left behind -/
def imageOf (area hdr junk : Bytes) : Bytes :=
  sigHeaderBytes area.length hdr.length (crc32 hdr) ++ area ++ hdr ++ junk

/-- the format's assignment for the header object -/
def HParts.content (c : HParts) : Except String (List SMember) :=
  assign (c.fi.files.map toSFile) c.ss.numUnpack c.sizes (expectedSubCrcs c.ss)

/-- **Reading an archive that satisfies the invariant**: the strict archive reader accepts it,
    the packed sizes tile the data area exactly, and the members are the header object's content;
    py7zr's own reader returns the read-back form of the header object. -/
theorem Inv.reads {c : HParts} {area : Bytes} (inv : Inv c area) (hdr junk : Bytes)
    (hw : writeHeaderRaw true c.header (32 + area.length) = some hdr) (hh : hdr.length < 2 ^ 64) :
    readArchiveTail (imageOf area hdr junk) = .ok { top := .raw c.expected, dataArea := area } ∧
    tilesExactly (expectedStreams c.p c.fs c.ss c.sizes) area = true ∧
    members c.expected = c.content ∧
    readNextHeader hdr = .ok (.raw c.readBack.header) := by
  have h1 := header_strict_read c.header c.streams c.p c.fs c.ss c.sizes c.fi rfl rfl inv.wfStreams inv.files.wf _ hdr hw
  have h2 := impl_reads_header c.header c.streams c.p c.fs c.ss c.sizes c.fi rfl rfl inv.linearStreams inv.files inv.streamsLeFiles _ hdr hw
  refine ⟨?_, ?_, rfl, h2⟩
  · unfold imageOf
    rw [readArchiveTail_assembled area hdr junk inv.areaBound hh, h1]
    rfl
  · simp [tilesExactly, expectedStreams, expectedPack, inv.packpos, inv.packsum]


/-! ### what the reader hands to an append session -/

theorem zip_filter_all_true : ∀ (k : Nat) (crcs : List Nat), crcs.length = k →
    (((List.replicate k true).zip crcs).filter (·.1)).map (·.2) = crcs := by
  intro k
  induction k with
  | zero => intro crcs h; have : crcs = [] := List.eq_nil_of_length_eq_zero h; subst this; rfl
  | succ k ih =>
    intro crcs h
    cases crcs with
    | nil => simp at h
    | cons c cs => simp [List.replicate_succ, ih cs (by simpa using h)]

theorem Inv.readBackPack_eq {c : HParts} {area : Bytes} (inv : Inv c area) : readBackPack c.p = c.p := by
  have hk : 0 < c.fs.length := by
    cases hfs : c.fs with
    | nil => exact absurd hfs inv.fne
    | cons a b => simp
  unfold readBackPack
  rcases inv.digests with ⟨h1, h2, h3⟩ | ⟨h1, h2, h3, _⟩
  · have : c.p.digestdefined.foldl (· || ·) c.p.enableDigests = false := by rw [h1, h2]; rfl
    simp only [this, Bool.false_eq_true, if_false]
    cases hp : c.p
    simp_all
  · have : c.p.digestdefined.foldl (· || ·) c.p.enableDigests = true := by rw [h1]; exact foldl_or_true _
    simp only [this, if_true]
    rw [h2, zip_filter_all_true _ _ h3]
    have hl : decide (c.p.crcs.length > 0) = true := by simp; omega
    rw [hl]
    cases hp : c.p
    simp_all

theorem zip_all_true_map : ∀ (k : Nat) (ds : List Nat), ds.length = k →
    ((List.replicate k true).zip ds).map (fun ((d, x) : Bool × Nat) => if d then x else 0) = ds := by
  intro k
  induction k with
  | zero => intro ds h; have : ds = [] := List.eq_nil_of_length_eq_zero h; subst this; rfl
  | succ k ih =>
    intro ds h
    cases ds with
    | nil => simp at h
    | cons d ds => simp [List.replicate_succ, ih ds (by simpa using h)]

theorem Inv.readBackSub_digests {c : HParts} {area : Bytes} (inv : Inv c area) :
    (readBackSub c.ss c.sizes).digestsdefined = c.ss.digestsdefined ∧ (readBackSub c.ss c.sizes).digests = c.ss.digests ∧
    (readBackSub c.ss c.sizes).numUnpack = c.ss.numUnpack := by
  unfold readBackSub
  refine ⟨?_, ?_, rfl⟩
  · by_cases h : c.ss.digestsdefined.any id = true
    · simp [h]
    · have h' : c.ss.digestsdefined.any id = false := by simpa using h
      simp only [h', Bool.false_eq_true, if_false]
      rw [inv.dd] at h' ⊢
      cases hs : c.ss.numUnpack.sum with
      | zero => rfl
      | succ k => rw [hs] at h'; simp [List.replicate_succ] at h'
  · by_cases h : c.ss.digestsdefined.any id = true
    · simp only [h, if_true]
      rw [inv.dd, zip_all_true_map _ _ inv.dlen]
    · have h' : c.ss.digestsdefined.any id = false := by simpa using h
      simp only [h', Bool.false_eq_true, if_false]
      rw [inv.dd] at h'
      cases hs : c.ss.numUnpack.sum with
      | zero =>
        have := inv.dlen; rw [hs] at this
        rw [List.eq_nil_of_length_eq_zero this]; rfl
      | succ k => rw [hs] at h'; simp [List.replicate_succ] at h'

theorem tiles_readBack : ∀ (nums : List Nat) (fs : List Folder) (sizes : List Nat),
    Tiles nums fs sizes → Tiles nums (fs.map readBackFolder) sizes := by
  intro nums
  induction nums with
  | nil => intro fs sizes h; cases fs <;> simp_all [Tiles]
  | cons n ns ih =>
    intro fs sizes h
    cases fs with
    | nil => simp [Tiles] at h
    | cons f fs =>
      obtain ⟨h1, h2, h3⟩ := h
      exact ⟨h1, h2, ih fs _ h3⟩

theorem slotOpt_norm (s : Slot Nat) : slotOpt (normSlot s) = slotOpt s := by cases s <;> rfl

theorem fixSlash_id (n : List Nat) (h : ∀ ch ∈ n, ch ≠ 0x5C) : fixSlash n = n := by
  unfold fixSlash
  induction n with
  | nil => rfl
  | cons a l ih =>
    have ha : a ≠ 0x5C := h a (by simp)
    simp only [List.map_cons, ha, if_false]
    rw [ih (fun ch hch => h ch (by simp [hch]))]

theorem toSFile_readBack (e : FileEntry) (hn : e.filename.isSome = true) (hs : ∀ ch ∈ nameOf e, ch ≠ 0x5C) :
    toSFile (readBackFile e) = toSFile e := by
  unfold toSFile readBackFile
  simp only [slotOpt_norm, fixSlash_id _ hs]
  cases hf : e.filename with
  | none => rw [hf] at hn; simp at hn
  | some nm => simp [nameOf, hf]

/-! ### the step -/

/-- the header object at `close()` of an append session, in terms of the object the base's header was written from -/
def appendComps {σ} (c : HParts) (cfg : WConfig σ) (ms : List WMember) (us : List Nat) : HParts :=
  { p := { c.p with numstreams := c.p.numstreams + 1, packsizes := c.p.packsizes ++ [(sessionCompress cfg ms).1.packsize],
                    crcs := if c.p.enableDigests then c.p.crcs ++ [(sessionCompress cfg ms).1.digest] else c.p.crcs,
                    digestdefined := if c.p.enableDigests then c.p.digestdefined ++ [true] else c.p.digestdefined },
    fs := c.fs.map readBackFolder ++ [sessionFolder cfg us],
    ss := { numUnpack := c.ss.numUnpack ++ [(sessionCompress cfg ms).2.length],
            unpacksizes := some (c.sizes ++ (sessionCompress cfg ms).2.map (·.1)),
            digestsdefined := c.ss.digestsdefined ++ (sessionCompress cfg ms).2.map (fun _ => true),
            digests := c.ss.digests ++ (sessionCompress cfg ms).2.map (·.2) },
    sizes := c.sizes ++ (sessionCompress cfg ms).2.map (·.1),
    fi := { files := c.fi.files.map readBackFile ++ (sessionFiles ms).files, emptyfiles := (sessionFiles ms).emptyfiles } }

theorem appendHeader_eq {σ} {c : HParts} {area : Bytes} (inv : Inv c area) (cfg : WConfig σ) (ms : List WMember) (us : List Nat)
    (hU : unpacksizesOf cfg.methodsMap ((sessionCompress cfg ms).1.chain.map (·.fed)) = some us) :
    appendHeader c.readBack.header cfg ms = some (appendComps c cfg ms us).header := by
  obtain ⟨d1, d2, d3⟩ := inv.readBackSub_digests
  have hp := inv.readBackPack_eq
  unfold appendHeader
  simp only [hU, HParts.header, HParts.streams, HParts.readBack, hp]
  -- the sizes `Header.initialize()` works with
  simp only [d1, d2, d3]
  have hru : (readBackSub c.ss c.sizes).unpacksizes = if c.ss.numUnpack.any (· > 1) then some c.sizes else none := rfl
  cases hu : (readBackSub c.ss c.sizes).unpacksizes with
  | some l =>
    rw [hu] at hru
    have hl : l = c.sizes := by
      by_cases hm : c.ss.numUnpack.any (· > 1) = true
      · simp only [hm, if_true, Option.some.injEq] at hru; exact hru
      · simp [hm] at hru
    subst hl
    rfl
  | none =>
    rw [hu] at hru
    have hm' : c.ss.numUnpack.any (· > 1) = false := by
      by_cases hm : c.ss.numUnpack.any (· > 1) = true
      · simp [hm] at hru
      · simpa using hm
    have hle : ∀ n ∈ c.ss.numUnpack, n ≤ 1 := by
      intro n hn
      have := List.any_eq_false.mp hm' n hn
      simpa using this
    have := implicitSizes_tiles _ _ _ inv.linear inv.tiles hle []
    simp only [List.append_nil] at this
    simp only [this]
    rfl

theorem replicate_true_append (a b : Nat) : List.replicate (a + b) true = List.replicate a true ++ List.replicate b true := by
  exact (List.replicate_append_replicate).symm

/-- **The invariant is preserved by an append session.** -/
theorem Inv.append {σ} {c : HParts} {area : Bytes} (inv : Inv c area) (cfg : WConfig σ) (ms : List WMember) (us : List Nat)
    (wfc : WFConfig cfg) (wfm : WFMembers ms) (rs : ReadableSession cfg ms)
    (hU : unpacksizesOf cfg.methodsMap ((sessionCompress cfg ms).1.chain.map (·.fed)) = some us)
    (husb : ∀ v ∈ us, v < 2 ^ 64)
    (hab : (area ++ (sessionCompress cfg ms).1.out).length < 2 ^ 64)
    (hnf : c.fs.length + 1 < 2 ^ 64)
    (hfiles : ReadableFiles (appendComps c cfg ms us).fi)
    (hns : ∀ m ∈ ms, ∀ ch ∈ m.name, ch ≠ 0x5C) :
    Inv (appendComps c cfg ms us) (area ++ (sessionCompress cfg ms).1.out) := by
  obtain ⟨f1, f2, f3, f4, f5⟩ := sessionCompress_facts cfg wfc ms
  obtain ⟨hl, hs⟩ := tiles_length _ _ _ inv.tiles
  obtain ⟨m0, mrest, hmm⟩ : ∃ m0 mrest, cfg.methodsMap = m0 :: mrest := by
    cases hm : cfg.methodsMap with
    | nil => have := wfc.mapLen; rw [hm] at this; have := wfc.ncoders.1; simp at *; omega
    | cons a b => exact ⟨a, b, rfl⟩
  rw [hmm] at hU
  obtain ⟨u1, u2⟩ := unpacksizesOf_spec m0 mrest _ us hU
  have huslen : us.length = cfg.coders.length := by rw [u2, ← wfc.mapLen, hmm]; simp
  have huslast : us[cfg.coders.length - 1]? = some ((dataMembers ms).map (fun m => m.blocks.flatten.length)).sum := by
    rw [headFed_getElem _ f5, f2, List.getLast?_eq_getElem?, huslen] at u1
    exact u1
  have hlf : LinearFolder (sessionFolder cfg us) :=
    ⟨wfc.ncoders, wfc.simple, wfc.coders, rs.ids, rs.props, rfl, huslen, husb⟩
  have hlast : lastSize (sessionFolder cfg us) = ((sessionCompress cfg ms).2.map (·.1)).sum := by
    show us.getD (cfg.coders.length - 1) 0 = _
    simp only [List.getD, huslast, Option.getD_some, f1, List.map_map, Function.comp_def]
  refine ⟨rfl, inv.packpos, ?_, ?_, ?_, hab, ?_, by simp [appendComps], ?_, ?_, ?_, ?_, ?_, ?_, ?_, ?_, hfiles, ?_, ?_⟩
  · simp [appendComps, inv.nstreams]
  · simp [appendComps, inv.npack]
  · simp [appendComps, inv.packsum, f3]
  · rcases inv.digests with ⟨h1, h2, h3⟩ | ⟨h1, h2, h3, h4⟩
    · left; simp [appendComps, h1, h2, h3]
    · right
      refine ⟨h1, ?_, ?_, ?_⟩
      · simp [appendComps, h1, h2, List.replicate_succ']
      · simp [appendComps, h1, h3]
      · intro x hx
        simp only [appendComps, h1, if_true, List.mem_append, List.mem_singleton] at hx
        rcases hx with hx | hx
        · exact h4 x hx
        · rw [hx, f4]; exact crc32Update_lt 0 _
  · simp only [appendComps, List.length_append, List.length_map, List.length_singleton]; exact hnf
  · intro f hf
    simp only [appendComps, List.mem_append, List.mem_map, List.mem_singleton] at hf
    rcases hf with ⟨g, hg, rfl⟩ | rfl
    · exact readBack_linear g (inv.linear g hg)
    · exact hlf
  · intro n hn
    simp only [appendComps, List.mem_append, List.mem_singleton] at hn
    rcases hn with hn | hn
    · exact inv.nums n hn
    · rw [hn, f1, List.length_map]
      have : (dataMembers ms).length ≤ ms.length := List.length_filter_le _ _
      have := wfm.count
      have : (2 : Nat) ^ 32 < 2 ^ 64 := by decide
      omega
  · show Tiles (c.ss.numUnpack ++ [(sessionCompress cfg ms).2.length]) (c.fs.map readBackFolder ++ [sessionFolder cfg us])
      (c.sizes ++ (sessionCompress cfg ms).2.map (·.1))
    exact tiles_append _ _ _ _ _ _ (tiles_readBack _ _ _ inv.tiles) (by simp) (Or.inr hlast)
  · intro v hv
    simp only [appendComps, List.mem_append] at hv
    rcases hv with hv | hv
    · exact inv.sizesBound v hv
    · rw [f1] at hv
      simp only [List.map_map, List.mem_map, Function.comp] at hv
      obtain ⟨m, hm, rfl⟩ := hv
      exact wfm.sizes m (List.mem_filter.mp hm).1
  · simp only [appendComps, List.sum_append, List.sum_singleton]
    rw [replicate_true_append, inv.dd]
    congr 1
    rw [List.eq_replicate_iff]
    exact ⟨by simp, by intro b hb; simp at hb; exact hb.2⟩
  · simp [appendComps, inv.dlen]
  · intro x hx
    simp only [appendComps, List.mem_append] at hx
    rcases hx with hx | hx
    · exact inv.dbound x hx
    · rw [f1] at hx
      simp only [List.map_map, List.mem_map, Function.comp] at hx
      obtain ⟨m, _, rfl⟩ := hx
      exact crc32Update_lt 0 _
  · intro e he ch hch
    simp only [appendComps, List.mem_append, List.mem_map] at he
    rcases he with ⟨g, hg, rfl⟩ | he
    · have hgs := inv.noSlash g hg
      have : nameOf (readBackFile g) = nameOf g := by
        have := fixSlash_id _ hgs
        simp only [nameOf] at this ⊢
        simp [readBackFile, nameOf, this]
      rw [this] at hch
      exact hgs ch hch
    · simp only [sessionFiles, List.mem_map] at he
      obtain ⟨m, hm, rfl⟩ := he
      exact hns m hm ch (by simpa [nameOf] using hch)
  · have h1 := inv.streamsLeFiles
    have h2 : (dataMembers ms).length ≤ ms.length := List.length_filter_le _ _
    simp only [appendComps, List.sum_append, List.sum_singleton, List.length_append, List.length_map, sessionFiles, f1]
    omega


/-! ### the create session establishes the invariant -/

def sessionComps {σ} (cfg : WConfig σ) (ms : List WMember) (us : List Nat) : HParts :=
  { p := { packpos := 0, numstreams := 1, packsizes := [(sessionCompress cfg ms).1.packsize],
           digestdefined := if cfg.enableDigests then [true] else [],
           crcs := if cfg.enableDigests then [(sessionCompress cfg ms).1.digest] else [],
           enableDigests := cfg.enableDigests },
    fs := [sessionFolder cfg us],
    ss := { numUnpack := [(sessionCompress cfg ms).2.length],
            unpacksizes := some ((sessionCompress cfg ms).2.map (·.1)),
            digestsdefined := (sessionCompress cfg ms).2.map (fun _ => true),
            digests := (sessionCompress cfg ms).2.map (·.2) },
    sizes := (sessionCompress cfg ms).2.map (·.1),
    fi := sessionFiles ms }

theorem sessionHeader_eq {σ} (cfg : WConfig σ) (ms : List WMember) (us : List Nat)
    (hU : unpacksizesOf cfg.methodsMap ((sessionCompress cfg ms).1.chain.map (·.fed)) = some us) :
    sessionHeader cfg ms = some (sessionComps cfg ms us).header := by
  unfold sessionHeader
  simp only [hU]
  rfl

theorem map_const_true_replicate {α} (l : List α) : l.map (fun _ => true) = List.replicate l.length true := by
  induction l with
  | nil => rfl
  | cons a l ih => simp [List.replicate_succ, ih]

theorem Inv.base {σ} (cfg : WConfig σ) (ms : List WMember) (us : List Nat)
    (wfc : WFConfig cfg) (wfm : WFMembers ms) (rs : ReadableSession cfg ms)
    (hU : unpacksizesOf cfg.methodsMap ((sessionCompress cfg ms).1.chain.map (·.fed)) = some us)
    (husb : ∀ v ∈ us, v < 2 ^ 64) (hout : (sessionCompress cfg ms).1.out.length < 2 ^ 64)
    (hns : ∀ m ∈ ms, ∀ ch ∈ m.name, ch ≠ 0x5C) :
    Inv (sessionComps cfg ms us) (sessionCompress cfg ms).1.out := by
  obtain ⟨f1, f2, f3, f4, f5⟩ := sessionCompress_facts cfg wfc ms
  obtain ⟨m0, mrest, hmm⟩ : ∃ m0 mrest, cfg.methodsMap = m0 :: mrest := by
    cases hm : cfg.methodsMap with
    | nil => have := wfc.mapLen; rw [hm] at this; have := wfc.ncoders.1; simp at *; omega
    | cons a b => exact ⟨a, b, rfl⟩
  rw [hmm] at hU
  obtain ⟨u1, u2⟩ := unpacksizesOf_spec m0 mrest _ us hU
  have huslen : us.length = cfg.coders.length := by rw [u2, ← wfc.mapLen, hmm]; simp
  have huslast : us[cfg.coders.length - 1]? = some ((dataMembers ms).map (fun m => m.blocks.flatten.length)).sum := by
    rw [headFed_getElem _ f5, f2, List.getLast?_eq_getElem?, huslen] at u1
    exact u1
  have hlf : LinearFolder (sessionFolder cfg us) :=
    ⟨wfc.ncoders, wfc.simple, wfc.coders, rs.ids, rs.props, rfl, huslen, husb⟩
  have hlast : lastSize (sessionFolder cfg us) = ((sessionCompress cfg ms).2.map (·.1)).sum := by
    show us.getD (cfg.coders.length - 1) 0 = _
    simp only [List.getD, huslast, Option.getD_some, f1, List.map_map, Function.comp_def]
  have rf : ReadableFiles (sessionFiles ms) := by
    refine ⟨sessionFiles_wf ms wfm, ?_, ?_⟩
    · intro e he; simp only [sessionFiles, List.mem_map] at he; obtain ⟨m, hm, rfl⟩ := he
      exact rs.nameLen m hm
    · have := rs.namesSize63
      simpa [sessionFiles, nameOf, Function.comp_def] using this
  refine ⟨rfl, rfl, rfl, rfl, ?_, hout, ?_, by simp [sessionComps], by show (1:Nat) < 2 ^ 64; decide, ?_, ?_, ?_, ?_, ?_, by simp [sessionComps], ?_, rf, ?_, ?_⟩
  · simp [sessionComps, f3]
  · cases hed : cfg.enableDigests
    · left; simp [sessionComps, hed]
    · right
      refine ⟨by simp [sessionComps, hed], by simp [sessionComps, hed], by simp [sessionComps, hed], ?_⟩
      intro x hx
      simp only [sessionComps, hed, if_true, List.mem_singleton] at hx
      rw [hx, f4]; exact crc32Update_lt 0 _
  · intro f hf; simp only [sessionComps, List.mem_singleton] at hf; rw [hf]; exact hlf
  · intro n hn; simp only [sessionComps, List.mem_singleton] at hn
    rw [hn, f1, List.length_map]
    have : (dataMembers ms).length ≤ ms.length := List.length_filter_le _ _
    have := wfm.count
    have : (2 : Nat) ^ 32 < 2 ^ 64 := by decide
    omega
  · show Tiles [(sessionCompress cfg ms).2.length] [sessionFolder cfg us] ((sessionCompress cfg ms).2.map (·.1))
    refine ⟨by simp, Or.inr ?_, by simp [Tiles]⟩
    rw [hlast]
    have : ((sessionCompress cfg ms).2.map (·.1)).length = (sessionCompress cfg ms).2.length := by simp
    rw [← this, List.take_length]
  · intro v hv
    simp only [sessionComps, f1, List.map_map, List.mem_map, Function.comp] at hv
    obtain ⟨m, hm, rfl⟩ := hv
    exact wfm.sizes m (List.mem_filter.mp hm).1
  · simp only [sessionComps, List.sum_singleton]
    exact map_const_true_replicate _
  · intro x hx
    simp only [sessionComps, f1, List.map_map, List.mem_map, Function.comp] at hx
    obtain ⟨m, _, rfl⟩ := hx
    exact crc32Update_lt 0 _
  · intro e he ch hch
    simp only [sessionComps, sessionFiles, List.mem_map] at he
    obtain ⟨m, hm, rfl⟩ := he
    exact hns m hm ch (by simpa [nameOf] using hch)
  · have h2 : (dataMembers ms).length ≤ ms.length := List.length_filter_le _ _
    simp only [sessionComps, List.sum_singleton, List.length_map, sessionFiles, f1]
    omega

/-- the create session's archive has the shape the invariant talks about -/
theorem sessionArchive_image {σ} (cfg : WConfig σ) (ms : List WMember) (us : List Nat) (img : Bytes)
    (hU : unpacksizesOf cfg.methodsMap ((sessionCompress cfg ms).1.chain.map (·.fed)) = some us)
    (h : sessionArchive cfg ms = some img) :
    ∃ hdr, writeHeaderRaw true (sessionComps cfg ms us).header (32 + (sessionCompress cfg ms).1.out.length) = some hdr ∧
      img = imageOf (sessionCompress cfg ms).1.out hdr [] := by
  unfold sessionArchive at h
  rw [sessionHeader_eq cfg ms us hU] at h
  cases hW : writeHeaderRaw true (sessionComps cfg ms us).header (32 + (sessionCompress cfg ms).1.out.length) with
  | none => simp [hW, bind, Option.bind] at h
  | some hdr =>
    simp only [hW, bind, Option.bind, pure, Option.some.injEq] at h
    exact ⟨hdr, rfl, by rw [← h]; simp [imageOf]⟩

/-! ### content under an append -/

theorem Inv.content_append {σ} {c : HParts} {area : Bytes} (inv : Inv c area) (cfg : WConfig σ) (ms : List WMember) (us : List Nat)
    (wfc : WFConfig cfg) (M : List SMember) (hM : c.content = .ok M) :
    (appendComps c cfg ms us).content = .ok (M ++ folderMembers c.fs.length (ms.map memberFile) 0
      ((dataMembers ms).map (fun m => m.blocks.flatten.length)) ((dataMembers ms).map (fun m => some (crc32 m.blocks.flatten)))) := by
  obtain ⟨f1, _, _, _, _⟩ := sessionCompress_facts cfg wfc ms
  obtain ⟨hl, hs⟩ := tiles_length _ _ _ inv.tiles
  unfold HParts.content at hM ⊢
  have hfiles : (appendComps c cfg ms us).fi.files.map toSFile = c.fi.files.map toSFile ++ ms.map memberFile := by
    simp only [appendComps, List.map_append, List.map_map]
    congr 1
    · apply List.map_congr_left
      intro e he
      exact toSFile_readBack e (inv.files.wf.named e he) (inv.noSlash e he)
    · simp [sessionFiles, toSFile, memberFile, Function.comp_def]
  have hcr : expectedSubCrcs (appendComps c cfg ms us).ss =
      expectedSubCrcs c.ss ++ (dataMembers ms).map (fun m => some (crc32 m.blocks.flatten)) := by
    simp only [expectedSubCrcs, appendComps]
    rw [List.zip_append (by rw [inv.dd, inv.dlen]; simp), List.map_append, f1]
    congr 1
    simp only [List.map_map]
    rw [List.zip_map', List.map_map]
    simp [Function.comp_def]
  have hsz : (appendComps c cfg ms us).sizes = c.sizes ++ (dataMembers ms).map (fun m => m.blocks.flatten.length) := by
    simp [appendComps, f1, Function.comp_def]
  have hnu : (appendComps c cfg ms us).ss.numUnpack = c.ss.numUnpack ++ [(dataMembers ms).length] := by
    simp [appendComps, f1]
  rw [hfiles, hcr, hsz, hnu]
  have hne : c.ss.numUnpack ≠ [] := by
    intro h0
    rw [h0] at hl
    exact inv.fne (List.eq_nil_of_length_eq_zero hl.symm)
  have hcount : ((ms.map memberFile).filter (fun f => !f.emptyStream)).length =
      ((dataMembers ms).map (fun m => m.blocks.flatten.length)).length := by
    simp only [List.filter_map, List.length_map, dataMembers]
    rfl
  have := assign_append (c.fi.files.map toSFile) (ms.map memberFile) c.ss.numUnpack (dataMembers ms).length c.sizes
    ((dataMembers ms).map (fun m => m.blocks.flatten.length)) (expectedSubCrcs c.ss)
    ((dataMembers ms).map (fun m => some (crc32 m.blocks.flatten))) M hM hne hs.symm
    (by simp [expectedSubCrcs, inv.dd, inv.dlen, hs]) (by simp) hcount (by simp)
  rw [this, hl]


/-! ### the archive file after an append session -/

theorem assembleAppend_image (area hdr junk out hdr' : Bytes) :
    assembleAppend (imageOf area hdr junk) (32 + area.length) out hdr' =
      imageOf (area ++ out) hdr' ((imageOf area hdr junk).drop (32 + area.length + out.length + hdr'.length)) := by
  have hs := sig_length area.length hdr.length (crc32 hdr)
  have htake : (imageOf area hdr junk).take (32 + area.length) = sigHeaderBytes area.length hdr.length (crc32 hdr) ++ area := by
    unfold imageOf
    rw [List.append_assoc, List.append_assoc]
    rw [← List.append_assoc]
    exact List.take_left' (by simp [hs])
  have hBl : 32 + area.length - (imageOf area hdr junk).length = 0 := by
    unfold imageOf
    simp only [List.length_append, hs]; omega
  generalize imageOf area hdr junk = B at htake hBl ⊢
  unfold assembleAppend
  simp only [htake, hBl, List.replicate_zero, List.append_nil]
  have hd : (sigHeaderBytes area.length hdr.length (crc32 hdr) ++ area ++ out ++ hdr').drop 32 = area ++ out ++ hdr' := by
    rw [List.append_assoc, List.append_assoc]
    rw [List.drop_left' hs, ← List.append_assoc]
  rw [hd]
  unfold imageOf
  have h1 : 32 + area.length + out.length - 32 = (area ++ out).length := by simp; omega
  have h2 : (sigHeaderBytes area.length hdr.length (crc32 hdr) ++ area ++ out ++ hdr').length =
      32 + area.length + out.length + hdr'.length := by simp [hs]; omega
  rw [h1, h2]
  simp only [List.append_assoc]

theorem Inv.append_image {σ} {c : HParts} {area : Bytes} (inv : Inv c area) (hdr junk : Bytes)
    (hw : writeHeaderRaw true c.header (32 + area.length) = some hdr) (hh : hdr.length < 2 ^ 64)
    (cfg : WConfig σ) (ms : List WMember) (us : List Nat) (hms : ms ≠ [])
    (hU : unpacksizesOf cfg.methodsMap ((sessionCompress cfg ms).1.chain.map (·.fed)) = some us)
    (img' : Bytes) (h : appendArchive (imageOf area hdr junk) cfg ms = some img') :
    ∃ hdr' junk', writeHeaderRaw true (appendComps c cfg ms us).header
        (32 + (area ++ (sessionCompress cfg ms).1.out).length) = some hdr' ∧
      img' = imageOf (area ++ (sessionCompress cfg ms).1.out) hdr' junk' := by
  have hloc := locateHeader_assembled area hdr junk inv.areaBound hh
  have hread := (inv.reads hdr junk hw hh).2.2.2
  have happ := appendHeader_eq inv cfg ms us hU
  have hemp : ms.isEmpty = false := by cases ms <;> simp_all
  have hpos : appendPos c.readBack.header = 32 + area.length := by
    simp only [appendPos, HParts.header, HParts.streams, HParts.readBack, inv.readBackPack_eq, inv.packpos, inv.packsum]
  have hH : headerOfImage (imageOf area hdr junk) = some c.readBack.header := by
    unfold headerOfImage imageOf
    rw [hloc]
    simp only [bind, Option.bind, hread]
  unfold appendArchive at h
  rw [hH] at h
  simp only [bind, Option.bind, hemp, Bool.false_eq_true, if_false, happ, Option.map_some, hpos] at h
  cases hW : writeHeaderRaw true (appendComps c cfg ms us).header (32 + area.length + (sessionCompress cfg ms).1.out.length) with
  | none => simp [hW] at h
  | some hdr' =>
    simp only [hW, pure, Option.some.injEq] at h
    refine ⟨hdr', (imageOf area hdr junk).drop (32 + area.length + (sessionCompress cfg ms).1.out.length + hdr'.length), by rw [List.length_append, ← Nat.add_assoc]; exact hW, ?_⟩
    rw [← h]
    exact assembleAppend_image area hdr junk _ hdr'


/-! ### archives reachable by a create session and any number of append sessions -/

/-- an archive file together with the header object it was written from and the members it holds -/
structure ArchState where
  c : HParts
  area : Bytes
  hdr : Bytes
  junk : Bytes
  M : List SMember

def ArchState.image (s : ArchState) : Bytes := imageOf s.area s.hdr s.junk

structure ArchState.Good (s : ArchState) : Prop where
  inv : Inv s.c s.area
  hw : writeHeaderRaw true s.c.header (32 + s.area.length) = some s.hdr
  hh : s.hdr.length < 2 ^ 64
  content : s.c.content = .ok s.M

/-- the members a session adds, as the format describes them, when its data goes to folder `k` -/
def sessionMembers (k : Nat) (ms : List WMember) : List SMember :=
  folderMembers k (ms.map memberFile) 0 ((dataMembers ms).map (fun m => m.blocks.flatten.length))
    ((dataMembers ms).map (fun m => some (crc32 m.blocks.flatten)))

theorem sessionMembers_zero (ms : List WMember) : sessionMembers 0 ms = expectedMembers ms := by
  unfold sessionMembers expectedMembers
  exact folderMembers_zero _ _ _ _

/-- a create session yields a good state -/
theorem good_of_create {σ} (cfg : WConfig σ) (ms : List WMember) (us : List Nat) (img : Bytes)
    (wfc : WFConfig cfg) (wfm : WFMembers ms) (rs : ReadableSession cfg ms)
    (hU : unpacksizesOf cfg.methodsMap ((sessionCompress cfg ms).1.chain.map (·.fed)) = some us)
    (husb : ∀ v ∈ us, v < 2 ^ 64) (hout : (sessionCompress cfg ms).1.out.length < 2 ^ 64)
    (hns : ∀ m ∈ ms, ∀ ch ∈ m.name, ch ≠ 0x5C)
    (hhl : ∀ hdr, writeHeaderRaw true (sessionComps cfg ms us).header (32 + (sessionCompress cfg ms).1.out.length) = some hdr →
      hdr.length < 2 ^ 64)
    (h : sessionArchive cfg ms = some img) :
    ∃ s : ArchState, s.image = img ∧ s.Good ∧ s.M = sessionMembers 0 ms ∧ s.c.fs.length = 1 := by
  obtain ⟨hdr, hw, himg⟩ := sessionArchive_image cfg ms us img hU h
  have inv := Inv.base cfg ms us wfc wfm rs hU husb hout hns
  obtain ⟨f1, _, _, _, _⟩ := sessionCompress_facts cfg wfc ms
  refine ⟨{ c := sessionComps cfg ms us, area := (sessionCompress cfg ms).1.out, hdr := hdr, junk := [], M := sessionMembers 0 ms },
    himg.symm, ⟨inv, hw, hhl hdr hw, ?_⟩, rfl, rfl⟩
  -- the content of the first header object
  show assign ((sessionFiles ms).files.map toSFile) [(sessionCompress cfg ms).2.length] ((sessionCompress cfg ms).2.map (·.1))
    (expectedSubCrcs (sessionComps cfg ms us).ss) = _
  have hfiles : (sessionFiles ms).files.map toSFile = ms.map memberFile := by
    simp [sessionFiles, toSFile, memberFile, Function.comp_def]
  have hcrcs : expectedSubCrcs (sessionComps cfg ms us).ss = (dataMembers ms).map (fun m => some (crc32 m.blocks.flatten)) := by
    simp only [expectedSubCrcs, sessionComps, f1, List.map_map]
    rw [List.zip_map', List.map_map]
    simp [Function.comp_def]
  have hsz : (sessionCompress cfg ms).2.map (·.1) = (dataMembers ms).map (fun m => m.blocks.flatten.length) := by
    rw [f1]; simp [Function.comp_def]
  rw [hfiles, hcrcs, hsz, f1, List.length_map, sessionMembers_zero]
  exact spec_assign_session ms

/-- an append session takes a good state to a good state that holds the old members, unchanged
    and in order, followed by the new ones in one more folder -/
theorem good_of_append {σ} (s : ArchState) (good : s.Good) (cfg : WConfig σ) (ms : List WMember) (us : List Nat) (img' : Bytes)
    (hms : ms ≠ []) (wfc : WFConfig cfg) (wfm : WFMembers ms) (rs : ReadableSession cfg ms)
    (hU : unpacksizesOf cfg.methodsMap ((sessionCompress cfg ms).1.chain.map (·.fed)) = some us)
    (husb : ∀ v ∈ us, v < 2 ^ 64)
    (hab : (s.area ++ (sessionCompress cfg ms).1.out).length < 2 ^ 64)
    (hnf : s.c.fs.length + 1 < 2 ^ 64)
    (hfiles : ReadableFiles (appendComps s.c cfg ms us).fi)
    (hns : ∀ m ∈ ms, ∀ ch ∈ m.name, ch ≠ 0x5C)
    (hhl : ∀ hdr, writeHeaderRaw true (appendComps s.c cfg ms us).header
      (32 + (s.area ++ (sessionCompress cfg ms).1.out).length) = some hdr → hdr.length < 2 ^ 64)
    (h : appendArchive s.image cfg ms = some img') :
    ∃ s' : ArchState, s'.image = img' ∧ s'.Good ∧ s'.M = s.M ++ sessionMembers s.c.fs.length ms ∧
      s'.c.fs.length = s.c.fs.length + 1 := by
  obtain ⟨hdr', junk', hw', himg⟩ := good.inv.append_image s.hdr s.junk good.hw good.hh cfg ms us hms hU img' h
  have inv' := good.inv.append cfg ms us wfc wfm rs hU husb hab hnf hfiles hns
  have hc := good.inv.content_append cfg ms us wfc s.M good.content
  exact ⟨{ c := appendComps s.c cfg ms us, area := s.area ++ (sessionCompress cfg ms).1.out, hdr := hdr', junk := junk',
           M := s.M ++ sessionMembers s.c.fs.length ms },
    himg.symm, ⟨inv', hw', hhl hdr' hw', hc⟩, rfl, by simp [appendComps]⟩

/-- what every reader finds in a good state's file -/
theorem ArchState.Good.reads {s : ArchState} (good : s.Good) :
    readArchiveTail s.image = .ok { top := .raw s.c.expected, dataArea := s.area } ∧
    tilesExactly (expectedStreams s.c.p s.c.fs s.c.ss s.c.sizes) s.area = true ∧
    members s.c.expected = .ok s.M ∧
    readNextHeader s.hdr = .ok (.raw s.c.readBack.header) := by
  obtain ⟨h1, h2, h3, h4⟩ := good.inv.reads s.hdr s.junk good.hw good.hh
  exact ⟨h1, h2, by rw [h3, good.content], h4⟩


/-- the explicit states of a history -/
def createState {σ} (cfg : WConfig σ) (ms : List WMember) (us : List Nat) (hdr : Bytes) : ArchState :=
  { c := sessionComps cfg ms us, area := (sessionCompress cfg ms).1.out, hdr := hdr, junk := [], M := sessionMembers 0 ms }

def appendState {σ} (s : ArchState) (cfg : WConfig σ) (ms : List WMember) (us : List Nat) (hdr' junk' : Bytes) : ArchState :=
  { c := appendComps s.c cfg ms us, area := s.area ++ (sessionCompress cfg ms).1.out, hdr := hdr', junk := junk',
    M := s.M ++ sessionMembers s.c.fs.length ms }

theorem sessionComps_content {σ} (cfg : WConfig σ) (ms : List WMember) (us : List Nat) (wfc : WFConfig cfg) :
    (sessionComps cfg ms us).content = .ok (sessionMembers 0 ms) := by
  obtain ⟨f1, _, _, _, _⟩ := sessionCompress_facts cfg wfc ms
  show assign ((sessionFiles ms).files.map toSFile) [(sessionCompress cfg ms).2.length] ((sessionCompress cfg ms).2.map (·.1))
    (expectedSubCrcs (sessionComps cfg ms us).ss) = _
  have hfiles : (sessionFiles ms).files.map toSFile = ms.map memberFile := by
    simp [sessionFiles, toSFile, memberFile, Function.comp_def]
  have hcrcs : expectedSubCrcs (sessionComps cfg ms us).ss = (dataMembers ms).map (fun m => some (crc32 m.blocks.flatten)) := by
    simp only [expectedSubCrcs, sessionComps, f1, List.map_map]
    rw [List.zip_map', List.map_map]
    simp [Function.comp_def]
  have hsz : (sessionCompress cfg ms).2.map (·.1) = (dataMembers ms).map (fun m => m.blocks.flatten.length) := by
    rw [f1]; simp [Function.comp_def]
  rw [hfiles, hcrcs, hsz, f1, List.length_map, sessionMembers_zero]
  exact spec_assign_session ms

theorem createState_good {σ} (cfg : WConfig σ) (ms : List WMember) (us : List Nat) (hdr : Bytes)
    (wfc : WFConfig cfg) (wfm : WFMembers ms) (rs : ReadableSession cfg ms)
    (hU : unpacksizesOf cfg.methodsMap ((sessionCompress cfg ms).1.chain.map (·.fed)) = some us)
    (husb : ∀ v ∈ us, v < 2 ^ 64) (hout : (sessionCompress cfg ms).1.out.length < 2 ^ 64)
    (hns : ∀ m ∈ ms, ∀ ch ∈ m.name, ch ≠ 0x5C)
    (hw : writeHeaderRaw true (sessionComps cfg ms us).header (32 + (sessionCompress cfg ms).1.out.length) = some hdr)
    (hh : hdr.length < 2 ^ 64) :
    (createState cfg ms us hdr).Good ∧ sessionArchive cfg ms = some (createState cfg ms us hdr).image := by
  have inv := Inv.base cfg ms us wfc wfm rs hU husb hout hns
  obtain ⟨f1, _, _, _, _⟩ := sessionCompress_facts cfg wfc ms
  refine ⟨⟨inv, hw, hh, ?_⟩, ?_⟩
  · show assign ((sessionFiles ms).files.map toSFile) [(sessionCompress cfg ms).2.length] ((sessionCompress cfg ms).2.map (·.1))
      (expectedSubCrcs (sessionComps cfg ms us).ss) = _
    have hfiles : (sessionFiles ms).files.map toSFile = ms.map memberFile := by
      simp [sessionFiles, toSFile, memberFile, Function.comp_def]
    have hcrcs : expectedSubCrcs (sessionComps cfg ms us).ss = (dataMembers ms).map (fun m => some (crc32 m.blocks.flatten)) := by
      simp only [expectedSubCrcs, sessionComps, f1, List.map_map]
      rw [List.zip_map', List.map_map]
      simp [Function.comp_def]
    have hsz : (sessionCompress cfg ms).2.map (·.1) = (dataMembers ms).map (fun m => m.blocks.flatten.length) := by
      rw [f1]; simp [Function.comp_def]
    rw [hfiles, hcrcs, hsz, f1, List.length_map]
    show _ = Except.ok (sessionMembers 0 ms)
    rw [sessionMembers_zero]
    exact spec_assign_session ms
  · unfold sessionArchive
    rw [sessionHeader_eq cfg ms us hU]
    simp only [bind, Option.bind, hw, pure]
    simp [createState, ArchState.image, imageOf]

theorem appendState_good {σ} (s : ArchState) (good : s.Good) (cfg : WConfig σ) (ms : List WMember) (us : List Nat)
    (hdr' junk' : Bytes) (wfc : WFConfig cfg) (wfm : WFMembers ms) (rs : ReadableSession cfg ms)
    (hU : unpacksizesOf cfg.methodsMap ((sessionCompress cfg ms).1.chain.map (·.fed)) = some us)
    (husb : ∀ v ∈ us, v < 2 ^ 64)
    (hab : (s.area ++ (sessionCompress cfg ms).1.out).length < 2 ^ 64)
    (hnf : s.c.fs.length + 1 < 2 ^ 64)
    (hfiles : ReadableFiles (appendComps s.c cfg ms us).fi)
    (hns : ∀ m ∈ ms, ∀ ch ∈ m.name, ch ≠ 0x5C)
    (hw : writeHeaderRaw true (appendComps s.c cfg ms us).header (32 + (s.area ++ (sessionCompress cfg ms).1.out).length) = some hdr')
    (hh : hdr'.length < 2 ^ 64) :
    (appendState s cfg ms us hdr' junk').Good :=
  ⟨good.inv.append cfg ms us wfc wfm rs hU husb hab hnf hfiles hns, hw, hh, good.inv.content_append cfg ms us wfc s.M good.content⟩

end SevenZ
