/-
py7zr's own reader (`Impl.readFilesInfo`, `Impl.readStreams`, `Impl.readNextHeader`) on the
header py7zr's writer emits: the FilesInfo property loop step by step, and the composition.
-/
import SevenZ.Lemmas.ImplStreams
namespace SevenZ
open Impl

/-- "for every sufficiently large fuel" -/
def IReadsTo (m n : Nat) (st : FilesInfo) (ne : Nat) (bytes : Bytes) (res : Except Err (FilesInfo × Bytes)) : Prop :=
  ∀ fuel, m ≤ fuel → readFileProps fuel n st ne bytes = res

theorem IReadsTo.end_ (n : Nat) (st : FilesInfo) (ne : Nat) (rest : Bytes) :
    IReadsTo 1 n st ne (0 :: rest) (.ok (st, rest)) := by
  intro fuel hf
  cases fuel with
  | zero => omega
  | succ f =>
    rw [readFileProps, P.bind_ok (read1_cons _ _)]
    simp

theorem IReadsTo.step {m n : Nat} {st st' : FilesInfo} {ne ne' : Nat} {block rest : Bytes}
    {res : Except Err (FilesInfo × Bytes)}
    (hstep : ∀ fuel, readFileProps (fuel + 1) n st ne (block ++ rest) = readFileProps fuel n st' ne' rest)
    (h : IReadsTo m n st' ne' rest res) : IReadsTo (m + 1) n st ne (block ++ rest) res := by
  intro fuel hf
  cases fuel with
  | zero => omega
  | succ f => rw [hstep f]; exact h f (by omega)

theorem IReadsTo.mono {m m' n : Nat} {st : FilesInfo} {ne : Nat} {bytes : Bytes}
    {res : Except Err (FilesInfo × Bytes)} (h : IReadsTo m n st ne bytes res) (hm : m ≤ m') :
    IReadsTo m' n st ne bytes res :=
  fun fuel hf => h fuel (by omega)

/-- EmptyStream property as written -/
theorem impl_emptystream_step (fuel n ne : Nat) (st : FilesInfo) (es : List Bool) (hlen : es.length = n)
    (hn : n < 2 ^ 32) (rest : Bytes) :
    readFileProps (fuel + 1) n st ne ([0x0E] ++ writeNumber (bitsToBytes n) ++ writeBools es false ++ rest) =
      readFileProps fuel n { st with files := (st.files.zip es).map (fun (f, e) => { f with emptystream := e }) }
        (ne + (es.filter id).length) rest := by
  have hsz63 : bitsToBytes n < 2 ^ 63 := by
    have : (2:Nat) ^ 32 < 2 ^ 63 := by decide
    simp [bitsToBytes]; omega
  have hsz : bitsToBytes n < 2 ^ 64 := by
    have : (2:Nat) ^ 63 < 2 ^ 64 := by decide
    omega
  simp only [List.append_assoc, List.cons_append, List.nil_append]
  rw [readFileProps, P.bind_ok (read1_cons _ _)]
  simp only [show (some 0x0E : Option Nat) ≠ some 0 by decide, if_false]
  rw [P.bind_ok (pNumber_write _ hsz _)]
  rw [if_neg (show ¬ bitsToBytes n ≥ 2 ^ 63 by omega)]
  simp only [show (some 0x0E : Option Nat) ≠ some 0x19 by decide, if_false]
  have hlen2 : (writeBools es false).length = bitsToBytes n := by rw [writeBools_length, hlen]
  rw [← hlen2, P.bind_ok (readBytes_append _ rest)]
  have hinner : pBools n false (writeBools es false) = .ok (es, []) := by
    have := pBools_write es false []
    rw [hlen] at this
    simpa using this
  rw [P.bind_ok (a := es) (s' := rest)]
  unfold onBuffer
  rw [hinner]

/-- kDummy padding as written -/
theorem impl_dummy_step (fuel n ne : Nat) (st : FilesInfo) (k : Nat) (hk : k < 0x80) (rest : Bytes) :
    readFileProps (fuel + 1) n st ne ([0x19, k] ++ List.replicate k 0 ++ rest) = readFileProps fuel n st ne rest := by
  simp only [List.append_assoc, List.cons_append, List.nil_append]
  rw [readFileProps, P.bind_ok (read1_cons _ _)]
  simp only [show (some 0x19 : Option Nat) ≠ some 0 by decide, if_false]
  have hw : writeNumber k = [k] := by simp [writeNumber, hk]
  have hnum : pNumber (k :: (List.replicate k 0 ++ rest)) = .ok (k, List.replicate k 0 ++ rest) := by
    have := pNumber_write k (by omega) (List.replicate k 0 ++ rest)
    rwa [hw] at this
  rw [P.bind_ok hnum]
  have h63 : ¬ k ≥ 2 ^ 63 := by
    have : (0x80 : Nat) < 2 ^ 63 := by decide
    omega
  simp only [h63, if_false, if_true]
  have htake : readBytes k (List.replicate k 0 ++ rest) = .ok (List.replicate k 0, rest) := by
    have := readBytes_append (List.replicate k 0) rest
    simpa using this
  rw [P.bind_ok htake]

/-- the names as written, read back one by one (with the reader's backslash rewrite) -/
theorem setNames_written : ∀ (files : List FileEntry) (names : List (List Nat)), names.length = files.length →
    (∀ nm ∈ names, ∀ c ∈ nm, IsScalar c) → (∀ nm ∈ names, (nm.flatMap unitsOf).length < maxLength) → ∀ tail,
    setNames files (names.flatMap writeUtf16 ++ tail) =
      .ok ((files.zip names).map (fun (f, nm) => { f with filename := some (fixSlash nm) }), tail) := by
  intro files
  induction files with
  | nil => intro names hl _ _ tail; cases names <;> simp_all [setNames]
  | cons f fs ih =>
    intro names hl hs hm tail
    cases names with
    | nil => simp at hl
    | cons nm nms =>
      simp only [setNames, List.flatMap_cons, List.append_assoc, List.zip_cons_cons, List.map_cons]
      have h1 : pUtf16Name (writeUtf16 nm ++ (nms.flatMap writeUtf16 ++ tail)) = .ok (fixSlash nm, nms.flatMap writeUtf16 ++ tail) := by
        simp [pUtf16Name, utf16_roundtrip nm (hs nm (by simp)) (hm nm (by simp)) _]
      rw [P.bind_ok h1]
      rw [P.bind_ok (ih nms (by simpa using hl) (fun x hx => hs x (by simp [hx])) (fun x hx => hm x (by simp [hx])) tail)]
      rfl

theorem names_bytes_length' (names : List (List Nat)) :
    (names.flatMap writeUtf16).length = (names.map (fun n => 2 * (n.flatMap unitsOf).length + 2)).sum := by
  induction names with
  | nil => rfl
  | cons nm rest ih =>
    simp only [List.flatMap_cons, List.length_append, List.map_cons, List.sum_cons, ih]
    simp [writeUtf16, unitsToBytes_length]

theorem impl_names_step (fuel n ne : Nat) (st : FilesInfo) (entries : List FileEntry)
    (names : List (List Nat)) (hnames : entries.filterMap (·.filename) = names) (hne : names ≠ [])
    (hlen : names.length = st.files.length) (hs : ∀ nm ∈ names, ∀ c ∈ nm, IsScalar c)
    (hm : ∀ nm ∈ names, (nm.flatMap unitsOf).length < maxLength)
    (hsize : (names.map (fun n => 2 * (n.flatMap unitsOf).length + 2)).sum + 1 < 2 ^ 63) (rest : Bytes) :
    readFileProps (fuel + 1) n st ne (namesBlock entries ++ rest) =
      readFileProps fuel n { st with files := (st.files.zip names).map (fun (f, nm) => { f with filename := some (fixSlash nm) }) } ne rest := by
  unfold namesBlock
  simp only [hnames]
  have hemp : names.isEmpty = false := by cases names <;> simp_all
  simp only [hemp, Bool.false_eq_true, if_false, List.append_assoc, List.cons_append, List.nil_append]
  generalize hsz : (names.map (fun n => 2 * (n.flatMap unitsOf).length + 2)).sum = size at hsize
  have h64 : size + 1 < 2 ^ 64 := by
    have : (2:Nat) ^ 63 < 2 ^ 64 := by decide
    omega
  rw [readFileProps, P.bind_ok (read1_cons _ _)]
  simp only [show (some 0x11 : Option Nat) ≠ some 0 by decide, if_false]
  rw [P.bind_ok (pNumber_write (size + 1) h64 _)]
  rw [if_neg (show ¬ size + 1 ≥ 2 ^ 63 by omega)]
  simp only [show (some 0x11 : Option Nat) ≠ some 0x19 by decide, if_false]
  have hblen : (0 :: names.flatMap writeUtf16).length = size + 1 := by
    rw [List.length_cons, names_bytes_length', hsz]
  have hb : (0 :: (names.flatMap writeUtf16 ++ rest)) = (0 :: names.flatMap writeUtf16) ++ rest := by simp
  rw [hb, ← hblen, P.bind_ok (readBytes_append _ rest)]
  have hinner : (do
        let ext ← read1
        if ext = some 0 then setNames st.files else fail Err.unsupported : P (List FileEntry))
      (0 :: names.flatMap writeUtf16) =
      .ok ((st.files.zip names).map (fun (f, nm) => { f with filename := some (fixSlash nm) }), []) := by
    rw [P.bind_ok (read1_cons _ _)]
    simp only [if_true]
    have := setNames_written st.files names hlen hs hm []
    simpa using this
  rw [P.bind_ok (a := (st.files.zip names).map (fun (f, nm) => { f with filename := some (fixSlash nm) })) (s' := rest)]
  unfold onBuffer
  rw [hinner]


/-! ### the whole FilesInfo section -/

/-- what `FilesInfo._read` reconstructs of one member record -/
def readBackFile (e : FileEntry) : FileEntry :=
  { emptystream := e.emptystream, filename := some (fixSlash (nameOf e)), mtime := normSlot e.mtime,
    attributes := normSlot e.attributes }

theorem zip_map_map {α β γ δ : Type} (l : List α) (g : α → β) (h : α → γ) (F : β × γ → δ) :
    ((l.map g).zip (l.map h)).map F = l.map (fun e => F (g e, h e)) := by
  induction l with
  | nil => rfl
  | cons a l ih => simp only [List.map_cons, List.zip_cons_cons, ih]

/-- hypotheses of the reader-side theorem beyond `WFFiles`: py7zr's reader gives up on names
    longer than 65536 code units, and sizes must stay below the signed 64-bit range it seeks with -/
structure ReadableFiles (fi : FilesInfo) : Prop where
  wf : WFFiles fi
  nameLen : ∀ e ∈ fi.files, ((nameOf e).flatMap unitsOf).length < maxLength
  namesSize63 : ((fi.files.map nameOf).map (fun n => 2 * (n.flatMap unitsOf).length + 2)).sum + 1 < 2 ^ 63

/-- the part of the section after the EmptyStream property -/
theorem impl_files_tail (files : List FileEntry) (pos : Nat) (rest : Bytes) (ne : Nat) (g : FileEntry → FileEntry)
    (ef : List Bool) (rf : ReadableFiles { files := files, emptyfiles := ef }) :
    IReadsTo 5 files.length { files := files.map g, emptyfiles := [] } ne
      (padBlock pos ++ (namesBlock files ++ (timesBlock true 0x14 (files.map (·.mtime)) ++ (attrsBlock true (files.map (·.attributes)) ++ 0 :: rest))))
      (.ok ({ files := files.map (fun e => { g e with filename := (if files = [] then (g e).filename else some (fixSlash (nameOf e))), mtime := normSlot e.mtime, attributes := normSlot e.attributes }), emptyfiles := [] }, rest)) := by
  obtain ⟨⟨hnm, hsc, hn, hmt, hat, hsize, _⟩, hml, hs63⟩ := rf
  simp only at hnm hsc hn hmt hat hsize hml hs63
  have hmts : ∀ s ∈ files.map (·.mtime), ∀ t, s = .val t → t < 256 ^ 8 := by
    intro s hs t ht
    simp only [List.mem_map] at hs
    obtain ⟨e, he, rfl⟩ := hs
    exact hmt e he t ht
  have hats : ∀ s ∈ files.map (·.attributes), ∀ t, s = .val t → t < 256 ^ 4 := by
    intro s hs t ht
    simp only [List.mem_map] at hs
    obtain ⟨e, he, rfl⟩ := hs
    exact hat e he t ht
  -- times, attributes, END for any per-member state
  have htimes : ∀ (g2 : FileEntry → FileEntry),
      IReadsTo 3 files.length { files := files.map g2, emptyfiles := [] } ne
        (timesBlock true 0x14 (files.map (·.mtime)) ++ (attrsBlock true (files.map (·.attributes)) ++ 0 :: rest))
        (.ok ({ files := files.map (fun e => { g2 e with mtime := normSlot e.mtime, attributes := normSlot e.attributes }), emptyfiles := [] }, rest)) := by
    intro g2
    refine IReadsTo.step (st' := { files := files.map (fun e => { g2 e with mtime := normSlot e.mtime }), emptyfiles := [] }) (ne' := ne) ?_ ?_
    · intro fuel
      have := times_step fuel files.length ne { files := files.map g2, emptyfiles := [] } (files.map (·.mtime)) (by simp) (by simpa using hn) hmts
        (attrsBlock true (files.map (·.attributes)) ++ 0 :: rest)
      rw [this]
      congr 2
      simp only [zip_map_map]
      apply List.map_congr_left
      intro e _
      cases g2 e; rfl
    · refine IReadsTo.step (st' := { files := files.map (fun e => { g2 e with mtime := normSlot e.mtime, attributes := normSlot e.attributes }), emptyfiles := [] }) (ne' := ne) ?_ ?_
      · intro fuel
        have := attrs_step fuel files.length ne { files := files.map (fun e => { g2 e with mtime := normSlot e.mtime }), emptyfiles := [] }
          (files.map (·.attributes)) (by simp) (by simp) (by simpa using hn) hats (0 :: rest)
        rw [this]
        congr 2
        simp only [zip_map_map]
      · exact IReadsTo.end_ _ _ _ _
  -- names
  have hafter : IReadsTo 4 files.length { files := files.map g, emptyfiles := [] } ne
      (namesBlock files ++ (timesBlock true 0x14 (files.map (·.mtime)) ++ (attrsBlock true (files.map (·.attributes)) ++ 0 :: rest)))
      (.ok ({ files := files.map (fun e => { g e with filename := (if files = [] then (g e).filename else some (fixSlash (nameOf e))), mtime := normSlot e.mtime, attributes := normSlot e.attributes }), emptyfiles := [] }, rest)) := by
    by_cases hemp : files = []
    · subst hemp
      have := htimes g
      simp only [namesBlock, List.filterMap_nil, List.isEmpty_nil, if_true, List.nil_append, List.map_nil] at this ⊢
      exact this.mono (by omega)
    · have hne : files.map nameOf ≠ [] := by simpa using hemp
      refine IReadsTo.step (st' := { files := files.map (fun e => { g e with filename := some (fixSlash (nameOf e)) }), emptyfiles := [] }) (ne' := ne) ?_ ?_
      · intro fuel
        have := impl_names_step fuel files.length ne { files := files.map g, emptyfiles := [] } files (files.map nameOf)
          (filterMap_names files hnm) hne (by simp)
          (by
            intro nm hnm' c hc
            simp only [List.mem_map] at hnm'
            obtain ⟨e, he, rfl⟩ := hnm'
            exact hsc e he c hc)
          (by
            intro nm hnm'
            simp only [List.mem_map] at hnm'
            obtain ⟨e, he, rfl⟩ := hnm'
            exact hml e he) hs63 (timesBlock true 0x14 (files.map (·.mtime)) ++ (attrsBlock true (files.map (·.attributes)) ++ 0 :: rest))
        rw [this]
        congr 2
        simp only [zip_map_map]
      · have := htimes (fun e => { g e with filename := some (fixSlash (nameOf e)) })
        simp only [hemp, if_false]
        exact this
  rcases padBlock_shape pos with hp | ⟨k, hk, hp⟩
  · rw [hp, List.nil_append]
    exact hafter.mono (by omega)
  · rw [hp]
    exact IReadsTo.step (fun fuel => impl_dummy_step fuel files.length ne _ k hk _) hafter


theorem readFilesInfo_of_reads (n total : Nat) (hn64 : n < 2 ^ 64) (htot : n ≤ total * 8) (B : Bytes)
    (res : Except Err (FilesInfo × Bytes)) (h5 : 5 ≤ B.length)
    (hall : IReadsTo 6 n { files := List.replicate n {}, emptyfiles := [] } 0 B res) :
    readFilesInfo total (writeNumber n ++ B) = res := by
  unfold readFilesInfo
  rw [P.bind_ok (pNumber_write _ hn64 _)]
  have hb : ¬ n > total * 8 := by omega
  simp only [hb, if_false]
  rw [P.bind_ok (a := B) (s' := B) rfl]
  exact hall (B.length + 1) (by omega)

theorem writeFilesInfo_length_ge (fi : FilesInfo) (pos : Nat) (h : ∀ e ∈ fi.files, e.filename.isSome = true) :
    2 * fi.files.length ≤ (writeFilesInfo true fi pos).length := by
  have h1 := namesBlock_length_ge fi.files h
  have h2 := timesBlock_length_ge 0x14 (fi.files.map (·.mtime))
  unfold writeFilesInfo
  simp only [List.length_append]
  omega

/-- py7zr's reader on the FilesInfo section py7zr writes: every member comes back with its
    empty-stream flag, its name (backslashes rewritten), its time and attribute word, undefined
    entries undefined -/
theorem impl_reads_filesinfo (fi : FilesInfo) (pos total : Nat) (rest : Bytes) (rf : ReadableFiles fi)
    (htot : fi.files.length ≤ total * 8) :
    readFilesInfo total ((writeFilesInfo true fi pos).drop 1 ++ rest) =
      .ok ({ files := fi.files.map readBackFile, emptyfiles := [] }, rest) := by
  have wf := rf.wf
  have hn := wf.count
  have hn64 : fi.files.length < 2 ^ 64 := by
    have : (2:Nat) ^ 32 < 2 ^ 64 := by decide
    omega
  have hrep : ∀ n, List.replicate n ({} : FileEntry) = (List.replicate n ()).map (fun _ => {}) := by
    intro n; simp
  have hresult : ∀ (g : FileEntry → FileEntry), (∀ e ∈ fi.files, g e = { emptystream := e.emptystream }) →
      fi.files.map (fun e => { g e with filename := (if fi.files = [] then (g e).filename else some (fixSlash (nameOf e))), mtime := normSlot e.mtime, attributes := normSlot e.attributes }) =
        fi.files.map readBackFile := by
    intro g hg
    apply List.map_congr_left
    intro e he
    have hne : fi.files ≠ [] := by intro h0; rw [h0] at he; simp at he
    simp only [hne, if_false, hg e he, readBackFile]
  have h1 := namesBlock_length_ge fi.files wf.named
  have h2 := timesBlock_length_ge 0x14 (fi.files.map (·.mtime))
  have h3 := attrsBlock_length_ge (fi.files.map (·.attributes))
  have rf' : ReadableFiles { files := fi.files, emptyfiles := fi.emptyfiles } := rf
  unfold writeFilesInfo
  by_cases hes : (fi.files.map (·.emptystream)).any id = true
  · simp only [hes, if_true, List.append_assoc, List.cons_append, List.nil_append, List.drop_succ_cons, List.drop_zero]
    have htail := impl_files_tail fi.files
      (pos + (5 :: (writeNumber fi.files.length ++ 14 :: (writeNumber (bitsToBytes fi.files.length) ++ writeBools (fi.files.map (·.emptystream)) false))).length)
      rest (0 + ((fi.files.map (·.emptystream)).filter id).length) (fun e => { emptystream := e.emptystream }) fi.emptyfiles rf'
    refine readFilesInfo_of_reads _ total hn64 htot _ _ ?_ ?_
    · simp only [List.length_append, List.length_cons]; omega
    · rw [← hresult (fun e => { emptystream := e.emptystream }) (fun _ _ => rfl)]
      have hs := fun fuel => impl_emptystream_step fuel fi.files.length 0 { files := List.replicate fi.files.length {}, emptyfiles := [] }
        (fi.files.map (·.emptystream)) (by simp) hn
      have hfiles : ((List.replicate fi.files.length ({} : FileEntry)).zip (fi.files.map (·.emptystream))).map (fun (f, e) => { f with emptystream := e }) =
          fi.files.map (fun e => ({ emptystream := e.emptystream } : FileEntry)) := by
        have : List.replicate fi.files.length ({} : FileEntry) = fi.files.map (fun _ => {}) := by rw [List.map_const']
        rw [this, zip_map_map]
      have := IReadsTo.step (block := [0x0E] ++ writeNumber (bitsToBytes fi.files.length) ++ writeBools (fi.files.map (·.emptystream)) false)
        (fun fuel => hs fuel _) (by rw [hfiles]; exact htail)
      simpa [List.append_assoc] using this
  · have hes' : (fi.files.map (·.emptystream)).any id = false := by simpa using hes
    have hef' := wf.emptyFiles hes'
    simp only [hes', hef', Bool.false_eq_true, if_false, List.append_nil, List.nil_append, List.append_assoc, List.cons_append,
      List.drop_succ_cons, List.drop_zero]
    have hallfalse : ∀ e ∈ fi.files, e.emptystream = false := by
      intro e he
      have := List.any_eq_false.1 hes' (e.emptystream) (List.mem_map_of_mem he)
      simpa using this
    have htail := impl_files_tail fi.files (pos + (5 :: writeNumber fi.files.length).length) rest 0 (fun _ => {}) fi.emptyfiles rf'
    refine readFilesInfo_of_reads _ total hn64 htot _ _ ?_ ?_
    · simp only [List.length_append, List.length_cons]; omega
    · rw [← hresult (fun _ => {}) (fun e he => by simp [hallfalse e he])]
      have : List.replicate fi.files.length ({} : FileEntry) = fi.files.map (fun _ => {}) := by rw [List.map_const']
      rw [this]
      exact htail.mono (by omega)

end SevenZ
