/-
Accounting theorems for the compressor model: whatever the codec stages do and however the
source is cut into blocks, the counters py7zr stores in the header describe the bytes.
-/
import SevenZ.Model.Compressor
import SevenZ.Lemmas.Crc32
namespace SevenZ
open Impl

theorem crc32Update_append' (value : Nat) (a b : Bytes) :
    crc32Update (crc32Update value a) b = crc32Update value (a ++ b) := by
  unfold crc32Update crcFeed
  rw [bitsOf_append, List.foldl_append]
  congr 2
  rw [BitVec.ofNat_toNat, BitVec.setWidth_eq, BitVec.xor_assoc]
  simp

theorem crc32Update_lt (value : Nat) (a : Bytes) : crc32Update value a < 2 ^ 32 := by
  unfold crc32Update
  exact BitVec.isLt _

theorem crc32Update_nil (value : Nat) (h : value < 2 ^ 32) : crc32Update value [] = value := by
  unfold crc32Update crcFeed bitsOf
  simp only [List.foldl_nil]
  rw [BitVec.xor_assoc]
  simp [Nat.mod_eq_of_lt h]

/-- `_unpacksizes[0]` -/
def headFed {σ} : List (StageSt σ) → Nat
  | [] => 0
  | c :: _ => c.fed

theorem feedChain_length {σ} : ∀ (ch : List (StageSt σ)) (d : Bytes), (feedChain ch d).1.length = ch.length := by
  intro ch
  induction ch with
  | nil => intro d; rfl
  | cons c cs ih => intro d; simp [feedChain, ih]

theorem flushChain_length {σ} : ∀ (ch : List (StageSt σ)) (d : Option Bytes), (flushChain ch d).1.length = ch.length := by
  intro ch
  induction ch with
  | nil => intro d; rfl
  | cons c cs ih =>
    intro d
    unfold flushChain
    split <;> simp [ih]

theorem feedChain_headFed {σ} (ch : List (StageSt σ)) (d : Bytes) (h : ch ≠ []) :
    headFed (feedChain ch d).1 = headFed ch + d.length := by
  cases ch with
  | nil => exact absurd rfl h
  | cons c cs => simp [feedChain, headFed]

/-- flushing never feeds the first stage: its counter is the caller's input alone -/
theorem flushChain_none_headFed {σ} (ch : List (StageSt σ)) :
    headFed (flushChain ch none).1 = headFed ch := by
  cases ch with
  | nil => rfl
  | cons c cs => simp [flushChain, headFed]

/-- `c'` is `c` after having written `w` -/
def Wrote {σ} (c c' : Cmp σ) (w : Bytes) : Prop :=
  c'.out = c.out ++ w ∧ c'.packsize = c.packsize + w.length ∧ c'.digest = crc32Update c.digest w

theorem Wrote.refl {σ} (c : Cmp σ) (h : c.digest < 2 ^ 32) : Wrote c c [] := by
  refine ⟨by simp, by simp, ?_⟩
  rw [crc32Update_nil _ h]

theorem Wrote.trans {σ} {a b c : Cmp σ} {w1 w2 : Bytes} (h1 : Wrote a b w1) (h2 : Wrote b c w2) : Wrote a c (w1 ++ w2) := by
  obtain ⟨o1, p1, d1⟩ := h1
  obtain ⟨o2, p2, d2⟩ := h2
  refine ⟨by rw [o2, o1, List.append_assoc], by rw [p2, p1, List.length_append]; omega, ?_⟩
  rw [d2, d1, crc32Update_append']

theorem compressBlock_wrote {σ} (c : Cmp σ) (d : Bytes) : Wrote c (compressBlock c d) (feedChain c.chain d).2 :=
  ⟨rfl, rfl, rfl⟩

theorem Wrote.digest_lt {σ} {a b : Cmp σ} {w : Bytes} (h : Wrote a b w) : b.digest < 2 ^ 32 := by
  rw [h.2.2]; exact crc32Update_lt _ _

/-- the fold inside `compressMember`, from an arbitrary accumulator -/
theorem compressMember_fold {σ} : ∀ (blocks : List Bytes) (acc : MemberResult σ), acc.cmp.digest < 2 ^ 32 → acc.crc < 2 ^ 32 →
    let r := blocks.foldl (fun acc data =>
      let c' := compressBlock acc.cmp data
      ({ cmp := c', insize := acc.insize + data.length, foutsize := acc.foutsize + (c'.packsize - acc.cmp.packsize),
         crc := crc32Update acc.crc data } : MemberResult σ)) acc
    r.insize = acc.insize + blocks.flatten.length ∧
    r.crc = crc32Update acc.crc blocks.flatten ∧
    r.cmp.chain.length = acc.cmp.chain.length ∧
    (acc.cmp.chain ≠ [] → headFed r.cmp.chain = headFed acc.cmp.chain + blocks.flatten.length) ∧
    (∃ w, Wrote acc.cmp r.cmp w ∧ r.foutsize = acc.foutsize + w.length) := by
  intro blocks
  induction blocks with
  | nil =>
    intro acc hd hc
    simp only [List.foldl_nil, List.flatten_nil, List.length_nil, Nat.add_zero, true_and]
    exact ⟨(crc32Update_nil _ hc).symm, fun _ => trivial, [], Wrote.refl _ hd, by simp⟩
  | cons b bs ih =>
    intro acc hd hc
    simp only [List.foldl_cons, List.flatten_cons, List.length_append]
    have hw := compressBlock_wrote acc.cmp b
    have := ih { cmp := compressBlock acc.cmp b, insize := acc.insize + b.length,
                 foutsize := acc.foutsize + ((compressBlock acc.cmp b).packsize - acc.cmp.packsize),
                 crc := crc32Update acc.crc b } hw.digest_lt (crc32Update_lt _ _)
    obtain ⟨h1, h2, h3, h4, w, h5, h6⟩ := this
    dsimp only at h1 h2 h3 h4 h5 h6
    refine ⟨by rw [h1]; omega, by rw [h2, crc32Update_append'], ?_, ?_, ?_⟩
    · rw [h3]; simp [compressBlock, feedChain_length]
    · intro hne
      have hne' : (compressBlock acc.cmp b).chain ≠ [] := by
        intro h0
        have : (compressBlock acc.cmp b).chain.length = acc.cmp.chain.length := by simp [compressBlock, feedChain_length]
        rw [h0] at this
        exact hne (List.eq_nil_of_length_eq_zero this.symm)
      rw [h4 hne']
      simp only [compressBlock]
      rw [feedChain_headFed _ _ hne]; omega
    · refine ⟨(feedChain acc.cmp.chain b).2 ++ w, hw.trans h5, ?_⟩
      rw [h6, hw.2.1, List.length_append]; omega


/-- `compress(fd, fp)` for one member, for ANY chain of codec stages and ANY cutting of the
    source into blocks: the returned size and CRC are those of the member's bytes, the first
    stage's counter grows by exactly that size, and `packsize`/`digest` follow what was written -/
theorem compressMember_spec {σ} (c : Cmp σ) (blocks : List Bytes) (hd : c.digest < 2 ^ 32) :
    (compressMember c blocks).insize = blocks.flatten.length ∧
    (compressMember c blocks).crc = crc32 blocks.flatten ∧
    (compressMember c blocks).cmp.chain.length = c.chain.length ∧
    (c.chain ≠ [] → headFed (compressMember c blocks).cmp.chain = headFed c.chain + blocks.flatten.length) ∧
    (∃ w, Wrote c (compressMember c blocks).cmp w ∧ (compressMember c blocks).foutsize = w.length) := by
  have := compressMember_fold blocks { cmp := c, insize := 0, foutsize := 0, crc := 0 } hd (by show (0:Nat) < 2 ^ 32; decide)
  obtain ⟨h1, h2, h3, h4, w, h5, h6⟩ := this
  dsimp only at h1 h2 h3 h4 h5 h6
  refine ⟨by simpa [compressMember] using h1, by simpa [compressMember, crc32] using h2, h3, h4, w, h5, ?_⟩
  simpa [compressMember] using h6

theorem flushCmp_spec {σ} (c : Cmp σ) (hd : c.digest < 2 ^ 32) :
    (flushCmp c).1.chain.length = c.chain.length ∧ headFed (flushCmp c).1.chain = headFed c.chain ∧
    ∃ w, Wrote c (flushCmp c).1 w ∧ (flushCmp c).2 = w.length := by
  unfold flushCmp
  cases h : (flushChain c.chain none).2 with
  | none =>
    simp only [h]
    refine ⟨flushChain_length _ _, flushChain_none_headFed _, [], ?_, rfl⟩
    exact ⟨by simp, by simp, by simp [crc32Update_nil _ hd]⟩
  | some data =>
    simp only [h]
    exact ⟨flushChain_length _ _, flushChain_none_headFed _, data, ⟨rfl, rfl, rfl⟩, rfl⟩

/-- all members of a folder one after the other -/
theorem compressAll_spec {σ} : ∀ (members : List (List Bytes)) (c : Cmp σ), c.digest < 2 ^ 32 →
    (compressAll c members).2 = members.map (fun m => (m.flatten.length, crc32 m.flatten)) ∧
    (compressAll c members).1.chain.length = c.chain.length ∧
    (c.chain ≠ [] → headFed (compressAll c members).1.chain =
      headFed c.chain + (members.map (fun m => m.flatten.length)).sum) ∧
    ∃ w, Wrote c (compressAll c members).1 w := by
  intro members
  induction members with
  | nil =>
    intro c hd
    exact ⟨rfl, rfl, fun _ => by simp [compressAll], [], Wrote.refl c hd⟩
  | cons m ms ih =>
    intro c hd
    obtain ⟨h1, h2, h3, h4, w, h5, _⟩ := compressMember_spec c m hd
    obtain ⟨i1, i2, i3, w2, i4⟩ := ih (compressMember c m).cmp h5.digest_lt
    simp only [compressAll, List.map_cons, List.sum_cons]
    refine ⟨by rw [i1, h1, h2], by rw [i2, h3], ?_, w ++ w2, h5.trans i4⟩
    intro hne
    have hne' : (compressMember c m).cmp.chain ≠ [] := by
      intro h0
      rw [h0] at h3
      exact hne (List.eq_nil_of_length_eq_zero h3.symm)
    rw [i3 hne', h4 hne]; omega

/-- **Compressor accounting.**  A fresh compressor (counters zero) that has compressed any
    list of members, each delivered in any blocks, through any chain of codec stages, and has
    then been flushed: every member's reported size and CRC are those of its bytes; the first
    stage's counter is the total size of the members; `packsize` is the number of bytes written
    and `digest` their CRC-32. -/
theorem compressor_accounting {σ} (chain : List (StageSt σ)) (hne : chain ≠ []) (hfed : headFed chain = 0)
    (members : List (List Bytes)) :
    let c0 : Cmp σ := { chain := chain }
    let r := compressAll c0 members
    let f := flushCmp r.1
    r.2 = members.map (fun m => (m.flatten.length, crc32 m.flatten)) ∧
    headFed f.1.chain = (members.map (fun m => m.flatten.length)).sum ∧
    f.1.packsize = f.1.out.length ∧ f.1.digest = crc32 f.1.out ∧ f.1.chain.length = chain.length := by
  intro c0 r f
  have hd0 : c0.digest < 2 ^ 32 := by show (0:Nat) < 2 ^ 32; decide
  obtain ⟨h1, h2, h3, w, h4⟩ := compressAll_spec members c0 hd0
  obtain ⟨g1, g2, w2, g3, _⟩ := flushCmp_spec r.1 h4.digest_lt
  have hw := h4.trans g3
  refine ⟨h1, ?_, ?_, ?_, by rw [g1, h2]⟩
  · rw [g2, h3 hne, hfed]; simp
  · rw [hw.2.1, hw.1]; simp [c0]
  · rw [hw.2.2, hw.1]; simp [c0, crc32]

/-- the per-coder list is as long as the filter list and its LAST entry — the unpack size of
    the folder's final output stream — is the first stage's counter -/
theorem unpacksizesGo_spec (fed : List Nat) : ∀ (ms : List Bool) (i shift : Nat) (prev : Bool) (result R : List Nat),
    result ≠ [] → unpacksizesGo fed ms i shift prev result = some R →
    R.getLast? = result.getLast? ∧ R.length = result.length + ms.length := by
  intro ms
  induction ms with
  | nil =>
    intro i shift prev result R _ h
    simp only [unpacksizesGo, Option.some.injEq] at h
    subst h; simp
  | cons m ms ih =>
    intro i shift prev result R hne h
    unfold unpacksizesGo at h
    simp only at h
    split at h
    · cases h
    · rename_i v hv
      obtain ⟨h1, h2⟩ := ih _ _ _ _ R (by simp) h
      refine ⟨?_, by rw [h2]; simp; omega⟩
      rw [h1]
      cases result with
      | nil => exact absurd rfl hne
      | cons a as => simp [List.getLast?_cons_cons]

theorem unpacksizesOf_spec (m : Bool) (ms : List Bool) (fed R : List Nat) (h : unpacksizesOf (m :: ms) fed = some R) :
    R.getLast? = fed[0]? ∧ R.length = ms.length + 1 := by
  unfold unpacksizesOf unpacksizesGo at h
  simp only [Bool.and_false, Bool.false_eq_true, if_false, Nat.sub_zero] at h
  split at h
  · cases h
  · rename_i v hv
    obtain ⟨h1, h2⟩ := unpacksizesGo_spec fed ms 1 0 m [v] R (by simp) h
    refine ⟨by rw [h1, hv]; rfl, by rw [h2]; simp; omega⟩

end SevenZ
