/-
Refinement of the format's sub-stream assignment (`Spec.assign`) by the implementation's
cursor (`Impl.assign`), for every layout.
-/
import SevenZ.Model.Assign
import SevenZ.Spec.Format
namespace SevenZ
open SevenZ.Impl

theorem skipZero_zeros (nums : List Nat) (fi folder n : Nat) (fuel : Nat)
    (hz : ∀ j, fi ≤ j → j < folder → nums[j]? = some 0) (hn : nums[folder]? = some n) (hpos : 0 < n)
    (hle : fi ≤ folder) (hfuel : folder - fi < fuel) : skipZero nums fuel fi = some folder := by
  induction fuel generalizing fi with
  | zero => omega
  | succ fuel ih =>
    unfold skipZero
    by_cases heq : fi = folder
    · subst heq
      rw [hn]
      cases n with
      | zero => omega
      | succ k => rfl
    · have hlt : fi < folder := by omega
      rw [hz fi (Nat.le_refl _) hlt]
      exact ih (fi + 1) (fun j h1 h2 => hz j (by omega) h2) (by omega) (by omega)

/-- how the two cursors correspond between files -/
def AssignRel (numsAll : List Nat) (folder taken off : Nat) (numsRem : List Nat) (fi input offi : Nat) : Prop :=
  (taken = 0 ∧ off = 0 ∧ input = 0 ∧ offi = 0 ∧ fi ≤ folder ∧ ∀ j, fi ≤ j → j < folder → numsAll[j]? = some 0)
  ∨ (0 < taken ∧ fi = folder ∧ input = taken ∧ offi = off ∧ ∃ n ns, numsRem = n :: ns ∧ taken < n)
  ∨ (∃ n ns, numsRem = n :: ns ∧ taken = n ∧ 0 < n ∧ fi = folder + 1 ∧ input = 0 ∧ offi = 0)

theorem assign_refine_go (numsAll sizesAll : List Nat) (crcsAll : List (Option Nat)) :
    ∀ (fuel : Nat) (files : List Spec.SFile) (folder taken off : Nat) (numsRem sizesRem : List Nat)
      (crcsRem : List (Option Nat)) (ms : List Spec.SMember) (fi input outs offi : Nat)
      (npre spre : List Nat) (cpre : List (Option Nat)),
      Spec.assignGo fuel files folder taken off numsRem sizesRem crcsRem = .ok ms →
      numsAll = npre ++ numsRem → npre.length = folder →
      sizesAll = spre ++ sizesRem → spre.length = outs →
      crcsAll = cpre ++ crcsRem → cpre.length = outs →
      AssignRel numsAll folder taken off numsRem fi input offi →
      Impl.assignGo numsAll sizesAll crcsAll (files.map (·.emptyStream)) fi input outs offi =
        some (ms.map (·.stream)) := by
  intro fuel
  induction fuel with
  | zero => intro files folder taken off numsRem sizesRem crcsRem ms fi input outs offi npre spre cpre h; simp [Spec.assignGo] at h
  | succ fuel ih =>
    intro files folder taken off numsRem sizesRem crcsRem ms fi input outs offi npre spre cpre h hn hnl hs hsl hc hcl hrel
    cases files with
    | nil =>
      unfold Spec.assignGo at h
      split at h
      · cases h
      · cases h; rfl
    | cons f fs =>
      unfold Spec.assignGo at h
      by_cases hf : f.emptyStream = true
      · -- empty-stream entry: both sides pass over it
        simp only [hf, if_true] at h
        cases hr : Spec.assignGo fuel fs folder taken off numsRem sizesRem crcsRem with
        | error e => rw [hr] at h; cases h
        | ok r =>
          rw [hr] at h
          simp only [Except.map] at h
          cases h
          have := ih fs folder taken off numsRem sizesRem crcsRem r fi input outs offi npre spre cpre hr hn hnl hs hsl hc hcl hrel
          simp only [List.map_cons, hf, Impl.assignGo, this, Option.map_some]
      · simp only [hf] at h
        simp only [Bool.false_eq_true, if_false] at h
        cases numsRem with
        | nil => cases h
        | cons n ns =>
          simp only at h
          by_cases hge : taken ≥ n
          · -- the format moves on to the next folder; the implementation's cursor stays put
            simp only [hge, if_true] at h
            have hn' : numsAll = (npre ++ [n]) ++ ns := by rw [hn]; simp
            refine ih (f :: fs) (folder + 1) 0 0 ns sizesRem crcsRem ms fi input outs offi (npre ++ [n]) spre cpre h hn'
              (by simp [hnl]) hs hsl hc hcl ?_
            rcases hrel with ⟨ht, _, hi, hoi, hle, hz⟩ | ⟨hpos, _, _, _, n', ns', heq, hlt⟩ | ⟨n', ns', heq, ht, hpos, hfi, hi, hoi⟩
            · -- at the start of a folder with no streams
              have hn0 : n = 0 := by omega
              refine Or.inl ⟨rfl, rfl, hi, hoi, by omega, ?_⟩
              intro j h1 h2
              by_cases hj : j < folder
              · exact hz j h1 hj
              · have : j = folder := by omega
                subst this
                rw [hn, List.getElem?_append_right (by omega)]
                simp [hnl, hn0]
            · cases heq; omega
            · cases heq
              exact Or.inl ⟨rfl, rfl, hi, hoi, by omega, fun j h1 h2 => by omega⟩
          · simp only [hge, if_false] at h
            have hlt : taken < n := by omega
            cases sizesRem with
            | nil => cases h
            | cons s ss =>
              cases crcsRem with
              | nil => cases h
              | cons c cs =>
                simp only at h
                cases hr : Spec.assignGo fuel fs folder (taken + 1) (off + s) (n :: ns) ss cs with
                | error e => rw [hr] at h; cases h
                | ok r =>
                  rw [hr] at h
                  simp only [Except.map] at h
                  cases h
                  -- where the implementation's cursor lands
                  have hnf : numsAll[folder]? = some n := by
                    rw [hn, List.getElem?_append_right (by omega)]; simp [hnl]
                  have hso : sizesAll[outs]? = some s := by
                    rw [hs, List.getElem?_append_right (by omega)]; simp [hsl]
                  have hco : crcsAll[outs]? = some c := by
                    rw [hc, List.getElem?_append_right (by omega)]; simp [hcl]
                  have hlen : folder < numsAll.length := by
                    rw [hn]; simp [hnl]
                  have hstate : skipZero numsAll (numsAll.length + 1) fi = some folder ∧ input = taken ∧ offi = off := by
                    rcases hrel with ⟨ht, ho, hi, hoi, hle, hz⟩ | ⟨hpos, hfi, hi, hoi, _⟩ | ⟨n', ns', heq, ht, hpos, _⟩
                    · exact ⟨skipZero_zeros numsAll fi folder n _ hz hnf (by omega) hle (by omega), by omega, by omega⟩
                    · subst hfi
                      exact ⟨skipZero_zeros numsAll fi fi n _ (fun j h1 h2 => by omega) hnf (by omega) (Nat.le_refl _) (by omega), hi, hoi⟩
                    · cases heq; omega
                  obtain ⟨hskip, hin, hoff⟩ := hstate
                  subst hin hoff
                  have hgd : numsAll.getD folder 0 = n := by
                    simp [List.getD, hnf]
                  simp only [List.map_cons, hf, Impl.assignGo, hskip, hso, hco, hgd]
                  by_cases hlast : input + 1 ≥ n
                  · simp only [hlast, if_true]
                    have hrel' : AssignRel numsAll folder (input + 1) (offi + s) (n :: ns) (folder + 1) 0 0 :=
                      Or.inr (Or.inr ⟨n, ns, rfl, by omega, by omega, rfl, rfl, rfl⟩)
                    have := ih fs folder (input + 1) (offi + s) (n :: ns) ss cs r (folder + 1) 0 (outs + 1) 0 npre (spre ++ [s]) (cpre ++ [c]) hr hn hnl
                      (by rw [hs]; simp) (by simp [hsl]) (by rw [hc]; simp) (by simp [hcl]) hrel'
                    rw [this]; rfl
                  · simp only [hlast, if_false]
                    have hrel' : AssignRel numsAll folder (input + 1) (offi + s) (n :: ns) folder (input + 1) (offi + s) :=
                      Or.inr (Or.inl ⟨by omega, rfl, rfl, rfl, n, ns, rfl, by omega⟩)
                    have := ih fs folder (input + 1) (offi + s) (n :: ns) ss cs r folder (input + 1) (outs + 1) (offi + s) npre (spre ++ [s]) (cpre ++ [c]) hr hn hnl
                      (by rw [hs]; simp) (by simp [hsl]) (by rw [hc]; simp) (by simp [hcl]) hrel'
                    rw [this]; rfl

end SevenZ

namespace SevenZ
open SevenZ.Impl

/-! ### appending never moves an earlier member -/

theorem skipZero_some_lt (nums : List Nat) : ∀ (fuel fi fo : Nat), skipZero nums fuel fi = some fo →
    fo < nums.length ∧ nums[fo]? ≠ some 0 := by
  intro fuel
  induction fuel with
  | zero => intro fi fo h; simp [skipZero] at h
  | succ fuel ih =>
    intro fi fo h
    unfold skipZero at h
    cases hg : nums[fi]? with
    | none => rw [hg] at h; simp at h
    | some v =>
      rw [hg] at h
      cases v with
      | zero => exact ih _ _ h
      | succ k =>
        simp only [Option.some.injEq] at h
        subst h
        exact ⟨by
          have := List.getElem?_eq_some_iff.1 hg
          exact this.1, by rw [hg]; simp⟩

theorem skipZero_ext (nums nums' : List Nat) : ∀ (fuel fuel' fi fo : Nat), skipZero nums fuel fi = some fo →
    fuel ≤ fuel' → skipZero (nums ++ nums') fuel' fi = some fo := by
  intro fuel
  induction fuel with
  | zero => intro fuel' fi fo h; simp [skipZero] at h
  | succ fuel ih =>
    intro fuel' fi fo h hle
    cases fuel' with
    | zero => omega
    | succ fuel' =>
      unfold skipZero at h ⊢
      cases hg : nums[fi]? with
      | none => rw [hg] at h; simp at h
      | some v =>
        have hlt : fi < nums.length := (List.getElem?_eq_some_iff.1 hg).1
        rw [List.getElem?_append_left hlt, hg]
        rw [hg] at h
        cases v with
        | zero => exact ih fuel' _ _ h (by omega)
        | succ k => exact h

/-- running the cursor over `flags ++ flags'` with every list extended at the end gives, for
    the first `flags.length` members, exactly what it gave before -/
theorem assignGo_prefix (nums sizes : List Nat) (crcs : List (Option Nat)) (nums' sizes' : List Nat) (crcs' : List (Option Nat))
    (flags' : List Bool) : ∀ (flags : List Bool) (folder input outs off : Nat) (r : List Slot4),
    assignGo nums sizes crcs flags folder input outs off = some r →
    ∀ r', assignGo (nums ++ nums') (sizes ++ sizes') (crcs ++ crcs') (flags ++ flags') folder input outs off = some r' →
      r'.take flags.length = r := by
  intro flags
  induction flags with
  | nil =>
    intro folder input outs off r h r' _
    simp [assignGo] at h
    subst h; simp
  | cons b fs ih =>
    intro folder input outs off r h r' h'
    cases b with
    | true =>
      simp only [assignGo, List.cons_append] at h h'
      cases hr : assignGo nums sizes crcs fs folder input outs off with
      | none => rw [hr] at h; simp at h
      | some r0 =>
        rw [hr] at h
        cases hr' : assignGo (nums ++ nums') (sizes ++ sizes') (crcs ++ crcs') (fs ++ flags') folder input outs off with
        | none => rw [hr'] at h'; simp at h'
        | some r0' =>
          rw [hr'] at h'
          simp only [Option.map_some, Option.some.injEq] at h h'
          subst h h'
          simp only [List.length_cons, List.take_succ_cons, List.cons.injEq, true_and]
          exact ih _ _ _ _ _ hr _ hr'
    | false =>
      simp only [assignGo, List.cons_append] at h h'
      cases hsk : skipZero nums (nums.length + 1) folder with
      | none => rw [hsk] at h; simp at h
      | some fo =>
        rw [hsk] at h
        have hsk' := skipZero_ext nums nums' _ ((nums ++ nums').length + 1) folder fo hsk (by simp)
        rw [hsk'] at h'
        have hfo := (skipZero_some_lt nums _ _ _ hsk).1
        cases hs : sizes[outs]? with
        | none => rw [hs] at h; simp at h
        | some s =>
          cases hc : crcs[outs]? with
          | none => rw [hs, hc] at h; simp at h
          | some c =>
            have hs' : (sizes ++ sizes')[outs]? = some s := by
              rw [List.getElem?_append_left (List.getElem?_eq_some_iff.1 hs).1, hs]
            have hc' : (crcs ++ crcs')[outs]? = some c := by
              rw [List.getElem?_append_left (List.getElem?_eq_some_iff.1 hc).1, hc]
            have hgd : (nums ++ nums').getD fo 0 = nums.getD fo 0 := by
              simp [List.getD, List.getElem?_append_left hfo]
            rw [hs, hc] at h
            rw [hs', hc'] at h'
            simp only at h h'
            rw [hgd] at h'
            by_cases hlast : input + 1 ≥ nums.getD fo 0
            · simp only [hlast, if_true] at h h'
              cases hr : assignGo nums sizes crcs fs (fo + 1) 0 (outs + 1) 0 with
              | none => rw [hr] at h; simp at h
              | some r0 =>
                rw [hr] at h
                cases hr' : assignGo (nums ++ nums') (sizes ++ sizes') (crcs ++ crcs') (fs ++ flags') (fo + 1) 0 (outs + 1) 0 with
                | none => rw [hr'] at h'; simp at h'
                | some r0' =>
                  rw [hr'] at h'
                  simp only [Option.map_some, Option.some.injEq] at h h'
                  subst h h'
                  simp only [List.length_cons, List.take_succ_cons, List.cons.injEq, true_and]
                  exact ih _ _ _ _ _ hr _ hr'
            · simp only [hlast, if_false] at h h'
              cases hr : assignGo nums sizes crcs fs fo (input + 1) (outs + 1) (off + s) with
              | none => rw [hr] at h; simp at h
              | some r0 =>
                rw [hr] at h
                cases hr' : assignGo (nums ++ nums') (sizes ++ sizes') (crcs ++ crcs') (fs ++ flags') fo (input + 1) (outs + 1) (off + s) with
                | none => rw [hr'] at h'; simp at h'
                | some r0' =>
                  rw [hr'] at h'
                  simp only [Option.map_some, Option.some.injEq] at h h'
                  subst h h'
                  simp only [List.length_cons, List.take_succ_cons, List.cons.injEq, true_and]
                  exact ih _ _ _ _ _ hr _ hr'

end SevenZ
