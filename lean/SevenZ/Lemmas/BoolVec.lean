/- Helper lemmas and main proofs about the boolean-vector model (core Lean only). -/
import SevenZ.Model.BoolVec
namespace SevenZ
open Impl

theorem unpack_pack_chunk : ∀ (l : List Bool), l.length ≤ 8 →
    unpackByte (bitsVal l 128) l.length = l := by
  intro l hl
  match l, hl with
  | [], _ => rfl
  | [a], _ => revert a; decide
  | [a,b], _ => revert a b; decide
  | [a,b,c], _ => revert a b c; decide
  | [a,b,c,d], _ => revert a b c d; decide
  | [a,b,c,d,e], _ => revert a b c d e; decide
  | [a,b,c,d,e,f], _ => revert a b c d e f; decide
  | [a,b,c,d,e,f,g], _ => revert a b c d e f g; decide
  | [a,b,c,d,e,f,g,h], _ => revert a b c d e f g h; decide
  | _ :: _ :: _ :: _ :: _ :: _ :: _ :: _ :: _ :: _, h => simp at h

theorem bitsF_roundtrip (n : Nat) : ∀ (bs : List Bool), bs.length = n → ∀ (f1 f2 : Nat) (tail : Bytes),
    bs.length ≤ f1 → bs.length ≤ f2 →
    readBitsF f2 bs.length (packBitsF f1 bs ++ tail) = some (bs, tail) := by
  induction n using Nat.strongRecOn with
  | _ n ih =>
    intro bs h f1 f2 tail h1 h2
    match bs, h with
    | [], h =>
      cases f2 <;> cases f1 <;> simp [readBitsF, packBitsF]
    | b :: rest, h =>
      subst h
      cases f1 with
      | zero => simp at h1
      | succ f1 =>
      cases f2 with
      | zero => simp at h2
      | succ f2 =>
      simp only [packBitsF, readBitsF, List.length_cons, Nat.add_one_ne_zero, if_false, List.cons_append]
      have hk : min (rest.length + 1) 8 = ((b :: rest).take 8).length := by simp; omega
      have hd : rest.length + 1 - min (rest.length + 1) 8 = ((b :: rest).drop 8).length := by
        simp; omega
      simp only [List.length_cons] at h1 h2
      rw [hd, ih _ (by simp; omega) _ rfl f1 f2 tail (by simp; omega) (by simp; omega), hk,
        unpack_pack_chunk _ (by simp [List.length_take]; omega)]
      simp [List.take_append_drop]

theorem bits_roundtrip (bs : List Bool) (tail : Bytes) :
    readBits bs.length (packBits bs ++ tail) = some (bs, tail) :=
  bitsF_roundtrip bs.length bs rfl _ _ tail (Nat.le_refl _) (Nat.le_refl _)

theorem all_id_replicate (bs : List Bool) (h : bs.all id = true) : List.replicate bs.length true = bs := by
  induction bs with
  | nil => rfl
  | cons b bs ih =>
    simp only [List.all_cons, Bool.and_eq_true, id] at h
    simp [List.replicate_succ, h.1, ih h.2]

theorem bools_roundtrip (bs : List Bool) (allDefined : Bool) (tail : Bytes) :
    readBools bs.length allDefined (writeBools bs allDefined ++ tail) = some (bs, tail) := by
  cases allDefined with
  | false => simp [writeBools, readBools, bits_roundtrip]
  | true =>
    by_cases hall : bs.all id = true
    · simp [writeBools, readBools, hall, all_id_replicate bs hall]
    · simp only [writeBools, Bool.true_and, hall, readBools, if_true]
      simp [bits_roundtrip]

theorem packBitsF_length (n : Nat) : ∀ (bs : List Bool), bs.length = n → ∀ f, bs.length ≤ f →
    (packBitsF f bs).length = bitsToBytes bs.length := by
  induction n using Nat.strongRecOn with
  | _ n ih =>
    intro bs h f hf
    match bs, h with
    | [], h => cases f <;> simp [packBitsF, bitsToBytes]
    | b :: rest, h =>
      subst h
      cases f with
      | zero => simp at hf
      | succ f =>
        simp only [packBitsF, List.length_cons]
        simp only [List.length_cons] at hf
        rw [ih _ (by simp; omega) _ rfl f (by simp; omega)]
        simp [bitsToBytes]; omega

theorem writeBools_length (bs : List Bool) :
    (writeBools bs false).length = bitsToBytes bs.length := by
  simp only [writeBools, Bool.false_and, Bool.false_eq_true, if_false, List.nil_append]
  exact packBitsF_length bs.length bs rfl _ (Nat.le_refl _)

end SevenZ
