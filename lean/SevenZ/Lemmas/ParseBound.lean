/-
The size of what the header parser builds is linear in the size of the header it reads (C05): inversion lemmas for
the parser monad, consumption lemmas for the primitives, and post-conditions for every production of
`Impl.readNextHeader`, for ARBITRARY input bytes.
-/
import SevenZ.Model.Header
namespace SevenZ
open SevenZ.Impl

/-- inversion of a bind in the parser monad -/
theorem P.bind_inv {α β} {x : P α} {f : α → P β} {s : Bytes} {r : β × Bytes}
    (h : (x >>= f) s = .ok r) : ∃ a s', x s = .ok (a, s') ∧ f a s' = .ok r := by
  simp only [bind, StateT.bind, Except.bind] at h
  cases hx : x s with
  | error e => simp [hx] at h
  | ok v => obtain ⟨a, s'⟩ := v; simp only [hx] at h; exact ⟨a, s', rfl, h⟩

theorem P.pure_inv {α} {a : α} {s : Bytes} {r : α × Bytes} (h : (pure a : P α) s = .ok r) : r = (a, s) := by
  simp only [pure, StateT.pure, Except.pure] at h
  exact (Except.ok.inj h).symm

theorem P.fail_inv {α} {e : Err} {s : Bytes} {r : α × Bytes} (h : (Impl.fail e : P α) s = .ok r) : False := by
  simp [Impl.fail] at h

/-! ### consumption of the primitives -/

theorem read1_len {s : Bytes} {a : Option Nat} {s' : Bytes} (h : read1 s = .ok (a, s')) : s'.length ≤ s.length := by
  unfold read1 at h
  cases s with
  | nil => simp at h; obtain ⟨_, rfl⟩ := h; simp
  | cons b rest => simp at h; obtain ⟨_, rfl⟩ := h; simp

theorem readByte_len {s : Bytes} {a : Nat} {s' : Bytes} (h : readByte s = .ok (a, s')) : s'.length + 1 ≤ s.length := by
  unfold readByte at h
  cases s with
  | nil => simp at h
  | cons b rest => simp at h; obtain ⟨_, rfl⟩ := h; simp

theorem readBytes_len {n : Nat} {s : Bytes} {a : Bytes} {s' : Bytes} (h : readBytes n s = .ok (a, s')) : s'.length ≤ s.length := by
  unfold readBytes at h
  simp at h; obtain ⟨_, rfl⟩ := h; simp

theorem readNumber_len {s : Bytes} {v : Nat} {s' : Bytes} (h : readNumber s = some (v, s')) : s'.length + 1 ≤ s.length := by
  unfold readNumber at h
  cases s with
  | nil => simp at h
  | cons b rest =>
    simp only at h
    split at h
    · split at h
      · simp at h
      · simp at h; obtain ⟨_, rfl⟩ := h; simp
    · split at h
      · simp at h; obtain ⟨_, rfl⟩ := h; simp
      · simp at h; obtain ⟨_, rfl⟩ := h; simp

theorem pNumber_len {s : Bytes} {v : Nat} {s' : Bytes} (h : pNumber s = .ok (v, s')) : s'.length + 1 ≤ s.length := by
  unfold pNumber at h
  cases hr : readNumber s with
  | none => simp [hr] at h
  | some r => obtain ⟨v', r'⟩ := r; simp [hr] at h; obtain ⟨_, rfl⟩ := h; exact readNumber_len hr

theorem pFixed_len {k : Nat} {s : Bytes} {v : Nat} {s' : Bytes} (h : pFixed k s = .ok (v, s')) : s'.length ≤ s.length := by
  unfold pFixed at h
  split at h
  · simp at h
  · simp at h; obtain ⟨_, rfl⟩ := h; simp

/-- a loop whose body consumes at least one byte per round makes at most as many rounds as there are bytes -/
theorem repeatP_len {α} (p : P α) (hp : ∀ s a s', p s = .ok (a, s') → s'.length + 1 ≤ s.length) :
    ∀ (n : Nat) (s : Bytes) (as : List α) (s' : Bytes), repeatP n p s = .ok (as, s') →
      as.length = n ∧ s'.length + n ≤ s.length
  | 0, s, as, s', h => by
    simp only [repeatP] at h
    have := P.pure_inv h; simp at this; obtain ⟨rfl, rfl⟩ := this; simp
  | n + 1, s, as, s', h => by
    simp only [repeatP] at h
    obtain ⟨a, s1, h1, h⟩ := P.bind_inv h
    obtain ⟨as', s2, h2, h⟩ := P.bind_inv h
    have ih := repeatP_len p hp n s1 as' s2 h2
    have := P.pure_inv h; simp at this; obtain ⟨rfl, rfl⟩ := this
    have := hp s a s1 h1
    simp only [List.length_cons]; omega

/-- the same loop with a body that never gives bytes back -/
theorem repeatP_len0 {α} (p : P α) (hp : ∀ s a s', p s = .ok (a, s') → s'.length ≤ s.length) :
    ∀ (n : Nat) (s : Bytes) (as : List α) (s' : Bytes), repeatP n p s = .ok (as, s') →
      as.length = n ∧ s'.length ≤ s.length
  | 0, s, as, s', h => by
    simp only [repeatP] at h
    have := P.pure_inv h; simp at this; obtain ⟨rfl, rfl⟩ := this; simp
  | n + 1, s, as, s', h => by
    simp only [repeatP] at h
    obtain ⟨a, s1, h1, h⟩ := P.bind_inv h
    obtain ⟨as', s2, h2, h⟩ := P.bind_inv h
    have ih := repeatP_len0 p hp n s1 as' s2 h2
    have := P.pure_inv h; simp at this; obtain ⟨rfl, rfl⟩ := this
    have := hp s a s1 h1
    simp only [List.length_cons]; omega

/-! ### post-conditions of the productions -/

/-- `mapM` over a list inside the parser: the result has the list's length -/
theorem mapM_len {α β} (f : α → P β) (hf : ∀ x s b s', f x s = .ok (b, s') → s'.length ≤ s.length) :
    ∀ (l : List α) (s : Bytes) (bs : List β) (s' : Bytes), l.mapM f s = .ok (bs, s') →
      bs.length = l.length ∧ s'.length ≤ s.length
  | [], s, bs, s', h => by
    simp only [List.mapM_nil] at h
    have := P.pure_inv h; simp at this; obtain ⟨rfl, rfl⟩ := this; simp
  | x :: l, s, bs, s', h => by
    simp only [List.mapM_cons] at h
    obtain ⟨b, s1, h1, h⟩ := P.bind_inv h
    obtain ⟨bs', s2, h2, h⟩ := P.bind_inv h
    have ih := mapM_len f hf l s1 bs' s2 h2
    have := P.pure_inv h; simp at this; obtain ⟨rfl, rfl⟩ := this
    have := hf x s b s1 h1
    simp only [List.length_cons]; omega

theorem readBitsF_len : ∀ (f count : Nat) (bs : Bytes) (l : List Bool) (r : Bytes),
    readBitsF f count bs = some (l, r) → l.length = count ∧ r.length ≤ bs.length
  | 0, count, bs, l, r, h => by
    simp only [readBitsF] at h
    split at h
    · simp at h; obtain ⟨rfl, rfl⟩ := h; simp [*]
    · simp at h
  | f + 1, count, bs, l, r, h => by
    simp only [readBitsF] at h
    split at h
    · simp at h; obtain ⟨rfl, rfl⟩ := h; simp [*]
    · cases bs with
      | nil => simp at h
      | cons b rest =>
        simp only at h
        cases hr : readBitsF f (count - min count 8) rest with
        | none => simp [hr] at h
        | some v =>
          obtain ⟨more, rest'⟩ := v
          simp only [hr, Option.some.injEq, Prod.mk.injEq] at h
          obtain ⟨rfl, rfl⟩ := h
          have ih := readBitsF_len f _ rest more rest' hr
          simp only [List.length_append, unpackByte, List.length_map, List.length_range, List.length_cons, ih.1]
          omega

theorem readBools_len {count : Nat} {c : Bool} {bs : Bytes} {l : List Bool} {r : Bytes}
    (h : readBools count c bs = some (l, r)) : l.length = count ∧ r.length ≤ bs.length := by
  unfold readBools at h
  split at h
  · cases bs with
    | nil => simp at h; obtain ⟨rfl, rfl⟩ := h; simp
    | cons a rest =>
      simp only at h
      split at h
      · simp at h; obtain ⟨rfl, rfl⟩ := h; simp
      · have := readBitsF_len _ _ _ _ _ h
        simp only [List.length_cons]; omega
  · exact readBitsF_len _ _ _ _ _ h

theorem pBools_len {count : Nat} {c : Bool} {s : Bytes} {l : List Bool} {s' : Bytes}
    (h : pBools count c s = .ok (l, s')) : l.length = count ∧ s'.length ≤ s.length := by
  unfold pBools at h
  cases hr : readBools count c s with
  | none => simp [hr] at h
  | some v => obtain ⟨l', r'⟩ := v; simp [hr] at h; obtain ⟨rfl, rfl⟩ := h; exact readBools_len hr

theorem readPackInfo_post {s : Bytes} {p : PackInfo} {s' : Bytes} (h : readPackInfo s = .ok (p, s')) :
    p.packsizes.length ≤ s.length ∧ s'.length ≤ s.length := by
  unfold readPackInfo at h
  obtain ⟨packpos, s1, h1, h⟩ := P.bind_inv h
  obtain ⟨numstreams, s2, h2, h⟩ := P.bind_inv h
  obtain ⟨pid, s3, h3, h⟩ := P.bind_inv h
  have l1 := pNumber_len h1
  have l2 := pNumber_len h2
  have l3 := read1_len h3
  split at h
  · obtain ⟨sizes, s4, h4, h⟩ := P.bind_inv h
    obtain ⟨pid2, s5, h5, h⟩ := P.bind_inv h
    have l4 := repeatP_len pNumber (fun _ _ _ => pNumber_len) _ _ _ _ h4
    have l5 := read1_len h5
    split at h
    · obtain ⟨defined, s6, h6, h⟩ := P.bind_inv h
      obtain ⟨crcs, s7, h7, h⟩ := P.bind_inv h
      obtain ⟨pid3, s8, h8, h⟩ := P.bind_inv h
      have l6 := pBools_len h6
      have l7 := mapM_len (fun _ => pFixed 4) (fun _ _ _ _ => pFixed_len) _ _ _ _ h7
      have l8 := read1_len h8
      split at h
      · exact (P.fail_inv h).elim
      · have := P.pure_inv h; simp at this; obtain ⟨rfl, rfl⟩ := this
        simp only; omega
    · split at h
      · exact (P.fail_inv h).elim
      · have := P.pure_inv h; simp at this; obtain ⟨rfl, rfl⟩ := this
        simp only; omega
  · split at h
    · exact (P.fail_inv h).elim
    · have := P.pure_inv h; simp at this; obtain ⟨rfl, rfl⟩ := this
      simp only [List.length_nil]; omega

theorem readCoder_len {s : Bytes} {c : Coder} {s' : Bytes} (h : readCoder s = .ok (c, s')) : s'.length + 1 ≤ s.length := by
  unfold readCoder at h
  obtain ⟨b, s1, h1, h⟩ := P.bind_inv h
  have l1 := readByte_len h1
  simp only at h
  obtain ⟨m, s2, h2, h⟩ := P.bind_inv h
  have l2 := readBytes_len h2
  obtain ⟨io, s3, h3, h⟩ := P.bind_inv h
  have l3 : s3.length ≤ s2.length := by
    split at h3
    · obtain ⟨a, t1, g1, h3⟩ := P.bind_inv h3
      obtain ⟨c', t2, g2, h3⟩ := P.bind_inv h3
      have := P.pure_inv h3; simp at this; obtain ⟨_, rfl⟩ := this
      have := pNumber_len g1; have := pNumber_len g2; omega
    · have := P.pure_inv h3; simp at this; obtain ⟨_, rfl⟩ := this; omega
  obtain ⟨pr, s4, h4, h⟩ := P.bind_inv h
  have l4 : s4.length ≤ s3.length := by
    split at h4
    · obtain ⟨len, t1, g1, h4⟩ := P.bind_inv h4
      have := pNumber_len g1
      split at h4
      · exact (P.fail_inv h4).elim
      · obtain ⟨pr', t2, g2, h4⟩ := P.bind_inv h4
        have := readBytes_len g2
        have := P.pure_inv h4; simp at this; obtain ⟨_, rfl⟩ := this; omega
    · have := P.pure_inv h4; simp at this; obtain ⟨_, rfl⟩ := this; omega
  have := P.pure_inv h; simp at this; obtain ⟨_, rfl⟩ := this
  omega

theorem readFolder_len {s : Bytes} {f : Folder} {s' : Bytes} (h : readFolder s = .ok (f, s')) : s'.length + 1 ≤ s.length := by
  unfold readFolder at h
  obtain ⟨numCoders, s1, h1, h⟩ := P.bind_inv h
  have l1 := pNumber_len h1
  obtain ⟨coders, s2, h2, h⟩ := P.bind_inv h
  have l2 := repeatP_len readCoder (fun _ _ _ => readCoder_len) _ _ _ _ h2
  simp only at h
  obtain ⟨pairs, s3, h3, h⟩ := P.bind_inv h
  have l3 := repeatP_len0 (do let a ← pNumber; let b ← pNumber; pure (a, b)) (by
    intro t a t' g
    obtain ⟨x, u1, g1, g⟩ := P.bind_inv g
    obtain ⟨y, u2, g2, g⟩ := P.bind_inv g
    have := P.pure_inv g; simp at this; obtain ⟨_, rfl⟩ := this
    have := pNumber_len g1; have := pNumber_len g2; omega) _ _ _ _ h3
  split at h
  · have := P.pure_inv h; simp at this; obtain ⟨_, rfl⟩ := this; omega
  · obtain ⟨idx, s4, h4, h⟩ := P.bind_inv h
    have l4 := repeatP_len pNumber (fun _ _ _ => pNumber_len) _ _ _ _ h4
    have := P.pure_inv h; simp at this; obtain ⟨_, rfl⟩ := this; omega

theorem readUnpackSizes_post : ∀ (fs : List Folder) (s : Bytes) (out : List Folder) (s' : Bytes),
    readUnpackSizes fs s = .ok (out, s') → out.length = fs.length ∧ s'.length ≤ s.length
  | [], s, out, s', h => by
    simp only [readUnpackSizes] at h
    have := P.pure_inv h; simp at this; obtain ⟨rfl, rfl⟩ := this; simp
  | f :: fs, s, out, s', h => by
    simp only [readUnpackSizes] at h
    obtain ⟨sizes, s1, h1, h⟩ := P.bind_inv h
    obtain ⟨rest, s2, h2, h⟩ := P.bind_inv h
    have l1 := repeatP_len pNumber (fun _ _ _ => pNumber_len) _ _ _ _ h1
    have ih := readUnpackSizes_post fs s1 rest s2 h2
    have := P.pure_inv h; simp at this; obtain ⟨rfl, rfl⟩ := this
    simp only [List.length_cons]; omega

theorem readUnpackInfo_post {s : Bytes} {fs : List Folder} {s' : Bytes} (h : readUnpackInfo s = .ok (fs, s')) :
    fs.length ≤ s.length ∧ s'.length ≤ s.length := by
  unfold readUnpackInfo at h
  obtain ⟨pid, s1, h1, h⟩ := P.bind_inv h
  have l1 := read1_len h1
  split at h
  · exact (P.fail_inv h).elim
  obtain ⟨numfolders, s2, h2, h⟩ := P.bind_inv h
  have l2 := pNumber_len h2
  obtain ⟨external, s3, h3, h⟩ := P.bind_inv h
  have l3 := readByte_len h3
  split at h
  · exact (P.fail_inv h).elim
  obtain ⟨folders, s4, h4, h⟩ := P.bind_inv h
  have l4 := repeatP_len readFolder (fun _ _ _ => readFolder_len) _ _ _ _ h4
  obtain ⟨pid2, s5, h5, h⟩ := P.bind_inv h
  have l5 := read1_len h5
  split at h
  · exact (P.fail_inv h).elim
  obtain ⟨folders2, s6, h6, h⟩ := P.bind_inv h
  have l6 := readUnpackSizes_post _ _ _ _ h6
  obtain ⟨pid3, s7, h7, h⟩ := P.bind_inv h
  have l7 := read1_len h7
  obtain ⟨fp, s8, h8, h⟩ := P.bind_inv h
  have l8 : fp.1.length ≤ folders2.length ∧ s8.length ≤ s7.length := by
    split at h8
    · obtain ⟨defined, t1, g1, h8⟩ := P.bind_inv h8
      have := pBools_len g1
      obtain ⟨crcs, t2, g2, h8⟩ := P.bind_inv h8
      have := mapM_len (fun (d : Bool) => if d then (do let c ← pFixed 4; pure (some c)) else (pure none : P (Option Nat))) (by
        intro d t b t' g
        split at g
        · obtain ⟨c, u1, q1, g⟩ := P.bind_inv g
          have := P.pure_inv g; simp at this; obtain ⟨_, rfl⟩ := this
          exact pFixed_len q1
        · have := P.pure_inv g; simp at this; obtain ⟨_, rfl⟩ := this; omega) _ _ _ _ g2
      obtain ⟨pid4, t3, g3, h8⟩ := P.bind_inv h8
      have := read1_len g3
      have := P.pure_inv h8; simp at this; obtain ⟨rfl, rfl⟩ := this
      simp only [List.length_map, List.length_zip]; omega
    · have := P.pure_inv h8; simp at this; obtain ⟨rfl, rfl⟩ := this; simp
  obtain ⟨fo, pid5⟩ := fp
  simp only at h l8
  split at h
  · have := P.pure_inv h; simp at this; obtain ⟨rfl, rfl⟩ := this; omega
  · exact (P.fail_inv h).elim
  · exact (P.fail_inv h).elim

theorem readSubSizes_len : ∀ (ns : List Nat) (fs : List Folder) (s : Bytes) (out : List Nat) (s' : Bytes),
    readSubSizes ns fs s = .ok (out, s') → s'.length ≤ s.length
  | [], _, s, out, s', h => by
    simp only [readSubSizes] at h
    have := P.pure_inv h; simp at this; obtain ⟨_, rfl⟩ := this; omega
  | _ :: _, [], s, out, s', h => by
    simp only [readSubSizes] at h
    exact (P.fail_inv h).elim
  | n :: ns, f :: fs, s, out, s', h => by
    simp only [readSubSizes] at h
    split at h
    · exact readSubSizes_len ns fs s out s' h
    · obtain ⟨explicit, s1, h1, h⟩ := P.bind_inv h
      have l1 := repeatP_len pNumber (fun _ _ _ => pNumber_len) _ _ _ _ h1
      cases hfu : folderUnpackSize f with
      | none => simp only [hfu] at h; exact (P.fail_inv h).elim
      | some tot =>
        simp only [hfu] at h
        split at h
        · exact (P.fail_inv h).elim
        · obtain ⟨rest, s2, h2, h⟩ := P.bind_inv h
          have ih := readSubSizes_len ns fs s1 rest s2 h2
          have := P.pure_inv h; simp at this; obtain ⟨_, rfl⟩ := this; omega

theorem sum_replicate_one (n : Nat) : (List.replicate n 1).sum = n := by
  induction n with
  | zero => rfl
  | succ n ih => simp [List.replicate_succ, ih]; omega

/-- `SubstreamsInfo._read`: one count per folder, and the counts add up to no more than eight per header byte or
    (when the counts are implicit) to the number of folders -/
theorem readSubStreams_post {total : Nat} {folders : List Folder} {s : Bytes} {ss : SubStreams} {s' : Bytes}
    (h : readSubStreams total folders s = .ok (ss, s')) :
    ss.numUnpack.length = folders.length ∧ (ss.numUnpack.sum ≤ total * 8 ∨ ss.numUnpack.sum = folders.length) ∧
    s'.length ≤ s.length := by
  unfold readSubStreams at h
  simp only at h
  obtain ⟨pid, s1, h1, h⟩ := P.bind_inv h
  have l1 := read1_len h1
  obtain ⟨np, s2, h2, h⟩ := P.bind_inv h
  have l2 : np.1.length = folders.length ∧ (np.1.sum ≤ total * 8 ∨ np.1.sum = folders.length) ∧ s2.length ≤ s1.length := by
    split at h2
    · obtain ⟨ns, t1, g1, h2⟩ := P.bind_inv h2
      have := repeatP_len pNumber (fun _ _ _ => pNumber_len) _ _ _ _ g1
      split at h2
      · exact (P.fail_inv h2).elim
      · obtain ⟨pid', t2, g2, h2⟩ := P.bind_inv h2
        have := read1_len g2
        have := P.pure_inv h2; simp at this; obtain ⟨rfl, rfl⟩ := this
        exact ⟨by simp only; omega, Or.inl (by simp only; omega), by omega⟩
    · have := P.pure_inv h2; simp at this; obtain ⟨rfl, rfl⟩ := this
      exact ⟨by simp, Or.inr (sum_replicate_one _), by omega⟩
  obtain ⟨nums, pid2⟩ := np
  simp only at h l2
  obtain ⟨sp, s3, h3, h⟩ := P.bind_inv h
  have l3 : s3.length ≤ s2.length := by
    split at h3
    · obtain ⟨sz, t1, g1, h3⟩ := P.bind_inv h3
      have := readSubSizes_len _ _ _ _ _ g1
      obtain ⟨pid', t2, g2, h3⟩ := P.bind_inv h3
      have := read1_len g2
      have := P.pure_inv h3; simp at this; obtain ⟨_, rfl⟩ := this; omega
    · have := P.pure_inv h3; simp at this; obtain ⟨_, rfl⟩ := this; omega
  obtain ⟨sizes, pid3⟩ := sp
  simp only at h
  obtain ⟨dp, s4, h4, h⟩ := P.bind_inv h
  have l4 : s4.length ≤ s3.length := by
    split at h4
    · obtain ⟨defined, t1, g1, h4⟩ := P.bind_inv h4
      have := pBools_len g1
      obtain ⟨crcs, t2, g2, h4⟩ := P.bind_inv h4
      have := mapM_len (fun (d : Bool) => if d then pFixed 4 else (pure 0 : P Nat)) (by
        intro d t b t' g
        split at g
        · exact pFixed_len g
        · have := P.pure_inv g; simp at this; obtain ⟨_, rfl⟩ := this; omega) _ _ _ _ g2
      cases hd : assignDigests nums folders defined crcs with
      | none => simp only [hd] at h4; exact (P.fail_inv h4).elim
      | some dc =>
        obtain ⟨d, c⟩ := dc
        simp only [hd] at h4
        obtain ⟨pid', t3, g3, h4⟩ := P.bind_inv h4
        have := read1_len g3
        have := P.pure_inv h4; simp at this; obtain ⟨_, _, rfl⟩ := this; omega
    · have := P.pure_inv h4; simp at this; obtain ⟨_, _, rfl⟩ := this; omega
  obtain ⟨dd, ds, pid4⟩ := dp
  simp only at h
  split at h
  · exact (P.fail_inv h).elim
  · split at h
    · have := P.pure_inv h; simp at this; obtain ⟨rfl, rfl⟩ := this
      exact ⟨l2.1, l2.2.1, by omega⟩
    · have := P.pure_inv h; simp at this; obtain ⟨rfl, rfl⟩ := this
      exact ⟨l2.1, l2.2.1, by omega⟩

theorem readStreams_post {total : Nat} {s : Bytes} {st : Streams} {s' : Bytes}
    (h : readStreams total s = .ok (st, s')) (hs : s.length ≤ total) :
    (∀ p, st.packinfo = some p → p.packsizes.length ≤ total) ∧
    (∀ fs, st.folders = some fs → fs.length ≤ total) ∧
    (∀ ss, st.substreams = some ss → ss.numUnpack.sum ≤ total * 8 ∧ ss.numUnpack.length ≤ total) ∧
    s'.length ≤ s.length := by
  unfold readStreams at h
  obtain ⟨pid, s1, h1, h⟩ := P.bind_inv h
  have l1 := read1_len h1
  obtain ⟨pp, s2, h2, h⟩ := P.bind_inv h
  have l2 : (∀ p, pp.1 = some p → p.packsizes.length ≤ total) ∧ s2.length ≤ s1.length := by
    split at h2
    · obtain ⟨p, t1, g1, h2⟩ := P.bind_inv h2
      have := readPackInfo_post g1
      obtain ⟨pid', t2, g2, h2⟩ := P.bind_inv h2
      have := read1_len g2
      have := P.pure_inv h2; simp at this; obtain ⟨rfl, rfl⟩ := this
      refine ⟨?_, by omega⟩
      intro q hq; simp only [Option.some.injEq] at hq; subst hq; omega
    · have := P.pure_inv h2; simp at this; obtain ⟨rfl, rfl⟩ := this
      exact ⟨by intro q hq; simp at hq, by omega⟩
  obtain ⟨pk, pid2⟩ := pp
  simp only at h l2
  obtain ⟨fp, s3, h3, h⟩ := P.bind_inv h
  have l3 : (∀ fs, fp.1 = some fs → fs.length ≤ total) ∧ s3.length ≤ s2.length := by
    split at h3
    · obtain ⟨f, t1, g1, h3⟩ := P.bind_inv h3
      have := readUnpackInfo_post g1
      obtain ⟨pid', t2, g2, h3⟩ := P.bind_inv h3
      have := read1_len g2
      have := P.pure_inv h3; simp at this; obtain ⟨rfl, rfl⟩ := this
      refine ⟨?_, by omega⟩
      intro q hq; simp only [Option.some.injEq] at hq; subst hq; omega
    · have := P.pure_inv h3; simp at this; obtain ⟨rfl, rfl⟩ := this
      exact ⟨by intro q hq; simp at hq, by omega⟩
  obtain ⟨fo, pid3⟩ := fp
  simp only at h l3
  obtain ⟨sp, s4, h4, h⟩ := P.bind_inv h
  have l4 : (∀ ss, sp.1 = some ss → ss.numUnpack.sum ≤ total * 8 ∧ ss.numUnpack.length ≤ total) ∧ s4.length ≤ s3.length := by
    split at h4
    · cases fo with
      | none => simp only at h4; exact (P.fail_inv h4).elim
      | some folders =>
        simp only at h4
        obtain ⟨x, t1, g1, h4⟩ := P.bind_inv h4
        have post := readSubStreams_post g1
        obtain ⟨pid', t2, g2, h4⟩ := P.bind_inv h4
        have := read1_len g2
        have := P.pure_inv h4; simp at this; obtain ⟨rfl, rfl⟩ := this
        have hf := l3.1 folders rfl
        refine ⟨?_, by omega⟩
        intro q hq; simp only [Option.some.injEq] at hq; subst hq
        refine ⟨?_, by omega⟩
        rcases post.2.1 with h | h <;> omega
    · have := P.pure_inv h4; simp at this; obtain ⟨rfl, rfl⟩ := this
      exact ⟨by intro q hq; simp at hq, by omega⟩
  obtain ⟨sso, pid4⟩ := sp
  simp only at h l4
  split at h
  · exact (P.fail_inv h).elim
  · have := P.pure_inv h; simp at this; obtain ⟨rfl, rfl⟩ := this
    exact ⟨l2.1, l3.1, l4.1, by omega⟩

theorem onBuffer_inv {α} {buf : Bytes} {p : P α} {outer : Bytes} {a : α} {s' : Bytes}
    (h : onBuffer buf p outer = .ok (a, s')) : s' = outer ∧ ∃ r, p buf = .ok (a, r) := by
  unfold onBuffer at h
  cases hp : p buf with
  | error e => simp [hp] at h
  | ok v => obtain ⟨a', r⟩ := v; simp [hp] at h; obtain ⟨rfl, rfl⟩ := h; exact ⟨rfl, r, rfl⟩

theorem setNames_len : ∀ (fs : List FileEntry) (s : Bytes) (out : List FileEntry) (s' : Bytes),
    setNames fs s = .ok (out, s') → out.length = fs.length
  | [], s, out, s', h => by
    simp only [setNames] at h
    have := P.pure_inv h; simp at this; obtain ⟨rfl, _⟩ := this; rfl
  | f :: fs, s, out, s', h => by
    simp only [setNames] at h
    obtain ⟨n, s1, h1, h⟩ := P.bind_inv h
    obtain ⟨rest, s2, h2, h⟩ := P.bind_inv h
    have ih := setNames_len fs s1 rest s2 h2
    have := P.pure_inv h; simp at this; obtain ⟨rfl, _⟩ := this
    simp [ih]

theorem setTimes_len (k : TimeKind) : ∀ (fs : List FileEntry) (ds : List Bool) (s : Bytes) (out : List FileEntry) (s' : Bytes),
    setTimes k fs ds s = .ok (out, s') → out.length = fs.length
  | [], ds, s, out, s', h => by
    simp only [setTimes] at h
    have := P.pure_inv h; simp at this; obtain ⟨rfl, _⟩ := this; rfl
  | f :: fs, [], s, out, s', h => by
    simp only [setTimes] at h
    exact (P.fail_inv h).elim
  | f :: fs, d :: ds, s, out, s', h => by
    simp only [setTimes] at h
    obtain ⟨v, s1, h1, h⟩ := P.bind_inv h
    obtain ⟨rest, s2, h2, h⟩ := P.bind_inv h
    have ih := setTimes_len k fs ds s1 rest s2 h2
    have := P.pure_inv h; simp at this; obtain ⟨rfl, _⟩ := this
    simp [ih]

theorem setAttrs_len : ∀ (fs : List FileEntry) (ds : List Bool) (s : Bytes) (out : List FileEntry) (s' : Bytes),
    setAttrs fs ds s = .ok (out, s') → out.length = fs.length
  | [], ds, s, out, s', h => by
    simp only [setAttrs] at h
    have := P.pure_inv h; simp at this; obtain ⟨rfl, _⟩ := this; rfl
  | f :: fs, [], s, out, s', h => by
    simp only [setAttrs] at h
    exact (P.fail_inv h).elim
  | f :: fs, d :: ds, s, out, s', h => by
    simp only [setAttrs] at h
    obtain ⟨v, s1, h1, h⟩ := P.bind_inv h
    obtain ⟨rest, s2, h2, h⟩ := P.bind_inv h
    have ih := setAttrs_len fs ds s1 rest s2 h2
    have := P.pure_inv h; simp at this; obtain ⟨rfl, _⟩ := this
    simp [ih]

/-- the property loop never makes the member list longer and never gives bytes back -/
theorem readFileProps_post : ∀ (fuel numfiles : Nat) (fi : FilesInfo) (numEmpty : Nat) (s : Bytes) (out : FilesInfo) (s' : Bytes),
    readFileProps fuel numfiles fi numEmpty s = .ok (out, s') → out.files.length ≤ fi.files.length ∧ s'.length ≤ s.length
  | 0, _, _, _, s, out, s', h => by
    simp only [readFileProps] at h
    exact (P.fail_inv h).elim
  | fuel + 1, numfiles, fi, numEmpty, s, out, s', h => by
    simp only [readFileProps] at h
    obtain ⟨prop, s1, h1, h⟩ := P.bind_inv h
    have l1 := read1_len h1
    split at h
    · have := P.pure_inv h; simp at this; obtain ⟨rfl, rfl⟩ := this; exact ⟨Nat.le_refl _, l1⟩
    obtain ⟨size, s2, h2, h⟩ := P.bind_inv h
    have l2 := pNumber_len h2
    split at h
    · exact (P.fail_inv h).elim
    split at h
    · obtain ⟨_, s3, h3, h⟩ := P.bind_inv h
      have l3 := readBytes_len h3
      have ih := readFileProps_post fuel numfiles fi numEmpty s3 out s' h
      exact ⟨ih.1, by omega⟩
    obtain ⟨buf, s3, h3, h⟩ := P.bind_inv h
    have l3 := readBytes_len h3
    split at h
    · -- 0x0E
      obtain ⟨isempty, s4, h4, h⟩ := P.bind_inv h
      have e4 := (onBuffer_inv h4).1
      rw [e4] at h
      have ih := readFileProps_post fuel numfiles _ _ _ out s' h
      refine ⟨Nat.le_trans ih.1 ?_, by omega⟩
      simp only [List.length_map, List.length_zip]; omega
    · -- 0x0F
      obtain ⟨ef, s4, h4, h⟩ := P.bind_inv h
      have e4 := (onBuffer_inv h4).1
      rw [e4] at h
      have ih := readFileProps_post fuel numfiles _ _ _ out s' h
      exact ⟨ih.1, by omega⟩
    · -- 0x11
      obtain ⟨files, s4, h4, h⟩ := P.bind_inv h
      obtain ⟨e4, r, hr⟩ := onBuffer_inv h4
      rw [e4] at h
      have ih := readFileProps_post fuel numfiles _ _ _ out s' h
      obtain ⟨ext, t1, g1, hr⟩ := P.bind_inv hr
      split at hr
      · have := setNames_len _ _ _ _ hr
        exact ⟨by simp only at ih; omega, by omega⟩
      · exact (P.fail_inv hr).elim
    · -- 0x12
      obtain ⟨files, s4, h4, h⟩ := P.bind_inv h
      obtain ⟨e4, r, hr⟩ := onBuffer_inv h4
      rw [e4] at h
      have ih := readFileProps_post fuel numfiles _ _ _ out s' h
      obtain ⟨defined, t1, g1, hr⟩ := P.bind_inv hr
      obtain ⟨ext, t2, g2, hr⟩ := P.bind_inv hr
      split at hr
      · exact (P.fail_inv hr).elim
      · have := setTimes_len _ _ _ _ _ _ hr
        exact ⟨by simp only at ih; omega, by omega⟩
    · -- 0x13
      obtain ⟨files, s4, h4, h⟩ := P.bind_inv h
      obtain ⟨e4, r, hr⟩ := onBuffer_inv h4
      rw [e4] at h
      have ih := readFileProps_post fuel numfiles _ _ _ out s' h
      obtain ⟨defined, t1, g1, hr⟩ := P.bind_inv hr
      obtain ⟨ext, t2, g2, hr⟩ := P.bind_inv hr
      split at hr
      · exact (P.fail_inv hr).elim
      · have := setTimes_len _ _ _ _ _ _ hr
        exact ⟨by simp only at ih; omega, by omega⟩
    · -- 0x14
      obtain ⟨files, s4, h4, h⟩ := P.bind_inv h
      obtain ⟨e4, r, hr⟩ := onBuffer_inv h4
      rw [e4] at h
      have ih := readFileProps_post fuel numfiles _ _ _ out s' h
      obtain ⟨defined, t1, g1, hr⟩ := P.bind_inv hr
      obtain ⟨ext, t2, g2, hr⟩ := P.bind_inv hr
      split at hr
      · exact (P.fail_inv hr).elim
      · have := setTimes_len _ _ _ _ _ _ hr
        exact ⟨by simp only at ih; omega, by omega⟩
    · -- 0x15
      obtain ⟨files, s4, h4, h⟩ := P.bind_inv h
      obtain ⟨e4, r, hr⟩ := onBuffer_inv h4
      rw [e4] at h
      have ih := readFileProps_post fuel numfiles _ _ _ out s' h
      obtain ⟨defined, t1, g1, hr⟩ := P.bind_inv hr
      obtain ⟨ext, t2, g2, hr⟩ := P.bind_inv hr
      split at hr
      · have := setAttrs_len _ _ _ _ _ hr
        exact ⟨by simp only at ih; omega, by omega⟩
      · exact (P.fail_inv hr).elim
    · exact (P.fail_inv h).elim
    · exact (P.fail_inv h).elim

theorem readFilesInfo_post {total : Nat} {s : Bytes} {fi : FilesInfo} {s' : Bytes}
    (h : readFilesInfo total s = .ok (fi, s')) : fi.files.length ≤ total * 8 ∧ s'.length ≤ s.length := by
  unfold readFilesInfo at h
  obtain ⟨numfiles, s1, h1, h⟩ := P.bind_inv h
  have l1 := pNumber_len h1
  split at h
  · exact (P.fail_inv h).elim
  obtain ⟨bs, s2, h2, h⟩ := P.bind_inv h
  have e2 : s2 = s1 := by
    simp only [get, getThe, MonadStateOf.get, StateT.get, pure, Except.pure] at h2
    have := Except.ok.inj h2; simp at this; exact this.2.symm
  have post := readFileProps_post _ _ _ _ _ _ _ h
  simp only [List.length_replicate] at post
  subst e2
  exact ⟨by omega, by omega⟩

theorem readHeaderBody_post {total : Nat} {s : Bytes} {H : Header} {s' : Bytes}
    (h : readHeaderBody total s = .ok (H, s')) (hs : s.length ≤ total) :
    (∀ fi, H.filesInfo = some fi → fi.files.length ≤ total * 8) ∧
    (∀ st, H.mainStreams = some st →
      (∀ p, st.packinfo = some p → p.packsizes.length ≤ total) ∧
      (∀ fs, st.folders = some fs → fs.length ≤ total) ∧
      (∀ ss, st.substreams = some ss → ss.numUnpack.sum ≤ total * 8 ∧ ss.numUnpack.length ≤ total)) := by
  unfold readHeaderBody at h
  obtain ⟨pid, s1, h1, h⟩ := P.bind_inv h
  have l1 := read1_len h1
  obtain ⟨mp, s2, h2, h⟩ := P.bind_inv h
  have l2 : (∀ st, mp.1 = some st →
      (∀ p, st.packinfo = some p → p.packsizes.length ≤ total) ∧
      (∀ fs, st.folders = some fs → fs.length ≤ total) ∧
      (∀ ss, st.substreams = some ss → ss.numUnpack.sum ≤ total * 8 ∧ ss.numUnpack.length ≤ total)) ∧ s2.length ≤ s1.length := by
    split at h2
    · obtain ⟨st, t1, g1, h2⟩ := P.bind_inv h2
      have post := readStreams_post g1 (by omega)
      obtain ⟨pid', t2, g2, h2⟩ := P.bind_inv h2
      have := read1_len g2
      have := P.pure_inv h2; simp at this; obtain ⟨rfl, rfl⟩ := this
      refine ⟨?_, by omega⟩
      intro q hq; simp only [Option.some.injEq] at hq; subst hq
      exact ⟨post.1, post.2.1, post.2.2.1⟩
    · have := P.pure_inv h2; simp at this; obtain ⟨rfl, rfl⟩ := this
      exact ⟨by intro q hq; simp at hq, by omega⟩
  obtain ⟨ms, pid2⟩ := mp
  simp only at h l2
  obtain ⟨fp, s3, h3, h⟩ := P.bind_inv h
  have l3 : (∀ fi, fp.1 = some fi → fi.files.length ≤ total * 8) := by
    split at h3
    · obtain ⟨f, t1, g1, h3⟩ := P.bind_inv h3
      have post := readFilesInfo_post g1
      obtain ⟨pid', t2, g2, h3⟩ := P.bind_inv h3
      have := P.pure_inv h3; simp at this; obtain ⟨rfl, rfl⟩ := this
      intro q hq; simp only [Option.some.injEq] at hq; subst hq; exact post.1
    · have := P.pure_inv h3; simp at this; obtain ⟨rfl, rfl⟩ := this
      intro q hq; simp at hq
  obtain ⟨fio, pid3⟩ := fp
  simp only at h l3
  split at h
  · exact (P.fail_inv h).elim
  · have := P.pure_inv h; simp at this; obtain ⟨rfl, rfl⟩ := this
    exact ⟨l3, l2.1⟩

end SevenZ
