/-
The strict reader on the PackInfo section the writer model emits.
-/
import SevenZ.Lemmas.SpecProps
namespace SevenZ
open Impl Spec

theorem sRepeat_numbers (what : String) (sizes : List Nat) (hv : ∀ v ∈ sizes, v < 2 ^ 64) (rest : Bytes) :
    sRepeat sizes.length (sNumber what) (sizes.flatMap writeNumber ++ rest) = .ok (sizes, rest) := by
  induction sizes with
  | nil => rfl
  | cons v vs ih =>
    simp only [List.length_cons, sRepeat, List.flatMap_cons, List.append_assoc]
    rw [SP.bind_ok (sNumber_write v (hv v (by simp)) what _)]
    rw [SP.bind_ok (ih (fun x hx => hv x (by simp [hx])))]
    rfl

/-- the digests of the defined entries, as the writer lays them out, read back by the strict reader -/
theorem crc_vector_written (what : String) : ∀ (defined : List Bool) (crcs : List Nat) (k : Nat) (rest : Bytes),
    crcs.length = defined.length → (∀ c ∈ crcs, c < 256 ^ 4) →
    (defined.mapM (fun d => if d then (do let c ← sFixed 4 what; pure (some c)) else pure none) : SP (List (Option Nat)))
      ((((List.range defined.length).filter (fun i => defined.getD i false)).flatMap (fun i => leBytes (crcs.getD i 0) 4)) ++ rest) =
      .ok ((defined.zip crcs).map (fun (d, c) => if d then some c else none), rest) := by
  intro defined
  induction defined with
  | nil => intro crcs k rest hl _; cases crcs <;> simp_all <;> rfl
  | cons d ds ih =>
    intro crcs k rest hl hc
    cases crcs with
    | nil => simp at hl
    | cons c cs =>
      have hcs : cs.length = ds.length := by simpa using hl
      -- split the index range into 0 and the shifted tail
      have hrange : (List.range (ds.length + 1)).filter (fun i => (d :: ds).getD i false) =
          (if d then [0] else []) ++ ((List.range ds.length).filter (fun i => ds.getD i false)).map (· + 1) := by
        rw [List.range_succ_eq_map, List.filter_cons]
        simp only [List.getD_cons_zero]
        cases d <;> simp [List.filter_map, Function.comp_def]
      have hbytes : (((List.range (d :: ds).length).filter (fun i => (d :: ds).getD i false)).flatMap (fun i => leBytes ((c :: cs).getD i 0) 4)) =
          (if d then leBytes c 4 else []) ++
            (((List.range ds.length).filter (fun i => ds.getD i false)).flatMap (fun i => leBytes (cs.getD i 0) 4)) := by
        rw [List.length_cons, hrange, List.flatMap_append]
        congr 1
        · cases d <;> simp
        · rw [List.flatMap_map]
          rfl
      rw [hbytes]
      simp only [List.mapM_cons, List.zip_cons_cons, List.map_cons]
      have ih' := ih cs k rest hcs (fun x hx => hc x (by simp [hx]))
      cases d with
      | true =>
        simp only [if_true, List.append_assoc]
        rw [SP.bind_ok (a := some c) (s' := _)]
        · rw [SP.bind_ok ih']; rfl
        · rw [SP.bind_ok (sFixed_le c 4 (hc c (by simp)) what _)]; rfl
      | false =>
        simp only [Bool.false_eq_true, if_false, List.nil_append]
        rw [SP.bind_ok (a := none) (s' := _) rfl, SP.bind_ok ih']; rfl

end SevenZ

namespace SevenZ
open Impl Spec

/-- what the strict reader must recover from a written PackInfo -/
def expectedPack (p : PackInfo) : SPack :=
  { packpos := p.packpos, sizes := p.packsizes,
    crcs := if p.digestdefined.foldl (· || ·) p.enableDigests
            then (p.digestdefined.zip p.crcs).map (fun (d, c) => if d then some c else none)
            else List.replicate p.numstreams none }

/-- The PackInfo section as written is accepted by the strict reader and decodes to the same
    position, sizes and (defined) digests, for any number of packed streams. -/
theorem packinfo_strict_read (p : PackInfo) (bytes rest : Bytes) (hw : writePackInfo p = some bytes)
    (hpos : p.packpos < 2 ^ 64) (hn : p.numstreams < 2 ^ 64) (hv : ∀ v ∈ p.packsizes, v < 2 ^ 64)
    (hd : p.digestdefined.foldl (· || ·) p.enableDigests = true → p.digestdefined.length = p.numstreams)
    (hc : ∀ c ∈ p.crcs, c < 256 ^ 4) :
    sPackInfo (bytes.drop 1 ++ rest) = .ok (expectedPack p, rest) := by
  unfold writePackInfo at hw
  by_cases hne : p.numstreams ≠ p.packsizes.length
  · simp [hne] at hw
  · have hlen : p.numstreams = p.packsizes.length := by simpa using hne
    simp only [hne, if_false] at hw
    unfold sPackInfo expectedPack
    by_cases hen : p.digestdefined.foldl (· || ·) p.enableDigests = true
    · -- digests are written
      simp only [hen, if_true] at hw
      have hdl := hd hen
      by_cases hcl : p.crcs.length ≠ p.numstreams
      · simp [hcl] at hw
      · have hcl' : p.crcs.length = p.numstreams := by simpa using hcl
        have hnl : ¬ (p.digestdefined.length < p.numstreams) := by omega
        simp only [hcl, hnl, if_false, Option.some.injEq] at hw
        subst hw
        simp only [List.append_assoc, List.cons_append, List.nil_append, List.drop_succ_cons, List.drop_zero, hen, if_true]
        rw [SP.bind_ok (sNumber_write _ hpos _ _), SP.bind_ok (sNumber_write _ hn _ _)]
        rw [SP.bind_ok (sByte_cons _ _ _)]
        simp only [if_true]
        rw [hlen, SP.bind_ok (a := (p.packsizes, 0x0A)) (s' := writeBools p.digestdefined true ++
            ((List.range p.packsizes.length).filter (fun i => p.digestdefined.getD i false)).flatMap (fun i => leBytes (p.crcs.getD i 0) 4) ++ 0 :: rest)]
        · simp only [ne_eq, not_true_eq_false, if_false, if_true]
          rw [SP.bind_ok (a := ((p.digestdefined.zip p.crcs).map (fun (d, c) => if d then some c else none), 0)) (s' := rest)]
          · simp
          · have hdl2 : p.digestdefined.length = p.packsizes.length := by omega
            rw [← hdl2, List.append_assoc, SP.bind_ok (sBoolList_writeBools _ _ _)]
            have := crc_vector_written "pack CRC" p.digestdefined p.crcs 0 (0 :: rest) (by omega) hc
            rw [SP.bind_ok this, SP.bind_ok (sByte_cons _ _ _)]
            rfl
        · rw [SP.bind_ok (sRepeat_numbers _ _ hv _), SP.bind_ok (sByte_cons _ _ _)]
          simp only [SP.pure_run, List.append_assoc]
    · -- no digest property
      simp only [hen, Bool.false_eq_true, if_false, Option.some.injEq] at hw
      subst hw
      simp only [List.append_assoc, List.cons_append, List.nil_append, List.drop_succ_cons, List.drop_zero, hen, Bool.false_eq_true, if_false]
      rw [SP.bind_ok (sNumber_write _ hpos _ _), SP.bind_ok (sNumber_write _ hn _ _)]
      rw [SP.bind_ok (sByte_cons _ _ _)]
      simp only [if_true]
      rw [hlen, SP.bind_ok (a := (p.packsizes, 0)) (s' := rest)]
      · simp
      · rw [SP.bind_ok (sRepeat_numbers _ _ hv _), SP.bind_ok (sByte_cons _ _ _)]
        rfl

end SevenZ
