/-
Composition: the strict reader (`Spec.sFilesInfo`) reads the whole FilesInfo section the writer
model emits (`Impl.writeFilesInfo`) and recovers names, empty-stream flags, times and
attributes of every member.
-/
import SevenZ.Lemmas.SpecNames
namespace SevenZ
open Impl Spec

/-- "for every sufficiently large fuel": the form in which the property steps compose -/
def ReadsTo (m n : Nat) (files : List SFile) (ne : Nat) (seen : Bool) (bytes : Bytes)
    (res : Except String (List SFile × Bytes)) : Prop :=
  ∀ fuel, m ≤ fuel → sFileProps fuel n files ne seen bytes = res

theorem ReadsTo.end_ (n : Nat) (files : List SFile) (ne : Nat) (seen : Bool) (rest : Bytes) :
    ReadsTo 1 n files ne seen (0 :: rest) (.ok (files, rest)) := by
  intro fuel hf
  cases fuel with
  | zero => omega
  | succ f =>
    rw [sFileProps, SP.bind_ok (sByte_cons _ _ _)]
    simp

theorem ReadsTo.step {m n : Nat} {files files' : List SFile} {ne ne' : Nat} {seen seen' : Bool} {block rest : Bytes}
    {res : Except String (List SFile × Bytes)}
    (hstep : ∀ fuel, sFileProps (fuel + 1) n files ne seen (block ++ rest) = sFileProps fuel n files' ne' seen' rest)
    (h : ReadsTo m n files' ne' seen' rest res) : ReadsTo (m + 1) n files ne seen (block ++ rest) res := by
  intro fuel hf
  cases fuel with
  | zero => omega
  | succ f => rw [hstep f]; exact h f (by omega)

theorem ReadsTo.mono {m m' n : Nat} {files : List SFile} {ne : Nat} {seen : Bool} {bytes : Bytes}
    {res : Except String (List SFile × Bytes)} (h : ReadsTo m n files ne seen bytes res) (hm : m ≤ m') :
    ReadsTo m' n files ne seen bytes res :=
  fun fuel hf => h fuel (by omega)

/-- EmptyStream property as written: `0x0E`, size ⌈n/8⌉, the packed bits -/
theorem spec_emptystream_step (fuel n : Nat) (files : List SFile) (es : List Bool) (hlen : es.length = n)
    (hn : n < 2 ^ 32) (rest : Bytes) :
    sFileProps (fuel + 1) n files 0 false ([0x0E] ++ writeNumber (bitsToBytes n) ++ writeBools es false ++ rest) =
      sFileProps fuel n (setList files es (fun f b => { f with emptyStream := b })) (es.filter (fun b => b)).length true rest := by
  have hsz : bitsToBytes n < 2 ^ 64 := by
    have : (2:Nat) ^ 32 < 2 ^ 64 := by decide
    simp [bitsToBytes]; omega
  simp only [List.append_assoc, List.cons_append, List.nil_append]
  rw [sFileProps, SP.bind_ok (sByte_cons _ _ _)]
  simp only [show (0x0E : Nat) ≠ 0 by decide, if_false]
  rw [SP.bind_ok (sNumber_write _ hsz _ _)]
  have hwb : writeBools es false = packBits es := by simp [writeBools]
  have hlen2 : (packBits es).length = bitsToBytes n := by
    rw [← hwb, writeBools_length, hlen]
  have hinner : sBitField n "EmptyStream" (packBits es) = .ok (es, []) := by
    have := sBitField_packBits es "EmptyStream" []
    rw [hlen] at this
    simpa using this
  show (do
      let bits ← sSized (bitsToBytes n) "EmptyStream" (sBitField n "EmptyStream")
      sFileProps fuel n (setList files bits (fun f b => { f with emptyStream := b })) (bits.filter (fun b => b)).length true) _ = _
  rw [hwb, ← hlen2, SP.bind_ok (sSized_exact _ _ _ rest _ hinner)]

/-- kDummy padding as written: `0x19`, a one-byte size, that many zero bytes -/
theorem spec_dummy_step (fuel n ne : Nat) (seen : Bool) (files : List SFile) (k : Nat) (hk : k < 0x80) (rest : Bytes) :
    sFileProps (fuel + 1) n files ne seen ([0x19, k] ++ List.replicate k 0 ++ rest) = sFileProps fuel n files ne seen rest := by
  simp only [List.append_assoc, List.cons_append, List.nil_append]
  rw [sFileProps, SP.bind_ok (sByte_cons _ _ _)]
  simp only [show (0x19 : Nat) ≠ 0 by decide, if_false]
  have hw : writeNumber k = [k] := by simp [writeNumber, hk]
  have hnum : sNumber "file property size" (k :: (List.replicate k 0 ++ rest)) = .ok (k, List.replicate k 0 ++ rest) := by
    have := sNumber_write k (by omega) "file property size" (List.replicate k 0 ++ rest)
    rwa [hw] at this
  rw [SP.bind_ok hnum]
  have htake : sTake k "Dummy" (List.replicate k 0 ++ rest) = .ok (List.replicate k 0, rest) := by
    have := sTake_append (List.replicate k 0) rest "Dummy"
    simpa using this
  show (do
      let pad ← sTake k "Dummy"
      if pad.any (· ≠ 0) then sfail "non-zero Dummy padding" else
      sFileProps fuel n files ne seen) _ = _
  rw [SP.bind_ok htake]
  have : (List.replicate k 0).any (fun x => decide (x ≠ 0)) = false := by simp
  simp [this]

end SevenZ

namespace SevenZ
open Impl Spec

theorem setList_map {α β : Type} (l : List α) (g : α → SFile) (h : α → β) (f : SFile → β → SFile) :
    setList (l.map g) (l.map h) f = l.map (fun e => f (g e) (h e)) := by
  induction l with
  | nil => rfl
  | cons a l ih =>
    simp only [setList, List.map_cons, List.zip_cons_cons, List.cons.injEq, true_and] at ih ⊢
    exact ih

def nameOf (e : FileEntry) : List Nat := e.filename.getD []

theorem filterMap_names (files : List FileEntry) (h : ∀ e ∈ files, e.filename.isSome = true) :
    files.filterMap (·.filename) = files.map nameOf := by
  induction files with
  | nil => rfl
  | cons e es ih =>
    have he := h e (by simp)
    cases hf : e.filename with
    | none => rw [hf] at he; simp at he
    | some nm =>
      simp only [List.filterMap_cons, hf, List.map_cons, nameOf, Option.getD_some]
      rw [ih (fun x hx => h x (by simp [hx]))]

/-- what the strict reader must recover for a member the writer described -/
def toSFile (e : FileEntry) : SFile :=
  { name := e.filename, emptyStream := e.emptystream, mtime := slotOpt e.mtime, attr := slotOpt e.attributes }

theorem padBlock_shape (pos : Nat) : padBlock pos = [] ∨ ∃ k, k < 0x80 ∧ padBlock pos = [0x19, k] ++ List.replicate k 0 := by
  unfold padBlock
  simp only
  generalize hp : (if 0 < (4 - pos % 4) % 4 ∧ (4 - pos % 4) % 4 ≤ 2 then (4 - pos % 4) % 4 + 4 else (4 - pos % 4) % 4) = padlen
  have hle : padlen ≤ 6 := by subst hp; split <;> omega
  by_cases h : padlen > 2
  · right
    exact ⟨padlen - 2, by omega, by simp [h]⟩
  · left
    simp [h]

/-- the part of the section after the EmptyStream property, for any state of the reader -/
theorem files_tail_reads (files : List FileEntry) (pos : Nat) (rest : Bytes) (ne : Nat) (seen : Bool) (F1 : List FileEntry → List SFile)
    (g : FileEntry → SFile) (hF1 : F1 files = files.map g)
    (hnm : ∀ e ∈ files, e.filename.isSome = true) (hsc : ∀ e ∈ files, ∀ c ∈ nameOf e, IsScalar c)
    (hn : files.length < 2 ^ 32)
    (hmt : ∀ e ∈ files, ∀ t, e.mtime = .val t → t < 256 ^ 8) (hat : ∀ e ∈ files, ∀ t, e.attributes = .val t → t < 256 ^ 4)
    (hsize : ((files.map nameOf).map (fun n => 2 * (n.flatMap unitsOf).length + 2)).sum + 1 < 2 ^ 64) :
    ReadsTo 5 files.length (F1 files) ne seen
      (padBlock pos ++ (namesBlock files ++ (timesBlock true 0x14 (files.map (·.mtime)) ++ (attrsBlock true (files.map (·.attributes)) ++ 0 :: rest))))
      (.ok (files.map (fun e => { g e with name := (if files = [] then (g e).name else some (nameOf e)), mtime := slotOpt e.mtime, attr := slotOpt e.attributes }), rest)) := by
  -- build the chain from the END marker backwards
  have hmts : ∀ s ∈ files.map (·.mtime), ∀ t, s = .val t → t < 256 ^ 8 := by
    intro s hs t ht
    simp only [List.mem_map] at hs
    obtain ⟨e, he, rfl⟩ := hs
    exact hmt e he t ht
  have hats : ∀ s ∈ files.map (·.attributes), ∀ t, s = .val t → t < 256 ^ 4 := by
    intro s hs t ht
    simp only [List.mem_map] at hs
    obtain ⟨e, he, rfl⟩ := hs
    exact hat e he t ht
  -- names
  have hnames : ∀ (G : List SFile) (g2 : FileEntry → SFile), G = files.map g2 →
      ∀ res, ReadsTo 3 files.length (files.map (fun e => { g2 e with name := (if files = [] then (g2 e).name else some (nameOf e)) })) ne seen
        (timesBlock true 0x14 (files.map (·.mtime)) ++ (attrsBlock true (files.map (·.attributes)) ++ 0 :: rest)) res →
      ReadsTo 4 files.length G ne seen
        (namesBlock files ++ (timesBlock true 0x14 (files.map (·.mtime)) ++ (attrsBlock true (files.map (·.attributes)) ++ 0 :: rest))) res := by
    intro G g2 hG res hrest
    by_cases hemp : files = []
    · subst hemp
      subst hG
      simp only [namesBlock, List.filterMap_nil, List.isEmpty_nil, if_true, List.nil_append, List.map_nil] at hrest ⊢
      exact hrest.mono (by omega)
    · have hne : files.map nameOf ≠ [] := by simpa using hemp
      refine ReadsTo.step (files' := setList G (files.map nameOf) (fun f v => { f with name := some v })) (ne' := ne) (seen' := seen) ?_ ?_
      · intro fuel
        exact spec_names_step fuel files.length ne seen G files (files.map nameOf) (filterMap_names files hnm) hne (by simp)
          (by
            intro nm hnm' c hc
            simp only [List.mem_map] at hnm'
            obtain ⟨e, he, rfl⟩ := hnm'
            exact hsc e he c hc) hsize _
      · rw [hG, setList_map]
        simp only [hemp, if_false] at hrest
        exact hrest
  -- times and attributes
  have htimes : ∀ (g2 : FileEntry → SFile),
      ReadsTo 3 files.length (files.map g2) ne seen
        (timesBlock true 0x14 (files.map (·.mtime)) ++ (attrsBlock true (files.map (·.attributes)) ++ 0 :: rest))
        (.ok (files.map (fun e => { g2 e with mtime := slotOpt e.mtime, attr := slotOpt e.attributes }), rest)) := by
    intro g2
    refine ReadsTo.step (files' := setList (files.map g2) ((files.map (·.mtime)).map slotOpt) (fun f t => { f with mtime := t })) (ne' := ne) (seen' := seen) ?_ ?_
    · intro fuel
      exact spec_times_step fuel files.length ne seen _ _ (by simp) (by simpa using hn) hmts _
    · rw [List.map_map, setList_map]
      refine ReadsTo.step (files' := setList (files.map (fun e => { g2 e with mtime := (slotOpt ∘ fun x => x.mtime) e })) ((files.map (·.attributes)).map slotOpt) (fun f t => { f with attr := t })) (ne' := ne) (seen' := seen) ?_ ?_
      · intro fuel
        exact spec_attrs_step fuel files.length ne seen _ _ (by simp) (by simpa using hn) hats _
      · rw [List.map_map, setList_map]
        have := ReadsTo.end_ files.length (files.map (fun e => { g2 e with mtime := slotOpt e.mtime, attr := slotOpt e.attributes })) ne seen rest
        exact this
  -- padding
  rw [hF1]
  have hafter := hnames (files.map g) g rfl _ (htimes (fun e => { g e with name := (if files = [] then (g e).name else some (nameOf e)) }))
  rcases padBlock_shape pos with hp | ⟨k, hk, hp⟩
  · rw [hp, List.nil_append]
    exact hafter.mono (by omega)
  · rw [hp]
    exact ReadsTo.step (fun fuel => spec_dummy_step fuel files.length ne seen _ k hk _) hafter

end SevenZ

namespace SevenZ
open Impl Spec

theorem names_sum_ge (names : List (List Nat)) :
    2 * names.length ≤ (names.map (fun n => 2 * (n.flatMap unitsOf).length + 2)).sum := by
  induction names with
  | nil => simp
  | cons nm rest ih => simp only [List.length_cons, List.map_cons, List.sum_cons]; omega

theorem namesBlock_length_ge (files : List FileEntry) (h : ∀ e ∈ files, e.filename.isSome = true) :
    2 * files.length ≤ (namesBlock files).length + 2 := by
  unfold namesBlock
  simp only [filterMap_names files h]
  split
  · rename_i hemp
    have : files = [] := by
      cases files with
      | nil => rfl
      | cons a l => simp at hemp
    subst this; simp
  · simp only [List.length_append, List.length_cons, List.length_nil, names_bytes_length]
    have := names_sum_ge (files.map nameOf)
    simp only [List.length_map] at this
    omega

theorem timesBlock_length_ge (p : Nat) (slots : List (Slot Nat)) : 2 ≤ (timesBlock true p slots).length := by
  unfold timesBlock; simp only [List.length_append, List.length_cons, List.length_nil]; omega

theorem attrsBlock_length_ge (slots : List (Slot Nat)) : 2 ≤ (attrsBlock true slots).length := by
  unfold attrsBlock; simp only [List.length_append, List.length_cons, List.length_nil]; omega

theorem sFilesInfo_of_reads (n : Nat) (hn64 : n < 2 ^ 64) (B : Bytes) (res : Except String (List SFile × Bytes))
    (h5 : 5 ≤ B.length) (hb : n ≤ B.length * 8 + 8)
    (hall : ReadsTo 6 n (List.replicate n {}) 0 false B res) : sFilesInfo (writeNumber n ++ B) = res := by
  unfold sFilesInfo
  rw [SP.bind_ok (sNumber_write _ hn64 _ _)]
  rw [SP.bind_ok (a := B) (s' := B) rfl]
  have hbound : ¬ (n > B.length * 8 + 8) := by omega
  simp only [hbound, if_false]
  exact hall (B.length + 1) (by omega)

/-- The FilesInfo section the writer emits — for any number of members, any names (BMP and
    astral), any pattern of empty-stream entries, any defined/undefined times and attributes,
    at any file offset (padding) — is accepted by the strict reader, which recovers for every
    member exactly the name, the empty-stream flag, the modification time and the attribute
    word that were written, undefined entries staying undefined. -/
theorem filesinfo_strict_read (fi : FilesInfo) (pos : Nat) (rest : Bytes)
    (hnm : ∀ e ∈ fi.files, e.filename.isSome = true) (hsc : ∀ e ∈ fi.files, ∀ c ∈ nameOf e, IsScalar c)
    (hn : fi.files.length < 2 ^ 32)
    (hmt : ∀ e ∈ fi.files, ∀ t, e.mtime = .val t → t < 256 ^ 8) (hat : ∀ e ∈ fi.files, ∀ t, e.attributes = .val t → t < 256 ^ 4)
    (hsize : ((fi.files.map nameOf).map (fun n => 2 * (n.flatMap unitsOf).length + 2)).sum + 1 < 2 ^ 64)
    (hef : (fi.files.map (·.emptystream)).any id = false → fi.emptyfiles.any id = false) :
    sFilesInfo ((writeFilesInfo true fi pos).drop 1 ++ rest) = .ok (fi.files.map toSFile, rest) := by
  have hn64 : fi.files.length < 2 ^ 64 := by
    have : (2:Nat) ^ 32 < 2 ^ 64 := by decide
    omega
  have hresult : ∀ (g : FileEntry → SFile), (∀ e ∈ fi.files, g e = { emptyStream := e.emptystream }) →
      fi.files.map (fun e => { g e with name := (if fi.files = [] then (g e).name else some (nameOf e)), mtime := slotOpt e.mtime, attr := slotOpt e.attributes }) =
        fi.files.map toSFile := by
    intro g hg
    apply List.map_congr_left
    intro e he
    have hne : fi.files ≠ [] := by intro h0; rw [h0] at he; simp at he
    have hname : some (nameOf e) = e.filename := by
      have := hnm e he
      cases hf : e.filename with
      | none => rw [hf] at this; simp at this
      | some nm => simp [nameOf, hf]
    simp only [hne, if_false, hg e he, toSFile, hname]
  have h1 := namesBlock_length_ge fi.files hnm
  have h2 := timesBlock_length_ge 0x14 (fi.files.map (·.mtime))
  have h3 := attrsBlock_length_ge (fi.files.map (·.attributes))
  unfold writeFilesInfo
  by_cases hes : (fi.files.map (·.emptystream)).any id = true
  · -- an EmptyStream property is present
    simp only [hes, if_true, List.append_assoc, List.cons_append, List.nil_append, List.drop_succ_cons, List.drop_zero]
    have htail := files_tail_reads fi.files
      (pos + (5 :: (writeNumber fi.files.length ++ 14 :: (writeNumber (bitsToBytes fi.files.length) ++ writeBools (fi.files.map (·.emptystream)) false))).length)
      rest ((fi.files.map (·.emptystream)).filter (fun b => b)).length true
      (fun fs => setList (List.replicate fs.length {}) (fs.map (·.emptystream)) (fun f b => { f with emptyStream := b }))
      (fun e => { emptyStream := e.emptystream })
      (by
        have : List.replicate fi.files.length ({} : SFile) = fi.files.map (fun _ => {}) := by rw [List.map_const']
        show setList (List.replicate fi.files.length {}) _ _ = _
        rw [this, setList_map])
      hnm hsc hn hmt hat hsize
    refine sFilesInfo_of_reads _ hn64 _ _ ?_ ?_ ?_
    · simp only [List.length_append, List.length_cons]; omega
    · simp only [List.length_append, List.length_cons]; omega
    · rw [← hresult (fun e => { emptyStream := e.emptystream }) (fun _ _ => rfl)]
      have hs := fun fuel => spec_emptystream_step fuel fi.files.length (List.replicate fi.files.length {}) (fi.files.map (·.emptystream))
        (by simp) hn
      have := ReadsTo.step (block := [0x0E] ++ writeNumber (bitsToBytes fi.files.length) ++ writeBools (fi.files.map (·.emptystream)) false)
        (fun fuel => hs fuel _) htail
      simpa [List.append_assoc] using this
  · -- no empty-stream entry at all
    have hes' : (fi.files.map (·.emptystream)).any id = false := by simpa using hes
    have hef' := hef hes'
    simp only [hes', hef', Bool.false_eq_true, if_false, List.append_nil, List.nil_append, List.append_assoc, List.cons_append,
      List.drop_succ_cons, List.drop_zero]
    have hallfalse : ∀ e ∈ fi.files, e.emptystream = false := by
      intro e he
      have := List.any_eq_false.1 hes' (e.emptystream) (List.mem_map_of_mem he)
      simpa using this
    have htail := files_tail_reads fi.files (pos + (5 :: writeNumber fi.files.length).length) rest 0 false
      (fun fs => List.replicate fs.length {}) (fun _ => {})
      (by show List.replicate fi.files.length ({} : SFile) = _; rw [List.map_const']) hnm hsc hn hmt hat hsize
    refine sFilesInfo_of_reads _ hn64 _ _ ?_ ?_ ?_
    · simp only [List.length_append, List.length_cons]; omega
    · simp only [List.length_append, List.length_cons]; omega
    · rw [← hresult (fun _ => {}) (fun e he => by simp [hallfalse e he])]
      exact htail.mono (by omega)

end SevenZ
