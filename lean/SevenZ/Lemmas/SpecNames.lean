/-
The strict reader on the Names property the writer model emits.
-/
import SevenZ.Lemmas.SpecProps
import SevenZ.Lemmas.Utf16
namespace SevenZ
open Impl Spec

theorem spec_decode_eq : ∀ (us : List Nat), decodeUtf16Units us = decodeUnits us := by
  intro us
  induction us using List.rec with
  | nil => rfl
  | cons u rest ih =>
    -- the surrogate case looks two units ahead: strong induction on the length is simpler
    revert ih
    exact fun _ => by
      have : ∀ n (l : List Nat), l.length ≤ n → decodeUtf16Units l = decodeUnits l := by
        intro n
        induction n with
        | zero => intro l hl; cases l with
          | nil => rfl
          | cons _ _ => simp at hl
        | succ n ihn =>
          intro l hl
          cases l with
          | nil => rfl
          | cons a t =>
            rw [decodeUtf16Units.eq_def, decodeUnits.eq_def]
            simp only
            by_cases h1 : 0xD800 ≤ a ∧ a < 0xDC00
            · simp only [h1, and_self, if_true]
              cases t with
              | nil => rfl
              | cons b t2 =>
                simp only
                by_cases h2 : 0xDC00 ≤ b ∧ b < 0xE000
                · simp only [h2, and_self, if_true]
                  rw [ihn t2 (by simp at hl; omega)]
                · simp only [h2, if_false]
            · simp only [h1, if_false]
              by_cases h3 : 0xDC00 ≤ a ∧ a < 0xE000
              · simp only [h3, and_self, if_true]
              · simp only [h3, if_false]
                rw [ihn t (by simp at hl; omega)]
      exact this _ _ (Nat.le_refl _)

theorem unitsToBytes_length (us : List Nat) : (unitsToBytes us).length = 2 * us.length := by
  induction us with
  | nil => rfl
  | cons u us ih => simp [unitsToBytes, ih]; omega

/-- the strict reader's name splitter over one written name -/
theorem splitNames_units (us : List Nat) (hu : ∀ u ∈ us, 0 < u ∧ u < 65536) (k : Nat) (rest : Bytes) (acc : List Nat) :
    splitNames (k + us.length + 1) (unitsToBytes us ++ 0 :: 0 :: rest) acc =
      match decodeUtf16Units (acc.reverse ++ us) with
      | none => .error "invalid UTF-16 in file name"
      | some cs => (splitNames k rest []).map (fun r => cs :: r) := by
  induction us generalizing acc with
  | nil =>
    simp only [unitsToBytes, List.nil_append, List.length_nil, Nat.add_zero, List.append_nil]
    rw [splitNames]
    all_goals (try simp)
    all_goals (cases decodeUtf16Units acc.reverse <;> rfl)
  | cons u us ih =>
    have hu0 := hu u (by simp)
    simp only [unitsToBytes, List.cons_append, List.length_cons]
    have hf : k + (us.length + 1) + 1 = (k + us.length + 1) + 1 := by omega
    rw [hf, splitNames]
    · have hne : ¬ (u % 256 + 256 * (u / 256) = 0) := by omega
      simp only [hne, if_false]
      have hval : u % 256 + 256 * (u / 256) = u := by omega
      rw [hval, ih (fun x hx => hu x (by simp [hx])) (u :: acc)]
      simp only [List.reverse_cons, List.append_assoc, List.singleton_append]
    all_goals (try simp)

theorem splitNames_names (names : List (List Nat)) (hs : ∀ nm ∈ names, ∀ c ∈ nm, IsScalar c) (k : Nat) :
    splitNames (k + (names.map (fun nm => (nm.flatMap unitsOf).length + 1)).sum) (names.flatMap writeUtf16) [] = .ok names := by
  induction names with
  | nil => cases k <;> rfl
  | cons nm rest ih =>
    have hu : ∀ u ∈ nm.flatMap unitsOf, 0 < u ∧ u < 65536 := by
      intro u hu
      rw [List.mem_flatMap] at hu
      obtain ⟨c, hc, huc⟩ := hu
      exact unitsOf_ok c (hs nm (by simp) c hc) u huc
    simp only [List.map_cons, List.sum_cons, List.flatMap_cons]
    rw [show writeUtf16 nm = unitsToBytes (nm.flatMap unitsOf) ++ [0, 0] from rfl]
    simp only [List.append_assoc, List.cons_append, List.nil_append]
    have hf : k + ((nm.flatMap unitsOf).length + 1 + (rest.map (fun nm => (nm.flatMap unitsOf).length + 1)).sum) =
        (k + (rest.map (fun nm => (nm.flatMap unitsOf).length + 1)).sum) + (nm.flatMap unitsOf).length + 1 := by omega
    rw [hf, splitNames_units _ hu]
    simp only [List.reverse_nil, List.nil_append]
    rw [spec_decode_eq, decode_flatMap nm (hs nm (by simp))]
    have := ih (fun n hn => hs n (by simp [hn]))
    rw [this]
    rfl

end SevenZ

namespace SevenZ
open Impl Spec

theorem names_bytes_length (names : List (List Nat)) :
    (names.flatMap writeUtf16).length = (names.map (fun n => 2 * (n.flatMap unitsOf).length + 2)).sum := by
  induction names with
  | nil => rfl
  | cons nm rest ih =>
    simp only [List.flatMap_cons, List.length_append, List.map_cons, List.sum_cons, ih, writeUtf16,
      unitsToBytes_length, List.length_cons, List.length_nil]

theorem names_units_sum (names : List (List Nat)) :
    (names.map (fun n => 2 * (n.flatMap unitsOf).length + 2)).sum =
      2 * (names.map (fun nm => (nm.flatMap unitsOf).length + 1)).sum := by
  induction names with
  | nil => rfl
  | cons nm rest ih => simp only [List.map_cons, List.sum_cons, ih]; omega

/-- one step of the strict reader's property loop over a written Names block: every name is
    recovered, code point by code point (BMP and astral), for any number of names -/
theorem spec_names_step (fuel n ne : Nat) (seen : Bool) (sfiles : List SFile) (entries : List FileEntry)
    (names : List (List Nat)) (hnames : entries.filterMap (·.filename) = names) (hne : names ≠ [])
    (hlen : names.length = n) (hs : ∀ nm ∈ names, ∀ c ∈ nm, IsScalar c)
    (hsize : (names.map (fun n => 2 * (n.flatMap unitsOf).length + 2)).sum + 1 < 2 ^ 64) (rest : Bytes) :
    sFileProps (fuel + 1) n sfiles ne seen (namesBlock entries ++ rest) =
      sFileProps fuel n (setList sfiles names (fun f v => { f with name := some v })) ne seen rest := by
  unfold namesBlock
  simp only [hnames]
  have hemp : names.isEmpty = false := by cases names <;> simp_all
  simp only [hemp, Bool.false_eq_true, if_false, List.append_assoc, List.cons_append, List.nil_append]
  generalize hsz : (names.map (fun n => 2 * (n.flatMap unitsOf).length + 2)).sum = size at hsize
  rw [sFileProps]
  rw [SP.bind_ok (sByte_cons _ _ _)]
  simp only [show (0x11 : Nat) ≠ 0 by decide, if_false]
  rw [SP.bind_ok (sNumber_write (size + 1) hsize _ _)]
  have hblen : (0 :: names.flatMap writeUtf16).length = size + 1 := by
    rw [List.length_cons, names_bytes_length, hsz]
  have hinner : sNamesBody (0 :: names.flatMap writeUtf16) = .ok (names, []) := by
    unfold sNamesBody
    rw [SP.bind_ok (sByte_cons _ _ _)]
    simp only [ne_eq, not_true_eq_false, if_false]
    rw [SP.bind_ok (a := names.flatMap writeUtf16) (s' := names.flatMap writeUtf16) rfl]
    rw [SP.bind_ok (a := ()) (s' := ([] : Bytes)) rfl]
    have hfuel : (names.flatMap writeUtf16).length + 1 =
        ((names.map (fun nm => (nm.flatMap unitsOf).length + 1)).sum + 1) + (names.map (fun nm => (nm.flatMap unitsOf).length + 1)).sum := by
      rw [names_bytes_length, names_units_sum]; omega
    rw [hfuel, splitNames_names names hs]
    rfl
  show (do
      let names' ← sSized (size + 1) "Names" sNamesBody
      if names'.length ≠ n then sfail s!"{names'.length} names for {n} files" else
      sFileProps fuel n (setList sfiles names' (fun f v => { f with name := some v })) ne seen) _ = _
  have hb : (0 :: (names.flatMap writeUtf16 ++ rest)) = (0 :: names.flatMap writeUtf16) ++ rest := by simp
  rw [hb, ← hblen, SP.bind_ok (sSized_exact _ _ _ rest _ hinner)]
  simp only [hlen, ne_eq, not_true_eq_false, if_false]

end SevenZ
