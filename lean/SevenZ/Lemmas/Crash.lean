/- Lemmas about torn signature headers and the images a crash can leave (C14). -/
import SevenZ.Lemmas.Crc32
import SevenZ.Lemmas.Number
import SevenZ.Lemmas.Compressor
import SevenZ.Model.CrashSession
namespace SevenZ
open SevenZ.Impl

theorem crc32_lt (a : Bytes) : crc32 a < 2 ^ 32 := crc32Update_lt 0 a

/-- a 32-byte record `A ++ C ++ F` (8 + 4 + 20) torn after `k` bytes over an older one with the same first eight
    bytes: the tear falls in the shared prefix, inside the CRC field, or inside the 20 field bytes -/
theorem torn_sig_cases (A C C0 F F0 : Bytes) (hA : A.length = 8) (hC : C.length = 4) (hC0 : C0.length = 4)
    (hF : F.length = 20) (hF0 : F0.length = 20) (k : Nat) (hk : k ≤ 32) :
    (A ++ C ++ F).take k ++ (A ++ C0 ++ F0).drop k = A ++ C0 ++ F0 ∨
    (∃ j, 0 < j ∧ j < 4 ∧ (A ++ C ++ F).take k ++ (A ++ C0 ++ F0).drop k = A ++ (C.take j ++ C0.drop j) ++ F0) ∨
    (∃ j, j ≤ 20 ∧ (A ++ C ++ F).take k ++ (A ++ C0 ++ F0).drop k = A ++ C ++ (F.take j ++ F0.drop j)) := by
  by_cases h1 : k ≤ 8
  · left
    rw [List.append_assoc, List.append_assoc, List.take_append_of_le_length (by omega),
      List.drop_append_of_le_length (by omega), ← List.append_assoc, List.take_append_drop]
  · by_cases h2 : k < 12
    · right; left
      refine ⟨k - 8, by omega, by omega, ?_⟩
      have e1 : (A ++ C ++ F).take k = A ++ C.take (k - 8) := by
        rw [List.append_assoc, List.take_append, List.take_of_length_le (by omega), hA,
          List.take_append_of_le_length (by omega)]
      have e2 : (A ++ C0 ++ F0).drop k = C0.drop (k - 8) ++ F0 := by
        rw [List.append_assoc, List.drop_append, List.drop_of_length_le (by omega), hA, List.nil_append,
          List.drop_append_of_le_length (by omega)]
      rw [e1, e2]; simp [List.append_assoc]
    · right; right
      refine ⟨k - 12, by omega, ?_⟩
      have e1 : (A ++ C ++ F).take k = A ++ C ++ F.take (k - 12) := by
        rw [List.take_append, List.take_of_length_le (by simp; omega)]
        simp [hA, hC]
      have e2 : (A ++ C0 ++ F0).drop k = F0.drop (k - 12) := by
        rw [List.drop_append, List.drop_of_length_le (by simp; omega)]
        simp [hA, hC0]
      rw [e1, e2]; simp [List.append_assoc]

/-- the start-header gate on an image whose first 32 bytes are `magic ++ [0, 4] ++ C ++ F` -/
theorem startHeaderOk_parts (C F rest : Bytes) (hC : C.length = 4) (hF : F.length = 20) :
    startHeaderOk (magic ++ [0, 4] ++ C ++ F ++ rest) = (crc32 F == ofLE C) := by
  unfold startHeaderOk
  have e0 : (magic ++ [0, 4] ++ C ++ F ++ rest).take 6 = magic := by simp [magic]
  have e1 : ((magic ++ [0, 4] ++ C ++ F ++ rest).drop 12).take 20 = F := by
    have : magic ++ [0, 4] ++ C ++ F ++ rest = (magic ++ [0, 4] ++ C) ++ (F ++ rest) := by simp [List.append_assoc]
    rw [this, List.drop_left' (by simp [magic, hC]), List.take_left' hF]
  have e2 : ((magic ++ [0, 4] ++ C ++ F ++ rest).drop 8).take 4 = C := by
    have : magic ++ [0, 4] ++ C ++ F ++ rest = (magic ++ [0, 4]) ++ (C ++ (F ++ rest)) := by simp [List.append_assoc]
    rw [this, List.drop_left' (by simp [magic]), List.take_left' hC]
  have e3 : decide ((magic ++ [0, 4] ++ C ++ F ++ rest).length ≥ 32) = true := by
    simp only [decide_eq_true_eq, List.length_append, hC, hF, magic, List.length_cons, List.length_nil]; omega
  rw [e0, e1, e2, e3]
  simp

/-- bytes of a little-endian field -/
theorem leBytes_isBytes (n k : Nat) : IsBytes (leBytes n k) := by
  induction k generalizing n with
  | zero => intro b hb; simp [leBytes] at hb
  | succ k ih =>
    intro b hb
    simp only [leBytes, List.mem_cons] at hb
    rcases hb with rfl | hb
    · omega
    · exact ih _ b hb

theorem isBytes_append {a b : Bytes} (ha : IsBytes a) (hb : IsBytes b) : IsBytes (a ++ b) := by
  intro x hx; rcases List.mem_append.mp hx with h | h
  · exact ha x h
  · exact hb x h

theorem isBytes_take {a : Bytes} (ha : IsBytes a) (n : Nat) : IsBytes (a.take n) :=
  fun x hx => ha x (List.mem_of_mem_take hx)

theorem isBytes_drop {a : Bytes} (ha : IsBytes a) (n : Nat) : IsBytes (a.drop n) :=
  fun x hx => ha x (List.mem_of_mem_drop hx)

/-- a 4-byte little-endian value whose top byte is zero is below 2^24 -/
theorem ofLE_top_zero (c0 c1 c2 : Nat) (h0 : c0 < 256) (h1 : c1 < 256) (h2 : c2 < 256) :
    ofLE [c0, c1, c2, 0] < 2 ^ 24 := by
  simp only [ofLE]; omega

/-- little-endian bytes determine the value they were made from (below the field's capacity) -/
theorem ofLE_inj_of_isBytes : ∀ (a b : Bytes), a.length = b.length → IsBytes a → IsBytes b → ofLE a = ofLE b → a = b
  | [], [], _, _, _, _ => rfl
  | [], _ :: _, h, _, _, _ => by simp at h
  | _ :: _, [], h, _, _, _ => by simp at h
  | x :: a, y :: b, hl, ha, hb, h => by
    simp only [ofLE] at h
    have hx := ha x (by simp); have hy := hb y (by simp)
    have hxy : x = y := by omega
    have hr : ofLE a = ofLE b := by omega
    rw [hxy, ofLE_inj_of_isBytes a b (by simpa using hl) (fun z hz => ha z (by simp [hz]))
      (fun z hz => hb z (by simp [hz])) hr]

/-- a write at offset 0 replaces a prefix -/
theorem applyWrite_zero (img d : Bytes) : applyWrite img ⟨0, d⟩ = d ++ img.drop d.length := by
  simp [applyWrite]

/-- a write at the end of the file appends -/
theorem applyWrite_end (img d : Bytes) : applyWrite img ⟨img.length, d⟩ = img ++ d := by
  simp [applyWrite]

/-- the 20 bytes the placeholder carries in place of offset, size and CRC of the header -/
def phFields : Bytes := leBytes 2 8 ++ leBytes 3 8 ++ leBytes 4 4

/-- the 20 bytes the final signature header carries -/
def sigFields (ofs size crc : Nat) : Bytes := leBytes ofs 8 ++ leBytes size 8 ++ leBytes crc 4

theorem skeleton_parts : skeleton = magic ++ [0, 4] ++ leBytes 1 4 ++ phFields := by
  simp [skeleton, phFields, List.append_assoc]

theorem sig_parts (ofs size crc : Nat) :
    sigHeaderBytes ofs size crc = magic ++ [0, 4] ++ leBytes (crc32 (sigFields ofs size crc)) 4 ++ sigFields ofs size crc := by
  simp [sigHeaderBytes, sigFields, magic, magic7z, List.append_assoc]

theorem sigBytes_length (ofs size crc : Nat) : (sigHeaderBytes ofs size crc).length = 32 := by
  simp [sig_parts, sigFields, magic, leBytes_length]


/-- the reader's two gates on an image that starts with a well-formed signature header -/
theorem headerGate_sig (o s c : Nat) (rest : Bytes) (ho : o < 2 ^ 64) (hs : s < 2 ^ 64) (hc : c < 2 ^ 32) :
    headerGate (sigHeaderBytes o s c ++ rest) =
      (if crc32 ((rest.drop o).take s) = c then some ((rest.drop o).take s) else none) := by
  have hF : (sigFields o s c).length = 20 := by simp [sigFields, leBytes_length]
  have hok : startHeaderOk (sigHeaderBytes o s c ++ rest) = true := by
    rw [sig_parts, startHeaderOk_parts _ _ _ (leBytes_length _ _) hF, ofLE_leBytes,
      Nat.mod_eq_of_lt (by have := crc32Update_lt 0 (sigFields o s c); unfold crc32; omega)]
    simp
  have hsl := sigBytes_length o s c
  have hsplit : sigHeaderBytes o s c ++ rest =
      (magic ++ [0, 4] ++ leBytes (crc32 (sigFields o s c)) 4) ++ (leBytes o 8 ++ (leBytes s 8 ++ (leBytes c 4 ++ rest))) := by
    rw [sig_parts]; simp [sigFields, List.append_assoc]
  have e1 : ((sigHeaderBytes o s c ++ rest).drop 12).take 8 = leBytes o 8 := by
    rw [hsplit, List.drop_left' (by simp [magic, leBytes_length]), List.take_left' (leBytes_length _ _)]
  have e2 : ((sigHeaderBytes o s c ++ rest).drop 20).take 8 = leBytes s 8 := by
    have : sigHeaderBytes o s c ++ rest =
        (magic ++ [0, 4] ++ leBytes (crc32 (sigFields o s c)) 4 ++ leBytes o 8) ++ (leBytes s 8 ++ (leBytes c 4 ++ rest)) := by
      rw [hsplit]; simp [List.append_assoc]
    rw [this, List.drop_left' (by simp [magic, leBytes_length]), List.take_left' (leBytes_length _ _)]
  have e3 : ((sigHeaderBytes o s c ++ rest).drop 28).take 4 = leBytes c 4 := by
    have : sigHeaderBytes o s c ++ rest =
        (magic ++ [0, 4] ++ leBytes (crc32 (sigFields o s c)) 4 ++ leBytes o 8 ++ leBytes s 8) ++ (leBytes c 4 ++ rest) := by
      rw [hsplit]; simp [List.append_assoc]
    rw [this, List.drop_left' (by simp [magic, leBytes_length]), List.take_left' (leBytes_length _ _)]
  have e4 : (sigHeaderBytes o s c ++ rest).drop (32 + o) = rest.drop o := by
    rw [← List.drop_drop, List.drop_left' hsl]
  unfold headerGate
  rw [hok, e1, e2, e3]
  simp only [if_true, ofLE_leBytes]
  rw [Nat.mod_eq_of_lt (by omega : o < 256 ^ 8), Nat.mod_eq_of_lt (by omega : s < 256 ^ 8),
    Nat.mod_eq_of_lt (by omega : c < 256 ^ 4), e4]

end SevenZ

namespace SevenZ
open SevenZ.Impl

/-- a write that starts inside the file at the end of a prefix `P` -/
theorem applyWrite_over (P Q t : Bytes) :
    applyWrite (P ++ Q) ⟨P.length, t⟩ = P ++ (t ++ Q.drop t.length) := by
  unfold applyWrite
  have h0 : P.length - (P ++ Q).length = 0 := by simp
  simp only [h0, List.replicate_zero, List.append_nil]
  rw [List.take_left' rfl, ← List.drop_drop, List.drop_left' rfl, List.append_assoc]

theorem headerGate_none_of_start (img : Bytes) (h : startHeaderOk img = false) : headerGate img = none := by
  unfold headerGate; simp [h]

/-- an image that still starts with the OLD signature header while the region behind the packed streams has been
    (partly) overwritten by `t`: it reads as the old archive, or the header CRC gate rejects it, or the overwritten
    header region collides with the old header under CRC-32 -/
theorem old_sig_verdict (area hdrOld junk t : Bytes) (ha : area.length < 2 ^ 64) (hh : hdrOld.length < 2 ^ 64) :
    let img := sigHeaderBytes area.length hdrOld.length (crc32 hdrOld) ++ area ++ (t ++ (hdrOld ++ junk).drop t.length)
    headerGate img = none ∨ headerGate img = some hdrOld ∨
      ∃ a, a.length = hdrOld.length ∧ a ≠ hdrOld ∧ crc32 a = crc32 hdrOld := by
  intro img
  have hc : crc32 hdrOld < 2 ^ 32 := by have := crc32Update_lt 0 hdrOld; unfold crc32; omega
  have hg := headerGate_sig area.length hdrOld.length (crc32 hdrOld) (area ++ (t ++ (hdrOld ++ junk).drop t.length)) ha hh hc
  rw [List.drop_left' rfl] at hg
  have himg : img = sigHeaderBytes area.length hdrOld.length (crc32 hdrOld) ++ (area ++ (t ++ (hdrOld ++ junk).drop t.length)) := by
    simp [img, List.append_assoc]
  rw [← himg] at hg
  have hlen : ((t ++ (hdrOld ++ junk).drop t.length).take hdrOld.length).length = hdrOld.length := by
    simp only [List.length_take, List.length_append, List.length_drop]; omega
  by_cases hcrc : crc32 ((t ++ (hdrOld ++ junk).drop t.length).take hdrOld.length) = crc32 hdrOld
  · rw [if_pos hcrc] at hg
    by_cases heq : (t ++ (hdrOld ++ junk).drop t.length).take hdrOld.length = hdrOld
    · right; left; rw [hg, heq]
    · right; right; exact ⟨_, hlen, heq, hcrc⟩
  · left; rw [hg, if_neg hcrc]

end SevenZ
