/-
The strict reader on the StreamsInfo section and on the whole raw header the writer model emits
(`Impl.writeStreams`, `Impl.writeHeaderRaw`): composition of the section theorems.
-/
import SevenZ.Lemmas.SpecSub
import SevenZ.Lemmas.SpecFiles
namespace SevenZ
open Impl Spec

/-- the hypotheses under which `PackInfo.write` output is well-formed -/
structure WFPack (p : PackInfo) : Prop where
  pos : p.packpos < 2 ^ 64
  n : p.numstreams < 2 ^ 64
  sizes : ∀ v ∈ p.packsizes, v < 2 ^ 64
  defined : p.digestdefined.foldl (· || ·) p.enableDigests = true → p.digestdefined.length = p.numstreams
  crcs : ∀ c ∈ p.crcs, c < 256 ^ 4

/-- a StreamsInfo record as py7zr's writer holds it when the archive has data: all three
    sections present, counts agreeing between them, sub-stream sizes tiling each folder -/
structure WFStreams (s : Streams) (p : PackInfo) (fs : List Folder) (ss : SubStreams) (sizes : List Nat) : Prop where
  hp : s.packinfo = some p
  hf : s.folders = some fs
  hs : s.substreams = some ss
  pack : WFPack p
  nfolders : fs.length < 2 ^ 64
  fne : fs ≠ []
  folders : ∀ f ∈ fs, WFFolder f
  packedCount : (fs.map (fun f => (packedOf f).length)).sum = p.packsizes.length
  nlen : ss.numUnpack.length = fs.length
  nums : ∀ n ∈ ss.numUnpack, n < 2 ^ 64
  usizes : ss.unpacksizes = some sizes
  tiles : SizesOK ss.numUnpack (fs.map toSFolder) sizes
  sizesBound : ∀ v ∈ sizes, v < 2 ^ 64
  ddlen : ss.digestsdefined.length = ss.numUnpack.sum
  dlen : ss.digests.length = ss.numUnpack.sum
  dbound : ∀ c ∈ ss.digests, c < 256 ^ 4

def expectedStreams (p : PackInfo) (fs : List Folder) (ss : SubStreams) (sizes : List Nat) : SStreams :=
  { pack := some (expectedPack p), folders := fs.map toSFolder, numUnpack := ss.numUnpack,
    subSizes := sizes, subCrcs := expectedSubCrcs ss }

theorem writePackInfo_head (p : PackInfo) (b : Bytes) (h : writePackInfo p = some b) : b = 0x06 :: b.drop 1 := by
  unfold writePackInfo at h
  by_cases h1 : p.numstreams ≠ p.packsizes.length
  · simp [h1] at h
  · simp only [h1, if_false] at h
    by_cases h2 : p.digestdefined.foldl (· || ·) p.enableDigests = true
    · simp only [h2, if_true] at h
      by_cases h3 : p.crcs.length ≠ p.numstreams
      · simp [h3] at h
      · by_cases h4 : p.digestdefined.length < p.numstreams
        · simp [h3, h4] at h
        · simp only [h3, h4, if_false, Option.some.injEq] at h
          rw [← h]; simp
    · simp only [h2, Bool.false_eq_true, if_false, Option.some.injEq] at h
      rw [← h]; simp

theorem writeSubStreams_head (ss : SubStreams) (b : Bytes) (h : writeSubStreams ss = some b) (hne : ss.numUnpack ≠ []) :
    b = 0x08 :: b.drop 1 := by
  unfold writeSubStreams at h
  have hne' : ss.numUnpack.isEmpty = false := by cases hx : ss.numUnpack <;> simp_all
  simp only [hne', Bool.false_eq_true, if_false] at h
  split at h
  · cases h
  · cases h; simp

/-- Writer conformance of the StreamsInfo section -/
theorem streams_strict_read (s : Streams) (p : PackInfo) (fs : List Folder) (ss : SubStreams) (sizes : List Nat)
    (wf : WFStreams s p fs ss sizes) (bytes rest : Bytes) (hw : writeStreams s = some bytes) :
    sStreams (bytes.drop 1 ++ rest) = .ok (expectedStreams p fs ss sizes, rest) := by
  unfold writeStreams at hw
  rw [wf.hp, wf.hf, wf.hs] at hw
  cases ha : writePackInfo p with
  | none => simp [ha] at hw
  | some a =>
    cases hc : writeSubStreams ss with
    | none => simp [ha, hc] at hw
    | some c =>
      simp only [ha, hc, bind, Option.bind, pure, Option.some.injEq] at hw
      subst hw
      have hne : ss.numUnpack ≠ [] := by
        intro h0
        have := wf.nlen
        rw [h0] at this
        exact wf.fne (List.eq_nil_of_length_eq_zero this.symm)
      have hah := writePackInfo_head p a ha
      have hch := writeSubStreams_head ss c hc hne
      have hpk := fun r => packinfo_strict_read p a r ha wf.pack.pos wf.pack.n wf.pack.sizes wf.pack.defined wf.pack.crcs
      have hup := fun r => unpackinfo_strict_read fs wf.nfolders wf.folders r
      have hsb := fun r => substreams_strict_read ss (fs.map toSFolder) c r hc hne (by simpa using wf.nlen)
        (by intro f hf; simp only [List.mem_map] at hf; obtain ⟨g, _, hg⟩ := hf; rw [← hg]; rfl)
        wf.nums sizes wf.usizes wf.tiles wf.sizesBound wf.ddlen wf.dlen wf.dbound
      have hub : writeUnpackInfo fs = 0x07 :: (writeUnpackInfo fs).drop 1 := by simp [writeUnpackInfo]
      unfold sStreams
      rw [hah, hub, hch]
      simp only [List.cons_append, List.nil_append, List.append_assoc, List.drop_succ_cons, List.drop_zero]
      rw [SP.bind_ok (sByte_cons _ _ _)]
      simp only [if_true]
      rw [SP.bind_ok (a := (some (expectedPack p), 0x07)) (s' := _)]
      · simp only [if_true]
        rw [SP.bind_ok (a := (fs.map toSFolder, true, 0x08)) (s' := _)]
        · simp only [if_true]
          rw [SP.bind_ok (a := (some (ss.numUnpack, sizes, expectedSubCrcs ss), 0)) (s' := rest)]
          · have hcount : (List.map (fun f => f.packed.length) (fs.map toSFolder)).sum = (expectedPack p).sizes.length := by
              simp only [List.map_map, Function.comp_def, toSFolder, expectedPack]
              exact wf.packedCount
            simp only [ne_eq, not_true_eq_false, if_false, hcount]
            rfl
          · simp only [Bool.not_true, Bool.false_eq_true, if_false]
            rw [SP.bind_ok (hsb _), SP.bind_ok (sByte_cons _ _ _)]
            rfl
        · rw [SP.bind_ok (hup _), SP.bind_ok (sByte_cons _ _ _)]
          rfl
      · rw [SP.bind_ok (hpk _), SP.bind_ok (sByte_cons _ _ _)]
        rfl

/-- what the strict reader must recover from a written raw header -/
def expectedHeader (p : PackInfo) (fs : List Folder) (ss : SubStreams) (sizes : List Nat) (fi : FilesInfo) : SHeader :=
  { streams := some (expectedStreams p fs ss sizes), files := fi.files.map toSFile, hasFiles := true }

/-- the hypotheses of `filesinfo_strict_read`, bundled -/
structure WFFiles (fi : FilesInfo) : Prop where
  named : ∀ e ∈ fi.files, e.filename.isSome = true
  scalar : ∀ e ∈ fi.files, ∀ c ∈ nameOf e, IsScalar c
  count : fi.files.length < 2 ^ 32
  mtimes : ∀ e ∈ fi.files, ∀ t, e.mtime = .val t → t < 256 ^ 8
  attrs : ∀ e ∈ fi.files, ∀ t, e.attributes = .val t → t < 256 ^ 4
  namesSize : ((fi.files.map nameOf).map (fun n => 2 * (n.flatMap unitsOf).length + 2)).sum + 1 < 2 ^ 64
  emptyFiles : (fi.files.map (·.emptystream)).any id = false → fi.emptyfiles.any id = false

theorem writeFilesInfo_head (fi : FilesInfo) (pos : Nat) :
    writeFilesInfo true fi pos = 0x05 :: (writeFilesInfo true fi pos).drop 1 := by
  simp [writeFilesInfo]

/-- Writer conformance of the whole raw header (streams + files) -/
theorem header_strict_read (h : Header) (s : Streams) (p : PackInfo) (fs : List Folder) (ss : SubStreams)
    (sizes : List Nat) (fi : FilesInfo) (hs : h.mainStreams = some s) (hfi : h.filesInfo = some fi)
    (wf : WFStreams s p fs ss sizes) (wff : WFFiles fi) (pos : Nat) (bytes : Bytes)
    (hw : writeHeaderRaw true h pos = some bytes) :
    readTop bytes = .ok (.raw (expectedHeader p fs ss sizes fi)) := by
  unfold writeHeaderRaw at hw
  rw [hs, hfi] at hw
  cases hm : writeStreams s with
  | none => simp [hm] at hw
  | some ms =>
    simp only [hm, bind, Option.bind, pure, Option.some.injEq] at hw
    subst hw
    have hmh : ms = 0x04 :: ms.drop 1 := by
      unfold writeStreams at hm
      rw [wf.hp, wf.hf, wf.hs] at hm
      cases ha : writePackInfo p with
      | none => simp [ha] at hm
      | some a =>
        cases hc : writeSubStreams ss with
        | none => simp [ha, hc] at hm
        | some c =>
          simp only [ha, hc, bind, Option.bind, pure, Option.some.injEq] at hm
          rw [← hm]; simp
    have hst := fun r => streams_strict_read s p fs ss sizes wf ms r hm
    have hfl := fun r => filesinfo_strict_read fi (pos + 1 + ms.length) r wff.named wff.scalar wff.count wff.mtimes
      wff.attrs wff.namesSize wff.emptyFiles
    simp only [List.cons_append, List.nil_append, readTop]
    unfold sHeaderBody
    generalize (pos + 1 + ms.length) = q at hfl ⊢
    rw [hmh, writeFilesInfo_head]
    simp only [List.cons_append, List.append_assoc, List.drop_succ_cons, List.drop_zero]
    rw [SP.bind_ok (sByte_cons _ _ _)]
    simp only [if_true]
    rw [SP.bind_ok (a := (some (expectedStreams p fs ss sizes), 0x05)) (s' := _)]
    · simp only [if_true]
      rw [SP.bind_ok (a := (fi.files.map toSFile, true, 0)) (s' := [])]
      · simp [expectedHeader, bind, StateT.bind, Except.bind, pure, StateT.pure, Except.pure, get, getThe,
          MonadStateOf.get, StateT.get, Except.map]
      · rw [SP.bind_ok (hfl _), SP.bind_ok (sByte_cons _ _ _)]
        rfl
    · rw [SP.bind_ok (hst _), SP.bind_ok (sByte_cons _ _ _)]
      rfl

end SevenZ
