/-
Reader refinement (C06, parse half): on every byte string the strict reader written from the format description
(`Spec.*`) accepts, the model of py7zr's reader (`Impl.read*`) succeeds, consumes the same bytes and returns the same
values -- production by production, for ARBITRARY input (no assumption about who wrote it).
-/
import SevenZ.Spec.Format
import SevenZ.Lemmas.Number
import SevenZ.Lemmas.Utf16
import SevenZ.Lemmas.ParseBound
namespace SevenZ
open SevenZ.Impl SevenZ.Spec

/-! ### the specification reader's monad -/

theorem SP.bind_inv {α β} {x : SP α} {f : α → SP β} {s : Bytes} {r : β × Bytes}
    (h : (x >>= f) s = .ok r) : ∃ a s', x s = .ok (a, s') ∧ f a s' = .ok r := by
  simp only [bind, StateT.bind, Except.bind] at h
  cases hx : x s with
  | error e => simp [hx] at h
  | ok v => obtain ⟨a, s'⟩ := v; simp only [hx] at h; exact ⟨a, s', rfl, h⟩

theorem SP.pure_inv {α} {a : α} {s : Bytes} {r : α × Bytes} (h : (pure a : SP α) s = .ok r) : r = (a, s) := by
  simp only [pure, StateT.pure, Except.pure] at h
  exact (Except.ok.inj h).symm

theorem SP.fail_inv {α} {m : String} {s : Bytes} {r : α × Bytes} (h : (sfail m : SP α) s = .ok r) : False := by
  simp [sfail] at h

theorem P.bind_run {α β} {x : P α} {f : α → P β} {s s' : Bytes} {a : α} (h : x s = .ok (a, s')) :
    (x >>= f) s = f a s' := by
  simp only [bind, StateT.bind, Except.bind, h]

theorem isBytes_drop' {a : Bytes} (ha : IsBytes a) (n : Nat) : IsBytes (a.drop n) :=
  fun x hx => ha x (List.mem_of_mem_drop hx)

theorem isBytes_tail {b : Nat} {a : Bytes} (ha : IsBytes (b :: a)) : IsBytes a :=
  fun x hx => ha x (List.mem_cons_of_mem _ hx)

/-! ### primitives -/

theorem sByte_inv {w : String} {s : Bytes} {b : Nat} {r : Bytes} (h : sByte w s = .ok (b, r)) : s = b :: r := by
  unfold sByte at h
  cases s with
  | nil => simp at h
  | cons x rest => simp at h; obtain ⟨rfl, rfl⟩ := h; rfl

theorem read1_cons (b : Nat) (r : Bytes) : read1 (b :: r) = .ok (some b, r) := rfl
theorem readByte_cons (b : Nat) (r : Bytes) : readByte (b :: r) = .ok (b, r) := rfl

theorem sNumber_refines {w : String} {s : Bytes} {v : Nat} {r : Bytes} (hb : IsBytes s)
    (h : sNumber w s = .ok (v, r)) : pNumber s = .ok (v, r) ∧ IsBytes r := by
  unfold sNumber at h
  cases hd : decodeNumber s with
  | none => simp [hd] at h
  | some x =>
    simp only [hd] at h
    have hx : x = (v, r) := by simpa using h
    subst hx
    cases s with
    | nil => simp [decodeNumber] at hd
    | cons b rest =>
      have hlen : leadingOnes b ≤ rest.length := by
        simp only [decodeNumber] at hd
        split at hd
        · simp at hd
        · omega
      have hrn := number_reads_spec b rest (hb b (by simp)) hlen
      refine ⟨by unfold pNumber; rw [hrn, hd], ?_⟩
      simp only [decodeNumber] at hd
      split at hd
      · simp at hd
      · simp at hd; rw [← hd.2]; exact isBytes_drop' (isBytes_tail hb) _

theorem sFixed_refines {k : Nat} {w : String} {s : Bytes} {v : Nat} {r : Bytes} (hb : IsBytes s)
    (h : sFixed k w s = .ok (v, r)) : pFixed k s = .ok (v, r) ∧ IsBytes r := by
  unfold sFixed at h
  unfold pFixed
  split at h
  · simp at h
  · rename_i hl
    simp at h; obtain ⟨rfl, rfl⟩ := h
    exact ⟨by simp [hl], isBytes_drop' hb _⟩

theorem sTake_refines {n : Nat} {w : String} {s : Bytes} {v r : Bytes} (hb : IsBytes s)
    (h : sTake n w s = .ok (v, r)) : readBytes n s = .ok (v, r) ∧ IsBytes r ∧ v.length = n := by
  unfold sTake at h
  unfold readBytes
  split at h
  · simp at h
  · rename_i hl
    simp at h; obtain ⟨rfl, rfl⟩ := h
    exact ⟨rfl, isBytes_drop' hb _, by simp; omega⟩

/-- a loop of the specification reader against the same loop of py7zr's, body by body -/
theorem sRepeat_refines {α β} {Q : Bytes → Prop} (sp : SP α) (ip : P β) (f : α → β)
    (hp : ∀ s a r, Q s → sp s = .ok (a, r) → ip s = .ok (f a, r) ∧ Q r) :
    ∀ (n : Nat) (s : Bytes) (as : List α) (r : Bytes), Q s → sRepeat n sp s = .ok (as, r) →
      repeatP n ip s = .ok (as.map f, r) ∧ Q r ∧ as.length = n
  | 0, s, as, r, hb, h => by
    simp only [sRepeat] at h
    have := SP.pure_inv h; simp at this; obtain ⟨rfl, rfl⟩ := this
    exact ⟨rfl, hb, rfl⟩
  | n + 1, s, as, r, hb, h => by
    simp only [sRepeat] at h
    obtain ⟨a, s1, h1, h⟩ := SP.bind_inv h
    obtain ⟨rest, s2, h2, h⟩ := SP.bind_inv h
    obtain ⟨g1, b1⟩ := hp s a s1 hb h1
    obtain ⟨g2, b2, l2⟩ := sRepeat_refines sp ip f hp n s1 rest s2 b1 h2
    have e := SP.pure_inv h; simp at e; obtain ⟨rfl, rfl⟩ := e
    refine ⟨?_, b2, by simp [l2]⟩
    simp only [repeatP]
    rw [P.bind_run g1, P.bind_run g2]
    rfl

/-! ### bit vectors -/

/-- the eight bits of a byte, most significant first, as the format description reads them -/
def bits8 (b : Nat) : List Bool := (List.range 8).map (fun i => decide ((b / 2 ^ (7 - i)) % 2 = 1))

theorem unpackByte_eq : ∀ b, b < 256 → ∀ k, k < 9 → unpackByte b k = (bits8 b).take k := by
  decide +kernel

theorem bits8_length (b : Nat) : (bits8 b).length = 8 := by simp [bits8]

theorem readBitsF_spec : ∀ (n f : Nat) (bs : Bytes), n ≤ f → IsBytes bs → (n + 7) / 8 ≤ bs.length →
    readBitsF f n bs = some (((bs.take ((n + 7) / 8)).flatMap bits8).take n, bs.drop ((n + 7) / 8)) := by
  intro n
  induction n using Nat.strongRecOn with
  | _ n ih =>
    intro f bs hf hb hl
    by_cases hn : n = 0
    · subst hn
      cases f <;> simp [readBitsF]
    · obtain ⟨f', rfl⟩ : ∃ f', f = f' + 1 := ⟨f - 1, by omega⟩
      cases bs with
      | nil => simp at hl; omega
      | cons b rest =>
        have hb' := isBytes_tail hb
        have hbb : b < 256 := hb b (by simp)
        simp only [readBitsF, hn, if_false]
        have hk : min n 8 < 9 := by omega
        have hrest : (n - min n 8 + 7) / 8 ≤ rest.length := by
          simp only [List.length_cons] at hl; omega
        rw [ih (n - min n 8) (by omega) f' rest (by omega) hb' hrest]
        simp only [Option.some.injEq, Prod.mk.injEq]
        have hm : (n + 7) / 8 = (n - min n 8 + 7) / 8 + 1 := by omega
        rw [hm, List.take_succ_cons, List.flatMap_cons, List.take_append, bits8_length, List.drop_succ_cons,
          unpackByte_eq b hbb _ hk]
        refine ⟨?_, rfl⟩
        congr 1
        · rw [List.take_eq_take_iff]; simp [bits8_length]
        · congr 1; omega

theorem sBitField_refines {n : Nat} {w : String} {s : Bytes} {bits : List Bool} {r : Bytes} (hb : IsBytes s)
    (h : sBitField n w s = .ok (bits, r)) : readBits n s = some (bits, r) ∧ IsBytes r := by
  unfold sBitField at h
  obtain ⟨bytes, s1, h1, h⟩ := SP.bind_inv h
  have ht := h1
  unfold sTake at ht
  split at ht
  · simp at ht
  · rename_i hl
    simp at ht; obtain ⟨rfl, rfl⟩ := ht
    simp only at h
    split at h
    · exact (SP.fail_inv h).elim
    · have e := SP.pure_inv h; simp at e; obtain ⟨rfl, rfl⟩ := e
      refine ⟨?_, isBytes_drop' hb _⟩
      unfold readBits
      rw [readBitsF_spec n n s (Nat.le_refl _) hb (by omega)]
      rfl

theorem sBoolList_refines {n : Nat} {w : String} {s : Bytes} {bits : List Bool} {r : Bytes} (hb : IsBytes s)
    (h : sBoolList n w s = .ok (bits, r)) : pBools n true s = .ok (bits, r) ∧ IsBytes r ∧ bits.length = n := by
  unfold sBoolList at h
  obtain ⟨all, s1, h1, h2⟩ := SP.bind_inv h
  clear h
  have hs := sByte_inv h1
  subst hs
  have h := h2
  have hb1 := isBytes_tail hb
  unfold pBools readBools
  split at h
  · rename_i h0
    subst h0
    obtain ⟨g, br⟩ := sBitField_refines hb1 h
    have hl := (readBitsF_len _ _ _ _ _ g).1
    simp [g, br, hl]
  · split at h
    · rename_i h0 h1'
      subst h1'
      have e := SP.pure_inv h; simp at e; obtain ⟨rfl, rfl⟩ := e
      simp [hb1]
    · exact (SP.fail_inv h).elim

/-! ### PackInfo -/

/-- CRC words: the specification reader keeps an optional value per stream, py7zr's only the defined ones -/
theorem crcs_refine (w : String) : ∀ (defined : List Bool) (s : Bytes) (cs : List (Option Nat)) (r : Bytes), IsBytes s →
    defined.mapM (fun d => if d then (do let c ← sFixed 4 w; pure (some c)) else (pure none : SP (Option Nat))) s = .ok (cs, r) →
    ∃ ws, (defined.filter id).mapM (fun _ => pFixed 4) s = .ok (ws, r) ∧ IsBytes r
  | [], s, cs, r, hb, h => by
    simp only [List.mapM_nil] at h
    have e := SP.pure_inv h; simp at e; obtain ⟨rfl, rfl⟩ := e
    exact ⟨[], rfl, hb⟩
  | d :: ds, s, cs, r, hb, h => by
    simp only [List.mapM_cons] at h
    obtain ⟨c, s1, h1, h2⟩ := SP.bind_inv h
    obtain ⟨rest, s2, h3, h4⟩ := SP.bind_inv h2
    have e := SP.pure_inv h4; simp at e
    have er : r = s2 := e.2
    cases d with
    | false =>
      simp only [Bool.false_eq_true, if_false] at h1
      have e1 := SP.pure_inv h1; simp at e1
      have es : s1 = s := e1.2
      obtain ⟨ws, g, br⟩ := crcs_refine w ds s1 rest s2 (by rw [es]; exact hb) h3
      refine ⟨ws, ?_, by rw [er]; exact br⟩
      simp only [List.filter_cons_of_neg (by simp : ¬ (id false = true))]
      rw [er, ← es]; exact g
    | true =>
      simp only [if_true] at h1
      obtain ⟨v, t1, g1, h1'⟩ := SP.bind_inv h1
      have e1 := SP.pure_inv h1'; simp at e1
      have es : s1 = t1 := e1.2
      obtain ⟨gf, bf⟩ := sFixed_refines hb g1
      obtain ⟨ws, g, br⟩ := crcs_refine w ds s1 rest s2 (by rw [es]; exact bf) h3
      refine ⟨v :: ws, ?_, by rw [er]; exact br⟩
      simp only [List.filter_cons_of_pos (by simp : id true = true), List.mapM_cons]
      rw [P.bind_run gf, ← es, P.bind_run g, er]
      rfl

theorem sPackInfo_refines {s : Bytes} {sp : SPack} {r : Bytes} (hb : IsBytes s) (h : sPackInfo s = .ok (sp, r)) :
    ∃ ip, readPackInfo s = .ok (ip, r) ∧ ip.packpos = sp.packpos ∧ ip.packsizes = sp.sizes ∧
      ip.numstreams = sp.sizes.length ∧ IsBytes r := by
  unfold sPackInfo at h
  obtain ⟨packpos, s1, h1, k1⟩ := SP.bind_inv h
  obtain ⟨g1, b1⟩ := sNumber_refines hb h1
  obtain ⟨n, s2, h2, k2⟩ := SP.bind_inv k1
  obtain ⟨g2, b2⟩ := sNumber_refines b1 h2
  obtain ⟨id1, s3, h3, k3⟩ := SP.bind_inv k2
  have e3 := sByte_inv h3
  have b3 : IsBytes s3 := by rw [e3] at b2; exact isBytes_tail b2
  obtain ⟨si, s4, h4, k4⟩ := SP.bind_inv k3
  unfold readPackInfo
  rw [P.bind_run g1, P.bind_run g2, e3, P.bind_run (read1_cons id1 s3)]
  by_cases h9 : id1 = 0x09
  · subst h9
    simp only [if_true] at h4 ⊢
    obtain ⟨sizes, t1, q1, m1⟩ := SP.bind_inv h4
    obtain ⟨gq, bq, lq⟩ := sRepeat_refines (sNumber "pack size") pNumber id
      (fun s a r hb h => sNumber_refines hb h) n s3 sizes t1 b3 q1
    obtain ⟨id2, t2, q2, m2⟩ := SP.bind_inv m1
    have e4 := SP.pure_inv m2; simp at e4
    have esi : si = (sizes, id2) := e4.1
    have es4 : s4 = t2 := e4.2
    have et := sByte_inv q2
    have bt2 : IsBytes t2 := by rw [et] at bq; exact isBytes_tail bq
    simp only [List.map_id] at gq
    rw [P.bind_run gq, et, P.bind_run (read1_cons id2 t2)]
    rw [esi, es4] at k4
    try simp only at k4
    split at k4
    · exact (SP.fail_inv k4).elim
    obtain ⟨ci, s5, h5, k5⟩ := SP.bind_inv k4
    by_cases hA : id2 = 0x0A
    · subst hA
      simp only [if_true] at h5 ⊢
      obtain ⟨defined, u1, p1, n1⟩ := SP.bind_inv h5
      obtain ⟨gd, bd, _⟩ := sBoolList_refines bt2 p1
      obtain ⟨cs, u2, p2, n2⟩ := SP.bind_inv n1
      obtain ⟨ws, gw, bw⟩ := crcs_refine "pack CRC" defined u1 cs u2 bd p2
      obtain ⟨id3, u3, p3, n3⟩ := SP.bind_inv n2
      have e5 := SP.pure_inv n3; simp at e5
      have eci : ci = (cs, id3) := e5.1
      have es5 : s5 = u3 := e5.2
      have eu := sByte_inv p3
      have bu3 : IsBytes u3 := by rw [eu] at bw; exact isBytes_tail bw
      rw [P.bind_run gd, P.bind_run gw, eu, P.bind_run (read1_cons id3 u3)]
      rw [eci, es5] at k5
      try simp only at k5
      split at k5
      · exact (SP.fail_inv k5).elim
      · rename_i h0
        have e := SP.pure_inv k5; simp at e
        have h0' : id3 = 0 := by simpa using h0
        subst h0'
        rw [e.1, e.2]
        exact ⟨_, by simp; rfl, rfl, rfl, by simp [lq], bu3⟩
    · have hA' : ¬ (some id2 = some 0x0A) := by simpa using hA
      simp only [hA, if_false] at h5
      simp only [hA', if_false]
      have e5 := SP.pure_inv h5; simp at e5
      rw [e5.1, e5.2] at k5
      try simp only at k5
      split at k5
      · exact (SP.fail_inv k5).elim
      · rename_i h0
        have e := SP.pure_inv k5; simp at e
        have h0' : id2 = 0 := by simpa using h0
        subst h0'
        rw [e.1, e.2]
        exact ⟨_, by simp; rfl, rfl, rfl, by simp [lq], bt2⟩
  · have h9' : ¬ (some id1 = some 0x09) := by simpa using h9
    simp only [h9, if_false] at h4
    simp only [h9', if_false]
    split at h4
    · exact (SP.fail_inv h4).elim
    rename_i hA
    have e4 := SP.pure_inv h4; simp at e4
    rw [e4.1, e4.2] at k4
    try simp only at k4
    split at k4
    · exact (SP.fail_inv k4).elim
    rename_i hn
    obtain ⟨ci, s5, h5, k5⟩ := SP.bind_inv k4
    try simp only [hA, if_false] at h5
    have e5 := SP.pure_inv h5; simp at e5
    rw [e5.1, e5.2] at k5
    try simp only at k5
    split at k5
    · exact (SP.fail_inv k5).elim
    · rename_i h0
      have e := SP.pure_inv k5; simp at e
      have h0' : id1 = 0 := by simpa using h0
      subst h0'
      have hn' : n = 0 := by simp at hn; omega
      rw [e.1, e.2]
      exact ⟨_, by simp; rfl, rfl, rfl, by simp [hn'], b3⟩

/-! ### inputs below 2^63 bytes (what `file.read(n)` can be asked for) -/

/-- a header buffer: bytes, fewer than 2^63 of them -/
def Inp (s : Bytes) : Prop := IsBytes s ∧ s.length < 2 ^ 63

theorem Inp.tail {b : Nat} {r : Bytes} (h : Inp (b :: r)) : Inp r :=
  ⟨isBytes_tail h.1, by have := h.2; simp only [List.length_cons] at this; omega⟩

theorem sNumber_refines' {w : String} {s : Bytes} {v : Nat} {r : Bytes} (hi : Inp s)
    (h : sNumber w s = .ok (v, r)) : pNumber s = .ok (v, r) ∧ Inp r := by
  obtain ⟨g, b⟩ := sNumber_refines hi.1 h
  exact ⟨g, b, by have := pNumber_len g; have := hi.2; omega⟩

theorem sTake_refines' {n : Nat} {w : String} {s : Bytes} {v r : Bytes} (hi : Inp s)
    (h : sTake n w s = .ok (v, r)) : readBytes n s = .ok (v, r) ∧ Inp r ∧ v.length = n ∧ n ≤ s.length := by
  obtain ⟨g, b, l⟩ := sTake_refines hi.1 h
  refine ⟨g, ⟨b, by have := readBytes_len g; have := hi.2; omega⟩, l, ?_⟩
  unfold sTake at h
  split at h
  · simp at h
  · omega

theorem sFixed_refines' {k : Nat} {w : String} {s : Bytes} {v : Nat} {r : Bytes} (hi : Inp s)
    (h : sFixed k w s = .ok (v, r)) : pFixed k s = .ok (v, r) ∧ Inp r := by
  obtain ⟨g, b⟩ := sFixed_refines hi.1 h
  exact ⟨g, b, by have := pFixed_len g; have := hi.2; omega⟩

theorem sBoolList_refines' {n : Nat} {w : String} {s : Bytes} {bits : List Bool} {r : Bytes} (hi : Inp s)
    (h : sBoolList n w s = .ok (bits, r)) : pBools n true s = .ok (bits, r) ∧ Inp r ∧ bits.length = n := by
  obtain ⟨g, b, l⟩ := sBoolList_refines hi.1 h
  exact ⟨g, ⟨b, by have := (pBools_len g).2; have := hi.2; omega⟩, l⟩

theorem sPackInfo_refines' {s : Bytes} {sp : SPack} {r : Bytes} (hi : Inp s) (h : sPackInfo s = .ok (sp, r)) :
    ∃ ip, readPackInfo s = .ok (ip, r) ∧ ip.packpos = sp.packpos ∧ ip.packsizes = sp.sizes ∧
      ip.numstreams = sp.sizes.length ∧ Inp r := by
  obtain ⟨ip, g, a, b, c, d⟩ := sPackInfo_refines hi.1 h
  exact ⟨ip, g, a, b, c, d, by have := (readPackInfo_post g).2; have := hi.2; omega⟩

/-! ### Coder, Folder -/

/-- py7zr keeps a one-byte id `00` for a coder written without an id -/
def coderOf (c : SCoder) : Coder :=
  { method := if c.method.length > 0 then c.method else [0], numIn := c.numIn, numOut := c.numOut, props := c.props }

theorem flag_bits : ∀ f, f < 64 → f &&& 0xF = f % 16 ∧
    (decide ((f &&& 0x10) = 0x10) = decide ((f / 16) % 2 = 1)) ∧
    (decide ((f &&& 0x20) = 0x20) = decide ((f / 32) % 2 = 1)) := by
  decide +kernel

theorem sCoder_refines {s : Bytes} {c : SCoder} {r : Bytes} (hi : Inp s) (h : sCoder s = .ok (c, r)) :
    readCoder s = .ok (coderOf c, r) ∧ Inp r := by
  unfold sCoder at h
  obtain ⟨flag, s1, h1, k1⟩ := SP.bind_inv h
  have e1 := sByte_inv h1
  have i1 : Inp s1 := by rw [e1] at hi; exact hi.tail
  split at k1
  · exact (SP.fail_inv k1).elim
  rename_i hf
  have hf' : flag < 64 := by omega
  obtain ⟨fb1, fb2, fb3⟩ := flag_bits flag hf'
  simp only at k1
  obtain ⟨method, s2, h2, k2⟩ := SP.bind_inv k1
  obtain ⟨g2, i2, l2, _⟩ := sTake_refines' i1 h2
  obtain ⟨io, s3, h3, k3⟩ := SP.bind_inv k2
  obtain ⟨pr, s4, h4, k4⟩ := SP.bind_inv k3
  have e := SP.pure_inv k4; simp at e
  unfold readCoder
  rw [e1, P.bind_run (readByte_cons flag s1)]
  simp only [fb1]
  rw [P.bind_run g2]
  -- in/out counts
  have hio : ∃ g : ((if (flag &&& 0x10) = 0x10 then (do let a ← pNumber; let c ← pNumber; pure (a, c)) else (pure (1, 1) : P (Nat × Nat))) s2 = .ok (io, s3)), Inp s3 := by
    have hc : ((flag &&& 0x10) = 0x10) ↔ ((flag / 16) % 2 = 1) := by
      have := fb2; simp only [decide_eq_decide] at this; exact this
    by_cases hcx : (flag / 16) % 2 = 1
    · simp only [hcx, if_true] at h3
      simp only [hc.mpr hcx, if_true]
      obtain ⟨a, t1, q1, m1⟩ := SP.bind_inv h3
      obtain ⟨ga, ia⟩ := sNumber_refines' i2 q1
      obtain ⟨b, t2, q2, m2⟩ := SP.bind_inv m1
      obtain ⟨gb, ib⟩ := sNumber_refines' ia q2
      have e3 := SP.pure_inv m2; simp at e3
      refine ⟨?_, by rw [e3.2]; exact ib⟩
      rw [P.bind_run ga, P.bind_run gb, e3.1, e3.2]; rfl
    · simp only [hcx, if_false] at h3
      have hn : ¬ ((flag &&& 0x10) = 0x10) := fun x => hcx (hc.mp x)
      simp only [hn, if_false]
      have e3 := SP.pure_inv h3; simp at e3
      refine ⟨?_, by rw [e3.2]; exact i2⟩
      rw [e3.1, e3.2]; rfl
  obtain ⟨gio, i3⟩ := hio
  rw [P.bind_run gio]
  -- properties
  have hpr : ∃ g : ((if (flag &&& 0x20) = 0x20 then (do
        let len ← pNumber
        if len ≥ 2 ^ 63 then Impl.fail .malformed else
        let pr ← readBytes len
        pure (some pr)) else (pure none : P (Option Bytes))) s3 = .ok (pr, s4)), Inp s4 := by
    have hc : ((flag &&& 0x20) = 0x20) ↔ ((flag / 32) % 2 = 1) := by
      have := fb3; simp only [decide_eq_decide] at this; exact this
    by_cases hcx : (flag / 32) % 2 = 1
    · simp only [hcx, if_true] at h4
      simp only [hc.mpr hcx, if_true]
      obtain ⟨n, t1, q1, m1⟩ := SP.bind_inv h4
      obtain ⟨gn, inn⟩ := sNumber_refines' i3 q1
      obtain ⟨p, t2, q2, m2⟩ := SP.bind_inv m1
      obtain ⟨gp, ip, _, hle⟩ := sTake_refines' inn q2
      have e4 := SP.pure_inv m2; simp at e4
      refine ⟨?_, by rw [e4.2]; exact ip⟩
      have hsmall : ¬ n ≥ 2 ^ 63 := by have := inn.2; omega
      rw [P.bind_run gn]
      simp only [hsmall, if_false]
      rw [P.bind_run gp, e4.1, e4.2]; rfl
    · simp only [hcx, if_false] at h4
      have hn : ¬ ((flag &&& 0x20) = 0x20) := fun x => hcx (hc.mp x)
      simp only [hn, if_false]
      have e4 := SP.pure_inv h4; simp at e4
      refine ⟨?_, by rw [e4.2]; exact i3⟩
      rw [e4.1, e4.2]; rfl
  obtain ⟨gpr, i4⟩ := hpr
  rw [P.bind_run gpr]
  refine ⟨?_, by rw [e.2]; exact i4⟩
  rw [e.1, e.2]
  simp only [coderOf, l2]
  rfl

/-- py7zr's folder record for a folder the specification reader accepted -/
def folderOf (f : SFolder) : Folder :=
  let totIn := (f.coders.map (·.numIn)).sum
  let totOut := (f.coders.map (·.numOut)).sum
  { coders := f.coders.map coderOf, bindpairs := f.bindpairs,
    packedIndices := if totIn - (totOut - 1) = 1 then
        (List.range totIn).filter (fun i => !(f.bindpairs.any (fun b => b.1 = i))) else f.packed,
    unpacksizes := f.unpackSizes, digestdefined := f.crc.isSome, crc := f.crc }

theorem coderOf_numIn (cs : List SCoder) : (cs.map coderOf).map (·.numIn) = cs.map (·.numIn) := by
  simp [coderOf, Function.comp_def]

theorem coderOf_numOut (cs : List SCoder) : (cs.map coderOf).map (·.numOut) = cs.map (·.numOut) := by
  simp [coderOf, Function.comp_def]

theorem sFolder_refines {s : Bytes} {f : SFolder} {r : Bytes} (hi : Inp s) (h : sFolder s = .ok (f, r)) :
    readFolder s = .ok (folderOf f, r) ∧ Inp r ∧ f.unpackSizes = [] ∧ f.crc = none := by
  unfold sFolder at h
  obtain ⟨n, s1, h1, k1⟩ := SP.bind_inv h
  obtain ⟨g1, i1⟩ := sNumber_refines' hi h1
  split at k1
  · exact (SP.fail_inv k1).elim
  split at k1
  · exact (SP.fail_inv k1).elim
  obtain ⟨coders, s2, h2, k2⟩ := SP.bind_inv k1
  obtain ⟨g2, i2, l2⟩ := sRepeat_refines (Q := Inp) sCoder readCoder coderOf
    (fun s a r hq hh => sCoder_refines hq hh) n s1 coders s2 i1 h2
  simp only at k2
  split at k2
  · exact (SP.fail_inv k2).elim
  rename_i hout
  obtain ⟨pairs, s3, h3, k3⟩ := SP.bind_inv k2
  obtain ⟨g3, i3, l3⟩ := sRepeat_refines (Q := Inp)
    (do
      let i ← sNumber "bind InIndex"
      let o ← sNumber "bind OutIndex"
      if i ≥ (coders.map (·.numIn)).sum ∨ o ≥ (coders.map (·.numOut)).sum then sfail "bind pair index out of range" else pure (i, o))
    (do let a ← pNumber; let b ← pNumber; pure (a, b)) id
    (by
      intro t a t' hq hh
      obtain ⟨x, u1, q1, m1⟩ := SP.bind_inv hh
      obtain ⟨gx, ix⟩ := sNumber_refines' hq q1
      obtain ⟨y, u2, q2, m2⟩ := SP.bind_inv m1
      obtain ⟨gy, iy⟩ := sNumber_refines' ix q2
      split at m2
      · exact (SP.fail_inv m2).elim
      · have e := SP.pure_inv m2; simp at e
        refine ⟨?_, by rw [e.2]; exact iy⟩
        rw [P.bind_run gx, P.bind_run gy, e.1, e.2]; rfl)
    _ s2 pairs s3 i2 h3
  simp only [List.map_id] at g3
  split at k3
  · exact (SP.fail_inv k3).elim
  rename_i hin
  obtain ⟨packed, s4, h4, k4⟩ := SP.bind_inv k3
  have e := SP.pure_inv k4; simp at e
  unfold readFolder
  rw [P.bind_run g1, P.bind_run g2]
  simp only [coderOf_numIn, coderOf_numOut]
  rw [P.bind_run g3]
  have hnp : (((coders.map (·.numIn)).sum : Nat) : Int) - ((((coders.map (·.numOut)).sum : Nat) : Int) - 1) =
      (((coders.map (·.numIn)).sum - ((coders.map (·.numOut)).sum - 1) : Nat) : Int) := by omega
  simp only [hnp]
  by_cases hp1 : (coders.map (·.numIn)).sum - ((coders.map (·.numOut)).sum - 1) = 1
  · simp only [hp1, if_true] at h4
    have hp1' : (((1 : Nat) : Int) = 1) := rfl
    simp only [hp1, Int.natCast_one, if_true]
    cases hfind : (List.range (coders.map (·.numIn)).sum).find? (fun i => !(pairs.any (fun p => p.1 = i))) with
    | none => simp only [hfind] at h4; exact (SP.fail_inv h4).elim
    | some i =>
      simp only [hfind] at h4
      have e4 := SP.pure_inv h4; simp at e4
      refine ⟨?_, by rw [e.2, e4.2]; exact i3, by rw [e.1], by rw [e.1]⟩
      rw [e.1, e.2, e4.2]
      simp [folderOf, hp1, findInBindPair, pure, StateT.pure, Except.pure]
  · have hp1' : ¬ ((((coders.map (·.numIn)).sum - ((coders.map (·.numOut)).sum - 1) : Nat) : Int) = 1) := by omega
    simp only [hp1, if_false] at h4
    simp only [hp1', if_false, Int.toNat_natCast]
    obtain ⟨g4, i4, _⟩ := sRepeat_refines (Q := Inp) (sNumber "packed stream index") pNumber id
      (fun s a r hq hh => sNumber_refines' hq hh) _ s3 packed s4 i3 h4
    simp only [List.map_id] at g4
    rw [P.bind_run g4]
    refine ⟨?_, by rw [e.2]; exact i4, by rw [e.1], by rw [e.1]⟩
    rw [e.1, e.2]
    simp [folderOf, hp1, pure, StateT.pure, Except.pure]

/-! ### UnpackInfo -/

theorem folderOf_sizes (f : SFolder) (sizes : List Nat) :
    folderOf { f with unpackSizes := sizes } = { folderOf f with unpacksizes := sizes } := by
  simp [folderOf]

theorem folderOf_numOut (f : SFolder) : (folderOf f).coders.map (·.numOut) = f.coders.map (·.numOut) := by
  simp [folderOf, coderOf, Function.comp_def]

theorem sFolderSizes_refines : ∀ (fs : List SFolder) (s : Bytes) (out : List SFolder) (r : Bytes), Inp s →
    sFolderSizes fs s = .ok (out, r) →
    readUnpackSizes (fs.map folderOf) s = .ok (out.map folderOf, r) ∧ Inp r ∧ out.length = fs.length
  | [], s, out, r, hi, h => by
    simp only [sFolderSizes] at h
    have e := SP.pure_inv h; simp at e
    rw [e.1, e.2]; exact ⟨rfl, hi, rfl⟩
  | f :: fs, s, out, r, hi, h => by
    simp only [sFolderSizes] at h
    obtain ⟨sizes, s1, h1, k1⟩ := SP.bind_inv h
    obtain ⟨g1, i1, _⟩ := sRepeat_refines (Q := Inp) (sNumber "coder unpack size") pNumber id
      (fun s a r hq hh => sNumber_refines' hq hh) _ s sizes s1 hi h1
    simp only [List.map_id] at g1
    obtain ⟨rest, s2, h2, k2⟩ := SP.bind_inv k1
    obtain ⟨g2, i2, l2⟩ := sFolderSizes_refines fs s1 rest s2 i1 h2
    have e := SP.pure_inv k2; simp at e
    rw [e.1, e.2]
    refine ⟨?_, i2, by simp [l2]⟩
    simp only [List.map_cons, readUnpackSizes, folderOf_numOut]
    rw [P.bind_run g1, P.bind_run g2, folderOf_sizes]
    rfl

/-- optional CRC words: same bytes, same values; a value is present exactly where the bit is set -/
theorem optCrcs_refine (w : String) : ∀ (defined : List Bool) (s : Bytes) (cs : List (Option Nat)) (r : Bytes), Inp s →
    defined.mapM (fun d => if d then (do let c ← sFixed 4 w; pure (some c)) else (pure none : SP (Option Nat))) s = .ok (cs, r) →
    defined.mapM (fun d => if d then (do let c ← pFixed 4; pure (some c)) else (pure none : P (Option Nat))) s = .ok (cs, r) ∧
      Inp r ∧ defined = cs.map (·.isSome)
  | [], s, cs, r, hi, h => by
    simp only [List.mapM_nil] at h
    have e := SP.pure_inv h; simp at e
    rw [e.1, e.2]; exact ⟨rfl, hi, rfl⟩
  | d :: ds, s, cs, r, hi, h => by
    simp only [List.mapM_cons] at h
    obtain ⟨c, s1, h1, h2⟩ := SP.bind_inv h
    obtain ⟨rest, s2, h3, h4⟩ := SP.bind_inv h2
    have e := SP.pure_inv h4; simp at e
    cases d with
    | false =>
      simp only [Bool.false_eq_true, if_false] at h1
      have e1 := SP.pure_inv h1; simp at e1
      obtain ⟨g, ir, hd⟩ := optCrcs_refine w ds s1 rest s2 (by rw [e1.2]; exact hi) h3
      rw [e.1, e.2]
      refine ⟨?_, ir, by rw [e1.1]; simp [hd]⟩
      simp only [List.mapM_cons, Bool.false_eq_true, if_false]
      rw [e1.2] at g
      rw [e1.1]
      show ((pure none : P (Option Nat)) >>= _) s = _
      rw [P.bind_run (rfl : (pure none : P (Option Nat)) s = .ok (none, s)), P.bind_run g]; rfl
    | true =>
      simp only [if_true] at h1
      obtain ⟨v, t1, q1, m1⟩ := SP.bind_inv h1
      have e1 := SP.pure_inv m1; simp at e1
      obtain ⟨gf, itf⟩ := sFixed_refines' hi q1
      obtain ⟨g, ir, hd⟩ := optCrcs_refine w ds s1 rest s2 (by rw [e1.2]; exact itf) h3
      rw [e.1, e.2]
      refine ⟨?_, ir, by rw [e1.1]; simp [hd]⟩
      simp only [List.mapM_cons, if_true]
      rw [e1.2] at g
      rw [e1.1]
      have gb : ((do let c ← pFixed 4; pure (some c)) : P (Option Nat)) s = .ok (some v, t1) := by
        rw [P.bind_run gf]; rfl
      rw [P.bind_run gb, P.bind_run g]; rfl

theorem zip_crcs_refine : ∀ (fs : List SFolder) (cs : List (Option Nat)),
    ((fs.map folderOf).zip ((cs.map (·.isSome)).zip cs)).map (fun (f, d, c) => { f with digestdefined := d, crc := c }) =
    ((fs.zip cs).map (fun (f, c) => { f with crc := c })).map folderOf
  | [], _ => by simp
  | _ :: _, [] => by simp
  | f :: fs, c :: cs => by
    simp only [List.map_cons, List.zip_cons_cons, zip_crcs_refine fs cs]
    congr 1

theorem sExpect_inv {id : Nat} {w : String} {s : Bytes} {u : Unit} {r : Bytes} (h : sExpect id w s = .ok (u, r)) :
    s = id :: r := by
  unfold sExpect at h
  obtain ⟨b, s1, h1, k1⟩ := SP.bind_inv h
  have e1 := sByte_inv h1
  split at k1
  · rename_i hb
    have e := SP.pure_inv k1; simp at e
    rw [e1, hb, e]
  · exact (SP.fail_inv k1).elim

theorem sUnpackInfo_refines {s : Bytes} {fs : List SFolder} {r : Bytes} (hi : Inp s) (h : sUnpackInfo s = .ok (fs, r)) :
    readUnpackInfo s = .ok (fs.map folderOf, r) ∧ Inp r := by
  unfold sUnpackInfo at h
  obtain ⟨_, s1, h1, k1⟩ := SP.bind_inv h
  have e1 := sExpect_inv h1
  have i1 : Inp s1 := by rw [e1] at hi; exact hi.tail
  obtain ⟨n, s2, h2, k2⟩ := SP.bind_inv k1
  obtain ⟨g2, i2⟩ := sNumber_refines' i1 h2
  obtain ⟨ext, s3, h3, k3⟩ := SP.bind_inv k2
  have e3 := sByte_inv h3
  have i3 : Inp s3 := by rw [e3] at i2; exact i2.tail
  split at k3
  · exact (SP.fail_inv k3).elim
  rename_i hext
  have hext' : ext = 0 := by simpa using hext
  obtain ⟨folders, s4, h4, k4⟩ := SP.bind_inv k3
  obtain ⟨g4, i4, l4⟩ := sRepeat_refines (Q := Inp) sFolder readFolder folderOf
    (fun s a r hq hh => ⟨(sFolder_refines hq hh).1, (sFolder_refines hq hh).2.1⟩) n s3 folders s4 i3 h4
  obtain ⟨_, s5, h5, k5⟩ := SP.bind_inv k4
  have e5 := sExpect_inv h5
  have i5 : Inp s5 := by rw [e5] at i4; exact i4.tail
  obtain ⟨folders2, s6, h6, k6⟩ := SP.bind_inv k5
  obtain ⟨g6, i6, l6⟩ := sFolderSizes_refines folders s5 folders2 s6 i5 h6
  obtain ⟨id1, s7, h7, k7⟩ := SP.bind_inv k6
  have e7 := sByte_inv h7
  have i7 : Inp s7 := by rw [e7] at i6; exact i6.tail
  obtain ⟨fp, s8, h8, k8⟩ := SP.bind_inv k7
  unfold readUnpackInfo
  rw [e1, P.bind_run (read1_cons 0x0B s1)]
  simp only [ne_eq, not_true_eq_false, if_false]
  rw [P.bind_run g2, e3, P.bind_run (readByte_cons ext s3)]
  simp only [hext', ne_eq, not_true_eq_false, if_false]
  rw [P.bind_run g4, e5, P.bind_run (read1_cons 0x0C s5)]
  simp only [not_true_eq_false, if_false]
  rw [P.bind_run g6, e7, P.bind_run (read1_cons id1 s7)]
  by_cases hA : id1 = 0x0A
  · subst hA
    simp only [if_true] at h8 ⊢
    obtain ⟨defined, u1, p1, n1⟩ := SP.bind_inv h8
    obtain ⟨gd, id', ld⟩ := sBoolList_refines' i7 p1
    obtain ⟨cs, u2, p2, n2⟩ := SP.bind_inv n1
    obtain ⟨gc, ic, hdc⟩ := optCrcs_refine "folder CRC" defined u1 cs u2 id' p2
    obtain ⟨id3, u3, p3, n3⟩ := SP.bind_inv n2
    have eu := sByte_inv p3
    have iu3 : Inp u3 := by rw [eu] at ic; exact ic.tail
    have e8 := SP.pure_inv n3; simp at e8
    simp only [bind_assoc, pure_bind]
    rw [P.bind_run gd, P.bind_run gc, eu, P.bind_run (read1_cons id3 u3)]
    rw [e8.1, e8.2] at k8
    simp only at k8
    split at k8
    · exact (SP.fail_inv k8).elim
    · rename_i h0
      have h0' : id3 = 0 := by simpa using h0
      have e := SP.pure_inv k8; simp at e
      rw [e.1, e.2, h0', hdc, zip_crcs_refine]
      exact ⟨rfl, iu3⟩
  · have hA' : ¬ (some id1 = some 0x0A) := by simpa using hA
    simp only [hA, if_false] at h8
    simp only [hA', if_false]
    have e8 := SP.pure_inv h8; simp at e8
    rw [e8.1, e8.2] at k8
    simp only at k8
    split at k8
    · exact (SP.fail_inv k8).elim
    · rename_i h0
      have h0' : id1 = 0 := by simpa using h0
      have e := SP.pure_inv k8; simp at e
      rw [e.1, e.2, h0']
      exact ⟨rfl, i7⟩

/-! ### SubStreamsInfo: the SIZE section -/

/-- at most one output stream of the folder is not bound to an input (the folder has one result) -/
def OneOut (f : SFolder) : Prop :=
  ∀ i j, i < f.unpackSizes.length → j < f.unpackSizes.length →
    (!(f.bindpairs.any (fun p => p.2 = i))) = true → (!(f.bindpairs.any (fun p => p.2 = j))) = true → i = j

/-- the folder's unpack size: py7zr looks for the LAST unbound output, the description for the FIRST; with one
    result they are the same stream -/
theorem folderOut_refines (f : SFolder) (t : Nat) (h1 : OneOut f) (h : folderOut f = .ok t) :
    folderUnpackSize (folderOf f) = some t := by
  unfold folderOut at h
  cases hf : (List.range f.unpackSizes.length).find? (fun o => !(f.bindpairs.any (fun p => p.2 = o))) with
  | none => simp [hf] at h
  | some o =>
    simp only [hf] at h
    have ht : t = f.unpackSizes.getD o 0 := by cases h; rfl
    have hpo : (!(f.bindpairs.any (fun p => p.2 = o))) = true := by
      have := List.find?_some hf; simpa using this
    have hmo : o < f.unpackSizes.length := by
      have := List.mem_of_find?_eq_some hf; simpa using this
    unfold folderUnpackSize
    have hus : (folderOf f).unpacksizes = f.unpackSizes := rfl
    have hbp : ∀ i, findOutBindPair (folderOf f) i = f.bindpairs.any (fun p => p.2 = i) := by
      intro i; simp [findOutBindPair, folderOf]
    simp only [hus, hbp]
    cases hr : (List.range f.unpackSizes.length).reverse.find? (fun i => !(f.bindpairs.any (fun p => p.2 = i))) with
    | none =>
      have := List.find?_eq_none.mp hr o (by simp [hmo])
      simp [hpo] at this
    | some i =>
      have hpi : (!(f.bindpairs.any (fun p => p.2 = i))) = true := by
        have := List.find?_some hr; simpa using this
      have hmi : i < f.unpackSizes.length := by
        have := List.mem_of_find?_eq_some hr; simpa using this
      have : i = o := h1 i o hmi hmo hpi hpo
      subst this
      simp only
      rw [ht, List.getD_eq_getElem?_getD, List.getElem?_eq_getElem hmi]
      rfl

theorem sSubSizes_refines : ∀ (ns : List Nat) (fs : List SFolder) (s : Bytes) (out : List Nat) (r : Bytes), Inp s →
    (∀ f ∈ fs, OneOut f) → sSubSizes ns fs s = .ok (out, r) →
    readSubSizes ns (fs.map folderOf) s = .ok (out, r) ∧ Inp r
  | [], _, s, out, r, hi, _, h => by
    simp only [sSubSizes] at h
    have e := SP.pure_inv h; simp at e
    rw [e.1, e.2]; exact ⟨by simp [readSubSizes, pure, StateT.pure, Except.pure], hi⟩
  | _ :: _, [], s, out, r, _, _, h => by
    simp only [sSubSizes] at h
    exact (SP.fail_inv h).elim
  | n :: ns, f :: fs, s, out, r, hi, h1, h => by
    simp only [sSubSizes] at h
    simp only [List.map_cons, readSubSizes]
    by_cases hn : n = 0
    · simp only [hn, if_true] at h ⊢
      exact sSubSizes_refines ns fs s out r hi (fun g hg => h1 g (List.mem_cons_of_mem _ hg)) h
    · simp only [hn, if_false] at h ⊢
      obtain ⟨explicit, s1, q1, k1⟩ := SP.bind_inv h
      obtain ⟨g1, i1, _⟩ := sRepeat_refines (Q := Inp) (sNumber "sub-stream size") pNumber id
        (fun s a r hq hh => sNumber_refines' hq hh) _ s explicit s1 hi q1
      simp only [List.map_id] at g1
      rw [P.bind_run g1]
      cases hfo : folderOut f with
      | error e => simp only [hfo] at k1; exact (SP.fail_inv k1).elim
      | ok total =>
        simp only [hfo] at k1
        rw [folderOut_refines f total (h1 f (by simp)) hfo]
        simp only
        split at k1
        · exact (SP.fail_inv k1).elim
        · rename_i hsum
          obtain ⟨rest, s2, q2, k2⟩ := SP.bind_inv k1
          obtain ⟨g2, i2⟩ := sSubSizes_refines ns fs s1 rest s2 i1 (fun g hg => h1 g (List.mem_cons_of_mem _ hg)) q2
          have e := SP.pure_inv k2; simp at e
          have hneg : ¬ ((total : Int) - ((explicit.sum : Nat) : Int) < 0) := by omega
          simp only [hneg, if_false]
          rw [P.bind_run g2, e.1, e.2]
          refine ⟨?_, i2⟩
          have : ((total : Int) - ((explicit.sum : Nat) : Int)).toNat = total - explicit.sum := by omega
          simp [this, pure, StateT.pure, Except.pure]

/-! ### SubStreamsInfo as a whole (counts and sizes; the digests are read, their distribution is not compared) -/

/-- explicit sizes cost bytes: the size section is at least as long as the number of explicit sizes -/
theorem sSubSizes_consumes : ∀ (ns : List Nat) (fs : List SFolder) (s : Bytes) (out : List Nat) (r : Bytes), Inp s →
    sSubSizes ns fs s = .ok (out, r) → r.length + (ns.map (fun n => n - 1)).sum ≤ s.length
  | [], _, s, out, r, _, h => by
    simp only [sSubSizes] at h
    have e := SP.pure_inv h; simp at e
    rw [e.2]; simp
  | _ :: _, [], s, out, r, _, h => by
    simp only [sSubSizes] at h
    exact (SP.fail_inv h).elim
  | n :: ns, f :: fs, s, out, r, hi, h => by
    simp only [sSubSizes] at h
    by_cases hn : n = 0
    · simp only [hn, if_true] at h
      have := sSubSizes_consumes ns fs s out r hi h
      simp only [hn, List.map_cons, List.sum_cons]; omega
    · simp only [hn, if_false] at h
      obtain ⟨explicit, s1, q1, k1⟩ := SP.bind_inv h
      obtain ⟨g1, i1, _⟩ := sRepeat_refines (Q := Inp) (sNumber "sub-stream size") pNumber id
        (fun s a r hq hh => sNumber_refines' hq hh) _ s explicit s1 hi q1
      have l1 := (repeatP_len pNumber (fun _ _ _ => pNumber_len) _ _ _ _ g1).2
      cases hfo : folderOut f with
      | error e => simp only [hfo] at k1; exact (SP.fail_inv k1).elim
      | ok total =>
        simp only [hfo] at k1
        split at k1
        · exact (SP.fail_inv k1).elim
        · obtain ⟨rest, s2, q2, k2⟩ := SP.bind_inv k1
          have ih := sSubSizes_consumes ns fs s1 rest s2 i1 q2
          have e := SP.pure_inv k2; simp at e
          rw [e.2]
          simp only [List.map_cons, List.sum_cons]; omega

theorem sum_le_of_all_le_one : ∀ (ns : List Nat), (ns.any (· > 1)) = false → ns.sum ≤ ns.length
  | [], _ => by simp
  | n :: ns, h => by
    simp only [List.any_cons, Bool.or_eq_false_iff, decide_eq_false_iff_not] at h
    have := sum_le_of_all_le_one ns h.2
    simp only [List.sum_cons, List.length_cons]; omega

theorem sum_le_pred_sum_add_length : ∀ (ns : List Nat), ns.sum ≤ (ns.map (fun n => n - 1)).sum + ns.length
  | [] => by simp
  | n :: ns => by
    have := sum_le_pred_sum_add_length ns
    simp only [List.sum_cons, List.map_cons, List.length_cons]; omega

/-- where the description's digest distribution succeeds, py7zr's does (lengths are what can go wrong) -/
theorem assignDigests_succeeds : ∀ (ns : List Nat) (fs : List SFolder) (cs : List (Option Nat)) (all : List (Option Nat))
    (defined : List Bool) (crcs : List Nat), defined.length = cs.length → crcs.length = cs.length →
    spreadCrcs ns fs cs = .ok all → ∃ dc, assignDigests ns (fs.map folderOf) defined crcs = some dc
  | [], _, _, _, _, _, _, _, _ => ⟨([], []), by simp [assignDigests]⟩
  | _ :: _, [], cs, all, _, _, _, _, h => by simp [spreadCrcs] at h
  | n :: ns, f :: fs, cs, all, defined, crcs, hd, hc, h => by
    simp only [spreadCrcs] at h
    simp only [List.map_cons, assignDigests]
    have hfo : ((folderOf f).digestdefined = true ∧ (folderOf f).crc.isSome = true) ↔ f.crc.isSome = true := by
      simp [folderOf]
    by_cases hb : n = 1 ∧ f.crc.isSome
    · simp only [hb, and_self, if_true] at h
      have hb' : n = 1 ∧ (folderOf f).digestdefined = true ∧ (folderOf f).crc.isSome = true := ⟨hb.1, hfo.mpr hb.2⟩
      simp only [hb', and_self, if_true]
      cases hr : spreadCrcs ns fs cs with
      | error e => simp [hr, Except.map] at h
      | ok rest =>
        obtain ⟨dc, hdc⟩ := assignDigests_succeeds ns fs cs rest defined crcs hd hc hr
        exact ⟨_, by rw [hdc]⟩
    · simp only [hb, if_false] at h
      have hb' : ¬ (n = 1 ∧ (folderOf f).digestdefined = true ∧ (folderOf f).crc.isSome = true) := by
        intro x; exact hb ⟨x.1, hfo.mp x.2⟩
      simp only [hb', if_false]
      split at h
      · simp at h
      · rename_i hlen
        cases hr : spreadCrcs ns fs (cs.drop n) with
        | error e => simp [hr, Except.map] at h
        | ok rest =>
          obtain ⟨dc, hdc⟩ := assignDigests_succeeds ns fs (cs.drop n) rest (defined.drop n) (crcs.drop n)
            (by simp [hd]) (by simp [hc]) hr
          have : ¬ (defined.length < n ∨ crcs.length < n) := by omega
          simp only [this, if_false]
          exact ⟨_, by rw [hdc]⟩

theorem map_folderOf_length (fs : List SFolder) : (fs.map folderOf).length = fs.length := by simp

/-- the digest-count of py7zr and of the description are the same number -/
theorem numDigests_eq (nums : List Nat) (fs : List SFolder) :
    ((nums.zip (fs.map folderOf)).map (fun (n, f) => if n ≠ 1 ∨ !f.digestdefined then n else 0)).sum =
    ((nums.zip fs).map (fun (n, f) => if n = 1 ∧ f.crc.isSome then 0 else n)).sum := by
  induction nums generalizing fs with
  | nil => simp
  | cons n ns ih =>
    cases fs with
    | nil => simp
    | cons f fs =>
      simp only [List.map_cons, List.zip_cons_cons, List.sum_cons, ih fs]
      congr 1
      by_cases h1 : n = 1 <;> cases hc : f.crc <;> simp [folderOf, h1, hc]

/-- py7zr keeps 0 for an undefined CRC where the description keeps nothing: same bytes consumed -/
theorem zeroCrcs_of_optCrcs : ∀ (cs : List (Option Nat)) (t1 t2 : Bytes),
    (cs.map (·.isSome)).mapM (fun d => if d then (do let c ← pFixed 4; pure (some c)) else (pure none : P (Option Nat))) t1 = .ok (cs, t2) →
    (cs.map (·.isSome)).mapM (fun d => if d then pFixed 4 else (pure 0 : P Nat)) t1 = .ok (cs.map (·.getD 0), t2)
  | [], t1, t2, h => by
    simp only [List.map_nil, List.mapM_nil] at h ⊢
    have e := P.pure_inv h; simp at e
    rw [e]; rfl
  | c :: cs, t1, t2, h => by
    simp only [List.map_cons, List.mapM_cons] at h ⊢
    obtain ⟨v, u1, b1, n1⟩ := P.bind_inv h
    obtain ⟨rest, u2, b2, n2⟩ := P.bind_inv n1
    have e2 := P.pure_inv n2; simp at e2
    obtain ⟨⟨ev, erest⟩, eu⟩ := e2
    have ih := zeroCrcs_of_optCrcs cs u1 u2 (by rw [← erest] at b2; exact b2)
    cases c with
    | none =>
      simp only [Option.isSome_none, Bool.false_eq_true, if_false] at b1 ⊢
      have e1' := P.pure_inv b1; simp at e1'
      rw [P.bind_run (rfl : (pure 0 : P Nat) t1 = .ok (0, t1)), ← e1'.2, P.bind_run ih, eu]; rfl
    | some x =>
      simp only [Option.isSome_some, if_true] at b1 ⊢
      obtain ⟨y, w1, c1, o1⟩ := P.bind_inv b1
      have e1' := P.pure_inv o1; simp at e1'
      have hy : y = x := by have := e1'.1; rw [← ev] at this; simpa using this.symm
      rw [P.bind_run c1, ← e1'.2, P.bind_run ih, eu, hy]; rfl

theorem sSubStreams_refines {total : Nat} {folders : List SFolder} {s : Bytes} {nums sizes : List Nat}
    {crcs : List (Option Nat)} {r : Bytes} (hi : Inp s) (hst : s.length ≤ total) (h1 : ∀ f ∈ folders, OneOut f)
    (h : sSubStreams folders s = .ok ((nums, sizes, crcs), r)) :
    ∃ ss, readSubStreams total (folders.map folderOf) s = .ok (ss, r) ∧ ss.numUnpack = nums ∧
      (ss.unpacksizes = some sizes ∨ (ss.unpacksizes = none ∧ nums.any (· > 1) = false)) ∧ Inp r := by
  unfold sSubStreams at h
  obtain ⟨id1, s1, q1, k1⟩ := SP.bind_inv h
  have e1 := sByte_inv q1
  have i1 : Inp s1 := by rw [e1] at hi; exact hi.tail
  have ls1 : s1.length + 1 ≤ total := by rw [e1] at hst; simpa using hst
  obtain ⟨np, s2, q2, k2⟩ := SP.bind_inv k1
  obtain ⟨zp, s3, q3, k3⟩ := SP.bind_inv k2
  simp only at k3
  obtain ⟨cp, s4, q4, k4⟩ := SP.bind_inv k3
  split at k4
  · exact (SP.fail_inv k4).elim
  rename_i hend
  have hend' : cp.2 = 0 := by simpa using hend
  cases hsp : spreadCrcs np.1 folders cp.1 with
  | error e => simp only [hsp] at k4; exact (SP.fail_inv k4).elim
  | ok all =>
  simp only [hsp] at k4
  have efin := SP.pure_inv k4; simp at efin
  obtain ⟨⟨en, ez, _⟩, er⟩ := efin
  -- the counts, and what the counts cost in bytes
  have hnums : ∃ s2' id2, s2 = s2' ∧ np.2 = id2 ∧ np.1.length = folders.length ∧ Inp s2 ∧ s2.length ≤ s1.length ∧
      ((id1 = 0x0D ∧ repeatP folders.length pNumber s1 = .ok (np.1, id2 :: s2) ∧ s2.length + 1 + folders.length ≤ s1.length) ∨
       (id1 ≠ 0x0D ∧ np = (List.replicate folders.length 1, id1) ∧ s2 = s1)) := by
    by_cases hD : id1 = 0x0D
    · simp only [hD, if_true] at q2
      obtain ⟨ns, t1, a1, m1⟩ := SP.bind_inv q2
      obtain ⟨g, it1, l⟩ := sRepeat_refines (Q := Inp) (sNumber "NumUnpackStream") pNumber id
        (fun s a r hq hh => sNumber_refines' hq hh) _ s1 ns t1 i1 a1
      simp only [List.map_id] at g
      have lc := (repeatP_len pNumber (fun _ _ _ => pNumber_len) _ _ _ _ g).2
      obtain ⟨id2, t2, a2, m2⟩ := SP.bind_inv m1
      have et := sByte_inv a2
      have e := SP.pure_inv m2; simp at e
      have it2 : Inp t2 := by rw [et] at it1; exact it1.tail
      have ll : t2.length + 1 = t1.length := by rw [et]; simp
      refine ⟨s2, id2, rfl, by rw [e.1], by rw [e.1]; exact l, by rw [e.2]; exact it2, by rw [e.2]; omega, Or.inl ⟨hD, ?_, by rw [e.2]; omega⟩⟩
      rw [e.1, e.2, ← et]; exact g
    · simp only [hD, if_false] at q2
      have e := SP.pure_inv q2; simp at e
      refine ⟨s2, id1, rfl, by rw [e.1], by rw [e.1]; simp, by rw [e.2]; exact i1, by rw [e.2]; omega, Or.inr ⟨hD, e.1, e.2⟩⟩
  obtain ⟨_, id2, _, hid2, hnl, i2, l2, hnum⟩ := hnums
  -- the sizes
  have hsizes : ∃ zi, ((if some id2 = some 0x09 then (do
        let s ← readSubSizes np.1 (folders.map folderOf)
        let pid ← read1
        pure (some s, pid)) else (pure (none, some id2) : P (Option (List Nat) × Option Nat))) s2 = .ok ((zi, some zp.2), s3)) ∧
      (zi = some zp.1 ∨ (zi = none ∧ np.1.any (· > 1) = false)) ∧ Inp s3 ∧
      np.1.sum ≤ s2.length + folders.length := by
    rw [hid2] at q3
    by_cases h9 : id2 = 0x09
    · simp only [h9, if_true] at q3 ⊢
      obtain ⟨sz, t1, a1, m1⟩ := SP.bind_inv q3
      obtain ⟨g, it1⟩ := sSubSizes_refines np.1 folders s2 sz t1 i2 h1 a1
      have lc := sSubSizes_consumes np.1 folders s2 sz t1 i2 a1
      obtain ⟨id3, t2, a2, m2⟩ := SP.bind_inv m1
      have et := sByte_inv a2
      have e := SP.pure_inv m2; simp at e
      have it2 : Inp t2 := by rw [et] at it1; exact it1.tail
      refine ⟨some sz, ?_, Or.inl (by rw [e.1]), by rw [e.2]; exact it2, ?_⟩
      · rw [P.bind_run g, et, P.bind_run (read1_cons id3 t2), e.1, e.2]; rfl
      · have := sum_le_pred_sum_add_length np.1; omega
    · have h9' : ¬ (some id2 = some 0x09) := by simpa using h9
      simp only [h9, if_false] at q3
      simp only [h9', if_false]
      split at q3
      · exact (SP.fail_inv q3).elim
      rename_i hany
      have hany' : np.1.any (· > 1) = false := by simpa using hany
      cases hm : (np.1.zip folders).mapM (fun ((n, f) : Nat × SFolder) => if n = 0 then (Except.ok [] : Except String (List Nat)) else (folderOut f).map (fun t => [t])) with
      | error e => simp only [hm] at q3; exact (SP.fail_inv q3).elim
      | ok l =>
        simp only [hm] at q3
        have e := SP.pure_inv q3; simp at e
        refine ⟨none, ?_, Or.inr ⟨rfl, hany'⟩, by rw [e.2]; exact i2, ?_⟩
        · rw [e.1, e.2]; rfl
        · have := sum_le_of_all_le_one np.1 hany'; omega
  obtain ⟨zi, gz, hzrel, i3, hsum⟩ := hsizes
  -- the digests
  have hcrc : ∃ dd ds, ((if some zp.2 = some 0x0A then (do
        let defined ← pBools ((np.1.zip (folders.map folderOf)).map (fun (n, f) => if n ≠ 1 ∨ !f.digestdefined then n else 0)).sum true
        let crcs ← defined.mapM (fun d => if d then pFixed 4 else pure 0)
        match assignDigests np.1 (folders.map folderOf) defined crcs with
        | none => Impl.fail .malformed
        | some (d, c) =>
          let pid ← read1
          pure (d, c, pid)) else (pure ([], [], some zp.2) : P (List Bool × List Nat × Option Nat))) s3 = .ok ((dd, ds, some cp.2), s4)) ∧ Inp s4 := by
    rw [numDigests_eq]
    by_cases hA : zp.2 = 0x0A
    · simp only [hA, if_true] at q4 ⊢
      obtain ⟨defined, t1, a1, m1⟩ := SP.bind_inv q4
      obtain ⟨gd, it1, ld⟩ := sBoolList_refines' i3 a1
      obtain ⟨cs, t2, a2, m2⟩ := SP.bind_inv m1
      obtain ⟨gc0, it2, hdc⟩ := optCrcs_refine "sub-stream CRC" defined t1 cs t2 it1 a2
      obtain ⟨id4, t3, a3, m3⟩ := SP.bind_inv m2
      have et := sByte_inv a3
      have e := SP.pure_inv m3; simp at e
      have it3 : Inp t3 := by rw [et] at it2; exact it2.tail
      -- py7zr keeps 0 for an undefined CRC where the description keeps nothing
      have gc : defined.mapM (fun d => if d then pFixed 4 else (pure 0 : P Nat)) t1 = .ok (cs.map (·.getD 0), t2) := by
        rw [hdc] at gc0 ⊢
        exact zeroCrcs_of_optCrcs cs t1 t2 gc0
      have hsp' : spreadCrcs np.1 folders cs = .ok all := by have := hsp; rw [e.1] at this; exact this
      obtain ⟨dc, hdc'⟩ := assignDigests_succeeds np.1 folders cs all defined (cs.map (·.getD 0))
        (by rw [hdc]; simp) (by simp) hsp'
      obtain ⟨d, c⟩ := dc
      refine ⟨d, c, ?_, by rw [e.2]; exact it3⟩
      rw [P.bind_run gd, P.bind_run gc]
      simp only [hdc']
      rw [et, P.bind_run (read1_cons id4 t3), e.1, e.2]; rfl
    · have hA' : ¬ (some zp.2 = some 0x0A) := by simpa using hA
      simp only [hA, if_false] at q4
      simp only [hA', if_false]
      have e := SP.pure_inv q4; simp at e
      exact ⟨[], [], by rw [e.1, e.2]; rfl, by rw [e.2]; exact i3⟩
  obtain ⟨dd, ds, gc, i4⟩ := hcrc
  -- assemble py7zr's run
  unfold readSubStreams
  simp only [map_folderOf_length]
  rw [e1, P.bind_run (read1_cons id1 s1)]
  have gN : ((if some id1 = some 0x0D then (do
        let ns ← repeatP folders.length pNumber
        if ns.sum > total * 8 then Impl.fail .bad7z else
        let pid ← read1
        pure (ns, pid)) else (pure (List.replicate folders.length 1, some id1) : P (List Nat × Option Nat))) s1 = .ok ((np.1, some id2), s2)) := by
    rcases hnum with ⟨hD, g, lg⟩ | ⟨hD, enp, es2⟩
    · simp only [hD, if_true]
      rw [P.bind_run g]
      have hguard : ¬ (np.1.sum > total * 8) := by omega
      simp only [hguard, if_false]
      rw [P.bind_run (read1_cons id2 s2)]; rfl
    · have hD' : ¬ (some id1 = some 0x0D) := by simpa using hD
      simp only [hD', if_false]
      have : id2 = id1 := by rw [← hid2, enp]
      rw [enp, es2, this]; rfl
  rw [P.bind_run gN]
  simp only
  rw [P.bind_run gz]
  simp only
  simp only at gc
  erw [P.bind_run gc]
  simp only [hend', ne_eq, not_true_eq_false, if_false]
  by_cases hde : dd.isEmpty
  · simp only [hde, if_true]
    refine ⟨_, by rw [er]; rfl, by rw [en], ?_, by rw [er]; exact i4⟩
    show zi = some sizes ∨ (zi = none ∧ nums.any (· > 1) = false)
    rw [ez, en]; exact hzrel
  · simp only [hde, if_false]
    refine ⟨_, by rw [er]; rfl, by rw [en], ?_, by rw [er]; exact i4⟩
    show zi = some sizes ∨ (zi = none ∧ nums.any (· > 1) = false)
    rw [ez, en]; exact hzrel

/-! ### StreamsInfo -/

theorem sStreams_refines {total : Nat} {s : Bytes} {ss : SStreams} {r : Bytes} (hi : Inp s) (hst : s.length ≤ total)
    (hone : ∀ f ∈ ss.folders, OneOut f) (h : sStreams s = .ok (ss, r)) :
    ∃ st, readStreams total s = .ok (st, r) ∧
      (∀ sp, ss.pack = some sp → ∃ ip, st.packinfo = some ip ∧ ip.packpos = sp.packpos ∧ ip.packsizes = sp.sizes) ∧
      (ss.pack = none → st.packinfo = none) ∧
      st.folders.getD [] = ss.folders.map folderOf ∧
      (∀ x, st.substreams = some x → x.numUnpack = ss.numUnpack ∧
        (x.unpacksizes = some ss.subSizes ∨ (x.unpacksizes = none ∧ ss.numUnpack.any (· > 1) = false))) ∧
      (st.substreams = none → ss.numUnpack = ss.folders.map (fun _ => 1)) ∧ Inp r := by
  unfold sStreams at h
  obtain ⟨id1, s1, q1, k1⟩ := SP.bind_inv h
  have e1 := sByte_inv q1
  have i1 : Inp s1 := by rw [e1] at hi; exact hi.tail
  have l1 : s1.length ≤ total := by rw [e1] at hst; simp at hst; omega
  obtain ⟨pp, s2, q2, k2⟩ := SP.bind_inv k1
  obtain ⟨fp, s3, q3, k3⟩ := SP.bind_inv k2
  obtain ⟨bp, s4, q4, k4⟩ := SP.bind_inv k3
  obtain ⟨sub, id4⟩ := bp
  simp only at k4
  split at k4
  · exact (SP.fail_inv k4).elim
  rename_i hend
  have hend' : id4 = 0 := by simpa using hend
  have k5 : (match sub with
      | some (nums, sizes, crcs) => (pure { pack := pp.1, folders := fp.1, numUnpack := nums, subSizes := sizes, subCrcs := crcs } : SP SStreams)
      | none =>
        match fp.1.mapM folderOut with
        | .error e => sfail e
        | .ok outs => pure { pack := pp.1, folders := fp.1, numUnpack := fp.1.map (fun _ => 1), subSizes := outs,
                             subCrcs := fp.1.map (fun (x : SFolder) => x.crc) }) s4 = .ok (ss, r) := by
    cases hpk1 : pp.1 with
    | none =>
      simp only [hpk1] at k4
      split at k4
      · exact (SP.fail_inv k4).elim
      · exact k4
    | some p =>
      simp only [hpk1] at k4
      split at k4
      · exact (SP.fail_inv k4).elim
      · exact k4
  clear k4
  -- PackInfo
  have hP : ∃ ipo, ((if some id1 = some 0x06 then (do
        let p ← readPackInfo
        let pid ← read1
        pure (some p, pid)) else (pure (none, some id1) : P (Option PackInfo × Option Nat))) s1 = .ok ((ipo, some pp.2), s2)) ∧
      (∀ sp, pp.1 = some sp → ∃ ip, ipo = some ip ∧ ip.packpos = sp.packpos ∧ ip.packsizes = sp.sizes) ∧
      (pp.1 = none → ipo = none) ∧ Inp s2 ∧ s2.length ≤ s1.length := by
    by_cases h6 : id1 = 0x06
    · simp only [h6, if_true] at q2 ⊢
      obtain ⟨sp, t1, a1, m1⟩ := SP.bind_inv q2
      obtain ⟨ip, g, c1, c2, _, it1⟩ := sPackInfo_refines' i1 a1
      have lt1 := (readPackInfo_post g).2
      obtain ⟨id2, t2, a2, m2⟩ := SP.bind_inv m1
      have et := sByte_inv a2
      have e := SP.pure_inv m2; simp at e
      have it2 : Inp t2 := by rw [et] at it1; exact it1.tail
      have lt2 : t2.length ≤ t1.length := by rw [et]; simp
      refine ⟨some ip, ?_, ?_, ?_, by rw [e.2]; exact it2, by rw [e.2]; omega⟩
      · rw [P.bind_run g, et, P.bind_run (read1_cons id2 t2), e.1, e.2]; rfl
      · intro sp' hsp; rw [e.1] at hsp; simp at hsp; subst hsp; exact ⟨ip, rfl, c1, c2⟩
      · intro hn; rw [e.1] at hn; simp at hn
    · have h6' : ¬ (some id1 = some 0x06) := by simpa using h6
      simp only [h6, if_false] at q2
      simp only [h6', if_false]
      have e := SP.pure_inv q2; simp at e
      refine ⟨none, by rw [e.1, e.2]; rfl, ?_, fun _ => rfl, by rw [e.2]; exact i1, by rw [e.2]; omega⟩
      intro sp' hsp; rw [e.1] at hsp; simp at hsp
  obtain ⟨ipo, gP, hpk, hpn, i2, l2⟩ := hP
  -- UnpackInfo
  have hF : ∃ ifo, ((if some pp.2 = some 0x07 then (do
        let f ← readUnpackInfo
        let pid ← read1
        pure (some f, pid)) else (pure (none, some pp.2) : P (Option (List Folder) × Option Nat))) s2 = .ok ((ifo, some fp.2.2), s3)) ∧
      ifo.getD [] = fp.1.map folderOf ∧ (fp.2.1 = true → ifo = some (fp.1.map folderOf)) ∧ (fp.2.1 = false → ifo = none ∧ fp.1 = []) ∧
      Inp s3 ∧ s3.length ≤ s2.length := by
    by_cases h7 : pp.2 = 0x07
    · simp only [h7, if_true] at q3 ⊢
      obtain ⟨fs, t1, a1, m1⟩ := SP.bind_inv q3
      obtain ⟨g, it1⟩ := sUnpackInfo_refines i2 a1
      have lt1 := (readUnpackInfo_post g).2
      obtain ⟨id2, t2, a2, m2⟩ := SP.bind_inv m1
      have et := sByte_inv a2
      have e := SP.pure_inv m2; simp at e
      have it2 : Inp t2 := by rw [et] at it1; exact it1.tail
      have lt2 : t2.length ≤ t1.length := by rw [et]; simp
      refine ⟨some (fs.map folderOf), ?_, by simp [e.1], by intro _; simp [e.1], by intro hf; rw [e.1] at hf; simp at hf,
        by rw [e.2]; exact it2, by rw [e.2]; omega⟩
      rw [P.bind_run g, et, P.bind_run (read1_cons id2 t2), e.1, e.2]; rfl
    · have h7' : ¬ (some pp.2 = some 0x07) := by simpa using h7
      simp only [h7, if_false] at q3
      simp only [h7', if_false]
      have e := SP.pure_inv q3; simp at e
      refine ⟨none, by rw [e.1, e.2]; rfl, by simp [e.1], by intro hf; rw [e.1] at hf; simp at hf, by intro _; simp [e.1],
        by rw [e.2]; exact i2, by rw [e.2]; omega⟩
  obtain ⟨ifo, gF, hfo, hft, hff, i3, l3⟩ := hF
  -- what the final record is made of
  have hfold : ss.folders = fp.1 ∧ ss.pack = pp.1 := by
    cases hb : sub with
    | some t =>
      obtain ⟨nums, sizes, crcs⟩ := t
      rw [hb] at k5
      simp only at k5
      have e := SP.pure_inv k5; simp at e
      rw [e.1]; exact ⟨rfl, rfl⟩
    | none =>
      simp only [hb] at k5
      cases hm : fp.1.mapM folderOut with
      | error e => simp only [hm] at k5; exact (SP.fail_inv k5).elim
      | ok outs =>
        simp only [hm] at k5
        have e := SP.pure_inv k5; simp at e
        rw [e.1]; exact ⟨rfl, rfl⟩
  -- SubStreamsInfo
  have hS : ∃ iso, ((if some fp.2.2 = some 0x08 then
        (match ifo with
        | none => Impl.fail .bad7z
        | some folders => (do
          let s ← readSubStreams total folders
          let pid ← read1
          pure (some s, pid)))
        else (pure (none, some fp.2.2) : P (Option SubStreams × Option Nat))) s3 = .ok ((iso, some id4), s4)) ∧
      (∀ x, iso = some x → ∃ nums sizes crcs, sub = some (nums, sizes, crcs) ∧ x.numUnpack = nums ∧
        (x.unpacksizes = some sizes ∨ (x.unpacksizes = none ∧ nums.any (· > 1) = false))) ∧
      (iso = none → sub = none) ∧ Inp s4 := by
    by_cases h8 : fp.2.2 = 0x08
    · simp only [h8, if_true] at q4 ⊢
      split at q4
      · exact (SP.fail_inv q4).elim
      rename_i hhas
      have hhas' : fp.2.1 = true := by simpa using hhas
      rw [hft hhas']
      simp only
      obtain ⟨t, t1, a1, m1⟩ := SP.bind_inv q4
      obtain ⟨nums, sizes, crcs⟩ := t
      obtain ⟨x, g, c1, c2, it1⟩ := sSubStreams_refines (total := total) i3 (by omega)
        (fun f hf => hone f (by rw [hfold.1]; exact hf)) a1
      obtain ⟨id2, t2, a2, m2⟩ := SP.bind_inv m1
      have et := sByte_inv a2
      have e := SP.pure_inv m2; simp at e
      have it2 : Inp t2 := by rw [et] at it1; exact it1.tail
      refine ⟨some x, ?_, ?_, by intro hx; simp at hx, by rw [e.2]; exact it2⟩
      · rw [P.bind_run g, et, P.bind_run (read1_cons id2 t2), e.1.2, e.2]; rfl
      · intro y hy; simp at hy; subst hy
        exact ⟨nums, sizes, crcs, e.1.1, c1, c2⟩
    · have h8' : ¬ (some fp.2.2 = some 0x08) := by simpa using h8
      simp only [h8, if_false] at q4
      simp only [h8', if_false]
      have e := SP.pure_inv q4; simp at e
      exact ⟨none, by rw [e.1.2, e.2]; rfl, by intro y hy; simp at hy, by intro _; exact e.1.1, by rw [e.2]; exact i3⟩
  obtain ⟨iso, gS, hsx, hsn, i4⟩ := hS
  -- assemble
  unfold readStreams
  rw [e1, P.bind_run (read1_cons id1 s1), P.bind_run gP]
  simp only
  rw [P.bind_run gF]
  simp only
  erw [P.bind_run gS]
  simp only [hend', ne_eq, not_true_eq_false, if_false]
  -- the strict reader's record
  cases hb : sub with
  | some t =>
    obtain ⟨nums, sizes, crcs⟩ := t
    simp only [hb] at k5
    have e := SP.pure_inv k5; simp at e
    refine ⟨_, by rw [e.2]; rfl, ?_, ?_, ?_, ?_, ?_, by rw [e.2]; exact i4⟩
    · intro sp hsp; rw [e.1] at hsp; exact hpk sp hsp
    · intro hn; rw [e.1] at hn; exact hpn hn
    · rw [e.1]; exact hfo
    · intro x hx
      obtain ⟨n', z', c', hb', c1, c2⟩ := hsx x hx
      rw [hb] at hb'; simp at hb'
      rw [e.1]; simp only
      rw [hb'.1, hb'.2.1]
      exact ⟨c1, c2⟩
    · intro hn; have := hsn hn; rw [hb] at this; simp at this
  | none =>
    simp only [hb] at k5
    cases hm : fp.1.mapM folderOut with
    | error e => simp only [hm] at k5; exact (SP.fail_inv k5).elim
    | ok outs =>
      simp only [hm] at k5
      have e := SP.pure_inv k5; simp at e
      refine ⟨_, by rw [e.2]; rfl, ?_, ?_, ?_, ?_, ?_, by rw [e.2]; exact i4⟩
      · intro sp hsp; rw [e.1] at hsp; exact hpk sp hsp
      · intro hn; rw [e.1] at hn; exact hpn hn
      · rw [e.1]; exact hfo
      · intro x hx
        obtain ⟨n', z', c', hb', _⟩ := hsx x hx
        rw [hb] at hb'; simp at hb'
      · intro _; rw [e.1]

/-- an optional vector of `k`-byte words: a value is present exactly where the bit is set -/
theorem optCrcs_refine_gen (k : Nat) (w : String) : ∀ (defined : List Bool) (s : Bytes) (cs : List (Option Nat)) (r : Bytes), Inp s →
    defined.mapM (fun d => if d then (do let c ← sFixed k w; pure (some c)) else (pure none : SP (Option Nat))) s = .ok (cs, r) →
    True ∧ Inp r ∧ defined = cs.map (·.isSome)
  | [], s, cs, r, hi, h => by
    simp only [List.mapM_nil] at h
    have e := SP.pure_inv h; simp at e
    rw [e.1, e.2]; exact ⟨trivial, hi, rfl⟩
  | d :: ds, s, cs, r, hi, h => by
    simp only [List.mapM_cons] at h
    obtain ⟨c, s1, h1, h2⟩ := SP.bind_inv h
    obtain ⟨rest, s2, h3, h4⟩ := SP.bind_inv h2
    have e := SP.pure_inv h4; simp at e
    cases d with
    | false =>
      simp only [Bool.false_eq_true, if_false] at h1
      have e1 := SP.pure_inv h1; simp at e1
      obtain ⟨_, ir, hd⟩ := optCrcs_refine_gen k w ds s1 rest s2 (by rw [e1.2]; exact hi) h3
      rw [e.1, e.2]
      exact ⟨trivial, ir, by rw [e1.1]; simp [hd]⟩
    | true =>
      simp only [if_true] at h1
      obtain ⟨v, t1, q1, m1⟩ := SP.bind_inv h1
      have e1 := SP.pure_inv m1; simp at e1
      obtain ⟨_, itf⟩ := sFixed_refines' hi q1
      obtain ⟨_, ir, hd⟩ := optCrcs_refine_gen k w ds s1 rest s2 (by rw [e1.2]; exact itf) h3
      rw [e.1, e.2]
      exact ⟨trivial, ir, by rw [e1.1]; simp [hd]⟩

/-! ### FilesInfo: the optional fixed-width vector properties (times, attributes) -/

/-- what py7zr stores for an entry of an optional vector: the value, or "read but undefined" -/
def slotOfOpt : Option Nat → Slot Nat
  | some v => .val v
  | none => .undef

/-- the values of a time property (CTime / ATime / MTime), entry by entry -/
theorem setTimes_refines (k : TimeKind) (w : String) : ∀ (files : List FileEntry) (vals : List (Option Nat)) (s r : Bytes),
    Inp s → files.length = vals.length →
    (vals.map (·.isSome)).mapM (fun d => if d then (do let v ← sFixed 8 w; pure (some v)) else (pure none : SP (Option Nat))) s = .ok (vals, r) →
    setTimes k files (vals.map (·.isSome)) s = .ok ((files.zip vals).map (fun (f, v) => setTime k f (slotOfOpt v)), r) ∧ Inp r
  | [], [], s, r, hi, _, h => by
    simp only [List.map_nil, List.mapM_nil] at h
    have e := SP.pure_inv h; simp at e
    rw [e]; exact ⟨rfl, hi⟩
  | [], _ :: _, _, _, _, hl, _ => by simp at hl
  | _ :: _, [], _, _, _, hl, _ => by simp at hl
  | f :: fs, v :: vs, s, r, hi, hl, h => by
    simp only [List.map_cons, List.mapM_cons] at h
    obtain ⟨c, s1, h1, h2⟩ := SP.bind_inv h
    obtain ⟨rest, s2, h3, h4⟩ := SP.bind_inv h2
    have e := SP.pure_inv h4; simp at e
    obtain ⟨⟨ec, erest⟩, er⟩ := e
    rw [← erest] at h3
    simp only [List.map_cons, setTimes, List.zip_cons_cons]
    cases v with
    | none =>
      simp only [Option.isSome_none, Bool.false_eq_true, if_false] at h1 ⊢
      have e1 := SP.pure_inv h1; simp at e1
      obtain ⟨g, ir⟩ := setTimes_refines k w fs vs s1 s2 (by rw [e1.2]; exact hi) (by simpa using hl) h3
      rw [P.bind_run (rfl : (pure Slot.undef : P (Slot Nat)) s = .ok (Slot.undef, s)), ← e1.2, P.bind_run g, er]
      exact ⟨rfl, by first | exact ir | (rw [er] at ir; exact ir) | (rw [← er] at ir; exact ir)⟩
    | some x =>
      simp only [Option.isSome_some, if_true] at h1 ⊢
      obtain ⟨y, t1, q1, m1⟩ := SP.bind_inv h1
      have e1 := SP.pure_inv m1; simp at e1
      obtain ⟨gf, itf⟩ := sFixed_refines' hi q1
      obtain ⟨g, ir⟩ := setTimes_refines k w fs vs s1 s2 (by rw [e1.2]; exact itf) (by simpa using hl) h3
      have hy : y = x := by have := e1.1; rw [← ec] at this; simpa using this.symm
      have gb : ((do let t ← pFixed 8; pure (Slot.val t)) : P (Slot Nat)) s = .ok (Slot.val x, s1) := by
        rw [P.bind_run gf, e1.2, hy]; rfl
      rw [P.bind_run gb, P.bind_run g, er]
      exact ⟨rfl, by first | exact ir | (rw [er] at ir; exact ir) | (rw [← er] at ir; exact ir)⟩

/-- the property body as a whole: BooleanList, external byte, values -/
theorem sOptVector_times_refines (k : TimeKind) (w : String) (files : List FileEntry) (vals : List (Option Nat)) (s r : Bytes)
    (hi : Inp s) (h : sOptVector files.length 8 w s = .ok (vals, r)) :
    (do
      let defined ← pBools files.length true
      let ext ← read1
      if ext ≠ some 0 then Impl.fail .malformed else setTimes k files defined : P (List FileEntry)) s =
      .ok ((files.zip vals).map (fun (f, v) => setTime k f (slotOfOpt v)), r) ∧ Inp r ∧ vals.length = files.length := by
  unfold sOptVector at h
  obtain ⟨defined, s1, q1, k1⟩ := SP.bind_inv h
  obtain ⟨gd, i1, ld⟩ := sBoolList_refines' hi q1
  obtain ⟨ext, s2, q2, k2⟩ := SP.bind_inv k1
  have e2 := sByte_inv q2
  have i2 : Inp s2 := by rw [e2] at i1; exact i1.tail
  split at k2
  · exact (SP.fail_inv k2).elim
  rename_i hext
  have hext' : ext = 0 := by simpa using hext
  -- the values determine the bits
  have hdv : defined = vals.map (·.isSome) := by
    have := (optCrcs_refine_gen 8 w defined s2 vals r i2 k2).2.2
    exact this
  have hl : files.length = vals.length := by rw [← ld, hdv]; simp
  rw [hdv] at k2
  obtain ⟨g, ir⟩ := setTimes_refines k w files vals s2 r i2 hl k2
  rw [P.bind_run gd, e2, P.bind_run (read1_cons ext s2)]
  simp only [hext', ne_eq, not_true_eq_false, if_false, hdv]
  exact ⟨g, ir, hl.symm⟩

theorem setAttrs_refines (w : String) : ∀ (files : List FileEntry) (vals : List (Option Nat)) (s r : Bytes),
    Inp s → files.length = vals.length →
    (vals.map (·.isSome)).mapM (fun d => if d then (do let v ← sFixed 4 w; pure (some v)) else (pure none : SP (Option Nat))) s = .ok (vals, r) →
    setAttrs files (vals.map (·.isSome)) s = .ok ((files.zip vals).map (fun (f, v) => { f with attributes := slotOfOpt v }), r) ∧ Inp r
  | [], [], s, r, hi, _, h => by
    simp only [List.map_nil, List.mapM_nil] at h
    have e := SP.pure_inv h; simp at e
    rw [e]; exact ⟨rfl, hi⟩
  | [], _ :: _, _, _, _, hl, _ => by simp at hl
  | _ :: _, [], _, _, _, hl, _ => by simp at hl
  | f :: fs, v :: vs, s, r, hi, hl, h => by
    simp only [List.map_cons, List.mapM_cons] at h
    obtain ⟨c, s1, h1, h2⟩ := SP.bind_inv h
    obtain ⟨rest, s2, h3, h4⟩ := SP.bind_inv h2
    have e := SP.pure_inv h4; simp at e
    obtain ⟨⟨ec, erest⟩, er⟩ := e
    rw [← erest] at h3
    simp only [List.map_cons, setAttrs, List.zip_cons_cons]
    cases v with
    | none =>
      simp only [Option.isSome_none, Bool.false_eq_true, if_false] at h1 ⊢
      have e1 := SP.pure_inv h1; simp at e1
      obtain ⟨g, ir⟩ := setAttrs_refines w fs vs s1 s2 (by rw [e1.2]; exact hi) (by simpa using hl) h3
      rw [P.bind_run (rfl : (pure Slot.undef : P (Slot Nat)) s = .ok (Slot.undef, s)), ← e1.2, P.bind_run g, er]
      exact ⟨rfl, by first | exact ir | (rw [er] at ir; exact ir) | (rw [← er] at ir; exact ir)⟩
    | some x =>
      simp only [Option.isSome_some, if_true] at h1 ⊢
      obtain ⟨y, t1, q1, m1⟩ := SP.bind_inv h1
      have e1 := SP.pure_inv m1; simp at e1
      obtain ⟨gf, itf⟩ := sFixed_refines' hi q1
      obtain ⟨g, ir⟩ := setAttrs_refines w fs vs s1 s2 (by rw [e1.2]; exact itf) (by simpa using hl) h3
      have hy : y = x := by have := e1.1; rw [← ec] at this; simpa using this.symm
      have gb : ((do let t ← pFixed 4; pure (Slot.val t)) : P (Slot Nat)) s = .ok (Slot.val x, s1) := by
        rw [P.bind_run gf, e1.2, hy]; rfl
      rw [P.bind_run gb, P.bind_run g, er]
      exact ⟨rfl, by first | exact ir | (rw [er] at ir; exact ir) | (rw [← er] at ir; exact ir)⟩

theorem sOptVector_attrs_refines (w : String) (files : List FileEntry) (vals : List (Option Nat)) (s r : Bytes)
    (hi : Inp s) (h : sOptVector files.length 4 w s = .ok (vals, r)) :
    (do
      let defined ← pBools files.length true
      let ext ← read1
      if ext = some 0 then setAttrs files defined else Impl.fail .unsupported : P (List FileEntry)) s =
      .ok ((files.zip vals).map (fun (f, v) => { f with attributes := slotOfOpt v }), r) ∧ Inp r ∧ vals.length = files.length := by
  unfold sOptVector at h
  obtain ⟨defined, s1, q1, k1⟩ := SP.bind_inv h
  obtain ⟨gd, i1, ld⟩ := sBoolList_refines' hi q1
  obtain ⟨ext, s2, q2, k2⟩ := SP.bind_inv k1
  have e2 := sByte_inv q2
  have i2 : Inp s2 := by rw [e2] at i1; exact i1.tail
  split at k2
  · exact (SP.fail_inv k2).elim
  rename_i hext
  have hext' : ext = 0 := by simpa using hext
  have hdv : defined = vals.map (·.isSome) := (optCrcs_refine_gen 4 w defined s2 vals r i2 k2).2.2
  have hl : files.length = vals.length := by rw [← ld, hdv]; simp
  rw [hdv] at k2
  obtain ⟨g, ir⟩ := setAttrs_refines w files vals s2 r i2 hl k2
  rw [P.bind_run gd, e2, P.bind_run (read1_cons ext s2)]
  simp only [hext', if_true, hdv]
  exact ⟨g, ir, hl.symm⟩

end SevenZ

namespace SevenZ
open SevenZ.Impl SevenZ.Spec

/-! ### FilesInfo: the Names property -/

/-- the two UTF-16 decoders (the description's and the model of Python's) are the same function -/
theorem decodeUtf16Units_eq : ∀ (n : Nat) (us : List Nat), us.length ≤ n → decodeUtf16Units us = decodeUnits us
  | 0, us, h => by
    have : us = [] := List.eq_nil_of_length_eq_zero (by omega)
    subst this; simp [decodeUtf16Units, decodeUnits]
  | n + 1, [], _ => by simp [decodeUtf16Units, decodeUnits]
  | n + 1, [u], _ => by
    simp [decodeUtf16Units, decodeUnits]
  | n + 1, u :: l :: rest, h => by
    simp only [decodeUtf16Units, decodeUnits]
    have ih1 := decodeUtf16Units_eq n (l :: rest) (by simp at h ⊢; omega)
    have ih2 := decodeUtf16Units_eq n rest (by simp at h ⊢; omega)
    split
    · split
      · rw [ih2]
      · rfl
    · split
      · rfl
      · rw [ih1]

/-- a decoded name has at least half as many characters as it has units -/
theorem decodeUnits_length : ∀ (n : Nat) (us : List Nat) (cs : List Nat), us.length ≤ n → decodeUnits us = some cs →
    us.length ≤ 2 * cs.length
  | 0, us, cs, h, _ => by
    have : us = [] := List.eq_nil_of_length_eq_zero (by omega)
    subst this; simp
  | n + 1, [], cs, _, _ => by simp
  | n + 1, [u], cs, _, hd => by
    simp only [decodeUnits] at hd
    split at hd
    · simp at hd
    · split at hd
      · simp at hd
      · simp [decodeUnits] at hd; subst hd; simp
  | n + 1, u :: l :: rest, cs, h, hd => by
    simp only [decodeUnits] at hd
    split at hd
    · split at hd
      · cases hr : decodeUnits rest with
        | none => simp [hr] at hd
        | some cs' =>
          simp [hr] at hd; subst hd
          have := decodeUnits_length n rest cs' (by simp at h ⊢; omega) hr
          simp only [List.length_cons]; omega
      · simp at hd
    · split at hd
      · simp at hd
      · cases hr : decodeUnits (l :: rest) with
        | none => simp [hr] at hd
        | some cs' =>
          simp [hr] at hd; subst hd
          have := decodeUnits_length n (l :: rest) cs' (by simp at h ⊢; omega) hr
          simp only [List.length_cons] at this ⊢; omega

end SevenZ

namespace SevenZ
open SevenZ.Impl SevenZ.Spec

/-- what a successful `splitNames` says about the bytes in front: nonzero 16-bit units, a zero unit, the rest -/
theorem splitNames_inv : ∀ (fuel : Nat) (body : Bytes) (acc : List Nat) (cs : List Nat) (ns : List (List Nat)), IsBytes body →
    splitNames fuel body acc = .ok (cs :: ns) →
    ∃ us tail fuel', body = unitsToBytes us ++ 0 :: 0 :: tail ∧ (∀ u ∈ us, 0 < u ∧ u < 65536) ∧
      decodeUtf16Units (acc.reverse ++ us) = some cs ∧ splitNames fuel' tail [] = .ok ns ∧ IsBytes tail
  | _, [], [], cs, ns, _, h => by simp [splitNames] at h
  | _, [], _ :: _, cs, ns, _, h => by simp [splitNames] at h
  | _, [_], acc, cs, ns, _, h => by cases acc <;> simp [splitNames] at h
  | 0, _ :: _ :: _, acc, cs, ns, _, h => by simp [splitNames] at h
  | fuel + 1, lo :: hi :: rest, acc, cs, ns, hb, h => by
    simp only [splitNames] at h
    have hlo := hb lo (by simp)
    have hhi := hb hi (by simp)
    have hbr : IsBytes rest := fun x hx => hb x (by simp [hx])
    by_cases hu : lo + 256 * hi = 0
    · simp only [hu, if_true] at h
      have hl0 : lo = 0 := by omega
      have hh0 : hi = 0 := by omega
      subst hl0 hh0
      cases hd : decodeUtf16Units acc.reverse with
      | none => simp [hd] at h
      | some c0 =>
        simp only [hd] at h
        cases hr : splitNames fuel rest [] with
        | error e => simp [hr, Except.map] at h
        | ok r0 =>
          simp only [hr, Except.map, Except.ok.injEq, List.cons.injEq] at h
          obtain ⟨rfl, rfl⟩ := h
          exact ⟨[], rest, fuel, by simp [unitsToBytes], by simp, by simpa using hd, hr, hbr⟩
    · simp only [hu, if_false] at h
      obtain ⟨us, tail, fuel', hbody, hus, hdec, hrest, hbt⟩ := splitNames_inv fuel rest ((lo + 256 * hi) :: acc) cs ns hbr h
      refine ⟨(lo + 256 * hi) :: us, tail, fuel', ?_, ?_, ?_, hrest, hbt⟩
      · simp only [unitsToBytes, List.cons_append, hbody]
        have h1 : (lo + 256 * hi) % 256 = lo := by omega
        have h2 : (lo + 256 * hi) / 256 = hi := by omega
        rw [h1, h2]
      · intro u hu'
        rcases List.mem_cons.mp hu' with rfl | hm
        · omega
        · exact hus u hm
      · simpa [List.reverse_cons, List.append_assoc] using hdec

/-- **The Names property, for every input**: where the strict reader splits the property body into `n` names (UTF-16-LE,
    each terminated by a zero unit, the body used up exactly), py7zr's per-member name loop reads the same names from
    the same bytes — with its documented rewrite of backslashes — provided no name is longer than `read_utf16` allows
    (65535 units: `MAX_LENGTH`; twice the number of characters bounds the number of units). -/
theorem setNames_refines : ∀ (files : List FileEntry) (names : List (List Nat)) (fuel : Nat) (body : Bytes), IsBytes body →
    files.length = names.length → (∀ cs ∈ names, 2 * cs.length < maxLength) →
    splitNames fuel body [] = .ok names →
    setNames files body = .ok ((files.zip names).map (fun (f, cs) => { f with filename := some (fixSlash cs) }), [])
  | [], [], fuel, body, _, _, _, h => by
    have hb : body = [] := by
      cases body with
      | nil => rfl
      | cons x xs =>
        cases xs with
        | nil => simp [splitNames] at h
        | cons y ys =>
          cases fuel with
          | zero => simp [splitNames] at h
          | succ f =>
            simp only [splitNames] at h
            split at h
            · have hd : decodeUtf16Units ([] : List Nat) = some [] := by simp [decodeUtf16Units]
              simp only [List.reverse_nil, hd] at h
              cases hr : splitNames f ys [] with
              | error e => simp [hr, Except.map] at h
              | ok r0 => simp [hr, Except.map] at h
            · -- a name that never ends: the accumulator is non-empty when the body runs out
              exfalso
              have : ∀ (f : Nat) (b : Bytes) (a : List Nat), a ≠ [] → splitNames f b a ≠ .ok [] := by
                intro f
                induction f with
                | zero =>
                  intro b a ha hh
                  cases b with
                  | nil => cases a <;> simp_all [splitNames]
                  | cons p ps => cases ps <;> simp [splitNames] at hh
                | succ f ih =>
                  intro b a ha hh
                  cases b with
                  | nil => cases a <;> simp_all [splitNames]
                  | cons p ps =>
                    cases ps with
                    | nil => simp [splitNames] at hh
                    | cons q qs =>
                      simp only [splitNames] at hh
                      split at hh
                      · cases hd : decodeUtf16Units a.reverse with
                        | none => simp [hd] at hh
                        | some c0 =>
                          simp only [hd] at hh
                          cases hr : splitNames f qs [] with
                          | error e => simp [hr, Except.map] at hh
                          | ok r0 => simp [hr, Except.map] at hh
                      · exact ih qs _ (by simp) hh
              exact this f ys _ (by simp) h
    subst hb
    rfl
  | [], _ :: _, _, _, _, hl, _, _ => by simp at hl
  | _ :: _, [], _, _, _, hl, _, _ => by simp at hl
  | f :: fs, cs :: ns, fuel, body, hb, hl, hlen, h => by
    obtain ⟨us, tail, fuel', hbody, hus, hdec, hrest, hbt⟩ := splitNames_inv fuel body [] cs ns hb h
    simp only [List.reverse_nil, List.nil_append] at hdec
    rw [decodeUtf16Units_eq us.length us (Nat.le_refl _)] at hdec
    have hul : us.length < maxLength := by
      have := decodeUnits_length us.length us cs (Nat.le_refl _) hdec
      have := hlen cs (by simp)
      omega
    have hread : pUtf16Name body = .ok (fixSlash cs, tail) := by
      unfold pUtf16Name readUtf16
      rw [hbody, readUnits_units us maxLength tail hus hul]
      simp [hdec]
    have ih := setNames_refines fs ns fuel' tail hbt (by simpa using hl) (fun c hc => hlen c (by simp [hc])) hrest
    simp only [setNames, List.zip_cons_cons, List.map_cons]
    rw [P.bind_run hread, P.bind_run ih]
    rfl

end SevenZ
