/-
py7zr's own header reader (`Impl.read*`, the model of archiveinfo.py `_read` methods) on the
StreamsInfo section py7zr's writer emits: PackInfo, folders of simple coders chained linearly
(what `Folder.prepare_coderinfo` builds), SubStreamsInfo.
-/
import SevenZ.Lemmas.Session
namespace SevenZ
open Impl

theorem repeatP_flatMap {α β} (p : P β) (enc : α → Bytes) (dec : α → β) :
    ∀ (xs : List α), (∀ x ∈ xs, ∀ rest, p (enc x ++ rest) = .ok (dec x, rest)) → ∀ rest,
    repeatP xs.length p (xs.flatMap enc ++ rest) = .ok (xs.map dec, rest) := by
  intro xs
  induction xs with
  | nil => intro _ rest; rfl
  | cons x xs ih =>
    intro h rest
    simp only [List.length_cons, repeatP, List.flatMap_cons, List.append_assoc, List.map_cons]
    rw [P.bind_ok (h x (by simp) _)]
    rw [P.bind_ok (ih (fun y hy => h y (by simp [hy])) rest)]
    rfl

/-! ### PackInfo -/

/-- what `PackInfo._read` reconstructs -/
def readBackPack (p : PackInfo) : PackInfo :=
  if p.digestdefined.foldl (· || ·) p.enableDigests then
    { packpos := p.packpos, numstreams := p.numstreams, packsizes := p.packsizes, digestdefined := p.digestdefined,
      crcs := ((p.digestdefined.zip p.crcs).filter (·.1)).map (·.2),
      enableDigests := decide ((((p.digestdefined.zip p.crcs).filter (·.1)).map (·.2)).length > 0) }
  else
    { packpos := p.packpos, numstreams := p.numstreams, packsizes := p.packsizes, digestdefined := [], crcs := [],
      enableDigests := false }

theorem crcs_defined_written : ∀ (defined : List Bool) (crcs : List Nat) (rest : Bytes),
    crcs.length = defined.length → (∀ c ∈ crcs, c < 256 ^ 4) →
    ((defined.filter id).mapM (fun _ => pFixed 4) : P (List Nat))
      ((((List.range defined.length).filter (fun i => defined.getD i false)).flatMap (fun i => leBytes (crcs.getD i 0) 4)) ++ rest) =
      .ok (((defined.zip crcs).filter (·.1)).map (·.2), rest) := by
  intro defined
  induction defined with
  | nil => intro crcs rest hl _; cases crcs <;> simp_all <;> rfl
  | cons d ds ih =>
    intro crcs rest hl hc
    cases crcs with
    | nil => simp at hl
    | cons c cs =>
      have hcs : cs.length = ds.length := by simpa using hl
      have hrange : (List.range (ds.length + 1)).filter (fun i => (d :: ds).getD i false) =
          (if d then [0] else []) ++ ((List.range ds.length).filter (fun i => ds.getD i false)).map (· + 1) := by
        rw [List.range_succ_eq_map, List.filter_cons]
        simp only [List.getD_cons_zero]
        cases d <;> simp [List.filter_map, Function.comp_def]
      have hbytes : (((List.range (d :: ds).length).filter (fun i => (d :: ds).getD i false)).flatMap (fun i => leBytes ((c :: cs).getD i 0) 4)) =
          (if d then leBytes c 4 else []) ++
            (((List.range ds.length).filter (fun i => ds.getD i false)).flatMap (fun i => leBytes (cs.getD i 0) 4)) := by
        rw [List.length_cons, hrange, List.flatMap_append]
        congr 1
        · cases d <;> simp
        · rw [List.flatMap_map]
          rfl
      rw [hbytes]
      have ih' := ih cs rest hcs (fun x hx => hc x (by simp [hx]))
      cases d with
      | true =>
        simp only [List.filter_cons, id_eq, if_true, List.mapM_cons, List.zip_cons_cons, List.map_cons, List.append_assoc]
        rw [P.bind_ok (pFixed_le c 4 (hc c (by simp)) _), P.bind_ok ih']
        rfl
      | false =>
        simp only [List.filter_cons, id_eq, Bool.false_eq_true, if_false, List.zip_cons_cons, List.nil_append]
        exact ih'

theorem impl_reads_packinfo (p : PackInfo) (bytes rest : Bytes) (hw : writePackInfo p = some bytes) (wf : WFPack p)
    :
    readPackInfo (bytes.drop 1 ++ rest) = .ok (readBackPack p, rest) := by
  obtain ⟨hpos, hn, hv, hd, hc⟩ := wf
  unfold writePackInfo at hw
  by_cases hne : p.numstreams ≠ p.packsizes.length
  · simp [hne] at hw
  · have hlen : p.numstreams = p.packsizes.length := by simpa using hne
    simp only [hne, if_false] at hw
    unfold readPackInfo readBackPack
    by_cases hen : p.digestdefined.foldl (· || ·) p.enableDigests = true
    · simp only [hen, if_true] at hw
      have hdl := hd hen
      by_cases hcl : p.crcs.length ≠ p.numstreams
      · simp [hcl] at hw
      · have hcl' : p.crcs.length = p.numstreams := by simpa using hcl
        have hnl : ¬ (p.digestdefined.length < p.numstreams) := by omega
        simp only [hcl, hnl, if_false, Option.some.injEq] at hw
        subst hw
        simp only [List.append_assoc, List.cons_append, List.nil_append, List.drop_succ_cons, List.drop_zero, hen, if_true]
        rw [P.bind_ok (pNumber_write _ hpos _), P.bind_ok (pNumber_write _ hn _), P.bind_ok (read1_cons _ _)]
        simp only [if_true]
        rw [hlen, P.bind_ok (repeatP_flatMap pNumber writeNumber id p.packsizes (fun v hv' r => pNumber_write v (hv v hv') r) _)]
        rw [P.bind_ok (read1_cons _ _)]
        simp only [if_true, List.map_id_fun, id_eq]
        have hdl2 : p.digestdefined.length = p.packsizes.length := by omega
        rw [← hdl2, P.bind_ok (pBools_write _ true _)]
        rw [P.bind_ok (crcs_defined_written p.digestdefined p.crcs (0 :: rest) (by omega) hc)]
        rw [P.bind_ok (read1_cons _ _)]
        simp [hdl2]
    · simp only [hen, Bool.false_eq_true, if_false, Option.some.injEq] at hw
      subst hw
      simp only [List.append_assoc, List.cons_append, List.nil_append, List.drop_succ_cons, List.drop_zero, hen, Bool.false_eq_true, if_false]
      rw [P.bind_ok (pNumber_write _ hpos _), P.bind_ok (pNumber_write _ hn _), P.bind_ok (read1_cons _ _)]
      simp only [if_true]
      rw [hlen, P.bind_ok (repeatP_flatMap pNumber writeNumber id p.packsizes (fun v hv' r => pNumber_write v (hv v hv') r) _)]
      rw [P.bind_ok (read1_cons _ _)]
      have h0A : ¬ ((some 0 : Option Nat) = some 0x0A) := by decide
      simp [h0A]


/-! ### folders of simple coders chained linearly -/

/-- the folder records py7zr's writer holds: 1..32 simple coders with a non-empty id, chained by
    `linearPairs`, one unpack size per coder -/
structure LinearFolder (f : Folder) : Prop where
  ncoders : 0 < f.coders.length ∧ f.coders.length ≤ 32
  simple : ∀ c ∈ f.coders, c.numIn = 1 ∧ c.numOut = 1
  coders : ∀ c ∈ f.coders, WFCoder c
  ids : ∀ c ∈ f.coders, c.method ≠ []
  props : ∀ c ∈ f.coders, ∀ p, c.props = some p → p.length < 2 ^ 63
  pairs : f.bindpairs = linearPairs f.coders.length
  nsizes : f.unpacksizes.length = f.coders.length
  sizes : ∀ v ∈ f.unpacksizes, v < 2 ^ 64

theorem flag_decode_and : ∀ k, k < 16 → ∀ (a b : Bool),
    ((k &&& 0x0F) ||| (if a then 0 else 0x10) ||| (if b then 0x20 else 0)) &&& 0xF = k ∧
    (decide ((((k &&& 0x0F) ||| (if a then 0 else 0x10) ||| (if b then 0x20 else 0)) &&& 0x10) = 0x10) = !a) ∧
    (decide ((((k &&& 0x0F) ||| (if a then 0 else 0x10) ||| (if b then 0x20 else 0)) &&& 0x20) = 0x20) = b) := by
  decide

theorem coderFlag_and_spec (c : Coder) (h : c.method.length < 16) :
    coderFlag c &&& 0xF = c.method.length ∧
    (((coderFlag c &&& 0x10) = 0x10) ↔ isSimple c = false) ∧ (((coderFlag c &&& 0x20) = 0x20) ↔ c.props.isSome = true) := by
  obtain ⟨h1, h2, h3⟩ := flag_decode_and c.method.length h (isSimple c) c.props.isSome
  refine ⟨h1, ?_, ?_⟩
  · unfold coderFlag
    cases hs : isSimple c <;> simp [hs] at h2 ⊢ <;> exact h2
  · unfold coderFlag
    cases hs : c.props.isSome <;> simp [hs] at h3 ⊢ <;> exact h3

theorem readCoder_written (c : Coder) (wf : WFCoder c) (hs : c.numIn = 1 ∧ c.numOut = 1) (hid : c.method ≠ [])
    (hp63 : ∀ p, c.props = some p → p.length < 2 ^ 63) (rest : Bytes) :
    readCoder (coderBytes c ++ rest) = .ok (c, rest) := by
  have hsimple : isSimple c = true := by simp [isSimple, hs.1, hs.2]
  obtain ⟨h1, h2, h3⟩ := coderFlag_and_spec c wf.idlen
  have hidl := and15_of_lt _ wf.idlen
  have hpos : c.method.length > 0 := by
    cases hm : c.method with
    | nil => exact absurd hm hid
    | cons a b => simp
  unfold readCoder coderBytes
  generalize coderFlag c = flag at h1 h2 h3
  simp only [hsimple, if_true, List.cons_append, List.nil_append, List.append_assoc, hidl, List.take_length]
  rw [P.bind_ok (a := flag) (s' := c.method ++ ((match c.props with
     | none => []
     | some p => writeNumber p.length ++ p) ++ rest)) rfl]
  simp only [h1]
  rw [P.bind_ok (readBytes_append _ _)]
  have hnc : ¬ (flag &&& 0x10) = 0x10 := by
    intro hx; rw [h2.mp hx] at hsimple; exact absurd hsimple (by decide)
  simp only [hnc, if_false, hpos, if_true]
  rw [P.bind_ok (P.pure_run _ _)]
  cases hp : c.props with
  | none =>
    have hnp : ¬ (flag &&& 0x20) = 0x20 := by
      intro hx; have := h3.mp hx; simp [hp] at this
    simp only [hnp, if_false, List.nil_append]
    rw [P.bind_ok (P.pure_run _ _)]
    cases c
    simp_all
  | some p =>
    have hyp : (flag &&& 0x20) = 0x20 := h3.mpr (by simp [hp])
    simp only [hyp, if_true, List.append_assoc]
    have hl64 : p.length < 2 ^ 64 := wf.plen p hp
    rw [P.bind_ok (a := some p) (s' := rest)]
    · cases c
      simp_all
    · rw [P.bind_ok (pNumber_write _ hl64 _)]
      have h63 := hp63 p hp
      have : ¬ p.length ≥ 2 ^ 63 := by omega
      simp only [this, if_false]
      rw [P.bind_ok (readBytes_append _ _)]
      rfl

/-- what `Folder._read` reconstructs of a linear folder (sizes come later) -/
def readBackFolder (f : Folder) : Folder :=
  { coders := f.coders, bindpairs := f.bindpairs, packedIndices := [0], unpacksizes := f.unpacksizes,
    digestdefined := false, crc := none }

theorem filter_unbound_linear (k : Nat) (hk : 0 < k) (f0 : Folder) (hb : f0.bindpairs = linearPairs k) :
    (List.range k).filter (fun i => !findInBindPair f0 i) = [0] := by
  have hp : ∀ i, findInBindPair f0 i = decide (1 ≤ i ∧ i < k) := by
    intro i; unfold findInBindPair; rw [hb]; exact linearPairs_in k i
  obtain ⟨k', rfl⟩ : ∃ k', k = k' + 1 := ⟨k - 1, by omega⟩
  rw [List.range_succ_eq_map, List.filter_cons]
  simp only [hp, List.filter_map]
  have h0 : (!decide (1 ≤ 0 ∧ 0 < k' + 1)) = true := by simp
  simp only [h0, if_true]
  congr 1
  rw [List.map_eq_nil_iff, List.filter_eq_nil_iff]
  intro i hi
  simp only [List.mem_range] at hi
  simp; omega

theorem readFolder_written (f : Folder) (wf : LinearFolder f) (rest : Bytes) :
    readFolder (writeFolder f ++ rest) = .ok ({ readBackFolder f with unpacksizes := [] }, rest) := by
  have hk := wf.ncoders
  have hin : (f.coders.map (·.numIn)).sum = f.coders.length := sum_map_one _ _ (fun c hc => (wf.simple c hc).1)
  have hout : (f.coders.map (·.numOut)).sum = f.coders.length := sum_map_one _ _ (fun c hc => (wf.simple c hc).2)
  rw [writeFolder_eq]
  have hnot : ¬ totIn f > totOut f := by unfold totIn totOut; rw [hin, hout]; omega
  simp only [hnot, if_false, List.append_nil, List.append_assoc]
  unfold readFolder
  have hn64 : f.coders.length < 2 ^ 64 := by omega
  rw [P.bind_ok (pNumber_write _ hn64 _)]
  rw [P.bind_ok (repeatP_flatMap readCoder coderBytes id f.coders
    (fun c hc r => readCoder_written c (wf.coders c hc) (wf.simple c hc) (wf.ids c hc) (wf.props c hc) r) _)]
  simp only [List.map_id_fun, id_eq, hin, hout]
  have hpairs : ∀ tail, repeatP (f.coders.length - 1) (do
      let a ← pNumber
      let b ← pNumber
      pure (a, b)) (f.bindpairs.flatMap (fun b => writeNumber b.1 ++ writeNumber b.2) ++ tail) = .ok (f.bindpairs, tail) := by
    intro tail
    have hl : f.bindpairs.length = f.coders.length - 1 := by rw [wf.pairs]; simp [linearPairs]
    have := repeatP_flatMap (do
      let a ← pNumber
      let b ← pNumber
      pure (a, b)) (fun b : Nat × Nat => writeNumber b.1 ++ writeNumber b.2) id f.bindpairs (by
        intro b hb r
        rw [wf.pairs] at hb
        simp only [linearPairs, List.mem_map, List.mem_range] at hb
        obtain ⟨i, hi, rfl⟩ := hb
        have h1 : i + 1 < 2 ^ 64 := by omega
        have h2 : i < 2 ^ 64 := by omega
        simp only [List.append_assoc]
        rw [P.bind_ok (pNumber_write _ h1 _), P.bind_ok (pNumber_write _ h2 _)]
        rfl) tail
    rw [hl] at this
    simpa using this
  rw [P.bind_ok (hpairs _)]
  have hnp : ((f.coders.length : Nat) : Int) - (((f.coders.length : Nat) : Int) - 1) = 1 := by omega
  simp only [hnp, if_true]
  have := filter_unbound_linear f.coders.length hk.1 { coders := f.coders, bindpairs := f.bindpairs } wf.pairs
  simp [readBackFolder, this]

theorem readUnpackSizes_written : ∀ (fs : List Folder), (∀ f ∈ fs, LinearFolder f) → ∀ rest,
    readUnpackSizes (fs.map (fun f => { readBackFolder f with unpacksizes := [] }))
      (fs.flatMap (fun f => f.unpacksizes.flatMap writeNumber) ++ rest) = .ok (fs.map readBackFolder, rest) := by
  intro fs
  induction fs with
  | nil => intro _ rest; rfl
  | cons f fs ih =>
    intro h rest
    have wf := h f (by simp)
    simp only [List.map_cons, readUnpackSizes, List.flatMap_cons, List.append_assoc]
    have hlen : ((readBackFolder f).coders.map (·.numOut)).sum = f.unpacksizes.length := by
      rw [wf.nsizes]; exact sum_map_one _ _ (fun c hc => (wf.simple c hc).2)
    simp only [hlen]
    rw [P.bind_ok (repeatP_flatMap pNumber writeNumber id f.unpacksizes (fun v hv r => pNumber_write v (wf.sizes v hv) r) _)]
    rw [P.bind_ok (ih (fun g hg => h g (by simp [hg])) rest)]
    simp [readBackFolder]

theorem impl_reads_unpackinfo (folders : List Folder) (hn : folders.length < 2 ^ 64)
    (hwf : ∀ f ∈ folders, LinearFolder f) (rest : Bytes) :
    readUnpackInfo ((writeUnpackInfo folders).drop 1 ++ rest) = .ok (folders.map readBackFolder, rest) := by
  unfold writeUnpackInfo readUnpackInfo
  simp only [List.cons_append, List.nil_append, List.append_assoc, List.drop_succ_cons, List.drop_zero]
  rw [P.bind_ok (read1_cons _ _)]
  simp only [ne_eq, not_true_eq_false, if_false]
  rw [P.bind_ok (pNumber_write _ hn _)]
  rw [P.bind_ok (a := 0) (s' := _) rfl]
  simp only [not_true_eq_false, if_false]
  rw [P.bind_ok (repeatP_flatMap readFolder writeFolder (fun f => { readBackFolder f with unpacksizes := [] }) folders
    (fun f hf r => readFolder_written f (hwf f hf) r) _)]
  rw [P.bind_ok (read1_cons _ _)]
  simp only [not_true_eq_false, if_false]
  rw [P.bind_ok (readUnpackSizes_written folders hwf _), P.bind_ok (read1_cons _ _)]
  have h0A : ¬ ((some 0 : Option Nat) = some 0x0A) := by decide
  simp only [h0A, if_false]
  rw [P.bind_ok (P.pure_run _ _)]
  rfl


/-! ### SubStreamsInfo -/

/-- the reader's notion of "sizes tile the folders": `Folder.get_unpack_size` of each folder
    with sub-streams is the sum of its group -/
def ImplSizesOK : List Nat → List Folder → List Nat → Prop
  | [], _, sizes => sizes = []
  | _ :: _, [], _ => False
  | n :: ns, f :: fs, sizes =>
    n ≤ sizes.length ∧ (n = 0 ∨ folderUnpackSize f = some (sizes.take n).sum) ∧ ImplSizesOK ns fs (sizes.drop n)

theorem readSubSizes_written : ∀ (nums : List Nat) (fs : List Folder) (sizes l : List Nat),
    ImplSizesOK nums fs sizes → subSizesToWrite nums sizes = some l → (∀ v ∈ sizes, v < 2 ^ 64) → ∀ rest,
    readSubSizes nums fs (l.flatMap writeNumber ++ rest) = .ok (sizes, rest) := by
  intro nums
  induction nums with
  | nil =>
    intro fs sizes l hok hw _ rest
    simp only [ImplSizesOK] at hok
    simp only [subSizesToWrite, Option.some.injEq] at hw
    subst hw; subst hok
    rfl
  | cons n ns ih =>
    intro fs sizes l hok hw hv rest
    cases fs with
    | nil => simp [ImplSizesOK] at hok
    | cons f fs =>
      obtain ⟨hlen, hsum, hrest⟩ := hok
      unfold subSizesToWrite at hw
      have hnl : ¬ sizes.length < n := by omega
      simp only [hnl, if_false] at hw
      cases hr : subSizesToWrite ns (sizes.drop n) with
      | none => simp [hr] at hw
      | some r =>
        simp only [hr, Option.some.injEq] at hw
        subst hw
        have hvd : ∀ v ∈ sizes.drop n, v < 2 ^ 64 := fun v hv' => hv v (List.mem_of_mem_drop hv')
        have ih' := ih fs (sizes.drop n) r hrest hr hvd rest
        unfold readSubSizes
        by_cases h0 : n = 0
        · subst h0
          simp only [if_true, List.take_zero, List.dropLast_nil, List.nil_append, List.drop_zero] at ih' ⊢
          exact ih'
        · simp only [h0, if_false]
          have hsum' : folderUnpackSize f = some (sizes.take n).sum := by
            cases hsum with
            | inl h => exact absurd h h0
            | inr h => exact h
          have hgl : (sizes.take n).length = n := by simp; omega
          have hgne : sizes.take n ≠ [] := by
            intro h; rw [h] at hgl; simp at hgl; omega
          have hdl : (sizes.take n).dropLast.length = n - 1 := by simp; omega
          simp only [List.flatMap_append, List.append_assoc]
          rw [← hdl]
          rw [P.bind_ok (repeatP_flatMap pNumber writeNumber id (sizes.take n).dropLast
            (fun v hv' r => pNumber_write v (hv v (List.mem_of_mem_take (List.dropLast_subset _ hv'))) r) _)]
          simp only [List.map_id_fun, id_eq, hsum']
          obtain ⟨hle, hcat⟩ := dropLast_sum_le (sizes.take n) hgne
          have hng : ¬ (((sizes.take n).sum : Nat) : Int) - (((sizes.take n).dropLast.sum : Nat) : Int) < 0 := by omega
          simp only [hng, if_false]
          rw [P.bind_ok ih']
          have hto : ((((sizes.take n).sum : Nat) : Int) - (((sizes.take n).dropLast.sum : Nat) : Int)).toNat =
              (sizes.take n).sum - (sizes.take n).dropLast.sum := by omega
          simp only [P.pure_run, hto]
          rw [← List.append_assoc, hcat, List.take_append_drop]

theorem crc_vector_read_zip : ∀ (defined : List Bool) (crcs : List Nat) (rest : Bytes),
    crcs.length = defined.length → (∀ c ∈ crcs, c < 256 ^ 4) →
    (defined.mapM (fun d => if d then pFixed 4 else pure 0) : P (List Nat))
      (((crcs.zip defined).filter (·.2)).flatMap (fun c => leBytes c.1 4) ++ rest) =
      .ok ((defined.zip crcs).map (fun (d, c) => if d then c else 0), rest) := by
  intro defined
  induction defined with
  | nil => intro crcs rest hl _; cases crcs <;> simp_all <;> rfl
  | cons d ds ih =>
    intro crcs rest hl hc
    cases crcs with
    | nil => simp at hl
    | cons c cs =>
      have hcs : cs.length = ds.length := by simpa using hl
      have ih' := ih cs rest hcs (fun x hx => hc x (by simp [hx]))
      simp only [List.mapM_cons, List.zip_cons_cons, List.map_cons]
      cases d with
      | true =>
        simp only [List.filter_cons, if_true, List.flatMap_cons, List.append_assoc]
        rw [P.bind_ok (pFixed_le c 4 (hc c (by simp)) _), P.bind_ok ih']; rfl
      | false =>
        simp only [List.filter_cons, Bool.false_eq_true, if_false]
        rw [P.bind_ok (a := 0) (s' := _) rfl, P.bind_ok ih']; rfl

theorem assignDigests_plain : ∀ (nums : List Nat) (fs : List Folder) (defined : List Bool) (crcs : List Nat),
    nums.length = fs.length → (∀ f ∈ fs, f.digestdefined = false) → defined.length = nums.sum → crcs.length = nums.sum →
    assignDigests nums fs defined crcs = some (defined, crcs) := by
  intro nums
  induction nums with
  | nil =>
    intro fs defined crcs _ _ h1 h2
    have : defined = [] := List.eq_nil_of_length_eq_zero (by simpa using h1)
    have : crcs = [] := List.eq_nil_of_length_eq_zero (by simpa using h2)
    subst_vars; rfl
  | cons n ns ih =>
    intro fs defined crcs hl hd h1 h2
    cases fs with
    | nil => simp at hl
    | cons f fs =>
      have hf : f.digestdefined = false := hd f (by simp)
      unfold assignDigests
      simp only [List.sum_cons] at h1 h2
      have hlt : ¬ (defined.length < n ∨ crcs.length < n) := by omega
      simp only [hf, Bool.false_eq_true, false_and, and_false, if_false, hlt]
      rw [ih fs (defined.drop n) (crcs.drop n) (by simpa using hl) (fun g hg => hd g (by simp [hg])) (by simp; omega) (by simp; omega)]
      simp

theorem numDigests_eq_sum : ∀ (nums : List Nat) (fs : List Folder), nums.length = fs.length → (∀ f ∈ fs, f.digestdefined = false) →
    ((nums.zip fs).map (fun ((n, f) : Nat × Folder) => if n ≠ 1 ∨ !f.digestdefined then n else 0)).sum = nums.sum := by
  intro nums
  induction nums with
  | nil => intro fs _ _; rfl
  | cons n ns ih =>
    intro fs hl hc
    cases fs with
    | nil => simp at hl
    | cons f fs =>
      have hf : f.digestdefined = false := hc f (by simp)
      have := ih fs (by simpa using hl) (fun g hg => hc g (by simp [hg]))
      simp only [List.zip_cons_cons, List.map_cons, List.sum_cons, this, hf]
      simp

/-- what `SubstreamsInfo._read` reconstructs -/
def readBackSub (s : SubStreams) (sizes : List Nat) : SubStreams :=
  { numUnpack := s.numUnpack,
    unpacksizes := if s.numUnpack.any (· > 1) then some sizes else none,
    digestsdefined := if s.digestsdefined.any id then s.digestsdefined else List.replicate s.numUnpack.sum false,
    digests := if s.digestsdefined.any id then (s.digestsdefined.zip s.digests).map (fun (d, c) => if d then c else 0)
               else List.replicate s.numUnpack.sum 0 }

theorem impl_reads_substreams (total : Nat) (s : SubStreams) (fs : List Folder) (bytes rest : Bytes)
    (hcount : s.numUnpack.sum ≤ total * 8)
    (hw : writeSubStreams s = some bytes) (hne : s.numUnpack ≠ [])
    (hlen : s.numUnpack.length = fs.length) (hdd : ∀ f ∈ fs, f.digestdefined = false)
    (hn : ∀ n ∈ s.numUnpack, n < 2 ^ 64)
    (sizes : List Nat) (hs : s.unpacksizes = some sizes) (hok : ImplSizesOK s.numUnpack fs sizes)
    (hv : ∀ v ∈ sizes, v < 2 ^ 64)
    (hdl : s.digestsdefined.length = s.numUnpack.sum) (hcl : s.digests.length = s.numUnpack.sum)
    (hc : ∀ c ∈ s.digests, c < 256 ^ 4) :
    readSubStreams total fs (bytes.drop 1 ++ rest) = .ok (readBackSub s sizes, rest) := by
  unfold writeSubStreams at hw
  have hne' : s.numUnpack.isEmpty = false := by cases h : s.numUnpack <;> simp_all
  simp only [hne', Bool.false_eq_true, if_false] at hw
  have hnd := numDigests_eq_sum s.numUnpack fs hlen hdd
  -- the digest part + END, given counts and sizes already read
  have htail : ∀ (pid0 : Nat) (tailBytes : Bytes) (szs : Option (List Nat)),
      (pid0 :: tailBytes = (if (s.digestsdefined.any id = true) then
        [0x0A] ++ writeBools s.digestsdefined true ++
          ((s.digests.zip s.digestsdefined).filter (·.2)).flatMap (fun c => leBytes c.1 4)
      else []) ++ [0x00] ++ rest) →
      (do
        let (dd, ds, pid) ← (if some pid0 = some 0x0A then do
            let defined ← pBools (((s.numUnpack.zip fs).map (fun ((n, f) : Nat × Folder) => if n ≠ 1 ∨ !f.digestdefined then n else 0)).sum) true
            let crcs ← defined.mapM (fun d => if d then pFixed 4 else pure 0)
            match assignDigests s.numUnpack fs defined crcs with
            | none => fail .malformed
            | some (d, c) =>
              let pid ← read1
              pure (d, c, pid)
          else pure ([], [], some pid0) : P (List Bool × List Nat × Option Nat))
        if pid ≠ some 0 then fail .bad7z else
        if dd.isEmpty then
          pure { numUnpack := s.numUnpack, unpacksizes := szs,
                 digestsdefined := List.replicate s.numUnpack.sum false,
                 digests := List.replicate s.numUnpack.sum 0 }
        else pure { numUnpack := s.numUnpack, unpacksizes := szs, digestsdefined := dd, digests := ds } : P SubStreams) tailBytes =
        .ok ({ numUnpack := s.numUnpack, unpacksizes := szs,
               digestsdefined := if s.digestsdefined.any id then s.digestsdefined else List.replicate s.numUnpack.sum false,
               digests := if s.digestsdefined.any id then (s.digestsdefined.zip s.digests).map (fun (d, c) => if d then c else 0)
                          else List.replicate s.numUnpack.sum 0 }, rest) := by
    intro pid0 tailBytes szs heq
    rw [hnd]
    by_cases hany : s.digestsdefined.any id = true
    · simp only [hany, if_true, List.cons_append, List.nil_append, List.append_assoc, List.cons.injEq] at heq
      obtain ⟨hid, htb⟩ := heq
      subst hid; subst htb
      simp only [if_true, hany]
      rw [← hdl, P.bind_ok (a := (s.digestsdefined, (s.digestsdefined.zip s.digests).map (fun (d, c) => if d then c else 0), some 0)) (s' := rest)]
      · have hne2 : s.digestsdefined.isEmpty = false := by
          cases hx : s.digestsdefined with
          | nil => rw [hx] at hany; simp at hany
          | cons a b => rfl
        simp [hne2, hdl]
      · rw [P.bind_ok (pBools_write _ true _)]
        rw [P.bind_ok (crc_vector_read_zip s.digestsdefined s.digests (0 :: rest) (by omega) hc)]
        rw [assignDigests_plain s.numUnpack fs _ _ hlen hdd hdl (by simp [hdl, hcl])]
        simp only []
        rw [P.bind_ok (read1_cons _ _)]
        rfl
    · have hany' : s.digestsdefined.any id = false := by simpa using hany
      simp only [hany', Bool.false_eq_true, if_false, List.nil_append, List.cons_append, List.cons.injEq] at heq
      obtain ⟨hid, htb⟩ := heq
      subst hid; subst htb
      have h0A : ¬ ((some 0 : Option Nat) = some 0x0A) := by decide
      simp only [h0A, if_false, hany', Bool.false_eq_true]
      rw [P.bind_ok (P.pure_run _ _)]
      simp
  unfold readSubStreams readBackSub
  by_cases hsolid : s.numUnpack.any (· ≠ 1) = true
  · simp only [hsolid, if_true] at hw
    have hnums : ∀ tail pidb, (do
        let ns ← repeatP fs.length pNumber
        if ns.sum > total * 8 then fail .bad7z else
        let pid ← read1
        pure (ns, pid) : P (List Nat × Option Nat)) (s.numUnpack.flatMap writeNumber ++ pidb :: tail) =
        .ok ((s.numUnpack, some pidb), tail) := by
      intro tail pidb
      rw [← hlen, P.bind_ok (repeatP_flatMap pNumber writeNumber id s.numUnpack (fun n hn' r => pNumber_write n (hn n hn') r) _)]
      have hng : ¬ (s.numUnpack.sum > total * 8) := by omega
      simp [hng, bind, StateT.bind, Except.bind, pure, StateT.pure, Except.pure]
    by_cases hmulti : s.numUnpack.any (· > 1) = true
    · simp only [hmulti, if_true, hs] at hw
      cases sizes with
      | nil => exfalso; simp at hw
      | cons v vs =>
        simp only at hw
        cases hl : subSizesToWrite s.numUnpack (v :: vs) with
        | none => simp [hl] at hw
        | some l =>
          simp only [hl, Option.map_some, Option.some.injEq] at hw
          subst hw
          simp only [List.cons_append, List.nil_append, List.append_assoc, List.drop_succ_cons, List.drop_zero]
          rw [P.bind_ok (read1_cons _ _)]
          simp only [if_true]
          rw [P.bind_ok (hnums _ _)]
          simp only [if_true, hmulti]
          cases hd : s.digestsdefined.any id with
          | true =>
            simp only [if_true, List.cons_append, List.nil_append, List.append_assoc]
            rw [P.bind_ok (a := (some (v :: vs), some 0x0A)) (s' := writeBools s.digestsdefined true ++
              (((s.digests.zip s.digestsdefined).filter (·.2)).flatMap (fun c => leBytes c.1 4) ++ 0 :: rest))]
            · have := htail 0x0A (writeBools s.digestsdefined true ++ (((s.digests.zip s.digestsdefined).filter (·.2)).flatMap (fun c => leBytes c.1 4) ++ 0 :: rest)) (some (v :: vs)) (by simp [hd])
              simp only [hd, if_true, Bool.false_eq_true, if_false] at this
              exact this
            · rw [P.bind_ok (readSubSizes_written s.numUnpack fs (v :: vs) l hok hl hv _)]
              simp [bind, StateT.bind, Except.bind, pure, StateT.pure, Except.pure]
          | false =>
            simp only [Bool.false_eq_true, if_false, List.nil_append, List.cons_append]
            rw [P.bind_ok (a := (some (v :: vs), some 0)) (s' := rest)]
            · have := htail 0 rest (some (v :: vs)) (by simp [hd])
              simp only [hd, if_true, Bool.false_eq_true, if_false] at this
              exact this
            · rw [P.bind_ok (readSubSizes_written s.numUnpack fs (v :: vs) l hok hl hv _)]
              simp [bind, StateT.bind, Except.bind, pure, StateT.pure, Except.pure]
    · have hmulti' : s.numUnpack.any (· > 1) = false := by simpa using hmulti
      simp only [hmulti', Bool.false_eq_true, if_false, Option.some.injEq] at hw
      subst hw
      simp only [List.cons_append, List.nil_append, List.append_assoc, List.drop_succ_cons, List.drop_zero]
      rw [P.bind_ok (read1_cons _ _)]
      simp only [if_true]
      cases hd : s.digestsdefined.any id with
      | true =>
        simp only [if_true, List.cons_append, List.nil_append, List.append_assoc]
        rw [P.bind_ok (hnums _ _)]
        have h09 : ¬ ((some 0x0A : Option Nat) = some 0x09) := by decide
        simp only [h09, if_false, hmulti', Bool.false_eq_true]
        rw [P.bind_ok (P.pure_run _ _)]
        have := htail 0x0A (writeBools s.digestsdefined true ++ (((s.digests.zip s.digestsdefined).filter (·.2)).flatMap (fun c => leBytes c.1 4) ++ 0 :: rest)) none (by simp [hd])
        simp only [hd, if_true, Bool.false_eq_true, if_false] at this
        exact this
      | false =>
        simp only [Bool.false_eq_true, if_false, List.nil_append, List.cons_append]
        rw [P.bind_ok (hnums _ _)]
        have h09 : ¬ ((some 0 : Option Nat) = some 0x09) := by decide
        simp only [h09, if_false, hmulti', Bool.false_eq_true]
        rw [P.bind_ok (P.pure_run _ _)]
        have := htail 0 rest none (by simp [hd])
        simp only [hd, if_true, Bool.false_eq_true, if_false] at this
        exact this
  · have hsolid' : s.numUnpack.any (· ≠ 1) = false := by simpa using hsolid
    have hmulti' := any_gt_of_any_ne s.numUnpack hsolid'
    simp only [hsolid', hmulti', Bool.false_eq_true, if_false, Option.some.injEq] at hw
    subst hw
    have hrep : List.replicate fs.length 1 = s.numUnpack := by
      rw [← hlen]; exact (all_one_replicate s.numUnpack hsolid').symm
    simp only [List.cons_append, List.nil_append, List.append_assoc, List.drop_succ_cons, List.drop_zero]
    cases hd : s.digestsdefined.any id with
    | true =>
      simp only [if_true, List.cons_append, List.nil_append, List.append_assoc]
      rw [P.bind_ok (read1_cons _ _)]
      have h0D : ¬ ((some 0x0A : Option Nat) = some 0x0D) := by decide
      have h09 : ¬ ((some 0x0A : Option Nat) = some 0x09) := by decide
      simp only [h0D, if_false]
      rw [P.bind_ok (P.pure_run _ _)]
      simp only [h09, if_false, hrep]
      rw [P.bind_ok (P.pure_run _ _)]
      have := htail 0x0A (writeBools s.digestsdefined true ++ (((s.digests.zip s.digestsdefined).filter (·.2)).flatMap (fun c => leBytes c.1 4) ++ 0 :: rest)) none (by simp [hd])
      dsimp only [] at this ⊢
      simp only [hd, hmulti', if_true, Bool.false_eq_true, if_false] at this ⊢
      exact this
    | false =>
      simp only [Bool.false_eq_true, if_false, List.nil_append, List.cons_append]
      rw [P.bind_ok (read1_cons _ _)]
      have h0D : ¬ ((some 0 : Option Nat) = some 0x0D) := by decide
      have h09 : ¬ ((some 0 : Option Nat) = some 0x09) := by decide
      simp only [h0D, if_false]
      rw [P.bind_ok (P.pure_run _ _)]
      simp only [h09, if_false, hrep]
      rw [P.bind_ok (P.pure_run _ _)]
      have := htail 0 rest none (by simp [hd])
      dsimp only [] at this ⊢
      simp only [hd, hmulti', if_true, Bool.false_eq_true, if_false] at this ⊢
      exact this

end SevenZ
