/-
The default header mode: the strict reader on the EncodedHeader record py7zr writes, and the
create session's archive in that mode.
-/
import SevenZ.Lemmas.AppendStep
import SevenZ.Model.EncodedHeader
namespace SevenZ
open Impl Spec

def toSFolderCrc (f : Folder) : SFolder := { toSFolder f with crc := f.crc }

theorem folder_crcs_written (what : String) : ∀ (folders : List Folder) (rest : Bytes),
    (∀ f ∈ folders, ∀ c, f.crc = some c → c < 256 ^ 4) →
    ((folders.map (·.crc.isSome)).mapM (fun d => if d then (do let c ← sFixed 4 what; pure (some c)) else pure none) : SP (List (Option Nat)))
      ((folders.filterMap (·.crc)).flatMap (fun c => leBytes c 4) ++ rest) = .ok (folders.map (·.crc), rest) := by
  intro folders
  induction folders with
  | nil => intro rest _; rfl
  | cons f fs ih =>
    intro rest hc
    have ih' := ih rest (fun g hg => hc g (by simp [hg]))
    simp only [List.map_cons, List.mapM_cons]
    cases hcrc : f.crc with
    | none =>
      simp only [Option.isSome_none, Bool.false_eq_true, if_false, List.filterMap_cons, hcrc]
      rw [SP.bind_ok (a := none) (s' := _) rfl, SP.bind_ok ih']; rfl
    | some c =>
      simp only [Option.isSome_some, if_true, List.filterMap_cons, hcrc, List.flatMap_cons, List.append_assoc]
      rw [SP.bind_ok (a := some c) (s' := _)]
      · rw [SP.bind_ok ih']; rfl
      · rw [SP.bind_ok (sFixed_le c 4 (hc f (by simp) c hcrc) what _)]; rfl

/-- UnpackInfo with the folder CRCs, as `UnpackInfo.write(with_crcs=True)` emits it -/
theorem unpackinfo_crc_strict_read (folders : List Folder) (hn : folders.length < 2 ^ 64)
    (hwf : ∀ f ∈ folders, WFFolder f) (hc : ∀ f ∈ folders, ∀ c, f.crc = some c → c < 256 ^ 4) (rest : Bytes) :
    sUnpackInfo ((writeUnpackInfoCrc folders).drop 1 ++ rest) = .ok (folders.map toSFolderCrc, rest) := by
  unfold writeUnpackInfoCrc sUnpackInfo
  simp only [List.cons_append, List.nil_append, List.append_assoc, List.drop_succ_cons, List.drop_zero]
  rw [SP.bind_ok (sExpect_cons _ _ _)]
  rw [SP.bind_ok (sNumber_write _ hn _ _), SP.bind_ok (sByte_cons _ _ _)]
  have h00 : ¬ ((0 : Nat) ≠ 0) := by decide
  simp only [h00, if_false]
  rw [SP.bind_ok (sRepeat_flatMap sFolder writeFolder (fun f => { toSFolder f with unpackSizes := [] }) folders
    (fun f hf r => sFolder_written f (hwf f hf) r) _)]
  rw [SP.bind_ok (sExpect_cons _ _ _)]
  rw [SP.bind_ok (sFolderSizes_written folders hwf _), SP.bind_ok (sByte_cons _ _ _)]
  simp only [if_true]
  have hl : folders.length = (folders.map (·.crc.isSome)).length := by simp
  have hside : (do
      let defined ← sBoolList folders.length "folder CRC defined"
      let cs ← defined.mapM (fun d => if d then (do let c ← sFixed 4 "folder CRC"; pure (some c)) else pure none)
      let id ← sByte "UnpackInfo property"
      pure ((folders.map toSFolder).zip cs |>.map (fun (f, c) => { f with crc := c }), id) : SP (List SFolder × Nat))
      (writeBools (folders.map (·.crc.isSome)) true ++ ((folders.filterMap (·.crc)).flatMap (fun c => leBytes c 4) ++ 0 :: rest)) =
      .ok ((folders.map toSFolderCrc, 0), rest) := by
    rw [hl, SP.bind_ok (sBoolList_writeBools _ _ _)]
    rw [SP.bind_ok (folder_crcs_written "folder CRC" folders (0 :: rest) hc)]
    rw [SP.bind_ok (sByte_cons _ _ _)]
    simp only [SP.pure_run, List.zip_map', List.map_map]
    congr 2
  rw [SP.bind_ok hside]
  simp


/-- what the strict reader makes of an EncodedHeader record with one folder -/
def encodedStreams (p : PackInfo) (f : Folder) (u : Nat) : SStreams :=
  { pack := some (expectedPack p), folders := [toSFolderCrc f], numUnpack := [1], subSizes := [u], subCrcs := [f.crc] }

theorem encoded_record_strict_read (p : PackInfo) (f : Folder) (record : Bytes) (u : Nat)
    (hw : writeEncodedRecord p [f] = some record) (wfp : WFPack p) (hp1 : p.packsizes.length = 1)
    (wff : WFFolder f) (hcrc : ∀ c, f.crc = some c → c < 256 ^ 4) (hpk : (packedOf f).length = 1)
    (hout : folderOut (toSFolder f) = .ok u) :
    readTop record = .ok (.encoded (encodedStreams p f u)) := by
  unfold writeEncodedRecord at hw
  cases ha : writePackInfo p with
  | none => simp [ha] at hw
  | some a =>
    simp only [ha, Option.map_some, Option.some.injEq] at hw
    subst hw
    have hah := writePackInfo_head p a ha
    have hpk' := fun r => packinfo_strict_read p a r ha wfp.pos wfp.n wfp.sizes wfp.defined wfp.crcs
    have hup := fun r => unpackinfo_crc_strict_read [f] (by show (1:Nat) < 2 ^ 64; decide)
      (by intro g hg; simp only [List.mem_singleton] at hg; rw [hg]; exact wff)
      (by intro g hg c hc; simp only [List.mem_singleton] at hg; rw [hg] at hc; exact hcrc c hc) r
    have hub : writeUnpackInfoCrc [f] = 0x07 :: (writeUnpackInfoCrc [f]).drop 1 := by simp [writeUnpackInfoCrc]
    have hst : sStreams (a ++ (writeUnpackInfoCrc [f] ++ [0x00])) = .ok (encodedStreams p f u, []) := by
      unfold sStreams
      rw [hah, hub]
      simp only [List.cons_append, List.nil_append, List.append_assoc, List.drop_succ_cons, List.drop_zero]
      rw [SP.bind_ok (sByte_cons _ _ _)]
      simp only [if_true]
      rw [SP.bind_ok (a := (some (expectedPack p), 0x07)) (s' := _)]
      · simp only [if_true]
        rw [SP.bind_ok (a := ([toSFolderCrc f], true, 0)) (s' := [])]
        · have h08 : ¬ ((0 : Nat) = 0x08) := by decide
          simp only [h08, if_false]
          rw [SP.bind_ok (SP.pure_run _ _)]
          have hcount : (List.map (fun f => f.packed.length) [toSFolderCrc f]).sum = (expectedPack p).sizes.length := by
            simp [toSFolderCrc, toSFolder, expectedPack, hpk, hp1]
          have hfo : folderOut (toSFolderCrc f) = .ok u := by
            have : folderOut (toSFolderCrc f) = folderOut (toSFolder f) := rfl
            rw [this, hout]
          simp only [ne_eq, not_true_eq_false, if_false, hcount, List.mapM_cons, List.mapM_nil, hfo]
          simp [encodedStreams, toSFolderCrc, bind, Except.bind, pure, Except.pure, StateT.pure]
        · have := hup ([0x00] : Bytes)
          simp only [List.map_cons, List.map_nil] at this
          rw [SP.bind_ok this, SP.bind_ok (sByte_cons _ _ _)]
          rfl
      · rw [SP.bind_ok (hpk' _), SP.bind_ok (sByte_cons _ _ _)]
        rfl
    simp only [List.cons_append, List.nil_append, List.append_assoc, readTop, hst]


/-! ### a create session in the default header mode -/

/-- the header stream's folder: one simple coder (both of py7zr's header filter lists have one) -/
structure WFHConfig {σ} (hcfg : HConfig σ) : Prop where
  one : hcfg.coders.length = 1
  simple : ∀ c ∈ hcfg.coders, c.numIn = 1 ∧ c.numOut = 1
  coders : ∀ c ∈ hcfg.coders, WFCoder c
  ids : ∀ c ∈ hcfg.coders, c.method ≠ []
  props : ∀ c ∈ hcfg.coders, ∀ p, c.props = some p → p.length < 2 ^ 63
  chainNe : hcfg.chain ≠ []
  fresh : headFed hcfg.chain = 0

theorem headerFolder_linear {σ} (hcfg : HConfig σ) (wfh : WFHConfig hcfg) (raw : Bytes) (hr : raw.length < 2 ^ 64) :
    LinearFolder (headerFolder hcfg raw) :=
  ⟨by show 0 < hcfg.coders.length ∧ hcfg.coders.length ≤ 32; rw [wfh.one]; decide, wfh.simple, wfh.coders, wfh.ids, wfh.props, rfl,
    by show [raw.length].length = hcfg.coders.length; rw [wfh.one]; rfl,
    by intro v hv; simp only [headerFolder, List.mem_singleton] at hv; rw [hv]; exact hr⟩

theorem headerCompress_accounting {σ} (hcfg : HConfig σ) (wfh : WFHConfig hcfg) (raw : Bytes) :
    (headerCompress hcfg raw).packsize = (headerCompress hcfg raw).out.length ∧
    (headerCompress hcfg raw).digest = crc32 (headerCompress hcfg raw).out := by
  have h := compressor_accounting hcfg.chain wfh.chainNe wfh.fresh [chunksOf hcfg.blocksize (raw.length + 1) raw]
  exact ⟨h.2.2.1, h.2.2.2.1⟩

/-- **A create session in py7zr's default header mode conforms.**  For every list of write calls,
    every chain of codec stages for the data AND for the header stream, and any decoder of the
    header folder that inverts what the header compressor produced (the one codec hypothesis):
    the archive — signature header, packed data, packed header, EncodedHeader record — is opened
    by the strict reader: start-header and record CRCs, the record's PackInfo / UnpackInfo with
    the folder CRC, the packed header lying exactly at the end of the data area, the decoded
    header of the declared length and CRC, and inside it the header database whose assignment
    is exactly the members written. -/
theorem session_archive_encoded_conforms {σ} (cfg : WConfig σ) (hcfg : HConfig σ) (ms : List WMember) (us : List Nat) (img : Bytes)
    (decode : SFolder → Bytes → Option Bytes)
    (wfc : WFConfig cfg) (wfm : WFMembers ms) (rs : ReadableSession cfg ms) (wfh : WFHConfig hcfg)
    (hU : unpacksizesOf cfg.methodsMap ((sessionCompress cfg ms).1.chain.map (·.fed)) = some us)
    (husb : ∀ v ∈ us, v < 2 ^ 64)
    (hns : ∀ m ∈ ms, ∀ ch ∈ m.name, ch ≠ 0x5C)
    (hbounds : ∀ raw, writeHeaderRaw true (sessionComps cfg ms us).header 0 = some raw →
      raw.length < 2 ^ 64 ∧ ((sessionCompress cfg ms).1.out ++ (headerCompress hcfg raw).out).length < 2 ^ 64)
    (himgb : img.length < 2 ^ 64)
    (hdec : ∀ raw, writeHeaderRaw true (sessionComps cfg ms us).header 0 = some raw →
      decode (toSFolderCrc (headerFolder hcfg raw)) (headerCompress hcfg raw).out = some raw)
    (h : sessionArchiveEncoded cfg hcfg ms = some img) :
    openArchive decode img = .ok ((sessionComps cfg ms us).expected, (sessionCompress cfg ms).1.out) ∧
    members (sessionComps cfg ms us).expected = .ok (expectedMembers ms) := by
  unfold sessionArchiveEncoded at h
  rw [sessionHeader_eq cfg ms us hU] at h
  simp only [bind, Option.bind, encodeHeader] at h
  cases hraw : writeHeaderRaw true (sessionComps cfg ms us).header 0 with
  | none => simp [hraw] at h
  | some raw =>
    obtain ⟨hr64, hab⟩ := hbounds raw hraw
    have hout : (sessionCompress cfg ms).1.out.length < 2 ^ 64 := by
      simp only [List.length_append] at hab; omega
    have inv := Inv.base cfg ms us wfc wfm rs hU husb hout hns
    obtain ⟨hps, hdg⟩ := headerCompress_accounting hcfg wfh raw
    simp only [hraw] at h
    cases hrec : writeEncodedRecord
        { packpos := (sessionCompress cfg ms).1.out.length, numstreams := 1, packsizes := [(headerCompress hcfg raw).packsize],
          digestdefined := [], crcs := [(headerCompress hcfg raw).digest], enableDigests := false }
        [headerFolder hcfg raw] with
    | none => simp [hrec, pure] at h
    | some record =>
      simp only [hrec, pure, Option.some.injEq] at h
      subst h
      let p : PackInfo := { packpos := (sessionCompress cfg ms).1.out.length, numstreams := 1,
                            packsizes := [(headerCompress hcfg raw).packsize], digestdefined := [],
                            crcs := [(headerCompress hcfg raw).digest], enableDigests := false }
      have hlf := headerFolder_linear hcfg wfh raw hr64
      have hpl : (headerCompress hcfg raw).out.length < 2 ^ 64 := by simp only [List.length_append] at hab; omega
      have wfp : WFPack p :=
        ⟨hout, by show (1:Nat) < 2 ^ 64; decide,
          by intro v hv; simp only [p, List.mem_singleton] at hv; rw [hv, hps]; exact hpl,
          by intro he; simp [p] at he,
          by intro c hc; simp only [p, List.mem_singleton] at hc; rw [hc, hdg]; exact crc32Update_lt 0 _⟩
      have hfo : folderOut (toSFolder (headerFolder hcfg raw)) = .ok raw.length := by
        rw [linear_folderOut _ hlf]
        show Except.ok ([raw.length].getD (hcfg.coders.length - 1) 0) = _
        rw [wfh.one]; rfl
      have hrecTop := encoded_record_strict_read p (headerFolder hcfg raw) record raw.length hrec wfp rfl (linear_wf _ hlf)
        (by intro c hc; simp only [headerFolder, Option.some.injEq] at hc; rw [← hc]; exact crc32Update_lt 0 _)
        (by rw [linear_packedOf _ hlf]; rfl) hfo
      have hrawTop := header_strict_read (sessionComps cfg ms us).header (sessionComps cfg ms us).streams _ _ _ _ _ rfl rfl
        inv.wfStreams inv.files.wf 0 raw hraw
      have hreclen : record.length < 2 ^ 64 := by
        -- the record is part of the file
        have : record.length ≤ (sigHeaderBytes ((sessionCompress cfg ms).1.out.length + (headerCompress hcfg raw).out.length) record.length (crc32 record) ++
          (sessionCompress cfg ms).1.out ++ (headerCompress hcfg raw).out ++ record).length := by
          simp only [List.length_append]; omega
        omega
      have himg : sigHeaderBytes ((sessionCompress cfg ms).1.out.length + (headerCompress hcfg raw).out.length) record.length (crc32 record) ++
          (sessionCompress cfg ms).1.out ++ (headerCompress hcfg raw).out ++ record =
          sigHeaderBytes ((sessionCompress cfg ms).1.out ++ (headerCompress hcfg raw).out).length record.length (crc32 record) ++
            ((sessionCompress cfg ms).1.out ++ (headerCompress hcfg raw).out) ++ record := by
        simp [List.length_append]
      refine ⟨?_, by show (sessionComps cfg ms us).content = _; rw [sessionComps_content cfg ms us wfc, sessionMembers_zero]⟩
      unfold openArchive
      rw [himg, readArchive_assembled _ _ hab hreclen, hrecTop]
      simp only [encodedStreams, expectedPack, p]
      have hne : ¬ ((sessionCompress cfg ms).1.out.length + (headerCompress hcfg raw).packsize ≠
          ((sessionCompress cfg ms).1.out ++ (headerCompress hcfg raw).out).length) := by
        simp [hps]
      have hpacked : (((sessionCompress cfg ms).1.out ++ (headerCompress hcfg raw).out).drop (sessionCompress cfg ms).1.out.length).take
          (headerCompress hcfg raw).packsize = (headerCompress hcfg raw).out := by
        rw [List.drop_left' rfl, hps, List.take_length]
      have hfo' : folderOut (toSFolderCrc (headerFolder hcfg raw)) = .ok raw.length := hfo
      simp only [List.foldl_nil, Bool.false_eq_true, if_false, List.replicate, hne, hpacked, hdec raw hraw, hfo']
      simp [toSFolderCrc, headerFolder, hrawTop, HParts.expected, List.take_left' rfl]

end SevenZ
