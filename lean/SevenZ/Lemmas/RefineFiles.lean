/-
Reader refinement, FilesInfo: the property loop.  On every FilesInfo the strict reader accepts (shorter than
2 * MAX_LENGTH bytes, so that no name exceeds `read_utf16`'s limit) the model of `FilesInfo._read` either returns
member records that agree with the strict reader's — flags, names (backslashes rewritten), times, attributes — and
stops at the same place, or raises (Anti / StartPos properties, which py7zr does not support).  It never succeeds
with different values.
-/
import SevenZ.Lemmas.Refine
namespace SevenZ
open SevenZ.Impl SevenZ.Spec

def optOfSlot : Slot Nat → Option Nat
  | .val v => some v
  | _ => none

/-- a member record of py7zr's reader agrees with one of the strict reader (the EmptyFile / Anti flags, which py7zr
    keeps beside the list, are not compared) -/
def FileRel (sf : SFile) (fe : FileEntry) : Prop :=
  fe.emptystream = sf.emptyStream ∧ fe.filename = sf.name.map fixSlash ∧ optOfSlot fe.ctime = sf.ctime ∧
  optOfSlot fe.atime = sf.atime ∧ optOfSlot fe.mtime = sf.mtime ∧ optOfSlot fe.attributes = sf.attr

/-- the two member lists agree entry by entry -/
inductive FilesRel : List SFile → List FileEntry → Prop where
  | nil : FilesRel [] []
  | cons {sf fe sfs fes} (h : FileRel sf fe) (t : FilesRel sfs fes) : FilesRel (sf :: sfs) (fe :: fes)

theorem optOfSlot_slotOfOpt (v : Option Nat) : optOfSlot (slotOfOpt v) = v := by cases v <;> rfl

theorem forall2_replicate (n : Nat) : FilesRel (List.replicate n {}) (List.replicate n {}) := by
  induction n with
  | zero => exact .nil
  | succ n ih => exact .cons ⟨rfl, rfl, rfl, rfl, rfl, rfl⟩ ih

/-- updating both lists entry by entry with related updates keeps them related -/
theorem forall2_zip_update {α} (fS : SFile → α → SFile) (fI : FileEntry → α → FileEntry)
    (hpt : ∀ sf fe v, FileRel sf fe → FileRel (fS sf v) (fI fe v)) :
    ∀ (sfs : List SFile) (fes : List FileEntry) (vals : List α), FilesRel sfs fes →
      FilesRel ((sfs.zip vals).map (fun (x, v) => fS x v)) ((fes.zip vals).map (fun (x, v) => fI x v))
  | [], [], _, _ => by simp; exact .nil
  | [], _ :: _, _, h => by cases h
  | _ :: _, [], _, h => by cases h
  | sf :: sfs, fe :: fes, [], _ => by simp; exact .nil
  | sf :: sfs, fe :: fes, v :: vs, h => by
    cases h with
    | cons h1 h2 =>
      simp only [List.zip_cons_cons, List.map_cons]
      exact .cons (hpt sf fe v h1) (forall2_zip_update fS fI hpt sfs fes vs h2)

theorem forall2_spreadBits (upd : SFile → Bool → SFile) (hpt : ∀ sf fe b, FileRel sf fe → FileRel (upd sf b) fe) :
    ∀ (sfs : List SFile) (fes : List FileEntry) (bits : List Bool), FilesRel sfs fes →
      FilesRel (spreadBits upd sfs bits) fes
  | [], [], _, _ => by simp [spreadBits]; exact .nil
  | [], _ :: _, _, h => by cases h
  | _ :: _, [], _, h => by cases h
  | sf :: sfs, fe :: fes, bits, h => by
    cases h with
    | cons h1 h2 =>
      simp only [spreadBits]
      split
      · cases bits with
        | nil => exact .cons h1 (forall2_spreadBits upd hpt sfs fes [] h2)
        | cons b bs => exact .cons (hpt sf fe b h1) (forall2_spreadBits upd hpt sfs fes bs h2)
      · exact .cons h1 (forall2_spreadBits upd hpt sfs fes bits h2)

theorem forall2_length {sfs : List SFile} {fes : List FileEntry} (h : FilesRel sfs fes) : sfs.length = fes.length := by
  induction h with
  | nil => rfl
  | cons _ _ ih => simp [ih]

/-- `sSized`: the sub-reader runs on exactly `size` bytes and uses them up -/
theorem sSized_inv {α} {size : Nat} {w : String} {p : SP α} {s : Bytes} {a : α} {r : Bytes}
    (h : sSized size w p s = .ok (a, r)) : size ≤ s.length ∧ p (s.take size) = .ok (a, []) ∧ r = s.drop size := by
  unfold sSized at h
  split at h
  · simp at h
  · rename_i hl
    cases hp : p (s.take size) with
    | error e => simp [hp] at h
    | ok v =>
      obtain ⟨a', rest⟩ := v
      cases rest with
      | nil => simp [hp] at h; exact ⟨by omega, by rw [h.1], h.2.symm⟩
      | cons x xs => simp [hp] at h

theorem isBytes_take' {a : Bytes} (ha : IsBytes a) (n : Nat) : IsBytes (a.take n) :=
  fun x hx => ha x (List.mem_of_mem_take hx)

/-- the Names property under a bound on the whole body instead of on each name -/
theorem setNames_refines_short : ∀ (files : List FileEntry) (names : List (List Nat)) (fuel : Nat) (body : Bytes), IsBytes body →
    files.length = names.length → body.length < 2 * maxLength →
    splitNames fuel body [] = .ok names →
    setNames files body = .ok ((files.zip names).map (fun (f, cs) => { f with filename := some (fixSlash cs) }), [])
  | [], [], fuel, body, hb, hl, _, h => setNames_refines [] [] fuel body hb hl (by simp) h
  | [], _ :: _, _, _, _, hl, _, _ => by simp at hl
  | _ :: _, [], _, _, _, hl, _, _ => by simp at hl
  | f :: fs, cs :: ns, fuel, body, hb, hl, hlen, h => by
    obtain ⟨us, tail, fuel', hbody, hus, hdec, hrest, hbt⟩ := splitNames_inv fuel body [] cs ns hb h
    simp only [List.reverse_nil, List.nil_append] at hdec
    rw [decodeUtf16Units_eq us.length us (Nat.le_refl _)] at hdec
    have hbl : body.length = 2 * us.length + 2 + tail.length := by
      rw [hbody]
      have : ∀ l : List Nat, (unitsToBytes l).length = 2 * l.length := by
        intro l; induction l with
        | nil => rfl
        | cons u l ih => simp only [unitsToBytes, List.length_cons, ih]; omega
      simp only [List.length_append, List.length_cons, this]; omega
    have hul : us.length < maxLength := by omega
    have hread : pUtf16Name body = .ok (fixSlash cs, tail) := by
      unfold pUtf16Name readUtf16
      rw [hbody, readUnits_units us maxLength tail hus hul]
      simp [hdec]
    have ih := setNames_refines_short fs ns fuel' tail hbt (by simpa using hl) (by omega) hrest
    simp only [setNames, List.zip_cons_cons, List.map_cons]
    rw [P.bind_run hread, P.bind_run ih]
    rfl

end SevenZ

namespace SevenZ
open SevenZ.Impl SevenZ.Spec

theorem onBuffer_run {α} {buf : Bytes} {p : P α} {a : α} {r0 : Bytes} (outer : Bytes) (h : p buf = .ok (a, r0)) :
    onBuffer buf p outer = .ok (a, outer) := by
  unfold onBuffer; rw [h]

theorem P.bind_error {α β} {x : P α} {f : α → P β} {s : Bytes} {e : Err} (h : x s = .error e) :
    (x >>= f) s = .error e := by
  simp only [bind, StateT.bind, Except.bind, h]

theorem pBools_false_of_readBits {n : Nat} {b : Bytes} {bits : List Bool} {r : Bytes} (h : readBits n b = some (bits, r)) :
    pBools n false b = .ok (bits, r) := by
  unfold pBools readBools; simp [h]

theorem Inp.drop {s : Bytes} (h : Inp s) (k : Nat) : Inp (s.drop k) :=
  ⟨isBytes_drop' h.1 k, by have := h.2; simp only [List.length_drop]; omega⟩

theorem Inp.take {s : Bytes} (h : Inp s) (k : Nat) : Inp (s.take k) :=
  ⟨isBytes_take' h.1 k, by have := h.2; simp only [List.length_take]; omega⟩

/-- either outcome of py7zr's loop that the theorem allows -/
def SafeOutcome (res : Except Err (FilesInfo × Bytes)) (sfs' : List SFile) (r : Bytes) : Prop :=
  (∃ fi', res = .ok (fi', r) ∧ FilesRel sfs' fi'.files) ∨ (∃ e, res = .error e)

theorem sFileProps_safe : ∀ (fuel n : Nat) (sfs : List SFile) (neS : Nat) (seen : Bool) (s : Bytes) (sfs' : List SFile) (r : Bytes),
    Inp s → s.length < 2 * maxLength → sFileProps fuel n sfs neS seen s = .ok (sfs', r) →
    ∀ (fuelI : Nat) (fi : FilesInfo) (neI : Nat), s.length < fuelI → FilesRel sfs fi.files → sfs.length = n →
      SafeOutcome (readFileProps fuelI n fi neI s) sfs' r
  | 0, _, _, _, _, _, _, _, _, _, h => by simp [sFileProps] at h; exact (SP.fail_inv h).elim
  | fuel + 1, n, sfs, neS, seen, s, sfs', r, hi, hshort, h => by
    intro fuelI fi neI hfI hrel hn
    obtain ⟨fI, rfl⟩ : ∃ fI, fuelI = fI + 1 := ⟨fuelI - 1, by omega⟩
    simp only [sFileProps] at h
    obtain ⟨id, s1, q1, k1⟩ := SP.bind_inv h
    have e1 := sByte_inv q1
    have i1 : Inp s1 := by rw [e1] at hi; exact hi.tail
    have l1 : s1.length + 1 = s.length := by rw [e1]; simp
    simp only [readFileProps]
    rw [e1, P.bind_run (read1_cons id s1)]
    by_cases h0 : id = 0
    · subst h0
      simp only [if_true] at k1 ⊢
      have e := SP.pure_inv k1; simp at e
      rw [e.1, e.2]
      exact Or.inl ⟨fi, rfl, hrel⟩
    · have h0' : ¬ ((some id : Option Nat) = some 0) := by simpa using h0
      simp only [h0, if_false] at k1
      simp only [h0', if_false]
      obtain ⟨size, s2, q2, k2⟩ := SP.bind_inv k1
      obtain ⟨g2, i2⟩ := sNumber_refines' i1 q2
      have l2 := pNumber_len g2
      rw [P.bind_run g2]
      have hrb : readBytes size s2 = .ok (s2.take size, s2.drop size) := rfl
      have idrop : Inp (s2.drop size) := i2.drop size
      have ldrop : (s2.drop size).length < fI := by simp only [List.length_drop]; omega
      have lshort : (s2.drop size).length < 2 * maxLength := by simp only [List.length_drop]; omega
      have hfl : fi.files.length = n := by rw [← forall2_length hrel]; exact hn
      -- the size of a property the strict reader accepted is no larger than what is left
      have hsmall : ∀ {α} {w : String} {p : SP α} {a : α} {r' : Bytes}, sSized size w p s2 = .ok (a, r') → ¬ size ≥ 2 ^ 63 := by
        intro α w p a r' hh
        have := (sSized_inv hh).1; have := i2.2; omega
      by_cases hE : id = 0x0E
      · subst hE
        simp only at k2
        obtain ⟨bits, s3, q3, k3⟩ := SP.bind_inv k2
        obtain ⟨hle, hp, hr3⟩ := sSized_inv q3
        simp only [hsmall q3, if_false, show ¬ ((some 14 : Option Nat) = some 0x19) by decide]
        rw [P.bind_run hrb]
        have gb := pBools_false_of_readBits (sBitField_refines (i2.take size).1 hp).1
        rw [P.bind_run (onBuffer_run (s2.drop size) gb)]
        rw [hr3] at k3
        have hl : bits.length = n := (readBitsF_len _ _ _ _ _ (sBitField_refines (i2.take size).1 hp).1).1
        exact sFileProps_safe fuel n _ _ _ _ sfs' r idrop lshort k3 fI _ _ ldrop
          (forall2_zip_update (fun f b => { f with emptyStream := b }) (fun f b => { f with emptystream := b })
            (fun sf fe v hr => ⟨rfl, hr.2.1, hr.2.2.1, hr.2.2.2.1, hr.2.2.2.2.1, hr.2.2.2.2.2⟩) sfs fi.files bits hrel)
          (by simp [setList, hn, hl])
      · by_cases hF : id = 0x0F
        · subst hF
          simp only at k2
          split at k2
          · exact (SP.fail_inv k2).elim
          obtain ⟨bits, s3, q3, k3⟩ := SP.bind_inv k2
          obtain ⟨hle, hp, hr3⟩ := sSized_inv q3
          simp only [hsmall q3, if_false, show ¬ ((some 15 : Option Nat) = some 0x19) by decide]
          rw [P.bind_run hrb]
          rw [hr3] at k3
          cases hI : onBuffer (s2.take size) (pBools neI false) (s2.drop size) with
          | error e => exact Or.inr ⟨e, by rw [P.bind_error hI]⟩
          | ok v =>
            obtain ⟨ef, t⟩ := v
            have et := (onBuffer_inv hI).1
            rw [et] at hI
            rw [P.bind_run hI]
            exact sFileProps_safe fuel n _ _ _ _ sfs' r idrop lshort k3 fI _ _ ldrop
              (forall2_spreadBits (fun f b => { f with emptyFile := b }) (fun sf fe b hr => hr) sfs fi.files bits hrel)
              (by
                have : ∀ (l : List SFile) (bs : List Bool), (spreadBits (fun f b => { f with emptyFile := b }) l bs).length = l.length := by
                  intro l
                  induction l with
                  | nil => intro bs; simp [spreadBits]
                  | cons x xs ih =>
                    intro bs
                    simp only [spreadBits]
                    split
                    · cases bs <;> simp [ih]
                    · simp [ih]
                rw [this]; exact hn)
        · by_cases hN : id = 0x11
          · subst hN
            simp only at k2
            obtain ⟨names, s3, q3, k3⟩ := SP.bind_inv k2
            obtain ⟨hle, hp, hr3⟩ := sSized_inv q3
            split at k3
            · exact (SP.fail_inv k3).elim
            rename_i hnl
            have hnl' : names.length = n := by simpa using hnl
            simp only [hsmall q3, if_false, show ¬ ((some 17 : Option Nat) = some 0x19) by decide]
            rw [P.bind_run hrb]
            rw [hr3] at k3
            -- the names body
            unfold sNamesBody at hp
            obtain ⟨ext, b1, a1, m1⟩ := SP.bind_inv hp
            have eb := sByte_inv a1
            split at m1
            · exact (SP.fail_inv m1).elim
            rename_i hext
            have hext' : ext = 0 := by simpa using hext
            obtain ⟨body, b2, a2, m2⟩ := SP.bind_inv m1
            have ebody : body = b1 ∧ b2 = b1 := by
              simp only [get, getThe, MonadStateOf.get, StateT.get, pure, Except.pure] at a2
              have := Except.ok.inj a2; simp at this; exact ⟨this.1.symm, this.2.symm⟩
            obtain ⟨_, b3, a3, m3⟩ := SP.bind_inv m2
            cases hsn : splitNames (body.length + 1) body [] with
            | error e => simp only [hsn] at m3; exact (SP.fail_inv m3).elim
            | ok ns =>
              simp only [hsn] at m3
              have e3 := SP.pure_inv m3; simp at e3
              have hns : ns = names := e3.1.symm
              have ib1 : IsBytes b1 := by
                have := (i2.take size).1; rw [eb] at this; exact isBytes_tail this
              have lb1 : b1.length < 2 * maxLength := by
                have : (s2.take size).length = b1.length + 1 := by rw [eb]; simp
                have := List.length_take_le size s2; omega
              have gnames := setNames_refines_short fi.files names (body.length + 1) body (by rw [ebody.1]; exact ib1)
                (by rw [hfl, hnl']) (by rw [ebody.1]; exact lb1) (by rw [← hns]; exact hsn)
              have gblock : (do
                    let ext ← read1
                    if ext = some 0 then setNames fi.files else Impl.fail .unsupported : P (List FileEntry)) (s2.take size) =
                  .ok ((fi.files.zip names).map (fun (f, cs) => { f with filename := some (fixSlash cs) }), []) := by
                rw [eb, P.bind_run (read1_cons ext b1), hext']
                simp only [if_true]
                rw [← ebody.1]; exact gnames
              rw [P.bind_run (onBuffer_run (s2.drop size) gblock)]
              exact sFileProps_safe fuel n _ _ _ _ sfs' r idrop lshort k3 fI _ _ ldrop
                (forall2_zip_update (fun f v => { f with name := some v }) (fun f cs => { f with filename := some (fixSlash cs) })
                  (fun sf fe v hr => ⟨hr.1, rfl, hr.2.2.1, hr.2.2.2.1, hr.2.2.2.2.1, hr.2.2.2.2.2⟩) sfs fi.files names hrel)
                (by simp [setList, hn, hnl'])
          · -- the time vectors
            have htime : ∀ (k : TimeKind) (w : String) (upd : SFile → Option Nat → SFile) (idn : Nat),
                (∀ sf fe v, FileRel sf fe → FileRel (upd sf v) (setTime k fe (slotOfOpt v))) →
                (∀ l vals, (setList l vals upd).length = min l.length vals.length) →
                ∀ (vals : List (Option Nat)) (s3 : Bytes), sSized size w (sOptVector n 8 w) s2 = .ok (vals, s3) →
                sFileProps fuel n (setList sfs vals upd) neS seen s3 = .ok (sfs', r) →
                SafeOutcome ((do
                  let files ← onBuffer (s2.take size) (do
                    let defined ← pBools fi.files.length true
                    let ext ← read1
                    if ext ≠ some 0 then Impl.fail .malformed else setTimes k fi.files defined)
                  readFileProps fI n { fi with files } neI : P FilesInfo) (s2.drop size)) sfs' r := by
              intro k w upd idn hpt hlen vals s3 q3 k3
              obtain ⟨hle, hp, hr3⟩ := sSized_inv q3
              rw [← hfl] at hp
              obtain ⟨g, _, hvl⟩ := sOptVector_times_refines k w fi.files vals (s2.take size) [] (i2.take size) hp
              rw [P.bind_run (onBuffer_run (s2.drop size) g)]
              rw [hr3] at k3
              exact sFileProps_safe fuel n _ _ _ _ sfs' r idrop lshort k3 fI _ _ ldrop
                (forall2_zip_update upd (fun f v => setTime k f (slotOfOpt v)) hpt sfs fi.files vals hrel)
                (by rw [hlen, hn, hvl, hfl]; simp)
            have hsl : ∀ (upd : SFile → Option Nat → SFile) (l : List SFile) (vals : List (Option Nat)),
                (setList l vals upd).length = min l.length vals.length := by
              intro upd l vals; simp [setList]
            by_cases hC : id = 0x12
            · subst hC
              simp only at k2
              obtain ⟨v, s3, q3, k3⟩ := SP.bind_inv k2
              simp only [hsmall q3, if_false, show ¬ ((some 18 : Option Nat) = some 0x19) by decide]
              rw [P.bind_run hrb]
              exact htime .c "CTime" (fun f t => { f with ctime := t }) 0x12
                (fun sf fe v hr => ⟨hr.1, hr.2.1, by simp [setTime, optOfSlot_slotOfOpt], hr.2.2.2.1, hr.2.2.2.2.1, hr.2.2.2.2.2⟩)
                (hsl _) v s3 q3 k3
            · by_cases hA : id = 0x13
              · subst hA
                simp only at k2
                obtain ⟨v, s3, q3, k3⟩ := SP.bind_inv k2
                simp only [hsmall q3, if_false, show ¬ ((some 19 : Option Nat) = some 0x19) by decide]
                rw [P.bind_run hrb]
                exact htime .a "ATime" (fun f t => { f with atime := t }) 0x13
                  (fun sf fe v hr => ⟨hr.1, hr.2.1, hr.2.2.1, by simp [setTime, optOfSlot_slotOfOpt], hr.2.2.2.2.1, hr.2.2.2.2.2⟩)
                  (hsl _) v s3 q3 k3
              · by_cases hM : id = 0x14
                · subst hM
                  simp only at k2
                  obtain ⟨v, s3, q3, k3⟩ := SP.bind_inv k2
                  simp only [hsmall q3, if_false, show ¬ ((some 20 : Option Nat) = some 0x19) by decide]
                  rw [P.bind_run hrb]
                  exact htime .m "MTime" (fun f t => { f with mtime := t }) 0x14
                    (fun sf fe v hr => ⟨hr.1, hr.2.1, hr.2.2.1, hr.2.2.2.1, by simp [setTime, optOfSlot_slotOfOpt], hr.2.2.2.2.2⟩)
                    (hsl _) v s3 q3 k3
                · by_cases hT : id = 0x15
                  · subst hT
                    simp only at k2
                    obtain ⟨vals, s3, q3, k3⟩ := SP.bind_inv k2
                    simp only [hsmall q3, if_false, show ¬ ((some 21 : Option Nat) = some 0x19) by decide]
                    rw [P.bind_run hrb]
                    obtain ⟨hle, hp, hr3⟩ := sSized_inv q3
                    rw [← hfl] at hp
                    obtain ⟨g, _, hvl⟩ := sOptVector_attrs_refines "Attributes" fi.files vals (s2.take size) [] (i2.take size) hp
                    rw [hfl] at g
                    rw [P.bind_run (onBuffer_run (s2.drop size) g)]
                    rw [hr3] at k3
                    exact sFileProps_safe fuel n _ _ _ _ sfs' r idrop lshort k3 fI _ _ ldrop
                      (forall2_zip_update (fun f t => { f with attr := t }) (fun f v => { f with attributes := slotOfOpt v })
                        (fun sf fe v hr => ⟨hr.1, hr.2.1, hr.2.2.1, hr.2.2.2.1, hr.2.2.2.2.1, optOfSlot_slotOfOpt v⟩) sfs fi.files vals hrel)
                      (by rw [hsl, hn, hvl, hfl]; simp)
                  · by_cases hD : id = 0x19
                    · subst hD
                      simp only at k2
                      obtain ⟨pad, s3, q3, k3⟩ := SP.bind_inv k2
                      obtain ⟨g3, _, _, hle⟩ := sTake_refines' i2 q3
                      have hr3 : s3 = s2.drop size := by
                        have := g3; unfold readBytes at this; simp at this; exact this.2.symm
                      split at k3
                      · exact (SP.fail_inv k3).elim
                      have hss : ¬ size ≥ 2 ^ 63 := by have := i2.2; omega
                      simp only [hss, if_false, if_true]
                      rw [P.bind_run hrb]
                      rw [hr3] at k3
                      exact sFileProps_safe fuel n _ _ _ _ sfs' r idrop lshort k3 fI _ _ ldrop hrel hn
                    · -- Anti, StartPos: py7zr raises; anything else: the strict reader raises
                      have hD' : ¬ ((some id : Option Nat) = some 0x19) := by simpa using hD
                      by_cases hss : size ≥ 2 ^ 63
                      · simp only [hss, if_true]
                        exact Or.inr ⟨.malformed, rfl⟩
                      · simp only [hss, if_false, hD']
                        rw [P.bind_run hrb]
                        by_cases hX : id = 0x10
                        · subst hX; exact Or.inr ⟨.bad7z, rfl⟩
                        · by_cases hY : id = 0x18
                          · subst hY; exact Or.inr ⟨.malformed, rfl⟩
                          · exfalso
                            simp only at k2
                            first | exact (SP.fail_inv k2).elim | (split at k2 <;> first | (exact (SP.fail_inv k2).elim) | omega)

end SevenZ

namespace SevenZ
open SevenZ.Impl SevenZ.Spec

/-- FilesInfo as a whole: the member count passes py7zr's guard, then the loop -/
theorem sFilesInfo_safe {total : Nat} {s : Bytes} {sfs : List SFile} {r : Bytes} (hi : Inp s) (hst : s.length ≤ total)
    (hshort : s.length < 2 * maxLength) (h : sFilesInfo s = .ok (sfs, r)) :
    (∃ fi, readFilesInfo total s = .ok (fi, r) ∧ FilesRel sfs fi.files) ∨ (∃ e, readFilesInfo total s = .error e) := by
  unfold sFilesInfo at h
  obtain ⟨n, s1, q1, k1⟩ := SP.bind_inv h
  obtain ⟨g1, i1⟩ := sNumber_refines' hi q1
  have l1 := pNumber_len g1
  obtain ⟨rest, s2, q2, k2⟩ := SP.bind_inv k1
  have e2 : rest = s1 ∧ s2 = s1 := by
    simp only [get, getThe, MonadStateOf.get, StateT.get, pure, Except.pure] at q2
    have := Except.ok.inj q2; simp at this; exact ⟨this.1.symm, this.2.symm⟩
  split at k2
  · exact (SP.fail_inv k2).elim
  rename_i hguard
  rw [e2.1, e2.2] at k2
  unfold readFilesInfo
  rw [P.bind_run g1]
  have hg : ¬ n > total * 8 := by rw [e2.1] at hguard; omega
  simp only [hg, if_false]
  have hget : (get : P Bytes) s1 = .ok (s1, s1) := rfl
  rw [P.bind_run hget]
  have hrel : FilesRel (List.replicate n ({} : SFile)) ({ files := List.replicate n {} } : FilesInfo).files := forall2_replicate n
  exact sFileProps_safe (s1.length + 1) n _ 0 false s1 sfs r i1 (by omega) k2 (s1.length + 1) _ 0 (by omega) hrel (by simp)

/-- what the two readers' header objects have in common -/
def HeaderRel (sh : SHeader) (H : Header) : Prop :=
  (∀ ss, sh.streams = some ss → ∃ st, H.mainStreams = some st ∧
    (∀ sp, ss.pack = some sp → ∃ ip, st.packinfo = some ip ∧ ip.packpos = sp.packpos ∧ ip.packsizes = sp.sizes) ∧
    st.folders.getD [] = ss.folders.map folderOf ∧
    (∀ x, st.substreams = some x → x.numUnpack = ss.numUnpack ∧
      (x.unpacksizes = some ss.subSizes ∨ (x.unpacksizes = none ∧ ss.numUnpack.any (· > 1) = false))) ∧
    (st.substreams = none → ss.numUnpack = ss.folders.map (fun _ => 1))) ∧
  (sh.streams = none → H.mainStreams = none) ∧
  (sh.hasFiles = true → ∃ fi, H.filesInfo = some fi ∧ FilesRel sh.files fi.files) ∧
  (sh.hasFiles = false → H.filesInfo = none)

theorem sHeaderBody_safe {total : Nat} {s : Bytes} {sh : SHeader} {r : Bytes} (hi : Inp s) (hst : s.length ≤ total)
    (hshort : s.length < 2 * maxLength)
    (hone : ∀ ss, sh.streams = some ss → ∀ f ∈ ss.folders, OneOut f)
    (h : sHeaderBody s = .ok (sh, r)) :
    (∃ H, readHeaderBody total s = .ok (H, r) ∧ HeaderRel sh H) ∨ (∃ e, readHeaderBody total s = .error e) := by
  unfold sHeaderBody at h
  obtain ⟨id1, s1, q1, k1⟩ := SP.bind_inv h
  have e1 := sByte_inv q1
  have i1 : Inp s1 := by rw [e1] at hi; exact hi.tail
  have l1 : s1.length + 1 = s.length := by rw [e1]; simp
  obtain ⟨sp, s2, q2, k2⟩ := SP.bind_inv k1
  obtain ⟨fp, s3, q3, k3⟩ := SP.bind_inv k2
  obtain ⟨files, hasF, id3⟩ := fp
  simp only at k3
  split at k3
  · exact (SP.fail_inv k3).elim
  rename_i hend
  have hend' : id3 = 0 := by simpa using hend
  obtain ⟨rest, s4, q4, k4⟩ := SP.bind_inv k3
  have e4 : rest = s3 ∧ s4 = s3 := by
    simp only [get, getThe, MonadStateOf.get, StateT.get, pure, Except.pure] at q4
    have := Except.ok.inj q4; simp at this; exact ⟨this.1.symm, this.2.symm⟩
  split at k4
  · exact (SP.fail_inv k4).elim
  have efin := SP.pure_inv k4; simp at efin
  obtain ⟨esh, er⟩ := efin
  have hstreams : sh.streams = sp.1 := by rw [esh]
  have hfiles : sh.files = files ∧ sh.hasFiles = hasF := by rw [esh]; exact ⟨rfl, rfl⟩
  -- the streams section
  have hS : ∃ mso, ((if some id1 = some 0x04 then (do
        let s ← readStreams total
        let pid ← read1
        pure (some s, pid)) else (pure (none, some id1) : P (Option Streams × Option Nat))) s1 = .ok ((mso, some sp.2), s2)) ∧
      (∀ ss, sp.1 = some ss → ∃ st, mso = some st ∧
        (∀ sp', ss.pack = some sp' → ∃ ip, st.packinfo = some ip ∧ ip.packpos = sp'.packpos ∧ ip.packsizes = sp'.sizes) ∧
        st.folders.getD [] = ss.folders.map folderOf ∧
        (∀ x, st.substreams = some x → x.numUnpack = ss.numUnpack ∧
          (x.unpacksizes = some ss.subSizes ∨ (x.unpacksizes = none ∧ ss.numUnpack.any (· > 1) = false))) ∧
        (st.substreams = none → ss.numUnpack = ss.folders.map (fun _ => 1))) ∧
      (sp.1 = none → mso = none) ∧ Inp s2 ∧ s2.length ≤ s1.length := by
    by_cases h4 : id1 = 0x04
    · simp only [h4, if_true] at q2 ⊢
      obtain ⟨ss, t1, a1, m1⟩ := SP.bind_inv q2
      obtain ⟨id2, t2, a2, m2⟩ := SP.bind_inv m1
      have et := sByte_inv a2
      have e := SP.pure_inv m2; simp at e
      obtain ⟨st, g, c1, _, c3, c4, c5, it1⟩ := sStreams_refines (total := total) i1 (by omega)
        (fun f hf => hone ss (by rw [hstreams, e.1]) f hf) a1
      have lt1 := (readStreams_post g (by omega)).2.2.2
      have it2 : Inp t2 := by rw [et] at it1; exact it1.tail
      have lt2 : t2.length ≤ t1.length := by rw [et]; simp
      refine ⟨some st, ?_, ?_, by intro hn; rw [e.1] at hn; simp at hn, by rw [e.2]; exact it2, by rw [e.2]; omega⟩
      · rw [P.bind_run g, et, P.bind_run (read1_cons id2 t2), e.1, e.2]; rfl
      · intro ss' hss; rw [e.1] at hss; simp at hss; subst hss
        exact ⟨st, rfl, c1, c3, c4, c5⟩
    · have h4' : ¬ (some id1 = some 0x04) := by simpa using h4
      simp only [h4, if_false] at q2
      simp only [h4', if_false]
      have e := SP.pure_inv q2; simp at e
      exact ⟨none, by rw [e.1, e.2]; rfl, by intro ss hss; rw [e.1] at hss; simp at hss, fun _ => rfl, by rw [e.2]; exact i1, by rw [e.2]; omega⟩
  obtain ⟨mso, gS, hms, hmn, i2, l2⟩ := hS
  unfold readHeaderBody
  rw [e1, P.bind_run (read1_cons id1 s1), P.bind_run gS]
  simp only
  -- the files section
  by_cases h5 : sp.2 = 0x05
  · simp only [h5, if_true] at q3 ⊢
    obtain ⟨fl, t1, a1, m1⟩ := SP.bind_inv q3
    obtain ⟨id2, t2, a2, m2⟩ := SP.bind_inv m1
    have et := sByte_inv a2
    have e := SP.pure_inv m2; simp at e
    obtain ⟨⟨ef, eh, eid⟩, es3⟩ := e
    rcases sFilesInfo_safe (total := total) i2 (by omega) (by omega) a1 with ⟨fi, g, hr⟩ | ⟨er', g⟩
    · rw [P.bind_run (show (do let f ← readFilesInfo total; let pid ← read1; pure (some f, pid) : P (Option FilesInfo × Option Nat)) s2 =
          .ok ((some fi, some id2), t2) by rw [P.bind_run g, et, P.bind_run (read1_cons id2 t2)]; rfl)]
      simp only [← eid, hend', ne_eq, not_true_eq_false, if_false]
      left
      refine ⟨_, by rw [er, e4.2, es3]; rfl, ?_⟩
      refine ⟨?_, ?_, ?_, ?_⟩
      · intro ss hss; rw [hstreams] at hss
        obtain ⟨st, a, b, c, d, e'⟩ := hms ss hss
        exact ⟨st, a, b, c, d, e'⟩
      · intro hn; rw [hstreams] at hn; exact hmn hn
      · intro _; exact ⟨fi, rfl, by rw [hfiles.1, ef]; exact hr⟩
      · intro hf; rw [hfiles.2, eh] at hf; simp at hf
    · right
      exact ⟨er', by rw [P.bind_error (P.bind_error g)]⟩
  · have h5' : ¬ (some sp.2 = some 0x05) := by simpa using h5
    simp only [h5, if_false] at q3
    simp only [h5', if_false]
    have e := SP.pure_inv q3; simp at e
    obtain ⟨⟨ef, eh, eid⟩, es3⟩ := e
    rw [P.bind_run (rfl : (pure (none, some sp.2) : P (Option FilesInfo × Option Nat)) s2 = .ok ((none, some sp.2), s2))]
    simp only [← eid, hend', ne_eq, not_true_eq_false, if_false]
    left
    refine ⟨_, by rw [er, e4.2, es3]; rfl, ?_⟩
    refine ⟨?_, ?_, ?_, ?_⟩
    · intro ss hss; rw [hstreams] at hss
      obtain ⟨st, a, b, c, d, e'⟩ := hms ss hss
      exact ⟨st, a, b, c, d, e'⟩
    · intro hn; rw [hstreams] at hn; exact hmn hn
    · intro hf; rw [hfiles.2, eh] at hf; simp at hf
    · intro _; rfl

end SevenZ
