/- Lemmas about the lexical path model (core Lean only). -/
import SevenZ.Model.Path
namespace SevenZ
open Impl

theorem rootOf_nil_iff (s : Str) : rootOf s = [] ↔ s.head? ≠ some '/' := by
  match s with
  | [] => simp [rootOf]
  | [c] => by_cases h : c = '/' <;> simp [rootOf, h]
  | [c, d] => by_cases h : c = '/' <;> by_cases h2 : d = '/' <;> simp [rootOf, h, h2]
  | c :: d :: e :: rest =>
    by_cases h : c = '/' <;> by_cases h2 : d = '/' <;> by_cases h3 : e = '/' <;> simp [rootOf, h, h2, h3]

def keep (c : Str) : Bool := decide (c ≠ [] ∧ c ≠ ['.'])

theorem resolve_depth (cs : List Str) : ∀ stack : List Str,
    (Spec.resolve stack cs).isSome = depthWalk stack.length (cs.filter keep) := by
  induction cs with
  | nil => intro stack; simp [Spec.resolve, depthWalk]
  | cons c cs ih =>
    intro stack
    rw [Spec.resolve]
    by_cases h1 : c = [] ∨ c = ['.']
    · have hk : keep c = false := by
        rcases h1 with h | h <;> simp [keep, h]
      rw [if_pos h1, List.filter_cons_of_neg (by simp [hk]), ih]
    · have hk : keep c = true := by
        simp only [keep, decide_eq_true_eq]
        exact ⟨fun h => h1 (Or.inl h), fun h => h1 (Or.inr h)⟩
      rw [if_neg h1, List.filter_cons_of_pos hk]
      by_cases h2 : c = ['.', '.']
      · rw [if_pos h2, h2]
        cases hs : stack.reverse with
        | nil =>
          have : stack = [] := by simpa using hs
          subst this; simp [depthWalk]
        | cons x up =>
          have hl : stack.length = up.length + 1 := by
            have := congrArg List.length hs; simpa using this
          simp only [hl, depthWalk, if_true]
          rw [ih up.reverse]; simp
      · rw [if_neg h2]
        simp only [depthWalk, h2, if_false]
        rw [ih (stack ++ [c])]; simp

theorem check_eq_oracle (s : Str) : checkArchivePath s = Spec.nameStaysInside s := by
  unfold checkArchivePath Spec.nameStaysInside
  by_cases h : s.head? = some '/'
  · cases s with
    | nil => simp at h
    | cons c rest =>
      simp at h; subst h
      have : rootOf ('/' :: rest) ≠ [] := by
        intro e; have := (rootOf_nil_iff _).mp e; simp at this
      simp [parse, PPath.isAbsolute, this]
  · have hr : rootOf s = [] := (rootOf_nil_iff s).mpr h
    have hne : ∀ rest, s ≠ '/' :: rest := by
      intro rest e; subst e; simp at h
    have hw := resolve_depth (splitSlash s) []
    simp only [parse, PPath.isAbsolute, hr, ne_eq, not_true_eq_false, decide_false, Bool.false_eq_true, if_false,
      PPath.parts, if_true, List.nil_append]
    rw [hw]; rfl


theorem splitSlash_ne_nil (s : Str) : splitSlash s ≠ [] := by
  induction s with
  | nil => simp [splitSlash]
  | cons c rest ih =>
    unfold splitSlash
    split
    · simp
    · split
      · simp
      · simp

theorem splitSlash_no_slash (s : Str) : ∀ w ∈ splitSlash s, '/' ∉ w := by
  induction s with
  | nil => intro w hw; simp [splitSlash] at hw; subst hw; simp
  | cons c rest ih =>
    intro w hw
    unfold splitSlash at hw
    split at hw
    · simp at hw
      rcases hw with h | h
      · subst h; simp
      · exact ih w h
    · rename_i hc
      split at hw
      · simp at hw; subst hw; simp; exact fun h => hc h.symm
      · rename_i w0 ws heq
        simp at hw
        rcases hw with h | h
        · subst h
          have := ih w0 (by rw [heq]; simp)
          simp; exact ⟨fun h => hc h.symm, this⟩
        · exact ih w (by rw [heq]; simp [h])

/-- what `_sanitize_archive_arcname` lets through is neither absolute nor drive-prefixed -/
theorem sanitize_not_absolute (s p : Str) (h : sanitizeArcname s = some p) :
    p.head? ≠ some '/' ∧ hasDrive p = false := by
  unfold sanitizeArcname at h
  simp only [] at h
  generalize (if hasDrive (if s.head? = some '/' then dropWhileSlash s else s) = true then
      if (List.drop 2 (if s.head? = some '/' then dropWhileSlash s else s)).head? = some '/' then
        dropWhileSlash (List.drop 2 (if s.head? = some '/' then dropWhileSlash s else s))
      else List.drop 2 (if s.head? = some '/' then dropWhileSlash s else s)
    else if s.head? = some '/' then dropWhileSlash s else s) = q at h
  by_cases hq : q.head? = some '/' ∨ hasDrive q = true
  · rw [if_pos hq] at h; simp at h
  · rw [if_neg hq] at h
    simp at h; subst h
    constructor
    · intro e; exact hq (Or.inl e)
    · cases hd : hasDrive q with
      | false => rfl
      | true => exact absurd (Or.inr hd) hq

/-- … and the name stored for it (`pathlib.Path(p).as_posix()`) does not start with a slash -/
theorem stored_not_absolute (p : Str) (h : p.head? ≠ some '/') : (storedName p).head? ≠ some '/' := by
  have hr : rootOf p = [] := (rootOf_nil_iff p).mpr h
  unfold storedName PPath.toStr parse
  simp only [hr, true_and, List.nil_append]
  split
  · simp
  · rename_i hne
    cases hc : (splitSlash p).filter (fun c => decide (c ≠ [] ∧ c ≠ ['.'])) with
    | nil => exact absurd hc hne
    | cons w ws =>
      have hmem : w ∈ (splitSlash p).filter (fun c => decide (c ≠ [] ∧ c ≠ ['.'])) := by rw [hc]; simp
      rw [List.mem_filter] at hmem
      have hw1 : w ≠ [] := by have := hmem.2; simp at this; exact this.1
      have hns := splitSlash_no_slash p w hmem.1
      cases w with
      | nil => exact absurd rfl hw1
      | cons a as =>
        have : a ≠ '/' := by intro e; apply hns; simp [e]
        cases ws <;> simp [List.intercalate, this]

/-- a component that is a real directory or file name -/
def cleanComp (c : Str) : Prop := c ≠ [] ∧ c ≠ ['.'] ∧ c ≠ ['.', '.']

/-- the independent resolver only ever keeps real names on its stack: where an accepted name
    ends up is a path of plain components under the virtual root -/
theorem resolve_clean (cs : List Str) : ∀ (stack r : List Str),
    Spec.resolve stack cs = some r → (∀ c ∈ stack, cleanComp c) → ∀ c ∈ r, cleanComp c := by
  induction cs with
  | nil => intro stack r h hs; simp [Spec.resolve] at h; subst h; exact hs
  | cons c cs ih =>
    intro stack r h hs
    rw [Spec.resolve] at h
    by_cases h1 : c = [] ∨ c = ['.']
    · rw [if_pos h1] at h; exact ih stack r h hs
    · rw [if_neg h1] at h
      by_cases h2 : c = ['.', '.']
      · rw [if_pos h2] at h
        cases hrev : stack.reverse with
        | nil => rw [hrev] at h; simp at h
        | cons x up =>
          rw [hrev] at h
          refine ih up.reverse r h ?_
          intro d hd
          apply hs
          have : d ∈ stack.reverse := by rw [hrev]; simp; right; simpa using hd
          simpa using this
      · rw [if_neg h2] at h
        refine ih (stack ++ [c]) r h ?_
        intro d hd
        simp at hd
        rcases hd with hd | hd
        · exact hs d hd
        · subst hd; exact ⟨fun e => h1 (Or.inl e), fun e => h1 (Or.inr e), h2⟩

/-- the depth walk is monotone in the starting depth: what stays inside the root stays inside
    every directory below it -/
theorem depthWalk_mono (ps : List Str) : ∀ d k : Nat, depthWalk d ps = true → depthWalk (d + k) ps = true := by
  induction ps with
  | nil => intro d k _; simp [depthWalk]
  | cons p ps ih =>
    intro d k h
    by_cases hp : p = ['.', '.']
    · subst hp
      cases d with
      | zero => simp [depthWalk] at h
      | succ d' =>
        simp only [depthWalk, if_true] at h
        have : d' + 1 + k = (d' + k) + 1 := by omega
        rw [this]; simp only [depthWalk, if_true]
        exact ih d' k h
    · simp only [depthWalk, hp, if_false] at h ⊢
      have : d + k + 1 = (d + 1) + k := by omega
      rw [this]; exact ih (d + 1) k h

/-- a name the `writestr`/`writef` gate accepts does not start with a slash -/
theorem check_head (s : Str) (h : checkArchivePath s = true) : s.head? ≠ some '/' := by
  unfold checkArchivePath at h
  simp only [] at h
  by_cases ha : (parse s).isAbsolute = true
  · rw [if_pos ha] at h; simp at h
  · have : rootOf s = [] := by
      simpa [parse, PPath.isAbsolute] using ha
    exact (rootOf_nil_iff s).mp this

end SevenZ
