/-
A whole create session: the archive file the session model assembles is accepted by the strict
archive reader and decodes to exactly the members written.
-/
import SevenZ.Lemmas.SpecHeader
import SevenZ.Lemmas.Compressor
import SevenZ.Model.WriteSession
import SevenZ.Spec.Archive
import SevenZ.Model.AppendSession
namespace SevenZ
open Impl Spec

/-! ### the archive file around the header -/

theorem sig_length (ofs size crc : Nat) : (sigHeaderBytes ofs size crc).length = 32 := by
  simp [sigHeaderBytes, magic7z, leBytes_length]

theorem ofLE_leBytes_lt (v k : Nat) (h : v < 256 ^ k) : ofLE (leBytes v k) = v := by
  rw [ofLE_leBytes, Nat.mod_eq_of_lt h]

/-- the strict archive reader on `signature header ++ data area ++ header`, for any data area
    and any header bytes: all four start-header checks pass and the header database is read
    from exactly the header bytes -/
theorem readArchive_assembled (area hdr : Bytes) (ha : area.length < 2 ^ 64) (hh : hdr.length < 2 ^ 64) :
    readArchive (sigHeaderBytes area.length hdr.length (crc32 hdr) ++ area ++ hdr) =
      (match readTop hdr with
       | .error e => .error e
       | .ok top => .ok { top := top, dataArea := area }) := by
  have hcrc : crc32 hdr < 256 ^ 4 := crc32Update_lt 0 hdr
  have h64 : (2 : Nat) ^ 64 = 256 ^ 8 := by decide
  -- name the pieces of the signature header
  generalize hF1 : leBytes area.length 8 = F1
  generalize hF2 : leBytes hdr.length 8 = F2
  generalize hF3 : leBytes (crc32 hdr) 4 = F3
  have l1 : F1.length = 8 := by rw [← hF1, leBytes_length]
  have l2 : F2.length = 8 := by rw [← hF2, leBytes_length]
  have l3 : F3.length = 4 := by rw [← hF3, leBytes_length]
  have v1 : ofLE F1 = area.length := by rw [← hF1]; exact ofLE_leBytes_lt _ _ (by omega)
  have v2 : ofLE F2 = hdr.length := by rw [← hF2]; exact ofLE_leBytes_lt _ _ (by omega)
  have v3 : ofLE F3 = crc32 hdr := by rw [← hF3]; exact ofLE_leBytes_lt _ _ hcrc
  have hsig : sigHeaderBytes area.length hdr.length (crc32 hdr) =
      magic7z ++ [0, 4] ++ leBytes (crc32 (F1 ++ F2 ++ F3)) 4 ++ (F1 ++ F2 ++ F3) := by
    simp [sigHeaderBytes, hF1, hF2, hF3]
  generalize hA : leBytes (crc32 (F1 ++ F2 ++ F3)) 4 = A at hsig
  have lA : A.length = 4 := by rw [← hA, leBytes_length]
  have vA : ofLE A = crc32 (F1 ++ F2 ++ F3) := by
    rw [← hA]; exact ofLE_leBytes_lt _ _ (crc32Update_lt 0 _)
  -- all pieces have known lengths: make them explicit cons cells
  have c8 : ∀ l : Bytes, l.length = 8 → ∃ a b c d e f g h, l = [a, b, c, d, e, f, g, h] := by
    intro l hl
    match l, hl with
    | [a, b, c, d, e, f, g, h], _ => exact ⟨a, b, c, d, e, f, g, h, rfl⟩
  have c4 : ∀ l : Bytes, l.length = 4 → ∃ a b c d, l = [a, b, c, d] := by
    intro l hl
    match l, hl with
    | [a, b, c, d], _ => exact ⟨a, b, c, d, rfl⟩
  obtain ⟨a0, a1, a2, a3, rfl⟩ := c4 A lA
  obtain ⟨b0, b1, b2, b3, b4, b5, b6, b7, rfl⟩ := c8 F1 l1
  obtain ⟨d0, d1, d2, d3, d4, d5, d6, d7, rfl⟩ := c8 F2 l2
  obtain ⟨e0, e1, e2, e3, rfl⟩ := c4 F3 l3
  rw [hsig]
  unfold readArchive
  simp only [magic7z, List.cons_append, List.nil_append, List.length_cons, List.length_append]
  have hlen : ¬ (area.length + hdr.length + 0 + 1 + 1 + 1 + 1 + 1 + 1 + 1 + 1 + 1 + 1 + 1 + 1 + 1 + 1 + 1 + 1 + 1 + 1 + 1 + 1 + 1 + 1 + 1 + 1 + 1 + 1 + 1 + 1 + 1 + 1 + 1 + 1 < 32) := by omega
  simp only [List.length_nil, hlen, if_false, List.take_succ_cons, List.take_zero, List.drop_succ_cons, List.drop_zero,
    Spec.magic, ne_eq, not_true_eq_false]
  simp only [List.cons_append, List.nil_append] at vA
  simp only [vA, not_true_eq_false, if_false]
  rw [v1, v2, v3]
  have hl2 : ¬ (32 + area.length + hdr.length ≠ area.length + hdr.length + 0 + 1 + 1 + 1 + 1 + 1 + 1 + 1 + 1 + 1 + 1 + 1 + 1 + 1 + 1 + 1 + 1 + 1 + 1 + 1 + 1 + 1 + 1 + 1 + 1 + 1 + 1 + 1 + 1 + 1 + 1 + 1 + 1) := by omega
  simp only [ne_eq] at hl2
  simp only [hl2, if_false]
  have hd : ∀ (p : Bytes), p.length = 32 → List.drop (32 + area.length) (p ++ (area ++ hdr)) = hdr := by
    intro p hp
    rw [← List.append_assoc]
    exact List.drop_left' (by simp [hp])
  have := hd [0x37, 0x7A, 0xBC, 0xAF, 0x27, 0x1C, 0, 4, a0, a1, a2, a3, b0, b1, b2, b3, b4, b5, b6, b7, d0, d1, d2, d3, d4, d5, d6, d7, e0, e1, e2, e3] rfl
  simp only [List.cons_append, List.nil_append] at this
  rw [this, List.take_length]
  simp only [not_true_eq_false, if_false]
  rw [List.take_left' rfl]
  cases readTop hdr <;> rfl

/-- the same with bytes left behind the header (an archive that was appended to) -/
theorem readArchiveTail_assembled (area hdr junk : Bytes) (ha : area.length < 2 ^ 64) (hh : hdr.length < 2 ^ 64) :
    readArchiveTail (sigHeaderBytes area.length hdr.length (crc32 hdr) ++ area ++ hdr ++ junk) =
      (match readTop hdr with
       | .error e => .error e
       | .ok top => .ok { top := top, dataArea := area }) := by
  have hcrc : crc32 hdr < 256 ^ 4 := crc32Update_lt 0 hdr
  have h64 : (2 : Nat) ^ 64 = 256 ^ 8 := by decide
  generalize hF1 : leBytes area.length 8 = F1
  generalize hF2 : leBytes hdr.length 8 = F2
  generalize hF3 : leBytes (crc32 hdr) 4 = F3
  have l1 : F1.length = 8 := by rw [← hF1, leBytes_length]
  have l2 : F2.length = 8 := by rw [← hF2, leBytes_length]
  have l3 : F3.length = 4 := by rw [← hF3, leBytes_length]
  have v1 : ofLE F1 = area.length := by rw [← hF1]; exact ofLE_leBytes_lt _ _ (by omega)
  have v2 : ofLE F2 = hdr.length := by rw [← hF2]; exact ofLE_leBytes_lt _ _ (by omega)
  have v3 : ofLE F3 = crc32 hdr := by rw [← hF3]; exact ofLE_leBytes_lt _ _ hcrc
  have hsig : sigHeaderBytes area.length hdr.length (crc32 hdr) =
      magic7z ++ [0, 4] ++ leBytes (crc32 (F1 ++ F2 ++ F3)) 4 ++ (F1 ++ F2 ++ F3) := by
    simp [sigHeaderBytes, hF1, hF2, hF3]
  generalize hA : leBytes (crc32 (F1 ++ F2 ++ F3)) 4 = A at hsig
  have lA : A.length = 4 := by rw [← hA, leBytes_length]
  have vA : ofLE A = crc32 (F1 ++ F2 ++ F3) := by
    rw [← hA]; exact ofLE_leBytes_lt _ _ (crc32Update_lt 0 _)
  have c8 : ∀ l : Bytes, l.length = 8 → ∃ a b c d e f g h, l = [a, b, c, d, e, f, g, h] := by
    intro l hl
    match l, hl with
    | [a, b, c, d, e, f, g, h], _ => exact ⟨a, b, c, d, e, f, g, h, rfl⟩
  have c4 : ∀ l : Bytes, l.length = 4 → ∃ a b c d, l = [a, b, c, d] := by
    intro l hl
    match l, hl with
    | [a, b, c, d], _ => exact ⟨a, b, c, d, rfl⟩
  obtain ⟨a0, a1, a2, a3, rfl⟩ := c4 A lA
  obtain ⟨b0, b1, b2, b3, b4, b5, b6, b7, rfl⟩ := c8 F1 l1
  obtain ⟨d0, d1, d2, d3, d4, d5, d6, d7, rfl⟩ := c8 F2 l2
  obtain ⟨e0, e1, e2, e3, rfl⟩ := c4 F3 l3
  rw [hsig]
  unfold readArchiveTail
  simp only [magic7z, List.cons_append, List.nil_append, List.length_cons, List.length_append, List.append_assoc]
  have hlen : ¬ (area.length + (hdr.length + junk.length) + 1 + 1 + 1 + 1 + 1 + 1 + 1 + 1 + 1 + 1 + 1 + 1 + 1 + 1 + 1 + 1 + 1 + 1 + 1 + 1 + 1 + 1 + 1 + 1 + 1 + 1 + 1 + 1 + 1 + 1 + 1 + 1 < 32) := by omega
  simp only [hlen, if_false, List.take_succ_cons, List.take_zero, List.drop_succ_cons, List.drop_zero,
    Spec.magic, ne_eq, not_true_eq_false]
  simp only [List.cons_append, List.nil_append] at vA
  simp only [vA, not_true_eq_false, if_false]
  rw [v1, v2, v3]
  have hl2 : ¬ (32 + area.length + hdr.length > area.length + (hdr.length + junk.length) + 1 + 1 + 1 + 1 + 1 + 1 + 1 + 1 + 1 + 1 + 1 + 1 + 1 + 1 + 1 + 1 + 1 + 1 + 1 + 1 + 1 + 1 + 1 + 1 + 1 + 1 + 1 + 1 + 1 + 1 + 1 + 1) := by omega
  simp only [hl2, if_false]
  have hd : ∀ (p : Bytes), p.length = 32 → List.drop (32 + area.length) (p ++ (area ++ (hdr ++ junk))) = hdr ++ junk := by
    intro p hp
    rw [← List.append_assoc]
    exact List.drop_left' (by simp [hp])
  have := hd [0x37, 0x7A, 0xBC, 0xAF, 0x27, 0x1C, 0, 4, a0, a1, a2, a3, b0, b1, b2, b3, b4, b5, b6, b7, d0, d1, d2, d3, d4, d5, d6, d7, e0, e1, e2, e3] rfl
  simp only [List.cons_append, List.nil_append] at this
  rw [this, List.take_left' rfl]
  simp only [not_true_eq_false, if_false]
  rw [List.take_left' rfl]
  cases readTop hdr <;> rfl

/-- where the reader model finds the header of such an image -/
theorem locateHeader_assembled (area hdr junk : Bytes) (ha : area.length < 2 ^ 64) (hh : hdr.length < 2 ^ 64) :
    locateHeader (sigHeaderBytes area.length hdr.length (crc32 hdr) ++ area ++ hdr ++ junk) = some (area.length, hdr) := by
  have h64 : (2 : Nat) ^ 64 = 256 ^ 8 := by decide
  have hs := sig_length area.length hdr.length (crc32 hdr)
  unfold locateHeader
  have hlen : ¬ (sigHeaderBytes area.length hdr.length (crc32 hdr) ++ area ++ hdr ++ junk).length < 32 := by
    simp only [List.length_append, hs]; omega
  simp only [hlen, if_false]
  -- the two fields
  obtain ⟨P, hP, hsig⟩ : ∃ P : Bytes, P.length = 12 ∧ sigHeaderBytes area.length hdr.length (crc32 hdr) =
      P ++ (leBytes area.length 8 ++ (leBytes hdr.length 8 ++ (leBytes (crc32 hdr) 4))) :=
    ⟨magic7z ++ [0, 4] ++ leBytes (crc32 (leBytes area.length 8 ++ leBytes hdr.length 8 ++ leBytes (crc32 hdr) 4)) 4,
      by simp [magic7z, leBytes_length], by simp [sigHeaderBytes]⟩
  have f1 : ((sigHeaderBytes area.length hdr.length (crc32 hdr) ++ area ++ hdr ++ junk).drop 12).take 8 = leBytes area.length 8 := by
    rw [hsig]
    simp only [List.append_assoc]
    rw [List.drop_left' hP, List.take_left' (leBytes_length _ _)]
  have f2 : ((sigHeaderBytes area.length hdr.length (crc32 hdr) ++ area ++ hdr ++ junk).drop 20).take 8 = leBytes hdr.length 8 := by
    rw [hsig]
    simp only [List.append_assoc]
    have : (20 : Nat) = 12 + 8 := rfl
    rw [this, ← List.drop_drop, List.drop_left' hP, List.drop_left' (leBytes_length _ _), List.take_left' (leBytes_length _ _)]
  rw [f1, f2, ofLE_leBytes_lt _ _ (by omega), ofLE_leBytes_lt _ _ (by omega)]
  have hle : ¬ (32 + area.length + hdr.length > (sigHeaderBytes area.length hdr.length (crc32 hdr) ++ area ++ hdr ++ junk).length) := by
    simp only [List.length_append, hs]; omega
  simp only [List.append_assoc] at hle ⊢
  have : List.drop (32 + area.length) (sigHeaderBytes area.length hdr.length (crc32 hdr) ++ (area ++ (hdr ++ junk))) = hdr ++ junk := by
    rw [← List.append_assoc]
    exact List.drop_left' (by simp [hs])
  rw [this, List.take_left' rfl]
  simp only [hle, if_false]

/-! ### finding the unbound stream of a linear chain -/

theorem find_range_first (k : Nat) (p : Nat → Bool) (m : Nat) (hm : m < k) (hlt : ∀ i, i < m → p i = false)
    (hp : p m = true) : (List.range k).find? p = some m := by
  induction k with
  | zero => omega
  | succ k ih =>
    rw [List.range_succ, List.find?_append]
    by_cases h : m < k
    · rw [ih h]; rfl
    · have : m = k := by omega
      subst this
      have hnone : (List.range m).find? p = none := by
        rw [List.find?_eq_none]
        intro x hx
        simp only [List.mem_range] at hx
        simp [hlt x hx]
      rw [hnone]; simp [hp]

/-- the bind pairs `prepare_coderinfo` builds: coder i+1 reads what coder i produced -/
def linearPairs (k : Nat) : List (Nat × Nat) := (List.range (k - 1)).map (fun i => (i + 1, i))

theorem linearPairs_in (k i : Nat) : (linearPairs k).any (fun p => p.1 = i) = decide (1 ≤ i ∧ i < k) := by
  unfold linearPairs
  rw [Bool.eq_iff_iff]
  simp only [List.any_map, List.any_eq_true, List.mem_range, Function.comp, decide_eq_true_eq]
  constructor
  · rintro ⟨j, hj, h⟩; omega
  · intro h; exact ⟨i - 1, by omega, by omega⟩

theorem linearPairs_out (k o : Nat) : (linearPairs k).any (fun p => p.2 = o) = decide (o + 1 < k) := by
  unfold linearPairs
  rw [Bool.eq_iff_iff]
  simp only [List.any_map, List.any_eq_true, List.mem_range, Function.comp, decide_eq_true_eq]
  constructor
  · rintro ⟨j, hj, h⟩; omega
  · intro h; exact ⟨o, by omega, rfl⟩

/-! ### the format's assignment for a single folder -/

/-- what the format assigns when all data sits in folder 0 -/
def singleFolderMembers : List SFile → Nat → List Nat → List (Option Nat) → List SMember
  | [], _, _, _ => []
  | f :: fs, off, sizes, crcs =>
    if f.emptyStream then ⟨f, none⟩ :: singleFolderMembers fs off sizes crcs
    else match sizes, crcs with
      | s :: ss, c :: cs => ⟨f, some (0, off, s, c)⟩ :: singleFolderMembers fs (off + s) ss cs
      | _, _ => []

theorem assignGo_single : ∀ (files : List SFile) (fuel taken off n : Nat) (sizes : List Nat) (crcs : List (Option Nat)),
    files.length < fuel → sizes.length = crcs.length →
    (files.filter (fun f => !f.emptyStream)).length = sizes.length → taken + sizes.length = n →
    assignGo fuel files 0 taken off [n] sizes crcs = .ok (singleFolderMembers files off sizes crcs) := by
  intro files
  induction files with
  | nil =>
    intro fuel taken off n sizes crcs hf hl hc hn
    cases fuel with
    | zero => omega
    | succ fuel =>
      have : sizes = [] := List.eq_nil_of_length_eq_zero (by simpa using hc.symm)
      subst this
      simp [assignGo, singleFolderMembers]
  | cons f fs ih =>
    intro fuel taken off n sizes crcs hf hl hc hn
    cases fuel with
    | zero => simp at hf
    | succ fuel =>
      have hf' : fs.length < fuel := by simpa using hf
      unfold assignGo singleFolderMembers
      by_cases he : f.emptyStream = true
      · simp only [he, if_true]
        have hc' : (fs.filter (fun f => !f.emptyStream)).length = sizes.length := by
          simpa [List.filter_cons, he] using hc
        rw [ih fuel taken off n sizes crcs hf' hl hc' hn]
        rfl
      · have he' : f.emptyStream = false := by simpa using he
        simp only [he', Bool.false_eq_true, if_false]
        cases sizes with
        | nil => simp [List.filter_cons, he'] at hc
        | cons s ss =>
          cases crcs with
          | nil => simp at hl
          | cons c cs =>
            have hge : ¬ taken ≥ n := by simp at hn; omega
            simp only [hge, if_false]
            have hc' : (fs.filter (fun f => !f.emptyStream)).length = ss.length := by
              simpa [List.filter_cons, he'] using hc
            rw [ih fuel (taken + 1) (off + s) n ss cs hf' (by simpa using hl) hc' (by simp at hn; omega)]
            rfl


/-! ### the session's header is well-formed -/

structure WFConfig {σ} (cfg : WConfig σ) : Prop where
  ncoders : 0 < cfg.coders.length ∧ cfg.coders.length ≤ 32
  simple : ∀ c ∈ cfg.coders, c.numIn = 1 ∧ c.numOut = 1
  coders : ∀ c ∈ cfg.coders, WFCoder c
  mapLen : cfg.methodsMap.length = cfg.coders.length
  chainNe : cfg.chain ≠ []
  fresh : headFed cfg.chain = 0

structure WFMembers (ms : List WMember) : Prop where
  scalar : ∀ m ∈ ms, ∀ c ∈ m.name, IsScalar c
  count : ms.length < 2 ^ 32
  mtimes : ∀ m ∈ ms, ∀ t, m.mtime = .val t → t < 256 ^ 8
  attrs : ∀ m ∈ ms, ∀ t, m.attr = .val t → t < 256 ^ 4
  namesSize : ((ms.map (·.name)).map (fun n => 2 * (n.flatMap unitsOf).length + 2)).sum + 1 < 2 ^ 64
  sizes : ∀ m ∈ ms, m.blocks.flatten.length < 2 ^ 64

theorem sum_map_one {α} (l : List α) (f : α → Nat) (h : ∀ x ∈ l, f x = 1) : (l.map f).sum = l.length := by
  induction l with
  | nil => rfl
  | cons x xs ih =>
    simp only [List.map_cons, List.sum_cons, List.length_cons]
    rw [h x (by simp), ih (fun y hy => h y (by simp [hy]))]; omega

theorem sessionFolder_tot {σ} (cfg : WConfig σ) (wfc : WFConfig cfg) (us : List Nat) :
    totIn (sessionFolder cfg us) = cfg.coders.length ∧ totOut (sessionFolder cfg us) = cfg.coders.length :=
  ⟨sum_map_one _ _ (fun c hc => (wfc.simple c hc).1), sum_map_one _ _ (fun c hc => (wfc.simple c hc).2)⟩

theorem sessionFolder_pairs {σ} (cfg : WConfig σ) (us : List Nat) :
    (sessionFolder cfg us).bindpairs = linearPairs cfg.coders.length := rfl

theorem sessionFolder_find_in {σ} (cfg : WConfig σ) (wfc : WFConfig cfg) (us : List Nat) :
    (List.range cfg.coders.length).find? (fun i => !((sessionFolder cfg us).bindpairs.any (fun p => p.1 = i))) = some 0 := by
  apply find_range_first _ _ 0 wfc.ncoders.1 (fun i hi => by omega)
  rw [sessionFolder_pairs, linearPairs_in]; simp

theorem sessionFolder_wf {σ} (cfg : WConfig σ) (wfc : WFConfig cfg) (us : List Nat)
    (hlen : us.length = cfg.coders.length) (hb : ∀ v ∈ us, v < 2 ^ 64) : WFFolder (sessionFolder cfg us) := by
  obtain ⟨hin, hout⟩ := sessionFolder_tot cfg wfc us
  have hk := wfc.ncoders
  refine ⟨hk, wfc.coders, by rw [hout]; exact hk.1, ?_, ?_, by rw [hin, hout]; omega, ?_, by rw [hout]; exact hlen, hb⟩
  · rw [hout, sessionFolder_pairs]; simp [linearPairs]
  · intro b hb'
    rw [sessionFolder_pairs] at hb'
    simp only [linearPairs, List.mem_map, List.mem_range] at hb'
    obtain ⟨i, hi, rfl⟩ := hb'
    rw [hin, hout]
    have : (32 : Nat) < 2 ^ 64 := by decide
    refine ⟨by omega, by omega, by omega, by omega⟩
  · have h1 : totIn (sessionFolder cfg us) - (totOut (sessionFolder cfg us) - 1) = 1 := by rw [hin, hout]; omega
    simp only [h1, if_true]
    rw [hin, sessionFolder_find_in cfg wfc us]; rfl

theorem sessionFolder_packedOf {σ} (cfg : WConfig σ) (wfc : WFConfig cfg) (us : List Nat) :
    packedOf (sessionFolder cfg us) = [0] := by
  obtain ⟨hin, hout⟩ := sessionFolder_tot cfg wfc us
  have hk := wfc.ncoders
  unfold packedOf
  have h1 : totIn (sessionFolder cfg us) - (totOut (sessionFolder cfg us) - 1) = 1 := by rw [hin, hout]; omega
  simp only [h1, if_true]
  rw [hin, sessionFolder_find_in cfg wfc us]

/-- the folder's unpack size as the format defines it (the output no bind pair consumes) is
    the LAST per-coder size -/
theorem sessionFolder_out {σ} (cfg : WConfig σ) (wfc : WFConfig cfg) (us : List Nat)
    (hlen : us.length = cfg.coders.length) :
    folderOut (toSFolder (sessionFolder cfg us)) = .ok (us.getD (cfg.coders.length - 1) 0) := by
  have hk := wfc.ncoders
  unfold folderOut
  have hf : (List.range (toSFolder (sessionFolder cfg us)).unpackSizes.length).find?
      (fun o => !((toSFolder (sessionFolder cfg us)).bindpairs.any (fun p => p.2 = o))) = some (cfg.coders.length - 1) := by
    show (List.range us.length).find? (fun o => !((linearPairs cfg.coders.length).any (fun p => p.2 = o))) = _
    rw [hlen]
    apply find_range_first _ _ _ (by omega)
    · intro i hi
      rw [linearPairs_out]; simp; omega
    · rw [linearPairs_out]; simp; omega
  rw [hf]
  rfl


/-! ### the session as a whole -/

def memberFile (m : WMember) : SFile :=
  { name := some m.name, emptyStream := m.emptystream, mtime := slotOpt m.mtime, attr := slotOpt m.attr }

/-- what an independent reader must recover: every member in call order under its name, with
    its flags, time and attribute word; every data member in folder 0 at the offset where the
    previous ones end, with the length and the CRC-32 of its bytes -/
def expectedMembers (ms : List WMember) : List SMember :=
  singleFolderMembers (ms.map memberFile) 0 ((dataMembers ms).map (fun m => m.blocks.flatten.length))
    ((dataMembers ms).map (fun m => some (crc32 m.blocks.flatten)))

theorem sessionCompress_facts {σ} (cfg : WConfig σ) (wfc : WFConfig cfg) (ms : List WMember) :
    (sessionCompress cfg ms).2 = (dataMembers ms).map (fun m => (m.blocks.flatten.length, crc32 m.blocks.flatten)) ∧
    headFed (sessionCompress cfg ms).1.chain = ((dataMembers ms).map (fun m => m.blocks.flatten.length)).sum ∧
    (sessionCompress cfg ms).1.packsize = (sessionCompress cfg ms).1.out.length ∧
    (sessionCompress cfg ms).1.digest = crc32 (sessionCompress cfg ms).1.out ∧
    (sessionCompress cfg ms).1.chain ≠ [] := by
  have h := compressor_accounting cfg.chain wfc.chainNe wfc.fresh ((dataMembers ms).map (·.blocks))
  simp only [List.map_map, Function.comp_def] at h
  obtain ⟨h1, h2, h3, h4, h5⟩ := h
  refine ⟨h1, h2, h3, h4, ?_⟩
  intro h0
  have : (sessionCompress cfg ms).1.chain.length = cfg.chain.length := h5
  rw [h0] at this
  exact wfc.chainNe (List.eq_nil_of_length_eq_zero this.symm)

theorem headFed_getElem {σ} (ch : List (StageSt σ)) (h : ch ≠ []) : (ch.map (·.fed))[0]? = some (headFed ch) := by
  cases ch with
  | nil => exact absurd rfl h
  | cons c cs => rfl

theorem take_all_sum (l : List Nat) : (l.take l.length).sum = l.sum := by rw [List.take_length]

/-- **A whole create session conforms.**  For EVERY list of write calls (any names over all
    Unicode scalar values, directories and data members in any order, every member's bytes
    delivered in any blocks), EVERY chain of codec stages (any state, any compress/flush
    functions) and any coder records, the archive file the session leaves — signature header,
    packed area, raw header — is accepted by the strict archive reader (magic, start-header CRC,
    header located by offset and size ending exactly at the end of the file, header CRC, every
    count/size/END check of the header database); the packed sizes tile the data area exactly;
    and the format's assignment gives back exactly the members written, in order, each data
    member with the length and CRC-32 of its bytes at the offset where its predecessors end. -/
theorem session_archive_conforms {σ} (cfg : WConfig σ) (ms : List WMember) (img : Bytes)
    (wfc : WFConfig cfg) (wfm : WFMembers ms)
    (hout : (sessionCompress cfg ms).1.out.length < 2 ^ 64)
    (hus : ∀ us, unpacksizesOf cfg.methodsMap ((sessionCompress cfg ms).1.chain.map (·.fed)) = some us → ∀ v ∈ us, v < 2 ^ 64)
    (hhl : ∀ H hdr, sessionHeader cfg ms = some H →
      writeHeaderRaw true H (32 + (sessionCompress cfg ms).1.out.length) = some hdr → hdr.length < 2 ^ 64)
    (h : sessionArchive cfg ms = some img) :
    ∃ H st, readArchive img = .ok { top := .raw H, dataArea := (sessionCompress cfg ms).1.out } ∧
      H.streams = some st ∧ tilesExactly st (sessionCompress cfg ms).1.out = true ∧
      members H = .ok (expectedMembers ms) := by
  obtain ⟨f1, f2, f3, f4, f5⟩ := sessionCompress_facts cfg wfc ms
  unfold sessionArchive at h
  cases hH : sessionHeader cfg ms with
  | none => simp [hH] at h
  | some H0 =>
    cases hW : writeHeaderRaw true H0 (32 + (sessionCompress cfg ms).1.out.length) with
    | none => simp [hH, hW] at h
    | some hdr =>
      simp only [hH, hW, bind, Option.bind, pure, Option.some.injEq] at h
      subst h
      have hhdr := hhl H0 hdr hH hW
      rw [readArchive_assembled _ _ hout hhdr]
      -- the header object
      unfold sessionHeader at hH
      simp only at hH
      cases hU : unpacksizesOf cfg.methodsMap ((sessionCompress cfg ms).1.chain.map (·.fed)) with
      | none => simp [hU] at hH
      | some us =>
        simp only [hU, Option.some.injEq] at hH
        have husb := hus us hU
        -- the per-coder sizes
        obtain ⟨m0, mrest, hmm⟩ : ∃ m0 mrest, cfg.methodsMap = m0 :: mrest := by
          cases hm : cfg.methodsMap with
          | nil => have := wfc.mapLen; rw [hm] at this; have := wfc.ncoders.1; simp at *; omega
          | cons a b => exact ⟨a, b, rfl⟩
        rw [hmm] at hU
        obtain ⟨u1, u2⟩ := unpacksizesOf_spec m0 mrest _ us hU
        have huslen : us.length = cfg.coders.length := by
          rw [u2, ← wfc.mapLen, hmm]; simp
        have huslast : us.getD (cfg.coders.length - 1) 0 = ((dataMembers ms).map (fun m => m.blocks.flatten.length)).sum := by
          rw [headFed_getElem _ f5, f2, List.getLast?_eq_getElem?, huslen] at u1
          simp [List.getD, u1]
        -- assemble the well-formedness record
        let p : PackInfo := { packpos := 0, numstreams := 1, packsizes := [(sessionCompress cfg ms).1.packsize],
                              digestdefined := if cfg.enableDigests then [true] else [],
                              crcs := if cfg.enableDigests then [(sessionCompress cfg ms).1.digest] else [],
                              enableDigests := cfg.enableDigests }
        let ss : SubStreams := { numUnpack := [(sessionCompress cfg ms).2.length],
                                 unpacksizes := some ((sessionCompress cfg ms).2.map (·.1)),
                                 digestsdefined := (sessionCompress cfg ms).2.map (fun _ => true),
                                 digests := (sessionCompress cfg ms).2.map (·.2) }
        let sizes := (sessionCompress cfg ms).2.map (·.1)
        let s : Streams := { packinfo := some p, folders := some [sessionFolder cfg us], substreams := some ss }
        have hsizes : sizes = (dataMembers ms).map (fun m => m.blocks.flatten.length) := by
          show (sessionCompress cfg ms).2.map (·.1) = _
          rw [f1]; simp [Function.comp_def]
        have wf : WFStreams s p [sessionFolder cfg us] ss sizes := by
          refine ⟨rfl, rfl, rfl, ⟨by show (0:Nat) < 2 ^ 64; decide, by show (1:Nat) < 2 ^ 64; decide, ?_, ?_, ?_⟩, by show (1:Nat) < 2 ^ 64; decide, by simp, ?_, ?_, by simp [ss], ?_, rfl, ?_, ?_, by simp [ss], by simp [ss], ?_⟩
          · intro v hv; simp only [p, List.mem_singleton] at hv; rw [hv, f3]; exact hout
          · intro he
            cases hed : cfg.enableDigests <;> simp [p, hed] at he ⊢
          · intro c hc
            cases hed : cfg.enableDigests <;> simp [p, hed] at hc
            rw [hc, f4]; exact crc32Update_lt 0 _
          · intro f hf; simp only [List.mem_singleton] at hf; rw [hf]
            exact sessionFolder_wf cfg wfc us huslen husb
          · simp [sessionFolder_packedOf cfg wfc us, p]
          · intro n hn; simp only [ss, List.mem_singleton] at hn
            rw [hn, f1, List.length_map]
            have : (dataMembers ms).length ≤ ms.length := List.length_filter_le _ _
            have := wfm.count
            have : (2 : Nat) ^ 32 < 2 ^ 64 := by decide
            omega
          · -- the sub-stream sizes tile the folder's output
            show SizesOK [(sessionCompress cfg ms).2.length] [toSFolder (sessionFolder cfg us)] sizes
            have hl : sizes.length = (sessionCompress cfg ms).2.length := by simp [sizes]
            refine ⟨by omega, Or.inr ?_, ?_⟩
            · rw [sessionFolder_out cfg wfc us huslen, huslast, ← hl, take_all_sum, hsizes]
            · show sizes.drop _ = []
              rw [← hl]; simp
          · intro v hv
            rw [hsizes] at hv
            simp only [List.mem_map] at hv
            obtain ⟨m, hm, rfl⟩ := hv
            exact wfm.sizes m (List.mem_filter.mp hm).1
          · intro c hc
            simp only [ss, f1, List.map_map, List.mem_map, Function.comp] at hc
            obtain ⟨m, _, rfl⟩ := hc
            exact crc32Update_lt 0 _
        have wff : WFFiles (sessionFiles ms) := by
          refine ⟨?_, ?_, by simpa [sessionFiles] using wfm.count, ?_, ?_, ?_, ?_⟩
          · intro e he; simp only [sessionFiles, List.mem_map] at he; obtain ⟨m, _, rfl⟩ := he; rfl
          · intro e he c hc; simp only [sessionFiles, List.mem_map] at he; obtain ⟨m, hm, rfl⟩ := he
            exact wfm.scalar m hm c (by simpa [nameOf] using hc)
          · intro e he t ht; simp only [sessionFiles, List.mem_map] at he; obtain ⟨m, hm, rfl⟩ := he
            exact wfm.mtimes m hm t ht
          · intro e he t ht; simp only [sessionFiles, List.mem_map] at he; obtain ⟨m, hm, rfl⟩ := he
            exact wfm.attrs m hm t ht
          · have := wfm.namesSize
            simpa [sessionFiles, nameOf, Function.comp_def] using this
          · intro he; simpa [sessionFiles, Function.comp_def] using he
        have hs : H0.mainStreams = some s := by rw [← hH]
        have hfi : H0.filesInfo = some (sessionFiles ms) := by rw [← hH]
        have hread := header_strict_read H0 s p [sessionFolder cfg us] ss sizes (sessionFiles ms) hs hfi wf wff _ hdr hW
        rw [hread]
        refine ⟨_, _, rfl, rfl, ?_, ?_⟩
        · -- tiling
          simp [tilesExactly, expectedStreams, expectedPack, p, f3]
        · -- members
          show assign ((sessionFiles ms).files.map toSFile) [(sessionCompress cfg ms).2.length] sizes (expectedSubCrcs ss) = _
          unfold assign
          have hfiles : (sessionFiles ms).files.map toSFile = ms.map memberFile := by
            simp [sessionFiles, toSFile, memberFile, Function.comp_def]
          have hcrcs : expectedSubCrcs ss = (dataMembers ms).map (fun m => some (crc32 m.blocks.flatten)) := by
            simp only [expectedSubCrcs, ss, f1, List.map_map]
            rw [List.zip_map', List.map_map]
            simp [Function.comp_def]
          rw [hfiles, hcrcs, hsizes]
          have hcount : ((ms.map memberFile).filter (fun f => !f.emptyStream)).length =
              ((dataMembers ms).map (fun m => m.blocks.flatten.length)).length := by
            simp only [List.filter_map, List.length_map, dataMembers]
            rfl
          rw [assignGo_single (ms.map memberFile) _ 0 0 (sessionCompress cfg ms).2.length _ _ (by simp; omega) (by simp) hcount
            (by rw [f1]; simp)]
          rfl


/-! ### from the assignment back to the bytes -/

/-- cut the member's bytes out of the folder's decoded output -/
def sliceOf (D : Bytes) (m : SMember) : Option Bytes :=
  m.stream.map (fun x => (D.drop x.2.1).take x.2.2.1)

/-- the (offset, size) pairs the format assigns in a single folder cut the concatenation of the
    members' bytes back into exactly the members' bytes, in order -/
theorem slices_recover : ∀ (files : List SFile) (datas : List Bytes) (pre : Bytes) (crcs : List (Option Nat)),
    (files.filter (fun f => !f.emptyStream)).length = datas.length → crcs.length = datas.length →
    (singleFolderMembers files pre.length (datas.map List.length) crcs).filterMap (sliceOf (pre ++ datas.flatten)) = datas := by
  intro files
  induction files with
  | nil =>
    intro datas pre crcs h _
    have : datas = [] := List.eq_nil_of_length_eq_zero (by simpa using h.symm)
    subst this; rfl
  | cons f fs ih =>
    intro datas pre crcs h hc
    unfold singleFolderMembers
    by_cases he : f.emptyStream = true
    · simp only [he, if_true, List.filterMap_cons, sliceOf, Option.map_none]
      exact ih datas pre crcs (by simpa [List.filter_cons, he] using h) hc
    · have he' : f.emptyStream = false := by simpa using he
      simp only [he', Bool.false_eq_true, if_false]
      cases datas with
      | nil => simp [List.filter_cons, he'] at h
      | cons d ds =>
        cases crcs with
        | nil => simp at hc
        | cons c cs =>
          simp only [List.map_cons, List.filterMap_cons, sliceOf, Option.map_some, List.flatten_cons]
          have h1 : ((pre ++ (d ++ ds.flatten)).drop pre.length).take d.length = d := by
            rw [List.drop_left' rfl, List.take_left' rfl]
          rw [h1]
          have := ih ds (pre ++ d) cs (by simpa [List.filter_cons, he'] using h) (by simpa using hc)
          simp only [List.length_append, List.append_assoc] at this
          rw [this]


theorem singleFolder_files : ∀ (files : List SFile) (off : Nat) (sizes : List Nat) (crcs : List (Option Nat)),
    (files.filter (fun f => !f.emptyStream)).length = sizes.length → sizes.length = crcs.length →
    (singleFolderMembers files off sizes crcs).map (·.file) = files := by
  intro files
  induction files with
  | nil => intro _ _ _ _ _; rfl
  | cons f fs ih =>
    intro off sizes crcs h hc
    unfold singleFolderMembers
    by_cases he : f.emptyStream = true
    · simp only [he, if_true, List.map_cons]
      rw [ih off sizes crcs (by simpa [List.filter_cons, he] using h) hc]
    · have he' : f.emptyStream = false := by simpa using he
      simp only [he', Bool.false_eq_true, if_false]
      cases sizes with
      | nil => simp [List.filter_cons, he'] at h
      | cons s ss =>
        cases crcs with
        | nil => simp at hc
        | cons c cs =>
          simp only [List.map_cons]
          rw [ih (off + s) ss cs (by simpa [List.filter_cons, he'] using h) (by simpa using hc)]

/-- what the members recovered from a session's archive say about names and bytes: the names
    are the written names in call order, and the (offset, size) pairs cut the concatenation of
    the data members' bytes — the folder's decoded output when the codec chain inverts — back
    into exactly each member's bytes -/
theorem expectedMembers_roundtrip (ms : List WMember) :
    (expectedMembers ms).map (·.file.name) = ms.map (fun m => some m.name) ∧
    (expectedMembers ms).filterMap (sliceOf (((dataMembers ms).map (fun m => m.blocks.flatten)).flatten)) =
      (dataMembers ms).map (fun m => m.blocks.flatten) := by
  have hcount : ((ms.map memberFile).filter (fun f => !f.emptyStream)).length = (dataMembers ms).length := by
    simp only [List.filter_map, List.length_map, dataMembers]; rfl
  constructor
  · have := singleFolder_files (ms.map memberFile) 0 ((dataMembers ms).map (fun m => m.blocks.flatten.length))
      ((dataMembers ms).map (fun m => some (crc32 m.blocks.flatten))) (by simpa using hcount) (by simp)
    unfold expectedMembers
    have h2 : (singleFolderMembers (ms.map memberFile) 0 ((dataMembers ms).map (fun m => m.blocks.flatten.length))
        ((dataMembers ms).map (fun m => some (crc32 m.blocks.flatten)))).map (·.file.name) =
        ((singleFolderMembers (ms.map memberFile) 0 ((dataMembers ms).map (fun m => m.blocks.flatten.length))
        ((dataMembers ms).map (fun m => some (crc32 m.blocks.flatten)))).map (·.file)).map (·.name) := by
      simp [Function.comp_def]
    rw [h2, this]; simp [memberFile, Function.comp_def]
  · have := slices_recover (ms.map memberFile) ((dataMembers ms).map (fun m => m.blocks.flatten)) []
      ((dataMembers ms).map (fun m => some (crc32 m.blocks.flatten))) (by simpa using hcount) (by simp)
    simp only [List.map_map, List.length_nil, List.nil_append, Function.comp_def] at this
    exact this


/-- the format's assignment for the member records, counts, sizes and digests of a session -/
theorem spec_assign_session (ms : List WMember) :
    assign (ms.map memberFile) [(dataMembers ms).length] ((dataMembers ms).map (fun m => m.blocks.flatten.length))
      ((dataMembers ms).map (fun m => some (crc32 m.blocks.flatten))) = .ok (expectedMembers ms) := by
  unfold assign
  have hcount : ((ms.map memberFile).filter (fun f => !f.emptyStream)).length =
      ((dataMembers ms).map (fun m => m.blocks.flatten.length)).length := by
    simp only [List.filter_map, List.length_map, dataMembers]
    rfl
  rw [assignGo_single (ms.map memberFile) _ 0 0 (dataMembers ms).length _ _ (by simp; omega) (by simp) hcount (by simp)]
  rfl

end SevenZ
