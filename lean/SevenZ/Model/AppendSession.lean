/-
Model of an append session (`SevenZipFile(..., "a")` … `close()`), py7zr.py:430-438, 707-757 and
archiveinfo.py:1057-1104: the existing archive is parsed by the reader model, `_prepare_append`
positions the file at the end of the packed streams, the first write call makes
`Header.initialize()` add a folder to the header object that was READ, the write calls and
`flush_archive` extend it as in a create session, and `close()` re-serialises the whole header
after the new packed data and rewrites the signature header.
-/
import SevenZ.Model.WriteSession
namespace SevenZ.Impl

/-- the signature header's fields (offset, size) and the next-header bytes of an archive image;
    `none` = the image would not open (short, or the header lies outside the file) -/
def locateHeader (img : Bytes) : Option (Nat × Bytes) :=
  if img.length < 32 then none
  else
    let ofs := ofLE ((img.drop 12).take 8)
    let size := ofLE ((img.drop 20).take 8)
    if 32 + ofs + size > img.length then none
    else some (ofs, (img.drop (32 + ofs)).take size)

/-- `subinfo.unpacksizes = [f.get_unpack_size() for f, n in zip(folders, nums) if n == 1]` -/
def implicitSizes : List Folder → List Nat → Option (List Nat)
  | [], _ => some []
  | _, [] => some []
  | f :: fs, n :: ns =>
    if n = 1 then
      match folderUnpackSize f, implicitSizes fs ns with
      | some u, some r => some (u :: r)
      | _, _ => none
    else implicitSizes fs ns

/-- the header object at `close()` of an append session with at least one write call, given the
    header that was read -/
def appendHeader {σ} (H : Header) (cfg : WConfig σ) (ms : List WMember) : Option Header :=
  let (c, res) := sessionCompress cfg ms
  match unpacksizesOf cfg.methodsMap (c.chain.map (·.fed)) with
  | none => none
  | some us =>
    let oldFiles := match H.filesInfo with | some fi => fi | none => {}
    let newFiles : FilesInfo :=
      { files := oldFiles.files ++ (sessionFiles ms).files, emptyfiles := oldFiles.emptyfiles ++ (sessionFiles ms).emptyfiles }
    match H.mainStreams with
    | none =>
      -- an archive without data streams so far: a fresh StreamsInfo, the member records are kept
      (sessionHeader cfg ms).map (fun h => { h with filesInfo := some newFiles })
    | some st =>
      match st.packinfo, st.folders, st.substreams with
      | some p, some fs, some sub =>
        let sizes0 : Option (List Nat) := match sub.unpacksizes with
          | some l => some l
          | none => implicitSizes fs sub.numUnpack
        match sizes0 with
        | none => none
        | some sz =>
          some { mainStreams := some {
                   packinfo := some { p with numstreams := p.numstreams + 1, packsizes := p.packsizes ++ [c.packsize],
                                             crcs := if p.enableDigests then p.crcs ++ [c.digest] else p.crcs,
                                             digestdefined := if p.enableDigests then p.digestdefined ++ [true] else p.digestdefined },
                   folders := some (fs ++ [sessionFolder cfg us]),
                   substreams := some { numUnpack := sub.numUnpack ++ [res.length],
                                        unpacksizes := some (sz ++ res.map (·.1)),
                                        digestsdefined := sub.digestsdefined ++ res.map (fun _ => true),
                                        digests := sub.digests ++ res.map (·.2) } },
                 filesInfo := some newFiles }
      | _, _, _ => none

/-- the header object `_real_get_contents` leaves in memory (raw next header only) -/
def headerOfImage (base : Bytes) : Option Header := do
  let (_, hdr0) ← locateHeader base
  match readNextHeader hdr0 with
  | .ok (.raw h) => some h
  | .ok .empty => some {}
  | _ => none

/-- `_prepare_append`: the end of the packed streams -/
def appendPos (H : Header) : Nat :=
  match H.mainStreams with
  | some st => (match st.packinfo with
    | some p => 32 + p.packpos + p.packsizes.sum
    | none => 32)
  | none => 32

/-- the file after the new packed data, the header and the signature header have been written:
    nothing truncates it, what lay beyond the new end stays -/
def assembleAppend (base : Bytes) (pos : Nat) (out hdr : Bytes) : Bytes :=
  let body := (base.take pos ++ List.replicate (pos - base.length) 0) ++ out ++ hdr
  sigHeaderBytes (pos + out.length - 32) hdr.length (crc32 hdr) ++ body.drop 32 ++ base.drop body.length

/-- the archive file after an append session (raw header mode) on the image `base` -/
def appendArchive {σ} (base : Bytes) (cfg : WConfig σ) (ms : List WMember) : Option Bytes := do
  let H ← headerOfImage base
  let (H', out) ← (if ms.isEmpty then some (H, ([] : Bytes)) else
    (appendHeader H cfg ms).map (fun h => (h, (sessionCompress cfg ms).1.out)))
  let hdr ← writeHeaderRaw true H' (appendPos H + out.length)
  pure (assembleAppend base (appendPos H) out hdr)

end SevenZ.Impl
