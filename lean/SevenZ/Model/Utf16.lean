/-
Model of py7zr/archiveinfo.py:41,207-222 (`read_utf16`, `write_utf16`, MAX_LENGTH) and of
`FilesInfo._read_name`'s backslash rewrite (archiveinfo.py:768-770).
A name is a list of Unicode scalar values.
-/
import SevenZ.Model.Number
namespace SevenZ

def maxLength : Nat := 65536

/-- a Unicode scalar value that can occur inside a stored name (NUL excluded) -/
def IsScalar (c : Nat) : Prop := 0 < c ∧ c < 0x110000 ∧ ¬ (0xD800 ≤ c ∧ c < 0xE000)

instance (c : Nat) : Decidable (IsScalar c) := by unfold IsScalar; exact inferInstance

/-- UTF-16 code units of one scalar value -/
def unitsOf (c : Nat) : List Nat :=
  if c < 0x10000 then [c]
  else [0xD800 + (c - 0x10000) / 1024, 0xDC00 + (c - 0x10000) % 1024]

/-- little-endian bytes of a list of 16-bit units -/
def unitsToBytes : List Nat → Bytes
  | [] => []
  | u :: us => (u % 256) :: (u / 256) :: unitsToBytes us

/-- strict UTF-16 decoding of code units (`bytes.decode("utf-16LE")`): lone or
    reversed surrogates are errors -/
def decodeUnits : List Nat → Option (List Nat)
  | [] => some []
  | u :: rest =>
    if 0xD800 ≤ u ∧ u < 0xDC00 then
      match rest with
      | [] => none
      | l :: rest' =>
        if 0xDC00 ≤ l ∧ l < 0xE000 then
          (decodeUnits rest').map (fun cs => (0x10000 + (u - 0xD800) * 1024 + (l - 0xDC00)) :: cs)
        else none
    else if 0xDC00 ≤ u ∧ u < 0xE000 then none
    else (decodeUnits rest).map (fun cs => u :: cs)

namespace Impl

/-- `write_utf16`: each character encoded on its own, then a 16-bit NUL -/
def writeUtf16 (name : List Nat) : Bytes :=
  unitsToBytes (name.flatMap unitsOf) ++ [0, 0]

/-- the unit loop of `read_utf16`: at most `fuel` reads of two bytes, stopping at `00 00`.
    A read at end of input returns `b""` (not the terminator) and the loop goes on;
    a final odd byte is kept and makes the decode fail. Returns units read, whether an
    odd byte was left dangling, and the rest of the input. -/
def readUnits : Nat → Bytes → List Nat × Bool × Bytes
  | 0, bs => ([], false, bs)
  | _ + 1, [] => ([], false, [])
  | _ + 1, [_] => ([], true, [])
  | fuel + 1, lo :: hi :: rest =>
    if lo = 0 ∧ hi = 0 then ([], false, rest)
    else
      let (us, odd, r) := readUnits fuel rest
      ((lo + 256 * hi) :: us, odd, r)

/-- `read_utf16` (archiveinfo.py:207-215); `none` = UnicodeDecodeError -/
def readUtf16 (bs : Bytes) : Option (List Nat × Bytes) :=
  let (us, odd, rest) := readUnits maxLength bs
  if odd then none
  else (decodeUnits us).map (fun cs => (cs, rest))

/-- `_read_name`: backslashes become slashes -/
def fixSlash (name : List Nat) : List Nat := name.map (fun c => if c = 0x5C then 0x2F else c)

end Impl
end SevenZ
