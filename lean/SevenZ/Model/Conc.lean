/-
Model of the parallel extraction path (py7zr.py:1307-1370): one worker per folder, each a
list of atomic steps; the schedule is any interleaving of the workers' step lists.
-/
namespace SevenZ

/-- a worker's atomic step: deliver a chunk to one of its outputs, or raise -/
inductive CStep where
  | write (out : Nat) (chunk : List Nat)
  | raise (e : Nat)
  deriving DecidableEq, Repr

/-- `l` is an interleaving of `a` and `b` -/
inductive Shuffle {α : Type} : List α → List α → List α → Prop where
  | nil : Shuffle [] [] []
  | left (x : α) {a b l : List α} : Shuffle a b l → Shuffle (x :: a) b (x :: l)
  | right (y : α) {a b l : List α} : Shuffle a b l → Shuffle a (y :: b) (y :: l)

/-- `l` is an interleaving of all the lists in `ws` -/
inductive Interleave {α : Type} : List (List α) → List α → Prop where
  | nil : Interleave [] []
  | cons {w : List α} {ws : List (List α)} {rest l : List α} :
      Interleave ws rest → Shuffle w rest l → Interleave (w :: ws) l

namespace Impl

/-- what has been written to output `out` after executing the steps in order -/
def written (steps : List CStep) (out : Nat) : List Nat :=
  steps.flatMap (fun s => match s with
    | .write o c => if o = out then c else []
    | .raise _ => [])

def outputsOf (w : List CStep) : List Nat :=
  w.filterMap (fun s => match s with | .write o _ => some o | .raise _ => none)

def raisedIn (steps : List CStep) : List Nat :=
  steps.filterMap (fun s => match s with | .raise e => some e | .write _ _ => none)

/-- the least element of a list of error ids (the folder numbers), `none` for the empty list -/
def leastOf : List Nat → Option Nat
  | [] => none
  | e :: es => match leastOf es with
    | none => some e
    | some m => some (min e m)

/-- `Worker.extract`, parallel branch, after all joins: every queued error carries its folder's position and the
    one of the FIRST folder in archive order is re-raised, whichever worker failed first (error ids are folder
    numbers); a queue that is *not* shared with the workers (the pinned process mode) is always empty in the parent.
    `afterJoinPinned` is the rule before the repair 07e0074: the first error to reach the queue. -/
def afterJoin (shared : Bool) (schedule : List CStep) : Option Nat :=
  if shared then leastOf (raisedIn schedule) else none

def afterJoinPinned (shared : Bool) (schedule : List CStep) : Option Nat :=
  if shared then (raisedIn schedule).head? else none

/-- executable scheduler: `sched` names, step by step, the worker that moves next; a worker
    that has nothing left (or an index that names nobody) is skipped -/
def runSchedule {α : Type} (ws : List (List α)) : List Nat → List α
  | [] => []
  | i :: rest =>
    match ws[i]? with
    | some (s :: w') => s :: runSchedule (ws.set i w') rest
    | _ => runSchedule ws rest

/-- what is left of every worker after the schedule -/
def remaining {α : Type} (ws : List (List α)) : List Nat → List (List α)
  | [] => ws
  | i :: rest =>
    match ws[i]? with
    | some (_ :: w') => remaining (ws.set i w') rest
    | _ => remaining ws rest

/-- a worker stops at its first `raise` (the exception leaves `_extract_single`) -/
def truncateAtRaise : List CStep → List CStep
  | [] => []
  | .raise e :: _ => [.raise e]
  | s :: rest => s :: truncateAtRaise rest

/-- sequential path: folders in order, stop at the first exception -/
def runSequential : List (List CStep) → List CStep
  | [] => []
  | w :: ws => if (raisedIn (truncateAtRaise w)).isEmpty then truncateAtRaise w ++ runSequential ws else truncateAtRaise w

end Impl
end SevenZ
