/-
Model of what a crash leaves on disk (C14): the archive file as the result of a prefix of the
session's seek/write operations, and the reader's first two gates (archiveinfo.py:1109-1122,
1148-1156; py7zr.py:430-438).
-/
import SevenZ.Model.Crc32
namespace SevenZ.Impl

/-- one positioned write -/
structure WriteOp where
  offset : Nat
  data : Bytes
  deriving DecidableEq, Repr

/-- overwrite `img` at `off` with `d`, extending with zeros if the write starts past the end -/
def applyWrite (img : Bytes) (w : WriteOp) : Bytes :=
  let padded := img ++ List.replicate (w.offset - img.length) 0
  padded.take w.offset ++ w.data ++ padded.drop (w.offset + w.data.length)

def applyAll (img : Bytes) (ops : List WriteOp) : Bytes := ops.foldl applyWrite img

/-- the crash image after `n` complete operations and `k` bytes of the next one -/
def crashImage (base : Bytes) (ops : List WriteOp) (n k : Nat) : Bytes :=
  let done := applyAll base (ops.take n)
  match ops[n]? with
  | none => done
  | some w => applyWrite done { w with data := w.data.take k }

def magic : Bytes := [0x37, 0x7A, 0xBC, 0xAF, 0x27, 0x1C]

/-- the placeholder `_write_skeleton` puts at offset 0: CRC field 1, offset 2, size 3, CRC 4 -/
def skeleton : Bytes := magic ++ [0, 4] ++ leBytes 1 4 ++ leBytes 2 8 ++ leBytes 3 8 ++ leBytes 4 4

/-- `SignatureHeader._read` after `_check_7zfile`: magic, then the start-header CRC over the 20 field bytes -/
def startHeaderOk (img : Bytes) : Bool :=
  img.take 6 == magic && img.length ≥ 32 &&
    crc32 ((img.drop 12).take 20) == ofLE ((img.drop 8).take 4)

end SevenZ.Impl
