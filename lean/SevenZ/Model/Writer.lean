/-
Model of the bookkeeping of a write session as far as failed calls are concerned
(py7zr.py:1078-1146 `write`/`_writef`, 1580-1593 `Worker.archive`, 1533-1544 `_after_write`):
members are registered first, then `Worker.archive` processes `files[current_file_index]`.
-/
namespace SevenZ.Impl

structure WEntry where
  name : Nat
  size : Nat
  crc : Nat
  emptystream : Bool := false
  sourceOk : Bool := true          -- can the source be opened and read to the end?
  deriving DecidableEq, Repr

structure WState where
  files : List WEntry := []        -- header.files_info.files / self.files
  curIdx : Nat := 0                -- worker.current_file_index
  sizes : List Nat := []           -- substreamsinfo.unpacksizes (this session)
  crcs : List Nat := []            -- substreamsinfo.digests
  initialized : Bool := false
  deriving DecidableEq, Repr

/-- `Worker.archive`: processes the member at `current_file_index`; `none` = the exception of
    a failing source (or IndexError) -/
def archiveStep (st : WState) : Option WState :=
  match st.files[st.curIdx]? with
  | none => none
  | some f =>
    if f.emptystream then some { st with curIdx := st.curIdx + 1 }
    else if !f.sourceOk then none
    else some { st with curIdx := st.curIdx + 1, sizes := st.sizes ++ [f.size], crcs := st.crcs ++ [f.crc] }

inductive CallKind where
  | argRejected            -- writestr/writef: check_archive_path fails, nothing touched
  | statFails              -- write(): _make_file_info raises after header.initialize()
  | proceed                -- the member is registered and archived
  deriving DecidableEq, Repr

/-- one write call; returns the new state and whether the call raised.
    `withdraw = true`: the repaired tree (a member that could not be archived is withdrawn);
    `false`: the pinned tree. -/
def writeCall (withdraw : Bool) (st : WState) (kind : CallKind) (f : WEntry) : WState × Bool :=
  match kind with
  | .argRejected => (st, true)
  | .statFails => ({ st with initialized := true }, true)
  | .proceed =>
    let st2 := { st with initialized := true, files := st.files ++ [f] }
    match archiveStep st2 with
    | some st3 => (st3, false)
    | none => (if withdraw then { st2 with files := st2.files.dropLast } else st2, true)

def runCalls (withdraw : Bool) : WState → List (CallKind × WEntry) → WState × List Bool
  | st, [] => (st, [])
  | st, (k, f) :: rest =>
    let r := writeCall withdraw st k f
    let r2 := runCalls withdraw r.1 rest
    (r2.1, r.2 :: r2.2)

/-- does a call succeed (on the repaired tree)? -/
def callOk (c : CallKind × WEntry) : Bool :=
  c.1 == .proceed && (c.2.emptystream || c.2.sourceOk)

/-- the header written at close is readable iff every registered data member has its size -/
def consistent (st : WState) : Bool :=
  (st.files.filter (fun f => !f.emptystream)).length == st.sizes.length && st.curIdx == st.files.length

end SevenZ.Impl
