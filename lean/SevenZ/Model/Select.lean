/-
Model of target handling in `extract()` / `_extract` (py7zr.py:559-572,1025-1040,
helpers.py:305-311): trailing-slash normalisation and the member filter, non-recursive
(exact name) and recursive (exact name or string prefix).
-/
import SevenZ.Model.Path
namespace SevenZ.Impl

/-- `remove_trailing_slash` -/
def removeTrailingSlash (s : Str) : Str := if s.getLast? = some '/' then s.dropLast else s

/-- is member `name` selected?  (`targets` as passed by the caller) -/
def selected (recursive : Bool) (targets : List Str) (name : Str) : Bool :=
  let ts := targets.map removeTrailingSlash
  if recursive then ts.contains name || ts.any (fun t => t.isPrefixOf name)
  else ts.contains name

end SevenZ.Impl
