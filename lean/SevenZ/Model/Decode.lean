/-
Model of the chunked decode path:
  `SevenZipDecompressor._read_data` / `decompress` with `_buf`/`_pos` (compressor.py:682-728)
  `Worker.decompress`'s `while out_remaining > 0` loop (py7zr.py:1486-1510)
  the encoded-header loop `while remaining > 0` (archiveinfo.py:950-954).
The coder chain (`_decompress`, every external codec) is a parameter: an arbitrary function
from (state, input bytes, max_length) to (state, output bytes).
-/
import SevenZ.Model.Number
namespace SevenZ

/-- the chain of decoders behind `_decompress`: any function at all -/
structure Chain (σ : Type) where
  dec : σ → Bytes → Nat → σ × Bytes

structure DecState (σ : Type) where
  chain : σ
  buf : Bytes := []        -- `_buf`
  pos : Nat := 0           -- `_pos`
  consumed : Nat := 0
  src : Bytes              -- what `fp.read` will still deliver (the file from the current offset)

structure DecCfg where
  inputSize : Nat          -- packsize of the folder
  blockSize : Nat

/-- the bytes of `_buf` not yet handed out -/
def DecState.live {σ} (st : DecState σ) : Bytes := st.buf.drop st.pos

namespace Impl

/-- `_read_data` (compressor.py:682-698); `_unused` is always empty in this code base -/
def readData {σ} (cfg : DecCfg) (st : DecState σ) : Bytes × DecState σ :=
  let readSize := min (cfg.inputSize - st.consumed) cfg.blockSize
  if readSize > 0 then
    let data := st.src.take readSize
    (data, { st with consumed := st.consumed + data.length, src := st.src.drop readSize })
  else ([], st)

/-- `SevenZipDecompressor.decompress(fp, max_length)` for `max_length ≥ 0`
    (compressor.py:707-728).  Returns (result, what the chain produced in this call, state). -/
def decompress {σ} (ch : Chain σ) (cfg : DecCfg) (st : DecState σ) (maxLen : Nat) :
    Bytes × Bytes × DecState σ :=
  if st.buf.length - st.pos ≥ maxLen then
    ((st.buf.drop st.pos).take maxLen, [], { st with pos := st.pos + maxLen })
  else
    let rd := readData cfg st
    let r := ch.dec rd.2.chain rd.1 maxLen
    if st.buf.length - st.pos + r.2.length ≤ maxLen then
      (rd.2.buf.drop rd.2.pos ++ r.2, r.2, { rd.2 with chain := r.1, buf := [], pos := 0 })
    else
      (rd.2.buf.drop rd.2.pos ++ r.2.take (maxLen - (st.buf.length - st.pos)), r.2,
       { rd.2 with chain := r.1, buf := r.2.drop (maxLen - (st.buf.length - st.pos)), pos := 0 })

inductive LoopResult (σ : Type) where
  | done (out : Bytes) (st : DecState σ)
  | stalled (out : Bytes)          -- the guard fired: DecompressionError
  | outOfFuel                       -- the model's iteration budget ran out: "still looping"

/-- `Worker.decompress`'s loop.  `stallLimit = none` is the loop of the pinned tree (no
    progress check); `some k` the repaired loop: more than `k` consecutive iterations that
    neither deliver output nor consume input raise. -/
def workerLoop {σ} (ch : Chain σ) (cfg : DecCfg) (maxBlock : Nat) (stallLimit : Option Nat) :
    Nat → DecState σ → Nat → Nat → Bytes → LoopResult σ
  | 0, _, _, _, _ => .outOfFuel
  | fuel + 1, st, outRemaining, stalled, acc =>
    if outRemaining = 0 then .done acc st
    else
      let r := decompress ch cfg st (min outRemaining maxBlock)
      let tmp := r.1
      let st' := r.2.2
      if tmp.length > 0 then
        workerLoop ch cfg maxBlock stallLimit fuel st' (outRemaining - tmp.length) 0 (acc ++ tmp)
      else if st'.consumed ≠ st.consumed then
        workerLoop ch cfg maxBlock stallLimit fuel st' outRemaining 0 acc
      else
        match stallLimit with
        | none => workerLoop ch cfg maxBlock stallLimit fuel st' outRemaining (stalled + 1) acc
        | some k =>
          if stalled + 1 > k then .stalled acc
          else workerLoop ch cfg maxBlock stallLimit fuel st' outRemaining (stalled + 1) acc

end Impl
end SevenZ
