/-
A finite file-system model with symbolic links, enough to state where an extraction step
physically lands (C03): directories and links are entries keyed by their *physical* absolute
path (a list of components); `realDir` follows links component by component like the kernel
(and `os.path.realpath`) does, with a fuel bound standing for ELOOP.
-/
import SevenZ.Model.Path
namespace SevenZ

abbrev Comps := List Str

inductive FKind where
  | dir
  | file
  | link (absolute : Bool) (target : Comps)      -- target components ('..' and '.' allowed)
  deriving DecidableEq, Repr

structure FSys where
  entries : List (Comps × FKind)
  deriving DecidableEq, Repr

def FSys.lookup (fs : FSys) (p : Comps) : Option FKind :=
  (fs.entries.find? (fun e => e.1 = p)).map (·.2)

/-- resolve the components `todo` starting in the physical directory `cur` -/
def realWalk (fs : FSys) : Nat → Comps → Comps → Option Comps
  | 0, _, _ => none
  | _ + 1, cur, [] => some cur
  | fuel + 1, cur, c :: rest =>
    if c = [] ∨ c = ['.'] then realWalk fs fuel cur rest
    else if c = ['.', '.'] then realWalk fs fuel cur.dropLast rest
    else
      match fs.lookup (cur ++ [c]) with
      | some (.link true t) => realWalk fs fuel [] (t ++ rest)
      | some (.link false t) => realWalk fs fuel cur (t ++ rest)
      | _ => realWalk fs fuel (cur ++ [c]) rest      -- directory, file or not yet existing

/-- physical location of an absolute lexical path, following every link (fuel 64) -/
def realPath (fs : FSys) (p : Comps) : Option Comps := realWalk fs 64 [] p

/-- where a mutation of the *entry* named by the last component lands: the parent is
    resolved, the last component is not followed (mkdir, symlink, unlink, rename) -/
def landParent (fs : FSys) (p : Comps) : Option Comps :=
  match p.reverse with
  | [] => some []
  | last :: revParent => (realPath fs revParent.reverse).map (· ++ [last])

/-- where an operation that follows a final link lands (open for writing, utime, chmod) -/
def landFollow (fs : FSys) (p : Comps) : Option Comps := realPath fs p

def inside (dest loc : Comps) : Bool := dest.isPrefixOf loc

namespace Impl

/-- one step of `_extract_single` on an already sanitised lexical output path -/
inductive XOp where
  | mkdirs (p : Comps)                          -- fileish.parent.mkdir(parents=True) / target_dir.mkdir
  | symlink (p : Comps) (absolute : Bool) (target : Comps)
  | writeFile (p : Comps)                       -- fileish.open('wb')
  deriving DecidableEq, Repr

/-- the physical locations a step mutates and the file system after it.
    `guard = some dest`: the repaired extraction refuses a step whose resolved location is not
    under the resolved destination (and never follows a final link when writing a file). -/
def xstep (guard : Option Comps) (fs : FSys) : XOp → Option (List Comps × FSys)
  | .mkdirs p =>
    match realPath fs p with
    | none => none
    | some loc =>
      if guard.any (fun d => !inside d loc) then none
      else some ([loc], if (fs.lookup loc).isSome then fs else { entries := fs.entries ++ [(loc, .dir)] })
  | .symlink p a t =>
    match landParent fs p with
    | none => none
    | some loc =>
      if guard.any (fun d => !inside d loc) then none
      else some ([loc], { entries := (fs.entries.filter (fun e => e.1 ≠ loc)) ++ [(loc, .link a t)] })
  | .writeFile p =>
    match (if guard.isSome then landParent fs p else landFollow fs p) with
    | none => none
    | some loc =>
      if guard.any (fun d => !inside d loc) then none
      else some ([loc], { entries := (fs.entries.filter (fun e => e.1 ≠ loc)) ++ [(loc, .file)] })

def xrun (guard : Option Comps) : FSys → List XOp → List Comps
  | _, [] => []
  | fs, op :: ops =>
    match xstep guard fs op with
    | none => []                                   -- the step is refused / fails: extraction stops
    | some (locs, fs') => locs ++ xrun guard fs' ops

end Impl
end SevenZ
