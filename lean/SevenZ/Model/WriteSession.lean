/-
Model of a whole create session (`SevenZipFile(..., "w")` … `close()`), py7zr.py:725-757,
1131-1218, 1650-1714 and archiveinfo.py:1057-1104, 1163-1175: what the write calls and
`close()` leave in the header object (`initialize`, `_after_write`, `flush_archive`), the raw
header `Header.write` serialises from it, and the archive file: signature header, packed
data, header.  The codec chain is a parameter (`Model/Compressor.lean`).
-/
import SevenZ.Model.Header
import SevenZ.Model.Compressor
namespace SevenZ.Impl

/-- one successful write call of the session -/
structure WMember where
  name : List Nat              -- stored name (code points)
  emptystream : Bool           -- a directory entry: no data
  blocks : List Bytes := []    -- the source as `fd.read(block_size)` delivers it
  mtime : Slot Nat := .absent
  attr : Slot Nat := .absent

/-- the folder the session writes into -/
structure WConfig (σ : Type) where
  coders : List Coder          -- `compressor.coders` (header order: last filter first)
  methodsMap : List Bool       -- `compressor.methods_map`
  chain : List (StageSt σ)     -- `compressor.chain` with its `_unpacksizes` counters
  enableDigests : Bool         -- `password is not None`

def dataMembers (ms : List WMember) : List WMember := ms.filter (fun m => !m.emptystream)

/-- the compressor after all members and `flush_archive`, with the per-member (size, crc) -/
def sessionCompress {σ} (cfg : WConfig σ) (ms : List WMember) : Cmp σ × List (Nat × Nat) :=
  let r := compressAll { chain := cfg.chain } ((dataMembers ms).map (·.blocks))
  ((flushCmp r.1).1, r.2)

def sessionFolder {σ} (cfg : WConfig σ) (us : List Nat) : Folder :=
  { coders := cfg.coders,
    bindpairs := (List.range (cfg.coders.length - 1)).map (fun i => (i + 1, i)),
    packedIndices := [], unpacksizes := us, digestdefined := false, crc := none }

def sessionFiles (ms : List WMember) : FilesInfo :=
  { files := ms.map (fun m => { emptystream := m.emptystream, filename := some m.name, mtime := m.mtime, attributes := m.attr }),
    emptyfiles := ms.map (·.emptystream) }

/-- the header object at `close()` after at least one write call -/
def sessionHeader {σ} (cfg : WConfig σ) (ms : List WMember) : Option Header :=
  let (c, res) := sessionCompress cfg ms
  match unpacksizesOf cfg.methodsMap (c.chain.map (·.fed)) with
  | none => none
  | some us =>
    some { mainStreams := some {
             packinfo := some { packpos := 0, numstreams := 1, packsizes := [c.packsize],
                                digestdefined := if cfg.enableDigests then [true] else [],
                                crcs := if cfg.enableDigests then [c.digest] else [],
                                enableDigests := cfg.enableDigests },
             folders := some [sessionFolder cfg us],
             substreams := some { numUnpack := [res.length], unpacksizes := some (res.map (·.1)),
                                  digestsdefined := res.map (fun _ => true), digests := res.map (·.2) } },
           filesInfo := some (sessionFiles ms) }

def magic7z : Bytes := [0x37, 0x7A, 0xBC, 0xAF, 0x27, 0x1C]

/-- `SignatureHeader.write` after `calccrc` -/
def sigHeaderBytes (ofs size crc : Nat) : Bytes :=
  let fields := leBytes ofs 8 ++ leBytes size 8 ++ leBytes crc 4
  magic7z ++ [0, 4] ++ leBytes (crc32 fields) 4 ++ fields

/-- the archive file after `close()` (raw header mode) -/
def sessionArchive {σ} (cfg : WConfig σ) (ms : List WMember) : Option Bytes := do
  let h ← sessionHeader cfg ms
  let c := (sessionCompress cfg ms).1
  let hdr ← writeHeaderRaw true h (32 + c.out.length)
  pure (sigHeaderBytes c.out.length hdr.length (crc32 hdr) ++ c.out ++ hdr)

end SevenZ.Impl
