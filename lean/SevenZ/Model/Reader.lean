/-
Model of a read session (py7zr.py:529-656,1011-1040,1166-1207,1273-1459): what each call
delivers as a function of the per-folder decoder cache it finds.

A folder's decoded output is an abstract byte stream; a delivery is described by the slice
`(folder, offset, size)` of that stream a member received.  The slice is *right* when the
offset is the sum of the sizes of the member's predecessors in the folder.
-/
namespace SevenZ

structure Member where
  id : Nat
  size : Nat
  deriving DecidableEq, Repr

/-- an archive as the reader sees it: folders of data members (empty-stream entries carry no
    decoder state and are left out) -/
structure RArchive where
  folders : List (List Member)
  deriving DecidableEq, Repr

/-- (member id, folder index, offset into the folder's output, length) -/
structure Slice where
  id : Nat
  folder : Nat
  offset : Nat
  size : Nat
  deriving DecidableEq, Repr

inductive Call where
  | getnames | list | getinfo | archiveinfo | needsPassword
  | test | testzip
  | extractall
  | extract (targets : List Nat)        -- member ids selected
  | reset
  deriving DecidableEq, Repr

inductive Res where
  | names                                -- a pure listing result (always the same)
  | verdictOk | verdictBad
  | delivered (slices : List Slice)
  | stall                                -- decoder exhausted: DecompressionError after the repair
  | unit
  deriving DecidableEq, Repr

/-- per folder: `none` = no cached decoder, `some k` = cached decoder has produced `k` bytes -/
abbrev Cache := List (Option Nat)

namespace Impl

def folderTotal (ms : List Member) : Nat := (ms.map (·.size)).sum

/-- decode the members of one folder in order starting from decoder position `p`;
    selected members are delivered, the others are decoded and discarded (`_check`);
    `none` = the decoder runs dry -/
def decodeFolder (fidx : Nat) (total : Nat) (sel : Nat → Bool) :
    List Member → Nat → Option (List Slice × Nat)
  | [], p => some ([], p)
  | m :: ms, p =>
    if p + m.size > total then none
    else match decodeFolder fidx total sel ms (p + m.size) with
      | none => none
      | some (ss, q) => some ((if sel m.id then [⟨m.id, fidx, p, m.size⟩] else []) ++ ss, q)

/-- members after the last selected one are not decoded when `skip_notarget` (extract), but
    are when checking everything (testzip) -/
def trimAfterLastSelected (sel : Nat → Bool) (ms : List Member) : List Member :=
  (ms.reverse.dropWhile (fun m => !sel m.id)).reverse

/-- `Worker.extract` over all folders with the cache found -/
def extractFolders (sel : Nat → Bool) (checkAll : Bool) :
    Nat → List (List Member) → Cache → Option (List Slice × Cache)
  | _, [], _ => some ([], [])
  | i, ms :: rest, cache =>
    let c := cache.headD none
    let ctail := cache.tail
    if !checkAll && !(ms.any (fun m => sel m.id)) then
      -- folder without a selected member: skipped, its cache untouched
      match extractFolders sel checkAll (i + 1) rest ctail with
      | none => none
      | some (ss, cs) => some (ss, c :: cs)
    else
      let todo := if checkAll then ms else trimAfterLastSelected sel ms
      match decodeFolder i (folderTotal ms) sel todo (c.getD 0) with
      | none => none
      | some (ss, q) =>
        match extractFolders sel checkAll (i + 1) rest ctail with
        | none => none
        | some (ss', cs) => some (ss ++ ss', some q :: cs)

def freshCache (a : RArchive) : Cache := a.folders.map (fun _ => none)

/-- one call.  `selfReset` = `test()`/`testzip()` start from fresh decoders (the repaired
    tree); `false` = the pinned tree, where they reuse whatever is cached. -/
def step (selfReset : Bool) (a : RArchive) (cache : Cache) : Call → Cache × Res
  | .getnames | .list | .getinfo | .archiveinfo | .needsPassword => (cache, .names)
  | .reset => (freshCache a, .unit)
  | .test => (if selfReset then freshCache a else cache, .verdictOk)
  | .testzip =>
    let c0 := if selfReset then freshCache a else cache
    match extractFolders (fun _ => false) true 0 a.folders c0 with
    | none => (c0, .stall)
    | some (_, c') => (c', .verdictOk)
  | .extractall =>
    match extractFolders (fun _ => true) false 0 a.folders cache with
    | none => (cache, .stall)
    | some (ss, c') => (c', .delivered ss)
  | .extract ts =>
    match extractFolders (fun i => ts.contains i) false 0 a.folders cache with
    | none => (cache, .stall)
    | some (ss, c') => (c', .delivered ss)

def runSession (selfReset : Bool) (a : RArchive) : Cache → List Call → List Res
  | _, [] => []
  | c, call :: rest =>
    let r := step selfReset a c call
    r.2 :: runSession selfReset a r.1 rest

/-- the same call on a freshly opened archive -/
def freshResult (a : RArchive) (call : Call) : Res := (step true a (freshCache a) call).2

def isDecoding : Call → Bool
  | .extractall | .extract _ | .testzip => true
  | _ => false

/-- the discipline of the quantifier: every extract/extractall that follows an earlier decoding
    call is preceded by `reset()`; test/testzip may appear anywhere.  `dirty` = a decoding
    call happened since the last reset. -/
def disciplined : Bool → List Call → Bool
  | _, [] => true
  | dirty, c :: rest =>
    match c with
    | .reset => disciplined false rest
    | .extractall | .extract _ => !dirty && disciplined true rest
    | .testzip => disciplined true rest
    | _ => disciplined dirty rest

end Impl
end SevenZ
