/-
Model of the summary logic of py7zr.py:943-1009 and compressor.py:1163-1232:
`needs_password`, `_is_solid`, `get_methods_names`, totals of `archiveinfo()`.
-/
import SevenZ.Model.Number
namespace SevenZ.Impl

/-- `SupportedMethods.methods`: method id → display name (plus the two "unsupported" names) -/
def methodTable : List (Bytes × String) :=
  [([0x00], "COPY"), ([0x21], "LZMA2"), ([0x03], "DELTA"), ([0x03, 0x01, 0x01], "LZMA"),
   ([0x03, 0x03, 0x01, 0x03], "BCJ"), ([0x03, 0x03, 0x02, 0x05], "PPC"), ([0x03, 0x03, 0x04, 0x01], "IA64"),
   ([0x03, 0x03, 0x05, 0x01], "ARM"), ([0x03, 0x03, 0x07, 0x01], "ARMT"), ([0x03, 0x03, 0x08, 0x05], "SPARC"),
   ([0x04, 0x01, 0x08], "DEFLATE"), ([0x04, 0x02, 0x02], "BZip2"), ([0x04, 0xF7, 0x11, 0x01], "ZStandard"),
   ([0x03, 0x04, 0x01], "PPMd"), ([0x04, 0xF7, 0x11, 0x02], "Brotli"), ([0x04, 0x01, 0x09], "DEFLATE64"),
   ([0x06, 0xF1, 0x07, 0x01], "7zAES"), ([0x03, 0x03, 0x01, 0x1B], "BCJ2*"), ([0x04, 0xF7, 0x11, 0x04], "LZ4*")]

/-- display priority (after the repair: "DELTA" spelled as in the table, "Brotli" present) -/
def methodsNamelist : List String :=
  ["LZMA2", "LZMA", "BZip2", "DEFLATE", "DEFLATE64", "DELTA", "COPY", "PPMd", "ZStandard", "Brotli", "LZ4*", "BCJ2*",
   "BCJ", "ARM", "ARMT", "IA64", "PPC", "SPARC", "7zAES"]

/-- the list as pinned: 'delta' in lower case, no 'Brotli' -/
def methodsNamelistPinned : List String :=
  ["LZMA2", "LZMA", "BZip2", "DEFLATE", "DEFLATE64", "delta", "COPY", "PPMd", "ZStandard", "LZ4*", "BCJ2*",
   "BCJ", "ARM", "ARMT", "IA64", "PPC", "SPARC", "7zAES"]

def methodName (id : Bytes) : Option String := (methodTable.find? (fun e => e.1 = id)).map (·.2)

/-- `get_methods_names(coders_lists)` -/
def getMethodsNames (namelist : List String) (folders : List (List Bytes)) : List String :=
  let names := folders.flatten.filterMap methodName
  namelist.filter (fun x => names.contains x)

def aesId : Bytes := [0x06, 0xF1, 0x07, 0x01]

/-- `password_protected` after `_real_get_contents` -/
def needsPassword (passwordGiven : Bool) (folders : List (List Bytes)) : Bool :=
  passwordGiven || folders.any (fun coders => coders.any (fun id => id = aesId))

/-- `_is_solid` -/
def isSolid (nums : List Nat) : Bool := nums.any (· > 1)

end SevenZ.Impl
