/-
Model of the sub-stream-to-file cursor of `SevenZipFile._real_get_contents`
(py7zr.py:430-527, `ParseStatus`) after the zero-stream-folder repair: which folder, which
size, which digest each member is given, and where in the folder's output its bytes lie.
Files are represented by their empty-stream flags.
-/
namespace SevenZ.Impl

/-- `while nums[pstat.folder] == 0: pstat.folder += 1`; `none` = IndexError past the end -/
def skipZero (nums : List Nat) : Nat → Nat → Option Nat
  | 0, _ => none
  | fuel + 1, folder =>
    match nums[folder]? with
    | none => none
    | some 0 => skipZero nums fuel (folder + 1)
    | some _ => some folder

/-- one slot per file: `none` for an empty-stream entry, else (folder, offset, size, digest) -/
abbrev Slot4 := Option (Nat × Nat × Nat × Option Nat)

instance : DecidableEq Slot4 := inferInstanceAs (DecidableEq (Option (Nat × Nat × Nat × Option Nat)))

/-- the cursor loop; `folder`, `input`, `outs` are `pstat.folder`, `pstat.input`,
    `pstat.outstreams`; `off` is the running offset inside the current folder's output -/
def assignGo (nums sizes : List Nat) (crcs : List (Option Nat)) :
    List Bool → Nat → Nat → Nat → Nat → Option (List Slot4)
  | [], _, _, _, _ => some []
  | true :: fs, folder, input, outs, off =>
    (assignGo nums sizes crcs fs folder input outs off).map (fun r => none :: r)
  | false :: fs, folder, input, outs, off =>
    match skipZero nums (nums.length + 1) folder with
    | none => none
    | some fo =>
      match sizes[outs]?, crcs[outs]? with
      | some s, some c =>
        if input + 1 ≥ nums.getD fo 0 then
          (assignGo nums sizes crcs fs (fo + 1) 0 (outs + 1) 0).map (fun r => some (fo, off, s, c) :: r)
        else
          (assignGo nums sizes crcs fs fo (input + 1) (outs + 1) (off + s)).map
            (fun r => some (fo, off, s, c) :: r)
      | _, _ => none

def assign (emptyFlags : List Bool) (nums sizes : List Nat) (crcs : List (Option Nat)) : Option (List Slot4) :=
  assignGo nums sizes crcs emptyFlags 0 0 0 0

end SevenZ.Impl
