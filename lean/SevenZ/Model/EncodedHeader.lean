/-
Model of the default header mode: `Header._encode_header` + `HeaderStreamsInfo.write`
(archiveinfo.py:988-1016, 686-701).  The raw header is serialised into a buffer (at position 0),
sent through a one-folder compressor of its own, written behind the archive's packed data, and
followed by the EncodedHeader record (PackInfo, UnpackInfo with the folder's CRC) that the
signature header points to.
-/
import SevenZ.Model.WriteSession
import SevenZ.Model.AppendSession
namespace SevenZ.Impl

/-- `fd.read(block_size)` on an in-memory buffer: pieces of `bs` bytes, the last one shorter -/
def chunksOf (bs : Nat) : Nat → Bytes → List Bytes
  | 0, _ => []
  | fuel + 1, b => if b.isEmpty ∨ bs = 0 then [] else b.take bs :: chunksOf bs fuel (b.drop bs)

/-- `UnpackInfo.write(file, with_crcs=True)` -/
def writeUnpackInfoCrc (folders : List Folder) : Bytes :=
  [0x07, 0x0B] ++ writeNumber folders.length ++ [0x00] ++ folders.flatMap writeFolder ++
  [0x0C] ++ folders.flatMap (fun f => f.unpacksizes.flatMap writeNumber) ++
  [0x0A] ++ writeBools (folders.map (·.crc.isSome)) true ++ (folders.filterMap (·.crc)).flatMap (fun c => leBytes c 4) ++ [0x00]

/-- `HeaderStreamsInfo.write` -/
def writeEncodedRecord (p : PackInfo) (folders : List Folder) : Option Bytes :=
  (writePackInfo p).map (fun a => [0x17] ++ a ++ writeUnpackInfoCrc folders ++ [0x00])

/-- the folder and compressor of the header stream -/
structure HConfig (σ : Type) where
  coders : List Coder
  chain : List (StageSt σ)
  blocksize : Nat

def headerFolder {σ} (hcfg : HConfig σ) (raw : Bytes) : Folder :=
  { coders := hcfg.coders,
    bindpairs := (List.range (hcfg.coders.length - 1)).map (fun i => (i + 1, i)),
    packedIndices := [], unpacksizes := [raw.length], digestdefined := false, crc := some (crc32 raw) }

/-- the header compressor after the raw header has gone through it -/
def headerCompress {σ} (hcfg : HConfig σ) (raw : Bytes) : Cmp σ :=
  (flushCmp (compressAll { chain := hcfg.chain } [chunksOf hcfg.blocksize (raw.length + 1) raw]).1).1

/-- what `Header.write(..., encoded=True)` appends at file position `32 + areaLen`: the packed
    header and the record; returns (packed header, record) -/
def encodeHeader {σ} (h : Header) (hcfg : HConfig σ) (areaLen : Nat) : Option (Bytes × Bytes) := do
  let raw ← writeHeaderRaw true h 0
  let hc := headerCompress hcfg raw
  let record ← writeEncodedRecord
    { packpos := areaLen, numstreams := 1, packsizes := [hc.packsize], digestdefined := [], crcs := [hc.digest], enableDigests := false }
    [headerFolder hcfg raw]
  pure (hc.out, record)

/-- the archive file after `close()` of a create session in the default (encoded) header mode -/
def sessionArchiveEncoded {σ} (cfg : WConfig σ) (hcfg : HConfig σ) (ms : List WMember) : Option Bytes := do
  let h ← sessionHeader cfg ms
  let out := (sessionCompress cfg ms).1.out
  let (packedHdr, record) ← encodeHeader h hcfg out.length
  pure (sigHeaderBytes (out.length + packedHdr.length) record.length (crc32 record) ++ out ++ packedHdr ++ record)

end SevenZ.Impl

namespace SevenZ.Impl

/-- the header object of an image whose header is raw, or encoded by a chain that leaves the bytes as they are
    (Copy coder; the scripted stages copy / hold / lag of the correspondence stream `ws.eapp`): the packed stream of
    the EncodedHeader record IS the raw header.  The folder CRC of the record, when present, must match
    (archiveinfo.py `Header._read`, repair cfa832b). -/
def headerOfImageIdEnc (base : Bytes) : Option Header := do
  let (_, hdr0) ← locateHeader base
  match readNextHeader hdr0 with
  | .ok (.raw h) => some h
  | .ok .empty => some {}
  | .ok (.encoded st) =>
    let p ← st.packinfo
    let size ← p.packsizes.head?
    let raw := (base.drop (32 + p.packpos)).take size
    let f ← (st.folders.getD []).head?
    if f.digestdefined ∧ f.crc ≠ some (crc32 raw) then none else
    match readNextHeader raw with
    | .ok (.raw h) => some h
    | _ => none
  | _ => none

/-- the file after an append session in the default (encoded) header mode: new packed data from the end of the old
    packed streams on (over the old packed header), then the packed new header, then the EncodedHeader record, the
    signature header last; nothing truncates the file -/
def appendArchiveEncoded {σ} (base : Bytes) (cfg : WConfig σ) (hcfg : HConfig σ) (ms : List WMember) : Option Bytes := do
  let H ← headerOfImageIdEnc base
  let (H', out) ← (if ms.isEmpty then some (H, ([] : Bytes)) else
    (appendHeader H cfg ms).map (fun h => (h, (sessionCompress cfg ms).1.out)))
  let pos := appendPos H
  let (packedHdr, record) ← encodeHeader H' hcfg (pos - 32 + out.length)
  let body := (base.take pos ++ List.replicate (pos - base.length) 0) ++ out ++ packedHdr ++ record
  pure (sigHeaderBytes (pos + out.length + packedHdr.length - 32) record.length (crc32 record) ++ body.drop 32 ++
    base.drop body.length)

end SevenZ.Impl
