/-
CRC-32 (ISO 3309 / ITU-T V.42, reflected, polynomial 0xEDB88320, init and final xor
0xFFFFFFFF) as the bit-serial shift register the appendix of docs/archive_format.rst
describes, and `helpers.calculate_crc32` (helpers.py:42-53), which feeds zlib.crc32 in
blocks.  Bits of a byte are processed from the least significant to the most significant.
-/
import SevenZ.Model.Number
namespace SevenZ

def crcPoly : BitVec 32 := 0xEDB88320#32

/-- one shift of the register -/
def crcShift (x : BitVec 32) : BitVec 32 :=
  (x >>> 1) ^^^ (if x.getLsbD 0 then crcPoly else 0#32)

/-- one message bit -/
def crcBit (c : BitVec 32) (b : Bool) : BitVec 32 :=
  crcShift (c ^^^ (if b then 1#32 else 0#32))

/-- the bits of a byte string, least significant bit of each byte first -/
def bitsOf : Bytes → List Bool
  | [] => []
  | b :: bs => (List.range 8).map (fun i => decide ((b / 2 ^ i) % 2 = 1)) ++ bitsOf bs

/-- raw register update over a byte string -/
def crcFeed (c : BitVec 32) (data : Bytes) : BitVec 32 := (bitsOf data).foldl crcBit c

/-- `zlib.crc32(data, value)` -/
def crc32Update (value : Nat) (data : Bytes) : Nat :=
  ((crcFeed (BitVec.ofNat 32 value ^^^ 0xFFFFFFFF#32) data) ^^^ 0xFFFFFFFF#32).toNat

def crc32 (data : Bytes) : Nat := crc32Update 0 data

namespace Impl

/-- `calculate_crc32(data, value, blocksize)`: block-wise accumulation -/
def calculateCrc32 (data : Bytes) (value : Nat) (blocksize : Nat) : Nat :=
  if data.length ≤ blocksize then crc32Update value data % 2 ^ 32
  else
    let rec go (fuel : Nat) (rest : Bytes) (v : Nat) : Nat :=
      match fuel with
      | 0 => v
      | fuel + 1 => if rest.isEmpty then v else go fuel (rest.drop blocksize) (crc32Update v (rest.take blocksize))
    go (data.length + 1) (data.drop blocksize) (crc32Update value (data.take blocksize)) % 2 ^ 32

end Impl
end SevenZ
