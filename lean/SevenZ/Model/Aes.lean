/-
Model of the 16-byte residue buffering around the AES-CBC cipher:
`AESCompressor.compress/flush` and `AESDecompressor.decompress` (compressor.py:139-239).
The cipher is abstract: the model records the argument of every `cipher.encrypt` /
`cipher.decrypt` call (`fed`), which is all that matters for "every content byte goes
through the cipher exactly once, in order, in whole blocks".
-/
import SevenZ.Model.Number
namespace SevenZ.Impl

structure AesState where
  buf : Bytes := []
  fed : List Bytes := []      -- arguments of the cipher calls so far, oldest first
  deriving Repr, DecidableEq

/-- `AESCompressor.compress(data)`: returns whether the cipher was called -/
def aesCompress (st : AesState) (data : Bytes) : AesState :=
  let currentlen := st.buf.length + data.length
  if currentlen ≥ 16 ∧ currentlen % 16 = 0 then
    { buf := [], fed := st.fed ++ [st.buf ++ data] }
  else if currentlen > 16 then
    let nextpos := currentlen / 16 * 16
    let k := nextpos - st.buf.length
    { buf := data.drop k, fed := st.fed ++ [st.buf ++ data.take k] }
  else
    { st with buf := st.buf ++ data }

/-- `AESCompressor.flush()` -/
def aesFlush (st : AesState) : AesState :=
  if st.buf.length > 0 then
    let padlen := (16 - st.buf.length % 16) % 16
    { buf := [], fed := st.fed ++ [st.buf ++ List.replicate padlen 0] }
  else st

/-- Python's `data[k:]` / `data[:k]` for a possibly negative `k` -/
def pyFrom (data : Bytes) (k : Int) : Bytes :=
  if k ≥ 0 then data.drop k.toNat else data.drop (data.length - (-k).toNat)

def pyUpTo (data : Bytes) (k : Int) : Bytes :=
  if k ≥ 0 then data.take k.toNat else data.take (data.length - (-k).toNat)

/-- `AESDecompressor.decompress(data)` -/
def aesDecompress (st : AesState) (data : Bytes) : AesState :=
  let currentlen := st.buf.length + data.length
  if data.length > 0 ∧ currentlen % 16 = 0 then
    { buf := [], fed := st.fed ++ [st.buf ++ data] }
  else if data.length > 0 then
    let nextpos := currentlen / 16 * 16
    let k : Int := (nextpos : Int) - (st.buf.length : Int)
    { buf := pyFrom data k, fed := st.fed ++ [st.buf ++ pyUpTo data k] }
  else if st.buf.length = 0 then st
  else
    let padlen := (16 - st.buf.length % 16) % 16
    { buf := [], fed := st.fed ++ [st.buf ++ List.replicate padlen 0] }

end SevenZ.Impl
