/-
Model of the header grammar as implemented by py7zr/archiveinfo.py:229-1157:
`PackInfo`, `Folder`, `UnpackInfo`, `SubstreamsInfo`, `StreamsInfo`, `FilesInfo`, `Header`
(raw form) and `SignatureHeader`, both `write` and `_read`, quirks included.

Errors are one of three classes: `bad7z` (py7zr raises Bad7zFile), `malformed` (any other
exception the parser lets escape: TypeError from `ord(b"")`, struct.error, IndexError,
AssertionError, UnicodeDecodeError, AttributeError), `unsupported` (a branch this model does
not follow: "external" data streams; the harness never compares those).
-/
import SevenZ.Model.Number
import SevenZ.Model.BoolVec
import SevenZ.Model.Utf16
namespace SevenZ

inductive Err where
  | bad7z
  | malformed
  | unsupported
  deriving Repr, DecidableEq

/-- a parser over the remaining bytes -/
abbrev P (α : Type) := StateT Bytes (Except Err) α

structure Coder where
  method : Bytes
  numIn : Nat := 1
  numOut : Nat := 1
  props : Option Bytes := none
  deriving Repr, DecidableEq

structure Folder where
  coders : List Coder := []
  bindpairs : List (Nat × Nat) := []        -- (incoder, outcoder)
  packedIndices : List Nat := []
  unpacksizes : List Nat := []
  digestdefined : Bool := false
  crc : Option Nat := none
  deriving Repr, DecidableEq

structure PackInfo where
  packpos : Nat := 0
  numstreams : Nat := 0
  packsizes : List Nat := []
  digestdefined : List Bool := []
  crcs : List Nat := []
  enableDigests : Bool := true
  deriving Repr, DecidableEq

structure SubStreams where
  numUnpack : List Nat := []
  unpacksizes : Option (List Nat) := none
  digestsdefined : List Bool := []
  digests : List Nat := []
  deriving Repr, DecidableEq

structure Streams where
  packinfo : Option PackInfo := none
  folders : Option (List Folder) := none      -- UnpackInfo (numfolders = length)
  substreams : Option SubStreams := none
  deriving Repr, DecidableEq

/-- a dict key that may be absent, present with `None`, or present with a value -/
inductive Slot (α : Type) where
  | absent
  | undef
  | val (a : α)
  deriving Repr, DecidableEq

def Slot.isVal {α} : Slot α → Bool
  | .val _ => true
  | _ => false

structure FileEntry where
  emptystream : Bool := false
  filename : Option (List Nat) := none
  ctime : Slot Nat := .absent
  atime : Slot Nat := .absent
  mtime : Slot Nat := .absent
  attributes : Slot Nat := .absent
  deriving Repr, DecidableEq

structure FilesInfo where
  files : List FileEntry := []
  emptyfiles : List Bool := []
  deriving Repr, DecidableEq

structure Header where
  mainStreams : Option Streams := none
  filesInfo : Option FilesInfo := none
  deriving Repr, DecidableEq

namespace Impl

/-! ### primitive readers -/

def fail {α} (e : Err) : P α := fun _ => .error e

/-- `file.read(1)`: `none` at end of input -/
def read1 : P (Option Nat) := fun bs =>
  match bs with
  | [] => .ok (none, [])
  | b :: rest => .ok (some b, rest)

/-- `ord(file.read(1))` -/
def readByte : P Nat := fun bs =>
  match bs with
  | [] => .error .malformed
  | b :: rest => .ok (b, rest)

/-- `file.read(n)`: may come back short -/
def readBytes (n : Nat) : P Bytes := fun bs => .ok (bs.take n, bs.drop n)

def pNumber : P Nat := fun bs =>
  match readNumber bs with
  | none => .error .malformed
  | some r => .ok r

/-- `struct.unpack` of exactly `k` bytes little endian -/
def pFixed (k : Nat) : P Nat := fun bs =>
  if bs.length < k then .error .malformed else .ok (ofLE (bs.take k), bs.drop k)

def pBools (count : Nat) (checkall : Bool) : P (List Bool) := fun bs =>
  match readBools count checkall bs with
  | none => .error .malformed
  | some r => .ok r

/-- `for _ in range(n)` collecting results -/
def repeatP {α} (n : Nat) (p : P α) : P (List α) :=
  match n with
  | 0 => pure []
  | n + 1 => do
    let a ← p
    let as ← repeatP n p
    pure (a :: as)

/-- `read_crcs(file, count)`: reads `4*count` bytes at once (short reads allowed), then
    unpacks each 4-byte slice; a short slice raises struct.error -/
def pCrcs (count : Nat) : P (List Nat) := fun bs =>
  let data := bs.take (4 * count)
  let rest := bs.drop (4 * count)
  if data.length < 4 * count then .error .malformed
  else
    let rec go (n : Nat) (d : Bytes) : List Nat :=
      match n with
      | 0 => []
      | n + 1 => ofLE (d.take 4) :: go n (d.drop 4)
    .ok (go count data, rest)

/-- `write_crcs(file, crcs)`: `write_uint32` per entry — 4 bytes little endian each -/
def crcBytes (crcs : List Nat) : Bytes := crcs.flatMap (fun c => leBytes c 4)

def pUtf16Name : P (List Nat) := fun bs =>
  match readUtf16 bs with
  | none => .error .malformed
  | some (cs, rest) => .ok (fixSlash cs, rest)

/-! ### PackInfo -/

/-- `PackInfo._read` (archiveinfo.py:254-272) -/
def readPackInfo : P PackInfo := do
  let packpos ← pNumber
  let numstreams ← pNumber
  let pid ← read1
  if pid = some 0x09 then
    let sizes ← repeatP numstreams pNumber
    let pid ← read1
    if pid = some 0x0A then
      let defined ← pBools numstreams true
      let crcs ← (defined.filter id).mapM (fun _ => pFixed 4)
      let pid ← read1
      if pid ≠ some 0 then fail .bad7z
      else pure { packpos, numstreams, packsizes := sizes, digestdefined := defined, crcs,
                  enableDigests := decide (crcs.length > 0) }
    else if pid ≠ some 0 then fail .bad7z
    else pure { packpos, numstreams, packsizes := sizes, digestdefined := [], crcs := [],
                enableDigests := false }
  else if pid ≠ some 0 then fail .bad7z
  else pure { packpos, numstreams, packsizes := [], digestdefined := [], crcs := [],
              enableDigests := false }

/-- `PackInfo.write` (archiveinfo.py:274-291); `none` = AssertionError / IndexError -/
def writePackInfo (p : PackInfo) : Option Bytes :=
  if p.numstreams ≠ p.packsizes.length then none
  else
    let head := [0x06] ++ writeNumber p.packpos ++ writeNumber p.numstreams ++ [0x09] ++
      p.packsizes.flatMap writeNumber
    let enable := p.digestdefined.foldl (· || ·) p.enableDigests
    if enable then
      if p.crcs.length ≠ p.numstreams then none
      else if p.digestdefined.length < p.numstreams then none
      else
        let crcBytes := ((List.range p.numstreams).filter (fun i => p.digestdefined.getD i false)).flatMap
          (fun i => leBytes (p.crcs.getD i 0) 4)
        some (head ++ [0x0A] ++ writeBools p.digestdefined true ++ crcBytes ++ [0x00])
    else some (head ++ [0x00])

/-! ### Folder -/

def findInBindPair (f : Folder) (i : Nat) : Bool := f.bindpairs.any (fun b => b.1 = i)
def findOutBindPair (f : Folder) (i : Nat) : Bool := f.bindpairs.any (fun b => b.2 = i)

def readCoder : P Coder := do
  let b ← readByte
  let methodsize := b &&& 0xF
  let iscomplex := (b &&& 0x10) = 0x10
  let hasattr := (b &&& 0x20) = 0x20
  let m ← readBytes methodsize
  let method := if methodsize > 0 then m else [0]
  let (nin, nout) ← (if iscomplex then do
      let a ← pNumber
      let c ← pNumber
      pure (a, c)
    else pure (1, 1) : P (Nat × Nat))
  let props ← (if hasattr then do
      let len ← pNumber
      if len ≥ 2 ^ 63 then fail .malformed else    -- OverflowError in file.read
      let pr ← readBytes len
      pure (some pr)
    else pure none : P (Option Bytes))
  pure { method, numIn := nin, numOut := nout, props }

/-- `Folder._read` (archiveinfo.py:354-396) -/
def readFolder : P Folder := do
  let numCoders ← pNumber
  let coders ← repeatP numCoders readCoder
  let totalin := (coders.map (·.numIn)).sum
  let totalout := (coders.map (·.numOut)).sum
  let numBind := totalout - 1            -- range(-1) is empty as well
  let pairs ← repeatP numBind (do
    let a ← pNumber
    let b ← pNumber
    pure (a, b))
  -- num_packedstreams = totalin - (totalout - 1), computed over the integers
  let numPacked : Int := (totalin : Int) - ((totalout : Int) - 1)
  let f0 : Folder := { coders, bindpairs := pairs }
  if numPacked = 1 then
    pure { f0 with packedIndices := (List.range totalin).filter (fun i => !findInBindPair f0 i) }
  else do
    let idx ← repeatP numPacked.toNat pNumber
    pure { f0 with packedIndices := idx }

def isSimple (c : Coder) : Bool := c.numIn = 1 && c.numOut = 1

/-- `Folder.write` (archiveinfo.py:409-433) -/
def writeFolder (f : Folder) : Bytes :=
  writeNumber f.coders.length ++
  f.coders.flatMap (fun c =>
    let idSize := c.method.length &&& 0x0F
    let flag := idSize ||| (if isSimple c then 0 else 0x10) ||| (if c.props.isSome then 0x20 else 0)
    [flag] ++ c.method.take idSize ++
    (if isSimple c then [] else writeNumber c.numIn ++ writeNumber c.numOut) ++
    (match c.props with
     | none => []
     | some p => writeNumber p.length ++ p)) ++
  f.bindpairs.flatMap (fun b => writeNumber b.1 ++ writeNumber b.2) ++
  (if (f.coders.map (·.numIn)).sum > (f.coders.map (·.numOut)).sum
   then f.packedIndices.flatMap writeNumber else [])

/-- `Folder.get_unpack_size`; `none` = IndexError on an empty size list -/
def folderUnpackSize (f : Folder) : Option Nat :=
  let n := f.unpacksizes.length
  match ((List.range n).reverse.find? (fun i => !findOutBindPair f i)) with
  | some i => f.unpacksizes[i]?
  | none => f.unpacksizes.getLast?

/-! ### UnpackInfo -/

/-- consume the declared unpack sizes folder by folder -/
def readUnpackSizes : List Folder → P (List Folder)
  | [] => pure []
  | f :: fs => do
    let sizes ← repeatP ((f.coders.map (·.numOut)).sum) pNumber
    let rest ← readUnpackSizes fs
    pure ({ f with unpacksizes := sizes } :: rest)

/-- `UnpackInfo._read` + `_retrieve_coders_info` (archiveinfo.py:486-520) -/
def readUnpackInfo : P (List Folder) := do
  let pid ← read1
  if pid ≠ some 0x0B then fail .bad7z else
  let numfolders ← pNumber
  let external ← readByte
  if external ≠ 0 then fail .unsupported else
  let folders ← repeatP numfolders readFolder
  let pid ← read1
  if pid ≠ some 0x0C then fail .bad7z else
  let folders ← readUnpackSizes folders
  let pid ← read1
  let (folders, pid) ← (if pid = some 0x0A then do
      let defined ← pBools numfolders true
      -- a CRC is stored only for the folders whose defined-bit is set
      let crcs ← defined.mapM (fun d => if d then (do let c ← pFixed 4; pure (some c)) else pure none)
      let fs := (folders.zip (defined.zip crcs)).map
        (fun (f, d, c) => { f with digestdefined := d, crc := c })
      -- folders beyond the shorter list keep their defaults (cannot happen: equal lengths)
      let pid ← read1
      pure (fs, pid)
    else pure (folders, pid) : P (List Folder × Option Nat))
  match pid with
  | some 0 => pure folders
  | none => fail .malformed      -- `ord(b"")` inside the error message
  | some _ => fail .bad7z

/-- `UnpackInfo.write` (archiveinfo.py:522-541): folder CRCs are never written -/
def writeUnpackInfo (folders : List Folder) : Bytes :=
  [0x07, 0x0B] ++ writeNumber folders.length ++ [0x00] ++ folders.flatMap writeFolder ++
  [0x0C] ++ folders.flatMap (fun f => f.unpacksizes.flatMap writeNumber) ++ [0x00]

/-! ### SubstreamsInfo -/

/-- the SIZE part: per folder, `n-1` explicit sizes, the last one by subtraction -/
def readSubSizes : List Nat → List Folder → P (List Nat)
  | [], _ => pure []
  | _ :: _, [] => fail .malformed          -- folders[i] IndexError (cannot happen: same length)
  | n :: ns, f :: fs =>
    -- a folder without sub-streams has no size entry, not even the implicit one
    if n = 0 then readSubSizes ns fs else do
    let explicit ← repeatP (n - 1) pNumber
    match folderUnpackSize f with
    | none => fail .malformed
    | some total =>
      -- Python integers: the remainder may be negative; it is stored as is
      let last : Int := (total : Int) - ((explicit.sum : Nat) : Int)
      if last < 0 then fail .unsupported else
      let rest ← readSubSizes ns fs
      pure (explicit ++ [last.toNat] ++ rest)

/-- distribute the digests read to folders (archiveinfo.py:590-604) -/
def assignDigests : List Nat → List Folder → List Bool → List Nat → Option (List Bool × List Nat)
  | [], _, _, _ => some ([], [])
  | _ :: _, [], _, _ => none
  | n :: ns, f :: fs, defined, crcs =>
    if n = 1 ∧ f.digestdefined ∧ f.crc.isSome then
      match assignDigests ns fs defined crcs with
      | none => none
      | some (d, c) => some (true :: d, f.crc.getD 0 :: c)
    else
      if defined.length < n ∨ crcs.length < n then none
      else match assignDigests ns fs (defined.drop n) (crcs.drop n) with
        | none => none
        | some (d, c) => some (defined.take n ++ d, crcs.take n ++ c)

/-- `SubstreamsInfo._read` (archiveinfo.py:566-610); `total` is the size of the whole header
    buffer: the declared stream counts are bounded by it before any list of that length is built -/
def readSubStreams (total : Nat) (folders : List Folder) : P SubStreams := do
  let numfolders := folders.length
  let pid ← read1
  let (nums, pid) ← (if pid = some 0x0D then do
      let ns ← repeatP numfolders pNumber
      if ns.sum > total * 8 then fail .bad7z else
      let pid ← read1
      pure (ns, pid)
    else pure (List.replicate numfolders 1, pid) : P (List Nat × Option Nat))
  let (sizes, pid) ← (if pid = some 0x09 then do
      let s ← readSubSizes nums folders
      let pid ← read1
      pure (some s, pid)
    else pure (none, pid) : P (Option (List Nat) × Option Nat))
  let numDigests := ((nums.zip folders).map
    (fun (n, f) => if n ≠ 1 ∨ !f.digestdefined then n else 0)).sum
  let numDigestsTotal := nums.sum
  let (dd, ds, pid) ← (if pid = some 0x0A then do
      let defined ← pBools numDigests true
      -- a CRC is stored only for the streams whose defined-bit is set (0 is kept for the others)
      let crcs ← defined.mapM (fun d => if d then pFixed 4 else pure 0)
      match assignDigests nums folders defined crcs with
      | none => fail .malformed
      | some (d, c) =>
        let pid ← read1
        pure (d, c, pid)
    else pure ([], [], pid) : P (List Bool × List Nat × Option Nat))
  if pid ≠ some 0 then fail .bad7z else
  if dd.isEmpty then
    pure { numUnpack := nums, unpacksizes := sizes,
           digestsdefined := List.replicate numDigestsTotal false,
           digests := List.replicate numDigestsTotal 0 }
  else pure { numUnpack := nums, unpacksizes := sizes, digestsdefined := dd, digests := ds }

/-- the explicit sizes written: all but the last of every folder -/
def subSizesToWrite : List Nat → List Nat → Option (List Nat)
  | [], _ => some []
  | n :: ns, sizes =>
    if sizes.length < n then none   -- IndexError
    else match subSizesToWrite ns (sizes.drop n) with
      | none => none
      | some r => some ((sizes.take n).dropLast ++ r)

/-- `SubstreamsInfo.write` (archiveinfo.py:612-635); `none` = AssertionError / IndexError -/
def writeSubStreams (s : SubStreams) : Option Bytes :=
  if s.numUnpack.isEmpty then some []
  else
    let solid := s.numUnpack.any (· ≠ 1)
    let hasMulti := s.numUnpack.any (· > 1)
    let part1 := [0x08] ++ (if solid then [0x0D] ++ s.numUnpack.flatMap writeNumber else [])
    let part2 : Option Bytes :=
      if hasMulti then
        match s.unpacksizes with
        | none => none
        | some [] => none         -- `assert self.unpacksizes` fails on an empty list
        | some sizes => (subSizesToWrite s.numUnpack sizes).map
            (fun l => [0x09] ++ l.flatMap writeNumber)
      else some []
    match part2 with
    | none => none
    | some p2 =>
      let part3 :=
        if s.digestsdefined.any id then
          [0x0A] ++ writeBools s.digestsdefined true ++
            ((s.digests.zip s.digestsdefined).filter (·.2)).flatMap (fun c => leBytes c.1 4)
        else []
      some (part1 ++ p2 ++ part3 ++ [0x00])

/-! ### StreamsInfo -/

/-- `StreamsInfo.read` (archiveinfo.py:654-668) -/
def readStreams (total : Nat) : P Streams := do
  let pid ← read1
  let (pk, pid) ← (if pid = some 0x06 then do
      let p ← readPackInfo
      let pid ← read1
      pure (some p, pid)
    else pure (none, pid) : P (Option PackInfo × Option Nat))
  let (fo, pid) ← (if pid = some 0x07 then do
      let f ← readUnpackInfo
      let pid ← read1
      pure (some f, pid)
    else pure (none, pid) : P (Option (List Folder) × Option Nat))
  let (ss, pid) ← (if pid = some 0x08 then
      match fo with
      | none => fail .bad7z
      | some folders => do
        let s ← readSubStreams total folders
        let pid ← read1
        pure (some s, pid)
    else pure (none, pid) : P (Option SubStreams × Option Nat))
  if pid ≠ some 0 then fail .bad7z
  else pure { packinfo := pk, folders := fo, substreams := ss }

/-- `StreamsInfo.write` (archiveinfo.py:670-678) -/
def writeStreams (s : Streams) : Option Bytes := do
  let a ← (match s.packinfo with | none => some [] | some p => writePackInfo p)
  let b := (match s.folders with | none => [] | some f => writeUnpackInfo f)
  let c ← (match s.substreams with | none => some [] | some x => writeSubStreams x)
  pure ([0x04] ++ a ++ b ++ c ++ [0x00])

/-! ### FilesInfo -/

def setNames : List FileEntry → P (List FileEntry)
  | [] => pure []
  | f :: fs => do
    let n ← pUtf16Name
    let rest ← setNames fs
    pure ({ f with filename := some n } :: rest)

/-- which of the three time slots a property id addresses -/
inductive TimeKind where | c | a | m
  deriving DecidableEq

def setTime (k : TimeKind) (f : FileEntry) (v : Slot Nat) : FileEntry :=
  match k with
  | .c => { f with ctime := v }
  | .a => { f with atime := v }
  | .m => { f with mtime := v }

def setTimes (k : TimeKind) : List FileEntry → List Bool → P (List FileEntry)
  | [], _ => pure []
  | f :: fs, ds =>
    match ds with
    | [] => fail .malformed           -- defined[i] IndexError (cannot happen)
    | d :: ds' => do
      let v ← (if d then do
          let t ← pFixed 8
          pure (Slot.val t)
        else pure Slot.undef : P (Slot Nat))
      let rest ← setTimes k fs ds'
      pure (setTime k f v :: rest)

def setAttrs : List FileEntry → List Bool → P (List FileEntry)
  | [], _ => pure []
  | f :: fs, ds =>
    match ds with
    | [] => fail .malformed
    | d :: ds' => do
      let v ← (if d then do
          let t ← pFixed 4
          pure (Slot.val t)
        else pure Slot.undef : P (Slot Nat))
      let rest ← setAttrs fs ds'
      pure ({ f with attributes := v } :: rest)

/-- run a sub-parser on the property's own buffer (`io.BytesIO(fp.read(size))`) -/
def onBuffer {α} (buf : Bytes) (p : P α) : P α := fun outer =>
  match p buf with
  | .error e => .error e
  | .ok (a, _) => .ok (a, outer)

/-- the property loop of `FilesInfo._read` (archiveinfo.py:715-766); `fuel` bounds the
    number of properties by the number of input bytes (each iteration consumes ≥ 2 bytes
    or fails) -/
def readFileProps : Nat → Nat → FilesInfo → Nat → P FilesInfo
  | 0, _, _, _ => fail .malformed
  | fuel + 1, numfiles, fi, numEmpty => do
    let prop ← read1
    if prop = some 0 then pure fi else
    let size ← pNumber
    -- `fp.read(size)` / `fp.seek(size, SEEK_CUR)` raise OverflowError for sizes beyond ssize_t
    if size ≥ 2 ^ 63 then fail .malformed else
    if prop = some 0x19 then do
      let _ ← readBytes size            -- fp.seek(size, SEEK_CUR)
      readFileProps fuel numfiles fi numEmpty
    else do
    let buf ← readBytes size
    match prop with
    | some 0x0E => do
      let isempty ← onBuffer buf (pBools numfiles false)
      let files := (fi.files.zip isempty).map (fun (f, e) => { f with emptystream := e })
      readFileProps fuel numfiles { fi with files } (numEmpty + (isempty.filter id).length)
    | some 0x0F => do
      let ef ← onBuffer buf (pBools numEmpty false)
      readFileProps fuel numfiles { fi with emptyfiles := ef } numEmpty
    | some 0x11 => do
      let files ← onBuffer buf (do
        let ext ← read1
        if ext = some 0 then setNames fi.files else fail .unsupported)
      readFileProps fuel numfiles { fi with files } numEmpty
    | some 0x12 | some 0x13 | some 0x14 => do
      let k : TimeKind := if prop = some 0x12 then .c else if prop = some 0x13 then .a else .m
      let files ← onBuffer buf (do
        let defined ← pBools fi.files.length true
        let ext ← read1
        if ext ≠ some 0 then fail .malformed else setTimes k fi.files defined)
      readFileProps fuel numfiles { fi with files } numEmpty
    | some 0x15 => do
      let files ← onBuffer buf (do
        let defined ← pBools numfiles true
        let ext ← read1
        if ext = some 0 then setAttrs fi.files defined else fail .unsupported)
      readFileProps fuel numfiles { fi with files } numEmpty
    | some 0x18 => do
      -- `assert external == 0x00` compares bytes with an int: always fails (or earlier)
      fail .malformed
    | _ => fail .bad7z

/-- `FilesInfo._read`; `total` is the size of the whole header buffer (`fp.seek(0, SEEK_END)`):
    the member count is bounded by it before one dict per member is allocated -/
def readFilesInfo (total : Nat) : P FilesInfo := do
  let numfiles ← pNumber
  if numfiles > total * 8 then fail .bad7z else
  let bs ← get
  readFileProps (bs.length + 1) numfiles { files := List.replicate numfiles {} } 0

def namesBlock (files : List FileEntry) : Bytes :=
  let names := files.filterMap (·.filename)
  if names.isEmpty then []
  else
    let size := (names.map (fun n => 2 * (n.flatMap unitsOf).length + 2)).sum
    [0x11] ++ writeNumber (size + 1) ++ [0x00] ++ names.flatMap writeUtf16

/-- the fixed-width little-endian value of a defined slot, nothing for an undefined one -/
def slotBytes (w : Nat) : Slot Nat → Bytes
  | .val t => leBytes t w
  | _ => []

/-- `_write_times` (archiveinfo.py:792-813).  `fixedSize = false` reproduces the size
    computation of the pinned tree (`bits_to_bytes(num_defined)`), `true` the repaired one. -/
def timesBlock (fixedSize : Bool) (propid : Nat) (slots : List (Slot Nat)) : Bytes :=
  let defined := slots.map Slot.isVal
  let numDefined := (defined.filter id).length
  let size := numDefined * 8 + 2 +
    (if defined.all id then 0 else bitsToBytes (if fixedSize then defined.length else numDefined))
  [propid] ++ writeNumber size ++ writeBools defined true ++ [0x00] ++
  slots.flatMap (slotBytes 8)

/-- `_write_attributes` (archiveinfo.py:842-860) -/
def attrsBlock (fixedSize : Bool) (slots : List (Slot Nat)) : Bytes :=
  let defined := slots.map Slot.isVal
  let numDefined := (defined.filter id).length
  let size := numDefined * 4 + 2 +
    (if numDefined ≠ defined.length then bitsToBytes (if fixedSize then defined.length else numDefined) else 0)
  [0x15] ++ writeNumber size ++ writeBools defined true ++ [0x00] ++
  slots.flatMap (slotBytes 4)

/-- the kDummy padding rule: `pos` is `file.tell()` of the underlying file -/
def padBlock (pos : Nat) : Bytes :=
  let padlen0 := (4 - pos % 4) % 4
  let padlen := if 0 < padlen0 ∧ padlen0 ≤ 2 then padlen0 + 4 else padlen0
  if padlen > 2 then [0x19, padlen - 2] ++ List.replicate (padlen - 2) 0 else []

/-- `FilesInfo.write` (archiveinfo.py:862-895); `pos` = offset at which the 0x05 id lands -/
def writeFilesInfo (fixedSize : Bool) (fi : FilesInfo) (pos : Nat) : Bytes :=
  let numfiles := fi.files.length
  let emptystreams := fi.files.map (·.emptystream)
  let head := [0x05] ++ writeNumber numfiles ++
    (if emptystreams.any id then
      [0x0E] ++ writeNumber (bitsToBytes numfiles) ++ writeBools emptystreams false
     else if fi.emptyfiles.any id then [0x0F] ++ writeBools fi.emptyfiles false
     else [])
  head ++ padBlock (pos + head.length) ++ namesBlock fi.files ++
  timesBlock fixedSize 0x14 (fi.files.map (·.mtime)) ++
  attrsBlock fixedSize (fi.files.map (·.attributes)) ++ [0x00]

/-! ### Header (raw) -/

/-- `Header._extract_header_info` after the 0x01 id (archiveinfo.py:1019-1028) -/
def readHeaderBody (total : Nat) : P Header := do
  let pid ← read1
  let (ms, pid) ← (if pid = some 0x04 then do
      let s ← readStreams total
      let pid ← read1
      pure (some s, pid)
    else pure (none, pid) : P (Option Streams × Option Nat))
  let (fi, pid) ← (if pid = some 0x05 then do
      let f ← readFilesInfo total
      let pid ← read1
      pure (some f, pid)
    else pure (none, pid) : P (Option FilesInfo × Option Nat))
  if pid ≠ some 0 then fail .bad7z
  else pure { mainStreams := ms, filesInfo := fi }

/-- result of looking at the next-header buffer -/
inductive NextHeader where
  | empty                       -- zero-length buffer: "empty archive"
  | raw (h : Header)
  | encoded (s : Streams)       -- an EncodedHeader record; decoding needs the codec
  deriving Repr

/-- `Header._read` up to the point where a codec is needed (archiveinfo.py:919-937) -/
def readNextHeader (buf : Bytes) : Except Err NextHeader :=
  match buf with
  | [] => .ok .empty
  | 0x01 :: rest => (readHeaderBody buf.length rest).map (fun r => .raw r.1)
  | 0x17 :: rest => (readStreams buf.length rest).map (fun r => .encoded r.1)
  | _ => .error .malformed

/-- `Header.write(file, afterheader, encoded=False)`: `pos` is `file.tell()` at entry -/
def writeHeaderRaw (fixedSize : Bool) (h : Header) (pos : Nat) : Option Bytes := do
  let ms ← (match h.mainStreams with | none => some [] | some s => writeStreams s)
  let fi := (match h.filesInfo with
    | none => []
    | some f => writeFilesInfo fixedSize f (pos + 1 + ms.length))
  pure ([0x01] ++ ms ++ fi ++ [0x00])

end Impl
end SevenZ
