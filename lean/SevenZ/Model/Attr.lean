/-
Model of the attribute word (py7zr.py:144-235 decoding, 817-897 `_make_file_info` POSIX
branch encoding) and of the FILETIME conversions (helpers.py:241-265) in exact arithmetic.
-/
namespace SevenZ.Impl

inductive Kind where | file | dir | symlink
  deriving DecidableEq, Repr

def S_IFDIR : Nat := 0o040000
def S_IFLNK : Nat := 0o120000
def FILE_ATTRIBUTE_DIRECTORY : Nat := 0x10
def FILE_ATTRIBUTE_ARCHIVE : Nat := 0x20
def FILE_ATTRIBUTE_REPARSE_POINT : Nat := 0x400
def FILE_ATTRIBUTE_UNIX_EXTENSION : Nat := 0x8000

/-- `_make_file_info`, POSIX branch, `mode = stat.S_IMODE(st_mode)` (12 bits) -/
def encodeAttr (k : Kind) (mode : Nat) : Nat :=
  match k with
  | .dir => FILE_ATTRIBUTE_DIRECTORY ||| FILE_ATTRIBUTE_UNIX_EXTENSION ||| (S_IFDIR <<< 16) ||| (mode <<< 16)
  | .file => FILE_ATTRIBUTE_ARCHIVE ||| FILE_ATTRIBUTE_UNIX_EXTENSION ||| (mode <<< 16)
  | .symlink => FILE_ATTRIBUTE_ARCHIVE ||| FILE_ATTRIBUTE_REPARSE_POINT ||| FILE_ATTRIBUTE_UNIX_EXTENSION |||
      (S_IFLNK <<< 16) ||| (mode <<< 16)

def unixExt (attr : Nat) : Option Nat :=
  if attr &&& FILE_ATTRIBUTE_UNIX_EXTENSION = FILE_ATTRIBUTE_UNIX_EXTENSION then some (attr >>> 16) else none

/-- `ArchiveFile.is_directory`, `is_symlink`, `posix_mode` as used by `_extract` -/
def decodeAttr (attr : Nat) : Kind × Option Nat :=
  let isDir : Bool := attr &&& FILE_ATTRIBUTE_DIRECTORY == FILE_ATTRIBUTE_DIRECTORY
  let isLnk : Bool := match unixExt attr with
    | some e => e &&& 0o170000 == S_IFLNK
    | none => attr &&& FILE_ATTRIBUTE_REPARSE_POINT == FILE_ATTRIBUTE_REPARSE_POINT
  let mode := (unixExt attr).map (· &&& 0o7777)
  (if isDir then .dir else if isLnk then .symlink else .file, mode)

end SevenZ.Impl
