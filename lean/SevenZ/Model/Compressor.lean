/-
Model of the bookkeeping of `SevenZipCompressor` (py7zr/compressor.py:967-1010): the block
loop of `compress`, `flush`, the per-stage input counters `_unpacksizes`, the running
`packsize` and `digest` of what is written, and the `unpacksizes` property that maps stage
counters to the per-coder list stored in the folder.  The codec stages themselves are
parameters (any state type, any `compress`/`flush` functions).
-/
import SevenZ.Model.Crc32
namespace SevenZ.Impl

/-- one stage of the chain (`ISevenZipCompressor`) -/
structure Stage (σ : Type) where
  compress : σ → Bytes → σ × Bytes
  flush : σ → σ × Bytes

/-- a stage together with its state and its `_unpacksizes[i]` counter -/
structure StageSt (σ : Type) where
  stage : Stage σ
  st : σ
  fed : Nat := 0

/-- `for i, compressor in enumerate(self.chain): self._unpacksizes[i] += len(data); data = compressor.compress(data)` -/
def feedChain {σ} : List (StageSt σ) → Bytes → List (StageSt σ) × Bytes
  | [], data => ([], data)
  | c :: cs, data =>
    let r := c.stage.compress c.st data
    let rest := feedChain cs r.2
    ({ c with st := r.1, fed := c.fed + data.length } :: rest.1, rest.2)

/-- the loop of `flush`: `data` is `None` before the first stage -/
def flushChain {σ} : List (StageSt σ) → Option Bytes → List (StageSt σ) × Option Bytes
  | [], data => ([], data)
  | c :: cs, data =>
    match data with
    | some (b :: d) =>
      -- `if data:` — a non-empty piece from the previous stage is compressed, then the stage is flushed
      let r := c.stage.compress c.st (b :: d)
      let f := c.stage.flush r.1
      let rest := flushChain cs (some (r.2 ++ f.2))
      ({ c with st := f.1, fed := c.fed + (b :: d).length } :: rest.1, rest.2)
    | _ =>
      let f := c.stage.flush c.st
      let rest := flushChain cs (some f.2)
      ({ c with st := f.1 } :: rest.1, rest.2)

structure Cmp (σ : Type) where
  chain : List (StageSt σ)
  packsize : Nat := 0
  digest : Nat := 0
  out : Bytes := []          -- everything this compressor has written to `fp`

/-- the body of the `while data:` loop for one block -/
def compressBlock {σ} (c : Cmp σ) (data : Bytes) : Cmp σ :=
  let r := feedChain c.chain data
  { chain := r.1, packsize := c.packsize + r.2.length, digest := crc32Update c.digest r.2, out := c.out ++ r.2 }

/-- result of `compress(fd, fp)`: the compressor afterwards and `(insize, foutsize, crc)` -/
structure MemberResult (σ : Type) where
  cmp : Cmp σ
  insize : Nat
  foutsize : Nat
  crc : Nat

/-- `compress(fd, fp)`: `blocks` are the non-empty pieces `fd.read(block_size)` delivers
    (whatever the block size is, short reads included) -/
def compressMember {σ} (c : Cmp σ) (blocks : List Bytes) : MemberResult σ :=
  blocks.foldl (fun acc data =>
    let c' := compressBlock acc.cmp data
    { cmp := c', insize := acc.insize + data.length, foutsize := acc.foutsize + (c'.packsize - acc.cmp.packsize),
      crc := crc32Update acc.crc data })
    { cmp := c, insize := 0, foutsize := 0, crc := 0 }

/-- `flush(fp)`: returns the compressor and the number of bytes written -/
def flushCmp {σ} (c : Cmp σ) : Cmp σ × Nat :=
  let r := flushChain c.chain none
  match r.2 with
  | none => ({ c with chain := r.1 }, 0)
  | some data =>
    ({ chain := r.1, packsize := c.packsize + data.length, digest := crc32Update c.digest data, out := c.out ++ data },
     data.length)

/-- the `unpacksizes` property: one entry per coder in header order (last filter first);
    consecutive native filters share one stage.  `fed` = `_unpacksizes`; `none` = IndexError. -/
def unpacksizesGo (fed : List Nat) : List Bool → Nat → Nat → Bool → List Nat → Option (List Nat)
  | [], _, _, _, result => some result
  | r :: rest, i, shift, prev, result =>
    let shift' := if r && prev then shift + 1 else shift
    match fed[i - shift']? with
    | none => none
    | some v => unpacksizesGo fed rest (i + 1) shift' r (v :: result)

def unpacksizesOf (methodsMap : List Bool) (fed : List Nat) : Option (List Nat) :=
  unpacksizesGo fed methodsMap 0 0 false []

/-- a whole folder: members one after the other, then flush -/
def compressAll {σ} (c : Cmp σ) : List (List Bytes) → Cmp σ × List (Nat × Nat)
  | [] => (c, [])
  | m :: ms =>
    let r := compressMember c m
    let rest := compressAll r.cmp ms
    (rest.1, (r.insize, r.crc) :: rest.2)

end SevenZ.Impl
