/-
Model of the lexical path arithmetic: pathlib's POSIX parsing as far as py7zr uses it, and
py7zr/helpers.py:293-385 (`remove_relative_path_marker`, `canonical_path`, `is_relative_to`,
`get_sanitized_output_path`, `check_archive_path`, `is_path_valid`) and
py7zr/py7zr.py:911-928 (`_sanitize_archive_arcname`).  POSIX flavour only.
Strings are lists of characters.
-/
namespace SevenZ

abbrev Str := List Char

/-- `str.split('/')` -/
def splitSlash : Str → List Str
  | [] => [[]]
  | c :: rest =>
    if c = '/' then [] :: splitSlash rest
    else match splitSlash rest with
      | [] => [[c]]          -- unreachable: splitSlash never returns []
      | w :: ws => (c :: w) :: ws

/-- a parsed `PurePosixPath`: root is `""`, `"/"` or `"//"`; components contain no slash,
    are non-empty and are not `"."` -/
structure PPath where
  root : Str
  comps : List Str
  deriving DecidableEq, Repr

/-- pathlib's root rule: exactly two leading slashes are kept as `//`, any other positive
    number collapses to `/` -/
def rootOf : Str → Str
  | '/' :: '/' :: '/' :: _ => ['/']
  | '/' :: '/' :: _ => ['/', '/']
  | '/' :: _ => ['/']
  | _ => []

def parse (s : Str) : PPath :=
  { root := rootOf s, comps := (splitSlash s).filter (fun c => c ≠ [] ∧ c ≠ ['.']) }

def PPath.isAbsolute (p : PPath) : Bool := p.root ≠ []

/-- `p.parts` -/
def PPath.parts (p : PPath) : List Str := (if p.root = [] then [] else [p.root]) ++ p.comps

/-- `p.joinpath(q)` for already parsed operands -/
def PPath.join (p q : PPath) : PPath :=
  if q.isAbsolute then q else { root := p.root, comps := p.comps ++ q.comps }

/-- `pathlib.Path(*stack)` where the stack came from `parts` -/
def ofParts (parts : List Str) : PPath :=
  match parts with
  | r :: rest => if r = ['/'] ∨ r = ['/', '/'] then { root := r, comps := rest } else { root := [], comps := r :: rest }
  | [] => { root := [], comps := [] }

/-- `str(p)` / `p.as_posix()` -/
def PPath.toStr (p : PPath) : Str :=
  if p.root = [] ∧ p.comps = [] then ['.']
  else p.root ++ (List.intercalate ['/'] p.comps)

namespace Impl

/-- the stack loop of `canonical_path` (helpers.py:314-328) -/
def canonStack : List Str → List Str → List Str
  | stack, [] => stack
  | stack, p :: ps =>
    if p ≠ ['.', '.'] ∨ stack = [] then canonStack (stack ++ [p]) ps
    else if stack.getLast? = some ['.', '.'] then canonStack (stack ++ [p]) ps
    else if stack.getLast? = some ['/'] then canonStack stack ps
    else canonStack stack.dropLast ps

def canonicalPath (p : PPath) : PPath := ofParts (canonStack [] p.parts)

/-- `my.relative_to(other)` succeeds: same anchor and `other`'s components are a prefix -/
def relativeTo (my other : PPath) : Bool := my.root = other.root && other.comps.isPrefixOf my.comps

/-- `is_relative_to(my, other)` (helpers.py:331-337): only `other` is canonicalised -/
def isRelativeTo (my other : PPath) : Bool := relativeTo my (canonicalPath other)

/-- `is_path_valid(target, parent)` for an absolute `parent` -/
def isPathValid (target parent : PPath) : Bool := isRelativeTo (canonicalPath target) parent

def dropWhileSlash : Str → Str
  | '/' :: rest => dropWhileSlash rest
  | s => s

/-- `remove_relative_path_marker` -/
def removeRelMarker : Str → Str
  | '.' :: '/' :: rest => rest
  | s => s

/-- `get_sanitized_output_path(fname, path)` for a given (absolute or cwd-joined) `path`
    (helpers.py:340-356); `none` = Bad7zFile -/
def sanitizedOutputPath (fname : Str) (path : PPath) : Option PPath :=
  let fname := if fname.head? = some '/' then dropWhileSlash fname else fname
  let outfile := canonicalPath (path.join (parse (removeRelMarker fname)))
  if isRelativeTo outfile path then some outfile else none

/-- `get_sanitized_output_path(fname, None)` as pinned: checked against the working directory,
    but the *uncanonicalised* name, read a second time after removing the marker, is returned -/
def sanitizedOutputPathCwdPinned (fname : Str) (cwd : PPath) : Option PPath :=
  let fname := if fname.head? = some '/' then dropWhileSlash fname else fname
  let target := canonicalPath (cwd.join (parse fname))
  if isRelativeTo target cwd then some (parse (removeRelMarker fname)) else none

/-- `get_sanitized_output_path(fname, None)` after the repair: the checked path, relative to the
    working directory (`target_path.relative_to(canonical_path(cwd))`) -/
def sanitizedOutputPathCwd (fname : Str) (cwd : PPath) : Option PPath :=
  let fname := if fname.head? = some '/' then dropWhileSlash fname else fname
  let target := canonicalPath (cwd.join (parse fname))
  if isRelativeTo target cwd then
    some { root := [], comps := target.comps.drop (canonicalPath cwd).comps.length }
  else none

/-- the literal probe directory of the pinned tree's `check_archive_path` -/
def probeDir : PPath :=
  { root := ['/'], comps := ["foo".toList, "boo".toList, "fuga".toList, "hoge".toList,
                              "a90sufoiasj09".toList, "dafj08sajfa".toList] }

/-- `check_archive_path` as pinned (helpers.py:359-373): test against a dummy parent -/
def checkArchivePathProbe (arcname : Str) : Bool :=
  let a := parse arcname
  if a.isAbsolute then false else isPathValid (probeDir.join a) probeDir

/-- the depth walk of the repaired `check_archive_path` -/
def depthWalk : Nat → List Str → Bool
  | _, [] => true
  | d, p :: ps =>
    if p = ['.', '.'] then
      match d with
      | 0 => false
      | d' + 1 => depthWalk d' ps
    else depthWalk (d + 1) ps

/-- `check_archive_path` after the repair: '..' is resolved against a virtual root -/
def checkArchivePath (arcname : Str) : Bool :=
  let a := parse arcname
  if a.isAbsolute then false else depthWalk 0 a.parts

def isAsciiLetter (c : Char) : Bool := ('a' ≤ c ∧ c ≤ 'z') ∨ ('A' ≤ c ∧ c ≤ 'Z')

/-- `re.match("^[a-zA-Z]:", path)` -/
def hasDrive : Str → Bool
  | c :: ':' :: _ => isAsciiLetter c
  | _ => false

/-- `_sanitize_archive_arcname` (py7zr.py:911-928); `none` = AbsolutePathError -/
def sanitizeArcname (arcname : Str) : Option Str :=
  let path := if arcname.head? = some '/' then dropWhileSlash arcname else arcname
  let path :=
    if hasDrive path then
      let p2 := path.drop 2
      if p2.head? = some '/' then dropWhileSlash p2 else p2
    else path
  if path.head? = some '/' ∨ hasDrive path then none else some path

/-- the name `_make_file_info` stores: `pathlib.Path(arcname).as_posix()` -/
def storedName (arcname : Str) : Str := (parse arcname).toStr

end Impl

namespace Spec

/-- Independent definition for C16: resolve the name component by component against a
    virtual archive root, keeping the directory stack; climbing out of the root escapes. -/
def resolve : List Str → List Str → Option (List Str)
  | stack, [] => some stack
  | stack, c :: cs =>
    if c = [] ∨ c = ['.'] then resolve stack cs
    else if c = ['.', '.'] then
      match stack.reverse with
      | [] => none
      | _ :: up => resolve up.reverse cs
    else resolve (stack ++ [c]) cs

/-- accept iff the name is not absolute and never climbs above the root -/
def nameStaysInside (s : Str) : Bool :=
  match s with
  | '/' :: _ => false
  | _ => (resolve [] (splitSlash s)).isSome

end Spec
end SevenZ
