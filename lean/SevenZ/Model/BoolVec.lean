/-
Model of py7zr/archiveinfo.py:177-204,225 (`read_boolean`, `write_boolean`, `bits_to_bytes`).
Bits are packed most-significant first, eight to a byte.
-/
import SevenZ.Model.Number
namespace SevenZ

/-- `bits_to_bytes`: `-(-n // 8)` -/
def bitsToBytes (n : Nat) : Nat := (n + 7) / 8

/-- value of up to eight bits, most significant first, starting at weight `w` -/
def bitsVal : List Bool → Nat → Nat
  | [], _ => 0
  | b :: bs, w => (if b then w else 0) + bitsVal bs (w / 2)

/-- the `o[i // 8] |= 1 << (7 - i % 8)` loop, one output byte per eight input bits
    (fuel = number of bits, so the recursion is structural) -/
def packBitsF : Nat → List Bool → Bytes
  | 0, _ => []
  | _ + 1, [] => []
  | f + 1, b :: rest => bitsVal ((b :: rest).take 8) 128 :: packBitsF f ((b :: rest).drop 8)

def packBits (bs : List Bool) : Bytes := packBitsF bs.length bs

/-- the first `k ≤ 8` bits of a byte: `b & mask != 0` for `mask = 0x80, 0x40, …` -/
def unpackByte (b : Nat) (k : Nat) : List Bool :=
  (List.range k).map (fun i => (b &&& (0x80 >>> i)) != 0)

namespace Impl

/-- `write_boolean(file, booleans, all_defined)` (archiveinfo.py:194-204) -/
def writeBools (bools : List Bool) (allDefined : Bool) : Bytes :=
  if allDefined && bools.all id then [1]
  else (if allDefined then [0] else []) ++ packBits bools

/-- the bit loop of `read_boolean`: a new byte is fetched whenever `mask == 0`, i.e. once
    per eight bits.  `none` = `ord(b"")` TypeError at end of input.  `fuel` ≥ `count`. -/
def readBitsF : Nat → Nat → Bytes → Option (List Bool × Bytes)
  | 0, count, bs => if count = 0 then some ([], bs) else none
  | f + 1, count, bs =>
    if count = 0 then some ([], bs)
    else match bs with
      | [] => none
      | b :: rest =>
        let k := min count 8
        match readBitsF f (count - k) rest with
        | none => none
        | some (more, rest') => some (unpackByte b k ++ more, rest')

def readBits (count : Nat) (bs : Bytes) : Option (List Bool × Bytes) := readBitsF count count bs

/-- `read_boolean(file, count, checkall)` (archiveinfo.py:177-191).
    With `checkall`, the all-defined byte is "anything but 0x00"; at end of input
    `file.read(1)` is `b""`, which also differs from `b"\x00"`. -/
def readBools (count : Nat) (checkall : Bool) (bs : Bytes) : Option (List Bool × Bytes) :=
  if checkall then
    match bs with
    | [] => some (List.replicate count true, [])
    | a :: rest => if a ≠ 0 then some (List.replicate count true, rest) else readBits count rest
  else readBits count bs

end Impl
end SevenZ
