/-
Model of the decision logic around encryption (py7zr.py:328-415,762-774,
archiveinfo.py:998-1017, compressor.py:606-611, py7zr.py:1433-1437): the header-mode state
machine, the password gate, and the CRC gate in front of delivery.
-/
import SevenZ.Model.Aes
import SevenZ.Model.Listing
import SevenZ.Model.Utf16
namespace SevenZ.Impl

/-- (encoded_header_mode, header_encryption) -/
structure HeaderMode where
  encoded : Bool := true
  encrypted : Bool := false
  deriving DecidableEq, Repr

inductive ModeOp where
  | setEncoded (b : Bool)        -- set_encoded_header_mode
  | setEncrypted (b : Bool)      -- set_encrypted_header
  deriving DecidableEq, Repr

/-- the constructor: `encoded_header_mode = True`, `header_encryption = flag` -/
def initMode (flag : Bool) : HeaderMode := { encoded := true, encrypted := flag }

def stepMode (m : HeaderMode) : ModeOp → HeaderMode
  | .setEncoded true => { m with encoded := true }
  | .setEncoded false => { encoded := false, encrypted := false }
  | .setEncrypted true => { encoded := true, encrypted := true }
  | .setEncrypted false => { m with encrypted := false }

inductive HeaderForm where | raw | encoded | encrypted
  deriving DecidableEq, Repr

/-- which form `Header.write(file, afterheader, encoded, encrypted)` emits: `encrypted` is
    tested first and selects the 7zAES filter -/
def headerForm (m : HeaderMode) : HeaderForm :=
  if m.encrypted then .encrypted else if m.encoded then .encoded else .raw

inductive OpenResult where
  | passwordRequired
  | proceed
  deriving DecidableEq, Repr

/-- `SevenZipDecompressor.__init__`: the password gate, evaluated before any byte is decoded -/
def decoderGate (coders : List Bytes) (password : Option Unit) : OpenResult :=
  if coders.any (fun id => id = aesId) ∧ password.isNone then .passwordRequired else .proceed

/-- `_extract_single`'s gate in front of a successful delivery: the decoded bytes `g` are
    accepted only if their CRC equals the stored digest (when one is stored) -/
def deliver (crc : Bytes → Nat) (digest : Option Nat) (g : Bytes) : Option Bytes :=
  match digest with
  | none => some g
  | some d => if crc g = d then some g else none

end SevenZ.Impl

namespace SevenZ.Impl

/-- what the 7zAES key derivation hashes in every round before the 8-byte round counter
    (compressor.py:120,201 `calculate_key(password.encode("utf-16LE"), cycles, salt, "sha256")`,
    helpers.py `_calculate_key*`: `salt + password`): the salt, then the UTF-16LE code units of the
    password exactly as the caller gave it -- no normalisation, no terminator -/
def keyMaterial (salt : Bytes) (pw : List Nat) : Bytes :=
  salt ++ unitsToBytes (pw.flatMap unitsOf)

/-- the derivation with the hash left abstract (`absorb`/`finish` over a state `σ`): `cycles = 0x3F` is the
    unhashed form (first 32 bytes of salt ++ password ++ zeros); otherwise `2^cycles` rounds, each absorbing
    the key material and the little-endian round counter -/
def deriveKey {σ : Type} (init : σ) (absorb : σ → Bytes → σ) (finish : σ → Bytes)
    (cycles : Nat) (salt : Bytes) (pw : List Nat) : Bytes :=
  if cycles = 0x3F then (keyMaterial salt pw ++ List.replicate 32 0).take 32
  else finish ((List.range (2 ^ cycles)).foldl
    (fun st i => absorb st (keyMaterial salt pw ++ (List.range 8).map (fun k => i / 256 ^ k % 256))) init)

end SevenZ.Impl
