/-
Model of `SevenZipDecompressor._decompress` (compressor.py:672-684): the loop over the coder
chain.  Every stage is handed the caller's `max_length`; a stage's output is cut at the size
the header declares for that coder; a finished stage accepts only empty input.
-/
import SevenZ.Model.Number
namespace SevenZ

structure StageSt (σ : Type) where
  st : σ
  unpacked : Nat
  size : Nat

namespace Impl

/-- returns `none` for the EOFError branch, else (result, length of what each stage's decoder
    returned in this call, new stage states) -/
def stagesStep {σ} (dec : σ → Bytes → Nat → σ × Bytes) : List (StageSt σ) → Bytes → Nat →
    Option (Bytes × List Nat × List (StageSt σ))
  | [], data, _ => some (data, [], [])
  | s :: rest, data, k =>
    if s.unpacked < s.size then
      let r := dec s.st data k
      let out := r.2.take (s.size - s.unpacked)
      match stagesStep dec rest out k with
      | some (res, lens, sts) => some (res, r.2.length :: lens, { s with st := r.1, unpacked := s.unpacked + out.length } :: sts)
      | none => none
    else if data.length = 0 then
      match stagesStep dec rest [] k with
      | some (res, lens, sts) => some (res, 0 :: lens, s :: sts)
      | none => none
    else none

end Impl
end SevenZ
