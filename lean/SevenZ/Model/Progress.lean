/-
Model of the progress-report path (py7zr.py: `_extract` puts pre/post, `_extract_single` puts
s/e per member, `Worker.decompress` puts u; `reporter` drains the queue; `close` posts the
sentinel and joins).
-/
import SevenZ.Model.Conc
namespace SevenZ

inductive PEv where
  | pre
  | post
  | start (m : Nat)
  | update (m : Nat) (bytes : Nat)   -- the member tag is the model's; the callback sees only the bytes
  | finish (m : Nat) (bytes : Nat)
  deriving DecidableEq, Repr

/-- a member as the worker meets it: id, size, whether it is delivered (a target), and how the
    decode loop's updates split its bytes -/
structure PMember where
  id : Nat
  size : Nat
  delivered : Bool
  chunks : List Nat
  deriving DecidableEq, Repr

namespace Impl

/-- `_extract_single`, one member: 's', then (targets with data only) the 'u' events of
    `decompress`, then 'e' carrying the uncompressed size -/
def memberEvents (m : PMember) : List PEv :=
  [.start m.id] ++ (if m.delivered then m.chunks.map (.update m.id) else []) ++ [.finish m.id m.size]

def workerEvents (ms : List PMember) : List PEv := ms.flatMap memberEvents

/-- `Worker.decompress` bookkeeping: bytes decoded per loop iteration, and at which iterations
    an update is due (member complete, or a second has passed); the counter is reset after
    every update -/
def updatesGo (acc : Nat) : List (Nat × Bool) → List Nat
  | [] => []
  | [(n, _)] => [acc + n]                         -- out_remaining reaches 0: always reported
  | (n, due) :: rest => if due then (acc + n) :: updatesGo 0 rest else updatesGo (acc + n) rest

/-- everything the producers put on the queue during one `_extract` call, for one interleaving
    `l` of the workers' event lists -/
def queued (l : List PEv) : List PEv := .pre :: l ++ [.post]

/-- the reporter loop: deliver until the sentinel -/
def drain : List (Option PEv) → List PEv
  | [] => []
  | none :: _ => []
  | some e :: rest => e :: drain rest

/-- queue/reporter state machine: what has been enqueued so far, what the reporter has delivered -/
structure QState where
  hist : List PEv
  pending : List PEv
  delivered : List PEv
  deriving Repr

inductive QOp where
  | enq (e : PEv)
  | deq
  deriving Repr

def qstep (s : QState) : QOp → QState
  | .enq e => { s with hist := s.hist ++ [e], pending := s.pending ++ [e] }
  | .deq => match s.pending with
    | [] => s
    | x :: r => { s with pending := r, delivered := s.delivered ++ [x] }

def qinit : QState := { hist := [], pending := [], delivered := [] }

/-- `close()`: sentinel, then join.  `budget = none` waits for the reporter (repaired code);
    `some b` is the pinned `join(1)`: only `b` more events are delivered before close gives up -/
def closeDelivers (s : QState) : Option Nat → List PEv
  | none => s.delivered ++ s.pending
  | some b => s.delivered ++ s.pending.take b

def isStartOf (m : Nat) : PEv → Bool
  | .start k => k = m
  | _ => false
def isFinishOf (m : Nat) : PEv → Bool
  | .finish k _ => k = m
  | _ => false
def about (m : Nat) : PEv → Bool
  | .start k => k = m
  | .update k _ => k = m
  | .finish k _ => k = m
  | _ => false
def updBytes : PEv → Nat
  | .update _ b => b
  | _ => 0

end Impl
end SevenZ
