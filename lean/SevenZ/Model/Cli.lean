/-
Model of the decision logic of py7zr/cli.py: the `-v SIZE` parser (cli.py:95,382-395) and
the exit status of `t` and `x` as a function of what the library does (cli.py:297-380,
py7zr/__main__.py).
-/
import SevenZ.Model.Path
namespace SevenZ.Impl

def isDigit (c : Char) : Bool := '0' ≤ c ∧ c ≤ '9'

/-- units listed in `Cli.dunits` -/
def unitMult (u : Str) : Option Nat :=
  if u = ['b'] ∨ u = ['B'] then some 1
  else if u = ['k'] ∨ u = ['K'] then some 1024
  else if u = ['m'] ∨ u = ['M'] then some (1024 * 1024)
  else if u = ['g'] ∨ u = ['G'] then some (1024 * 1024 * 1024)
  else none

/-- the characters `[bkmg]` matches under `re.IGNORECASE` (U+212A KELVIN SIGN folds to `k`) -/
def isUnitChar (c : Char) : Bool :=
  c = 'b' ∨ c = 'B' ∨ c = 'k' ∨ c = 'K' ∨ c = 'm' ∨ c = 'M' ∨ c = 'g' ∨ c = 'G' ∨ c = Char.ofNat 0x212A

/-- `unit_pattern.match(size)` for `^([0-9]+)([bkmg]?)$`: returns the two groups.
    `$` also matches before a single trailing newline. -/
def matchSize (s : Str) : Option (Str × Str) :=
  let digits := s.takeWhile isDigit
  let rest := s.dropWhile isDigit
  if digits = [] then none
  else
    let rest' := if rest.getLast? = some '\n' then rest.dropLast else rest
    match rest' with
    | [] => some (digits, [])
    | [u] => if isUnitChar u then some (digits, [u]) else none
    | _ => none

/-- `_check_volumesize_valid` -/
def checkVolumeSize (s : Str) : Bool := (matchSize s).isSome

def digitsVal (ds : Str) : Nat := ds.foldl (fun acc c => acc * 10 + (c.toNat - '0'.toNat)) 0

/-- outcome of `_volumesize_unitconv`: a size, `-1` (no match), or KeyError -/
inductive ConvResult where
  | size (n : Nat)
  | minusOne
  | keyError
  deriving DecidableEq, Repr

/-- `_volumesize_unitconv` (cli.py:388-395).  `repaired = false`: the pinned test
    `unit is None`, which is never true (the group is `''`); `true`: `not unit`. -/
def unitConv (repaired : Bool) (s : Str) : ConvResult :=
  match matchSize s with
  | none => .minusOne
  | some (num, unit) =>
    if repaired ∧ unit = [] then .size (digitsVal num)
    else match unitMult unit with
      | some m => .size (digitsVal num * m)
      | none => .keyError

/-- what the library call sequence of a subcommand ends in -/
inductive Outcome where
  | ok
  | notSevenZip          -- is_7zfile false
  | bad7z | passwordRequired | crcMismatch | unsupportedMethod | decompressionError | lzmaError
  | otherException       -- anything the handler does not name
  deriving DecidableEq, Repr

/-- exit status of `py7zr t`: named exceptions are mapped to 1 by the handler, a CRC mismatch
    is reported by `testzip()` returning a name, anything else escapes and the interpreter
    exits with status 1 -/
def statusTest : Outcome → Nat
  | .ok => 0
  | _ => 1

/-- exit status of `py7zr x` -/
def statusExtract : Outcome → Nat
  | .ok => 0
  | _ => 1

end SevenZ.Impl
