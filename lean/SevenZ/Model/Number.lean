/-
Model of py7zr/archiveinfo.py:104-174 (`read_uint64`, `write_uint64`) and of the NUMBER
encoding as described in docs/archive_format.rst.  Bytes are naturals < 256.
No imports: this file is linked into the native correspondence driver.
-/
namespace SevenZ

abbrev Bytes := List Nat

/-- every element is a byte -/
def IsBytes (bs : Bytes) : Prop := ∀ b ∈ bs, b < 256

/-- `n.to_bytes(k, "little")` (no overflow check: the callers guarantee `n < 256^k`). -/
def leBytes (n : Nat) : Nat → Bytes
  | 0 => []
  | k + 1 => (n % 256) :: leBytes (n / 256) k

/-- `int.from_bytes(bs, "little")` -/
def ofLE : Bytes → Nat
  | [] => 0
  | b :: bs => b + 256 * ofLE bs

/-- `(value.bit_length() + 7) // 8` for `value > 0`, by repeated division
    (structural on a fuel argument so that it evaluates in the kernel) -/
def byteLenF : Nat → Nat → Nat
  | 0, _ => 1
  | f + 1, v => if v < 256 then 1 else 1 + byteLenF f (v / 256)

def byteLen (v : Nat) : Nat := byteLenF v v

/-- `0x80 | 0x80>>1 | … ` with `k` leading one bits: the value of
    `for x in range(k): m |= 0x80 >> x` started from `0`. -/
def prefixMask : Nat → Nat
  | 0 => 0
  | k + 1 => prefixMask k ||| (0x80 >>> k)

namespace Impl

/-- `write_uint64` (archiveinfo.py:139-174). -/
def writeNumber (value : Nat) : Bytes :=
  if value < 0x80 then [value]
  else if value > 0xFFFFFFFFFFFFFF then 0xFF :: leBytes value 8
  else
    let byteLength := byteLen value
    let ba := leBytes value byteLength
    let highByte := ba.getLastD 0
    if highByte < 2 <<< (8 - byteLength - 1) then
      (highByte ||| prefixMask (byteLength - 1)) :: ba.take (byteLength - 1)
    else
      (0x80 ||| prefixMask byteLength) :: ba

/-- the `blen` table scan of `read_uint64`: returns `(vlen, mask)`. -/
def scanBlen (b : Nat) : Nat × Nat :=
  let rec go (tbl : List (Nat × Nat)) (mask : Nat) : Nat × Nat :=
    match tbl with
    | [] => (8, mask)
    | (v, l) :: rest => if b ≤ v then (l, mask) else go rest (mask >>> 1)
  go [(0x7F, 0), (0xBF, 1), (0xDF, 2), (0xEF, 3), (0xF7, 4), (0xFB, 5), (0xFD, 6), (0xFE, 7)] 0x80

/-- `read_uint64` (archiveinfo.py:104-131).  `none` models the exceptions
    (`ord(b"")` → TypeError, `struct.unpack` on a short buffer → struct.error).
    A short read of the extra bytes of a non-0xFF form does *not* fail in the code
    (`int.from_bytes` of what was read) and does not fail here. -/
def readNumber : Bytes → Option (Nat × Bytes)
  | [] => none
  | b :: rest =>
    if b = 255 then
      if rest.length < 8 then none else some (ofLE (rest.take 8), rest.drop 8)
    else
      let (vlen, mask) := scanBlen b
      if vlen = 0 then some (b &&& (mask - 1), rest)
      else
        let val := rest.take vlen
        let highpart := b &&& (mask - 1)
        some (ofLE val + (highpart <<< (vlen * 8)), rest.drop vlen)

end Impl

namespace Spec

/-- number of leading one bits of a byte (0..8), from the table in
    docs/archive_format.rst "NUMBER". -/
def leadingOnes (b : Nat) : Nat :=
  if b < 0x80 then 0 else if b < 0xC0 then 1 else if b < 0xE0 then 2 else if b < 0xF0 then 3
  else if b < 0xF8 then 4 else if b < 0xFC then 5 else if b < 0xFE then 6 else if b < 0xFF then 7
  else 8

/-- Decoder written from the specification: first byte with `n` leading ones, then `n`
    bytes little-endian; the bits of the first byte below the terminating zero are the
    most significant bits.  Strict: fails when fewer than `n` extra bytes are present. -/
def decodeNumber : Bytes → Option (Nat × Bytes)
  | [] => none
  | b :: rest =>
    let n := leadingOnes b
    if rest.length < n then none
    else
      let low := ofLE (rest.take n)
      let high := if n ≥ 7 then 0 else b % 2 ^ (7 - n)
      some (low + high * 256 ^ n, rest.drop n)

end Spec
end SevenZ
