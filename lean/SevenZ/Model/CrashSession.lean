/-
The ordered positioned writes a session issues on the archive file (C14): what `_prepare_write`,
`_write_flush` / `_write_header` (py7zr.py:676-706) and `_prepare_append` (py7zr.py:658-674) put on the
file, in the order they put it.  Consecutive writes at consecutive offsets are one operation here; crash
points are taken at byte granularity (`crashImage`), so the grouping of the real writes is immaterial.
-/
import SevenZ.Model.Crash
import SevenZ.Model.WriteSession
import SevenZ.Model.EncodedHeader
import SevenZ.Model.AppendSession
namespace SevenZ.Impl

/-- a create session: the placeholder at offset 0, everything else from offset 32 on, the signature header last -/
def createOps (sig body : Bytes) : List WriteOp :=
  [⟨0, skeleton⟩, ⟨32, body⟩, ⟨0, sig⟩]

/-- an append session: the new packed data and the header from the end of the old packed data on (over the old
    header), the signature header last -/
def appendOps (pos : Nat) (sig tail : Bytes) : List WriteOp :=
  [⟨pos, tail⟩, ⟨0, sig⟩]

/-- the writes of a create session in raw header mode -/
def sessionOps {σ} (cfg : WConfig σ) (ms : List WMember) : Option (List WriteOp) := do
  let h ← sessionHeader cfg ms
  let c := (sessionCompress cfg ms).1
  let hdr ← writeHeaderRaw true h (32 + c.out.length)
  pure (createOps (sigHeaderBytes c.out.length hdr.length (crc32 hdr)) (c.out ++ hdr))

/-- the writes of a create session in the default (encoded) header mode -/
def sessionOpsEncoded {σ} (cfg : WConfig σ) (hcfg : HConfig σ) (ms : List WMember) : Option (List WriteOp) := do
  let h ← sessionHeader cfg ms
  let out := (sessionCompress cfg ms).1.out
  let (packedHdr, record) ← encodeHeader h hcfg out.length
  pure (createOps (sigHeaderBytes (out.length + packedHdr.length) record.length (crc32 record)) (out ++ packedHdr ++ record))

/-- the writes of an append session (raw header mode) on the image `base` -/
def appendSessionOps {σ} (base : Bytes) (cfg : WConfig σ) (ms : List WMember) : Option (List WriteOp) := do
  let H ← headerOfImage base
  let (H', out) ← (if ms.isEmpty then some (H, ([] : Bytes)) else
    (appendHeader H cfg ms).map (fun h => (h, (sessionCompress cfg ms).1.out)))
  let hdr ← writeHeaderRaw true H' (appendPos H + out.length)
  pure (appendOps (appendPos H) (sigHeaderBytes (appendPos H + out.length - 32) hdr.length (crc32 hdr)) (out ++ hdr))

/-- the writes of an append session in the default (encoded) header mode on the image `base` -/
def appendSessionOpsEncoded {σ} (base : Bytes) (cfg : WConfig σ) (hcfg : HConfig σ) (ms : List WMember) : Option (List WriteOp) := do
  let H ← headerOfImageIdEnc base
  let (H', out) ← (if ms.isEmpty then some (H, ([] : Bytes)) else
    (appendHeader H cfg ms).map (fun h => (h, (sessionCompress cfg ms).1.out)))
  let pos := appendPos H
  let (packedHdr, record) ← encodeHeader H' hcfg (pos - 32 + out.length)
  pure (appendOps pos (sigHeaderBytes (pos + out.length + packedHdr.length - 32) record.length (crc32 record))
    (out ++ packedHdr ++ record))

/-- the reader's second gate (py7zr.py `_real_get_contents`: `_read_full(nextheadersize)` then the CRC comparison):
    whatever can be read of the header the signature header points at -- `_read_full` stops at end of file without
    complaint -- must carry the stored CRC; `none` = Bad7zFile -/
def headerGate (img : Bytes) : Option Bytes :=
  if startHeaderOk img then
    let ofs := ofLE ((img.drop 12).take 8)
    let size := ofLE ((img.drop 20).take 8)
    let crc := ofLE ((img.drop 28).take 4)
    let hdr := (img.drop (32 + ofs)).take size
    if crc32 hdr = crc then some hdr else none
  else none

end SevenZ.Impl
