"""Harness-side scheduler for the parallel extraction path (C13, C18).

Workers of py7zr write their output through a WriterFactory; the factory below hands out writers whose
write() first waits until the scheduler says it is that member's turn.  A schedule is a list of member
names: the i-th output write overall must belong to order[i].  With `serial_exit` a step whose member is the
last one of its folder is considered complete only when the worker thread that performed it has terminated,
so that "worker j finishes after worker i has been joined" can be forced.

Everything here lives in the harness; the implementation is not modified.
"""
import itertools
import os
import threading
import time

import py7zr
from py7zr.io import Py7zIO, WriterFactory


class Sched:
    def __init__(self, order, last_of_folder=(), serial_exit=True, wait=3.0, settle=0.0):
        self.order = list(order)
        self.pos = 0
        self.cv = threading.Condition()
        self.trace = []
        self.enforced = True
        self.last_of_folder = set(last_of_folder)
        self.serial_exit = serial_exit
        self.wait = wait
        self.settle = settle
        self.prev_thread = None
        self.threads = set()
        self.t_end = None

    def gate(self, name):
        me = threading.current_thread()
        prev = None
        with self.cv:
            self.threads.add(me.ident)
            deadline = time.time() + self.wait
            while self.pos < len(self.order) and self.order[self.pos] != name:
                if name not in self.order[self.pos:]:
                    break  # a write the schedule does not mention (second chunk of a member)
                rem = deadline - time.time()
                if rem <= 0:
                    self.enforced = False
                    break
                self.cv.wait(rem)
            prev = self.prev_thread
        if self.serial_exit and prev is not None and prev is not me:
            prev.join(self.wait)
            if prev.is_alive():
                self.enforced = False
            if self.settle:
                time.sleep(self.settle)

    def done(self, name):
        me = threading.current_thread()
        with self.cv:
            self.trace.append(name)
            if self.pos < len(self.order) and self.order[self.pos] == name:
                self.pos += 1
            elif name in self.order[self.pos:]:
                self.enforced = False
                self.order.remove(name)
            self.prev_thread = me if name in self.last_of_folder else None
            self.cv.notify_all()

    def skip(self, name):
        """the member will never be written (its worker stopped): let the others go on"""
        with self.cv:
            if name in self.order[self.pos:]:
                i = self.order.index(name, self.pos)
                del self.order[i]
            self.cv.notify_all()


class SchedIO(Py7zIO):
    def __init__(self, key, sched, fail=None, delay=0.0):
        self.key, self.sched, self.fail, self.delay = key, sched, fail, delay
        self.buf = bytearray()
        self.writes = 0
        self.sizes = []

    def write(self, s):
        if self.sched is not None:
            self.sched.gate(self.key)
        try:
            if self.delay:
                time.sleep(self.delay)
            if self.fail is not None:
                raise self.fail
            self.buf += s
            self.writes += 1
            self.sizes.append(len(s))
            return len(s)
        finally:
            if self.sched is not None:
                self.sched.done(self.key)

    def read(self, size=None):
        return bytes(self.buf)

    def seek(self, offset, whence=0):
        return 0

    def flush(self):
        pass

    def size(self):
        return len(self.buf)


class SchedFactory(WriterFactory):
    def __init__(self, sched, prefix="", fail_on=None, fail_exc=None, delays=None):
        self.sched, self.prefix, self.fail_on, self.fail_exc = sched, prefix, fail_on, fail_exc
        self.delays = delays or {}
        self.products = {}
        self.lock = threading.Lock()

    def create(self, filename):
        name = self.strip(filename)
        io_ = SchedIO(self.prefix + name, self.sched, self.fail_exc if name == self.fail_on else None, self.delays.get(name, 0.0))
        with self.lock:
            self.products[name] = io_
        return io_

    @staticmethod
    def strip(filename):
        # MemIO names are sanitized absolute output paths: cwd + member name
        cwd = os.getcwd().rstrip("/") + "/"
        return filename[len(cwd):] if filename.startswith(cwd) else filename.lstrip("/")

    def result(self):
        return {n: bytes(p.buf) for n, p in self.products.items()}


def interleavings(counts):
    """all sequences over range(len(counts)) in which i occurs counts[i] times"""
    total = sum(counts)
    cur = []
    left = list(counts)

    def rec():
        if len(cur) == total:
            yield tuple(cur)
            return
        for i in range(len(left)):
            if left[i]:
                left[i] -= 1
                cur.append(i)
                yield from rec()
                cur.pop()
                left[i] += 1
    return rec()


def count_interleavings(counts):
    import math
    n = math.factorial(sum(counts))
    for c in counts:
        n //= math.factorial(c)
    return n


def sample_interleaving(rng, counts):
    seq = [i for i, c in enumerate(counts) for _ in range(c)]
    rng.shuffle(seq)
    return tuple(seq)


def build_multifolder(path, rng, shape, codecs, extras=False, sizes=(1, 3000)):
    """one write/append session per folder -> list of folders, each a list of (name, data); extra entries
    (a directory and an empty file) ride in the first session"""
    import arclib
    folders = []
    extra = []
    for i, m in enumerate(shape):
        filt = codecs[i % len(codecs)]
        with py7zr.SevenZipFile(path, "w" if i == 0 else "a", filters=filt) as z:
            z.set_encoded_header_mode(False)      # raw header: damage_digest() can find the stored digests
            members = []
            for j in range(m):
                data = rng.randbytes(rng.randrange(max(sizes[0], 24), sizes[1]))
                name = "fol%d/m%d_%d.bin" % (i, i, j)
                z.writestr(data, name)
                members.append((name, data))
            if extras and i == 0:
                z.writestr(b"", "empty.file")
                extra.append(("empty.file", b""))
        folders.append(members)
    with py7zr.SevenZipFile(path) as z:
        nf = z.header.main_streams.unpackinfo.numfolders
    assert nf == len(shape), (nf, shape)
    return folders, extra


def damage_digest(raw, data):
    """alter the stored CRC-32 of the member whose bytes are `data` (raw header), re-sealing the header CRCs: the
    member decodes to its right bytes under any codec, and its per-member check fails"""
    import struct
    import zlib
    ofs, size, _ = struct.unpack("<QQL", raw[12:32])
    payload, hdr = raw[32:32 + ofs], bytearray(raw[32 + ofs:32 + ofs + size])
    assert hdr[:1] == b"\x01"
    crc = struct.pack("<L", zlib.crc32(data) & 0xFFFFFFFF)
    pos = bytes(hdr).find(crc)
    assert pos >= 0 and bytes(hdr).find(crc, pos + 1) < 0
    hdr[pos] ^= 0x5A
    start = struct.pack("<QQL", len(payload), len(hdr), zlib.crc32(bytes(hdr)) & 0xFFFFFFFF)
    return raw[:8] + struct.pack("<L", zlib.crc32(start) & 0xFFFFFFFF) + start + payload + bytes(hdr)


def damage_member(raw, data, at=None):
    """flip one byte inside the stored (Copy) image of `data`"""
    pos = raw.find(data)
    assert pos >= 32 and raw.find(data, pos + 1) < 0
    out = bytearray(raw)
    k = pos + (len(data) // 2 if at is None else at)
    out[k] ^= 0x5A
    return bytes(out)
