"""Correspondence stream `hdr`: Header.write / Header._read (raw form) vs the Lean model."""
import hdrlib
import sandbox

# Whether the pinned tree carries the repaired property-size computation (finding F1).
F1_FIXED = 1


def _read_job(data):
    return hdrlib.impl_read(data)


def mutate(rng, data):
    b = bytearray(data)
    k = rng.random()
    if k < 0.35 and b:
        i = rng.randrange(len(b))
        b[i] ^= 1 << rng.randrange(8)
    elif k < 0.6 and b:
        i = rng.randrange(len(b))
        b[i] = rng.choice([0, 1, 0xFF, 0x80, 0x7F, rng.randrange(256)])
    elif k < 0.8 and b:
        del b[rng.randrange(len(b)):]
    elif k < 0.9 and b:
        i = rng.randrange(len(b))
        del b[i:i + rng.randrange(1, 4)]
    else:
        i = rng.randrange(len(b) + 1)
        b[i:i] = rng.randbytes(rng.randrange(1, 4))
    return bytes(b)


def run(ctx, n_write=None, n_mut=None, partial=False, writer_like=True, fail_prefix="C17", empty_folders=False):
    rng = ctx.rng
    n_write = n_write or (1500 if ctx.thorough else 300)
    n_mut = n_mut or (6000 if ctx.thorough else 1200)
    wl, wo, wc = [], [], []
    rl, ro, rc = [], [], []
    written = []
    for i in range(n_write):
        h = hdrlib.gen_header(rng, writer_like=writer_like, partial_vectors=partial, allow_empty_folders=empty_folders)
        pos = rng.choice([0, 1, 2, 3, 32, 33, 34, 35, rng.randrange(0, 5000)])
        dump = hdrlib.d_header(h)
        out = hdrlib.impl_write_raw(h, pos)
        wl.append("hdr.w %d %d %s" % (F1_FIXED, pos, dump))
        wo.append(out)
        nf = len(h.files_info.files)
        wc.append("files%d%s" % (min(nf, 9), "+streams" if h.main_streams else ""))
        if out == "err":
            continue
        data = bytes.fromhex(out) if out != "-" else b""
        written.append(data)
        back = hdrlib.impl_read(data)
        rl.append("hdr.r " + out)
        ro.append(back)
        rc.append("written")
        # direct property on the implementation: what was serialised is what is parsed
        expect = "ok " + expected_after_read(h)
        ctx.case(key=("hdr", dump), nontrivial=nf > 0)
        if back != expect:
            ctx.fail(fail_prefix + ":header_roundtrip", "Header.write then Header._read does not reproduce the header",
                     {"header": dump, "pos": pos, "bytes": out, "read_back": back, "expected": expect})
    ctx.correspond("hdr.w", wl, wo, wc)
    ctx.correspond("hdr.r", rl, ro, rc)
    # malformed stream: mutated serialisations; the implementation runs sandboxed first
    muts = []
    for _ in range(n_mut):
        if not written:
            break
        d = rng.choice(written)
        for _ in range(rng.choice([1, 1, 1, 2, 3])):
            d = mutate(rng, d)
        muts.append(d)
    res = sandbox.pmap(_read_job, muts, timeout=10, mem=1 << 30)
    ml, mo, mc = [], [], []
    for d, (st, val) in zip(muts, res):
        if st != "ok" or val == "memory":
            ctx.count("hdr.mut-impl-blowup", st if st != "ok" else "memory")
            ctx.blowups = getattr(ctx, "blowups", []) + [(st if st != "ok" else "memory", d.hex())]
            continue
        ml.append("hdr.r " + (d.hex() or "-"))
        mo.append(val)
        mc.append(val.split(" ")[0])
    # the model does not follow "external" branches: drop those lines from the comparison
    if ml:
        model = ctx.run_driver(ml)
        keep = [i for i, m in enumerate(model) if m != "unsupported"]
        ctx.count("hdr.mut", "unsupported-skipped", len(ml) - len(keep))
        ctx.correspond("hdr.r-mutated", [ml[i] for i in keep], [mo[i] for i in keep], [mc[i] for i in keep])


def expected_after_read(h):
    """The dump py7zr's reader must produce for a header its writer serialised (lossy fields normalised)."""
    import copy
    import py7zr.archiveinfo as ai
    g = copy.copy(h)
    fi = ai.FilesInfo()
    files = []
    for f in h.files_info.files:
        e = {"emptystream": f["emptystream"]}
        if f.get("filename") is not None:
            e["filename"] = f["filename"]
        e["lastwritetime"] = f.get("lastwritetime")
        e["attributes"] = f.get("attributes")
        files.append(e)
    fi.files = files
    fi.emptyfiles = []
    toks = ["H", hdrlib.d_streams(read_norm_streams(h.main_streams)), hdrlib.d_filesinfo(fi)]
    return " ".join(toks)


def read_norm_streams(s):
    if s is None:
        return None
    import copy
    t = copy.copy(s)
    p = copy.copy(s.packinfo)
    # the reader recomputes enable_digests from the CRCs present
    p.enable_digests = len(p.crcs) > 0 and any(p.digestdefined)
    if not p.enable_digests:
        p.digestdefined = []
        p.crcs = []
    t.packinfo = p
    ss = copy.copy(s.substreamsinfo)
    if not any(n > 1 for n in ss.num_unpackstreams_folders):
        ss.unpacksizes = None
    t.substreamsinfo = ss
    return t
