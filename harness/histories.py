"""Write histories w(M0,F0) a(M1,F1) ... executed through py7zr's public API, with the expected member list."""
import io
import os
import shutil
import tempfile

import arclib


def gen_session(rng, tmp, idx, *, allow_empty=True, kinds=("file", "file", "file", "empty", "dir", "symlink")):
    """-> list of (op, name, kind, data).  op in writestr/writef/write/writeall."""
    n = rng.choice([0, 1, 1, 2, 3, 5]) if allow_empty else rng.choice([1, 2, 3, 5])
    items = []
    names = arclib.gen_names(rng, n)
    for nm in names:
        nm = "s%d/%s" % (idx, nm)
        k = rng.choice(kinds)
        if k == "file":
            items.append((rng.choice(["writestr", "writef", "write"]), nm, "file", arclib.gen_content(rng)))
        elif k == "empty":
            items.append((rng.choice(["writestr", "write"]), nm, "file", b""))
        elif k == "dir":
            items.append(("write", nm, "dir", None))
        else:
            items.append(("write", nm, "symlink", ("../" + rng.choice(["linktargets/t1.txt", "linktargets/sub/t2", "linktargets"])).encode()))
    return items


def run_session(buf, mode, items, tmp, *, filters=None, password=None, header="encoded"):
    """Execute one session on the BytesIO `buf`; returns nothing, raises what py7zr raises."""
    import py7zr
    kw = {}
    if filters is not None:
        kw["filters"] = filters
    if password is not None:
        kw["password"] = password
    if header == "encrypted":
        kw["header_encryption"] = True
    buf.seek(0)
    os.makedirs(os.path.join(tmp, "linktargets", "sub"), exist_ok=True)
    for t in ("t1.txt", "sub/t2"):
        with open(os.path.join(tmp, "linktargets", t), "wb") as f:
            f.write(b"target")
    sdir = tempfile.mkdtemp(dir=tmp)
    with py7zr.SevenZipFile(buf, mode, **kw) as z:
        if header == "raw":
            z.set_encoded_header_mode(False)
        for j, (op, name, kind, data) in enumerate(items):
            if op == "writestr":
                z.writestr(data, name)
            elif op == "writef":
                z.writef(io.BytesIO(data), name)
            else:
                src = os.path.join(sdir, "src_%d" % j)
                if kind == "dir":
                    os.makedirs(src, exist_ok=True)
                elif kind == "symlink":
                    if os.path.lexists(src):
                        os.unlink(src)
                    os.symlink(data.decode(), src)
                else:
                    with open(src, "wb") as f:
                        f.write(data)
                z.write(src, name)


def expected_members(sessions):
    out = []
    for items in sessions:
        for op, name, kind, data in items:
            out.append((name, kind, data))
    return out


_CHAINS = None


def supported(filters, password=None):
    """py7zr refuses some combinations outright (UnsupportedCompressionMethodError): those are not 'supported chains'."""
    from py7zr.compressor import SevenZipCompressor
    from py7zr.exceptions import UnsupportedCompressionMethodError
    try:
        SevenZipCompressor(filters=filters, password=password)
        return True
    except UnsupportedCompressionMethodError:
        return False


def gen_history(rng, tmp, k=None):
    k = rng.choice([1, 1, 2, 2, 3, 4]) if k is None else k
    global _CHAINS
    if _CHAINS is None:
        _CHAINS = [(lab, f) for lab, f in arclib.chains() if supported(arclib.with_aes(f), "x")]
    chains = _CHAINS
    sessions, filters = [], []
    for i in range(k):
        sessions.append(gen_session(rng, tmp, i))
        lab, f = rng.choice(chains)
        filters.append((lab, f))
    return sessions, filters
