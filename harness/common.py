"""Shared machinery of the per-property checks: Lean obligations, correspondence, evidence.

A check module (harness/checks/cXX.py) defines ID, TITLE and run(ctx) and may define
search(ctx, broken) (failing-input search on the implementation after a broken obligation or
correspondence) and replay(ctx, data).
"""
import fcntl
import json
import os
import random
import re
import subprocess
import sys
import time

VERIF = os.path.dirname(os.path.dirname(os.path.abspath(__file__)))
LEAN = os.path.join(VERIF, "lean")
DRIVER = os.path.join(LEAN, ".lake", "build", "bin", "driver")
REPO = "/repo"
ALLOWED_AXIOMS = {"propext", "Classical.choice", "Quot.sound"}
FORBIDDEN = re.compile(r"\bsorry\b|\badmit\b|^\s*axiom\s|native_decide|bv_decide|implemented_by|\bunsafe\s|maxHeartbeats\s+0\b", re.M)

TRUSTED_BASE = [
    "Lean 4.33.0 kernel (thorough tier: leanchecker re-check of the property modules)",
    "axioms allowed per theorem: propext, Classical.choice, Quot.sound (printed and checked every run)",
    "hand-written Lean model of py7zr; tied to /repo by the correspondence streams of this run (differential testing, not proof)",
    "Python harness, generators, canonicaliser and the native driver's line parser",
    "external codecs, Cryptodome AES, zlib.crc32, pathlib, struct, io, threading, the OS: parameters of the model, exercised not verified",
]


def strip_lean_comments(src):
    # remove nested block comments and line comments
    out = []
    i = 0
    depth = 0
    n = len(src)
    while i < n:
        if src.startswith("/-", i):
            depth += 1
            i += 2
        elif depth and src.startswith("-/", i):
            depth -= 1
            i += 2
        elif depth:
            i += 1
        elif src.startswith("--", i):
            j = src.find("\n", i)
            i = n if j < 0 else j
        else:
            out.append(src[i])
            i += 1
    return "".join(out)


class Lock:
    def __init__(self, path):
        self.path = path

    def __enter__(self):
        self.f = open(self.path, "w")
        fcntl.flock(self.f, fcntl.LOCK_EX)

    def __exit__(self, *a):
        fcntl.flock(self.f, fcntl.LOCK_UN)
        self.f.close()


class Ctx:
    def __init__(self, pid, tier, seed):
        self.pid = pid
        self.tier = tier
        self.seed = seed
        self.rng = random.Random((seed << 8) ^ hash(pid) % 251 if False else seed * 1000003 + int(pid[1:]))
        self.t0 = time.time()
        self.obligations = 0
        self.discharged = 0
        self.theorems = []
        self.axioms = {}
        self.broken = []  # list of dicts {kind, name, detail}
        self.failures = []  # concrete failing inputs on the implementation
        self.known_hits = {}
        self.evaluations = 0
        self.nontrivial = set()
        self.samples = []
        self.streams = {}
        self.hist = {}
        self.notes = []
        self.assumptions = []
        self.thorough = tier == "thorough"

    # ------------------------------------------------------------------ lean
    def lean_obligations(self, prop_module, extra_targets=("driver",)):
        """Build the property module (+ driver), audit axioms and forbidden tokens."""
        rel = prop_module.replace(".", "/") + ".lean"
        path = os.path.join(LEAN, rel)
        src = strip_lean_comments(open(path).read())
        ns = re.search(r"^namespace\s+(\S+)", src, re.M)
        ns = ns.group(1) if ns else ""
        thms = re.findall(r"^theorem\s+([^\s:({\[]+)", src, re.M)
        nex = len(re.findall(r"^example\b", src, re.M))
        self.theorems = thms
        self.obligations += len(thms) + nex
        with Lock(os.path.join(LEAN, ".verif.lock")):
            r = subprocess.run(["lake", "build", prop_module] + list(extra_targets), cwd=LEAN,
                               capture_output=True, text=True)
            if r.returncode != 0:
                tail = (r.stdout + r.stderr)[-3000:]
                self.broken.append({"kind": "proof", "name": "lake build " + prop_module, "detail": tail})
                return False
            os.makedirs(os.path.join(LEAN, ".audit"), exist_ok=True)
            apath = os.path.join(LEAN, ".audit", self.pid + ".lean")
            with open(apath, "w") as f:
                f.write("import %s\n" % prop_module)
                for t in thms:
                    f.write("#print axioms %s.%s\n" % (ns, t) if ns else "#print axioms %s\n" % t)
            r = subprocess.run(["lake", "env", "lean", apath], cwd=LEAN, capture_output=True, text=True)
        out = r.stdout + r.stderr
        if r.returncode != 0:
            self.broken.append({"kind": "proof", "name": "axiom audit " + prop_module, "detail": out[-3000:]})
            return False
        flat = re.sub(r"\s+", " ", out)
        ok_all = True
        for t in thms:
            full = (ns + "." + t) if ns else t
            m = re.search(r"'%s' depends on axioms: \[([^\]]*)\]" % re.escape(full), flat)
            if m:
                ax = [a.strip() for a in m.group(1).split(",") if a.strip()]
            elif re.search(r"'%s' does not depend on any axioms" % re.escape(full), flat):
                ax = []
            else:
                self.broken.append({"kind": "proof", "name": full, "detail": "no #print axioms output"})
                ok_all = False
                continue
            self.axioms[t] = ax
            bad = [a for a in ax if a not in ALLOWED_AXIOMS]
            if bad:
                self.broken.append({"kind": "proof", "name": full, "detail": "forbidden axioms %s" % bad})
                ok_all = False
            else:
                self.discharged += 1
        # forbidden tokens anywhere in the library sources
        hits = []
        for root, _, files in os.walk(os.path.join(LEAN, "SevenZ")):
            for fn in files:
                if fn.endswith(".lean"):
                    s = strip_lean_comments(open(os.path.join(root, fn)).read())
                    for m in FORBIDDEN.finditer(s):
                        hits.append("%s: %s" % (os.path.relpath(os.path.join(root, fn), LEAN), m.group(0).strip()))
        if hits:
            self.broken.append({"kind": "proof", "name": "forbidden-token audit", "detail": "; ".join(hits[:10])})
            ok_all = False
        elif ok_all:
            self.discharged += nex
        if self.thorough and ok_all:
            with Lock(os.path.join(LEAN, ".verif.lock")):
                r = subprocess.run(["lake", "env", "leanchecker", prop_module], cwd=LEAN, capture_output=True, text=True)
            if r.returncode != 0:
                self.broken.append({"kind": "proof", "name": "leanchecker " + prop_module, "detail": (r.stdout + r.stderr)[-2000:]})
                ok_all = False
            else:
                self.notes.append("leanchecker re-checked " + prop_module)
        return ok_all

    # ------------------------------------------------------- correspondence
    def run_driver(self, lines):
        if not lines:
            return []
        for ln in lines:
            assert "\n" not in ln
        def lim():
            import resource
            resource.setrlimit(resource.RLIMIT_AS, (8 << 30, 8 << 30))
        r = subprocess.run([DRIVER], input="\n".join(lines) + "\n", capture_output=True, text=True,
                           timeout=600, preexec_fn=lim)
        if r.returncode != 0:
            raise RuntimeError("driver failed: " + r.stderr[-500:])
        out = r.stdout.split("\n")
        if out and out[-1] == "":
            out.pop()
        if len(out) != len(lines):
            raise RuntimeError("driver returned %d lines for %d ops" % (len(out), len(lines)))
        return out

    def correspond(self, stream, lines, impl_outs, classes=None):
        """Compare implementation outputs with the model's on the same ops."""
        assert len(lines) == len(impl_outs)
        st = self.streams.setdefault(stream, {"cases": 0, "disagreements": 0, "classes": {}})
        if not lines:
            return True
        try:
            model = self.run_driver(lines)
        except Exception as e:  # noqa
            self.broken.append({"kind": "correspondence", "name": stream, "detail": "driver: %r" % e})
            return False
        st["cases"] += len(lines)
        bad = None
        for i, (ln, a, b) in enumerate(zip(lines, impl_outs, model)):
            if classes is not None:
                c = classes[i]
                st["classes"][c] = st["classes"].get(c, 0) + 1
            if a != b:
                st["disagreements"] += 1
                if bad is None or len(ln) < len(bad[0]):
                    bad = (ln, a, b)
        if "sample" not in st:
            k = self.rng.randrange(len(lines))
            st["sample"] = {"op": lines[k][:300], "impl": impl_outs[k][:300], "model": model[k][:300]}
        if bad:
            self.broken.append({"kind": "correspondence", "name": stream,
                                "detail": {"op": bad[0][:2000], "impl": bad[1][:2000], "model": bad[2][:2000]}})
            return False
        return True

    def correspond_model(self, stream, lines, impl_outs, translate, classes=None):
        """Like correspond, but the model's output line is first translated by the harness
        (e.g. slices -> checksums of the bytes they denote) before it is compared."""
        st = self.streams.setdefault(stream, {"cases": 0, "disagreements": 0, "classes": {}})
        if not lines:
            return True
        model = self.run_driver(lines)
        st["cases"] += len(lines)
        bad = None
        for i, (ln, a, m) in enumerate(zip(lines, impl_outs, model)):
            b = translate(i, m)
            if classes is not None:
                st["classes"][classes[i]] = st["classes"].get(classes[i], 0) + 1
            if a != b:
                st["disagreements"] += 1
                if bad is None or len(ln) < len(bad[0]):
                    bad = (ln, a, b, m)
        if "sample" not in st:
            k = self.rng.randrange(len(lines))
            st["sample"] = {"op": lines[k][:300], "impl": impl_outs[k][:300], "model": model[k][:300]}
        if bad:
            self.broken.append({"kind": "correspondence", "name": stream,
                                "detail": {"op": bad[0][:2000], "impl": bad[1][:2000], "model_translated": bad[2][:2000], "model_raw": bad[3][:2000]}})
            return False
        return True

    # ------------------------------------------------------------ explore
    def case(self, key=None, nontrivial=False, sample=None):
        self.evaluations += 1
        if nontrivial and key is not None:
            self.nontrivial.add(key)
        if sample is not None and len(self.samples) < 6:
            self.samples.append(sample)

    def count(self, hist, key, n=1):
        h = self.hist.setdefault(hist, {})
        h[str(key)] = h.get(str(key), 0) + n

    def fail(self, sig, what, input_):
        """A concrete input on which the implementation violates the property."""
        self.failures.append({"sig": sig, "what": what, "input": input_})

    # ------------------------------------------------------------ finish
    def finish(self, module):
        known = load_known(self.pid)
        fixed = [k for k in known if str(k.get("status", "")).startswith("fixed")]
        open_known = {k["sig"]: k for k in known if k.get("status") == "open"}
        new_fail = []
        for f in self.failures:
            if f["sig"] in open_known:
                self.known_hits.setdefault(f["sig"], f)
            else:
                new_fail.append(f)
        violation = None
        if new_fail:
            violation = {"kind": "impl_failing_input", "failure": new_fail[0], "others": len(new_fail) - 1,
                         "other_failures": [{"sig": f["sig"], "what": f["what"][:300], "input": str(f["input"])[:400]} for f in new_fail[1:40]]}
        elif self.broken:
            found = None
            if hasattr(module, "search"):
                try:
                    before = len(self.failures)
                    module.search(self, self.broken)
                    for f in self.failures[before:]:
                        if f["sig"] not in open_known:
                            found = f
                            break
                except Exception as e:  # noqa
                    self.notes.append("search raised %r" % e)
            if found:
                violation = {"kind": "impl_failing_input", "failure": found, "broken": self.broken[:3]}
            else:
                violation = {"kind": "broken_obligation", "broken": self.broken[:5], "no_failing_input_found": True}
        for sig, f in self.known_hits.items():
            print("KNOWN-FINDING: property=%s %s [%s]" % (self.pid, open_known[sig]["what"], sig))
        wall = time.time() - self.t0
        cov = {
            "obligations": self.obligations,
            "discharged": self.discharged,
            "checker_cmd": "cd /verif/lean && lake build SevenZ.Props.%s && lake env lean .audit/%s.lean  (#print axioms)" % (self.pid, self.pid),
            "trusted_base": TRUSTED_BASE,
            "theorems": self.theorems,
            "axioms": self.axioms,
            "evaluations": self.evaluations + sum(s["cases"] for s in self.streams.values()),
            "distinct_nontrivial": len(self.nontrivial),
            "rule": getattr(module, "RULE", ""),
            "samples": self.samples or [s.get("sample") for s in self.streams.values() if s.get("sample")],
            "correspondence_streams": self.streams,
            "histograms": self.hist,
            "known_findings_hit": sorted(self.known_hits),
            "fixed_findings": [k["sig"] for k in fixed],
            "broken": self.broken[:5],
            "notes": self.notes,
        }
        if not cov["samples"]:
            cov["samples"] = ["(no sample recorded)"]
        ev = {
            "property_id": self.pid,
            "tier": self.tier,
            "seed": self.seed,
            "level": "proof",
            "coverage": cov,
            "assumptions": self.assumptions or getattr(module, "ASSUMPTIONS", []),
            "wall_s": round(wall, 2),
            "violations": 1 if violation else 0,
        }
        os.makedirs(os.path.join(VERIF, "evidence"), exist_ok=True)
        with open(os.path.join(VERIF, "evidence", self.pid + ".json"), "w") as f:
            json.dump(ev, f, indent=1, default=str)
        if violation:
            os.makedirs(os.path.join(VERIF, "replays"), exist_ok=True)
            rp = os.path.join(VERIF, "replays", "%s-%d.json" % (self.pid, self.seed))
            with open(rp, "w") as f:
                json.dump({"property": self.pid, "seed": self.seed, "tier": self.tier, **violation}, f, indent=1, default=str)
            tail = " no-failing-input-found" if violation.get("no_failing_input_found") else ""
            print("VIOLATION property=%s replay=%s%s" % (self.pid, rp, tail))
            return 1
        print("OK property=%s tier=%s seed=%d obligations=%d/%d evaluations=%d nontrivial=%d wall=%.1fs" % (
            self.pid, self.tier, self.seed, self.discharged, self.obligations, cov["evaluations"], len(self.nontrivial), wall))
        return 0


def load_known(pid):
    p = os.path.join(VERIF, "KNOWN_FINDINGS.json")
    if not os.path.exists(p):
        return []
    return [k for k in json.load(open(p))["findings"] if k["property"] == pid]


def hexs(b):
    return b.hex() if b else "-"


def exc_class(e):
    """Canonical error enum shared by harness and model."""
    n = type(e).__name__
    return n
