"""Building and reading archives through py7zr's public API; member/filter generators.

Everything here calls the implementation under test; the independent oracle lives in the Lean
model (driver) and in refreader.py.
"""
import io
import os
import zlib

import py7zr
from py7zr import FILTER_ARM, FILTER_ARMTHUMB, FILTER_BROTLI, FILTER_BZIP2, FILTER_COPY, FILTER_CRYPTO_AES256_SHA256, \
    FILTER_DEFLATE, FILTER_DELTA, FILTER_LZMA, FILTER_LZMA2, FILTER_POWERPC, FILTER_PPMD, FILTER_SPARC, \
    FILTER_X86, FILTER_ZSTD
from py7zr.properties import FILTER_IA64

BCJS = [("X86", FILTER_X86), ("ARM", FILTER_ARM), ("ARMT", FILTER_ARMTHUMB), ("PPC", FILTER_POWERPC),
        ("SPARC", FILTER_SPARC)]


def chains():
    """(label, filters) for every chain the documentation lists as possible (without AES)."""
    out = []
    out.append(("LZMA2", [{"id": FILTER_LZMA2, "preset": 1}]))
    out.append(("LZMA", [{"id": FILTER_LZMA, "preset": 1}]))
    out.append(("BZip2", [{"id": FILTER_BZIP2}]))
    out.append(("Deflate", [{"id": FILTER_DEFLATE}]))
    out.append(("Copy", [{"id": FILTER_COPY}]))
    out.append(("ZStandard", [{"id": FILTER_ZSTD, "level": 3}]))
    out.append(("PPMd", [{"id": FILTER_PPMD, "order": 6, "mem": 20}]))
    out.append(("Brotli", [{"id": FILTER_BROTLI, "level": 5}]))
    out.append(("Delta+LZMA2", [{"id": FILTER_DELTA, "dist": 4}, {"id": FILTER_LZMA2, "preset": 1}]))
    out.append(("Delta+LZMA", [{"id": FILTER_DELTA, "dist": 1}, {"id": FILTER_LZMA, "preset": 1}]))
    for nm, f in BCJS + [("IA64", FILTER_IA64)]:
        out.append((nm + "+LZMA2", [{"id": f}, {"id": FILTER_LZMA2, "preset": 1}]))
    for nm, f in BCJS:
        out.append((nm + "+LZMA", [{"id": f}, {"id": FILTER_LZMA, "preset": 1}]))
    for nm, f in BCJS[:2]:
        out.append((nm + "+Deflate", [{"id": f}, {"id": FILTER_DEFLATE}]))
        out.append((nm + "+ZStandard", [{"id": f}, {"id": FILTER_ZSTD, "level": 3}]))
        out.append((nm + "+BZip2", [{"id": f}, {"id": FILTER_BZIP2}]))
    return out


def with_aes(filters):
    return list(filters) + [{"id": FILTER_CRYPTO_AES256_SHA256}]


# chains on which finding F17 (BCJ behind a max_length-honouring decoder) is known to bite
def f17_shape(filters):
    ids = [f["id"] for f in filters]
    bcj = {FILTER_X86, FILTER_ARM, FILTER_ARMTHUMB, FILTER_POWERPC, FILTER_SPARC}
    return len(ids) >= 2 and ids[0] in bcj and ids[1] in (FILTER_BZIP2, FILTER_PPMD, FILTER_LZMA)


def gen_component(rng):
    k = rng.random()
    n = rng.randrange(1, 9)
    if k < 0.45:
        s = "".join(chr(rng.randrange(0x61, 0x7B)) for _ in range(n))
    elif k < 0.6:
        s = "".join(chr(rng.choice([0x20, 0x2E, 0x3A, 0x5F, rng.randrange(0x21, 0x7F)])) for _ in range(n))
    elif k < 0.75:
        s = "".join(chr(rng.randrange(0xA1, 0x3000)) for _ in range(n))
    elif k < 0.85:
        s = "".join(chr(rng.randrange(0x10000, 0x1FFFF)) for _ in range(n))
    elif k < 0.9:
        s = "".join(chr(rng.randrange(1, 0x20)) for _ in range(n))
    elif k < 0.93:
        # a Latin-1 character directly followed by a character whose code point is a multiple of 256
        s = "".join(chr(rng.randrange(0x61, 0x7B)) + chr(rng.choice([0x100, 0x400, 0x3000, 0x4E00, 0x5000, 0xFF00])) for _ in range(max(1, n // 2)))
    elif k < 0.95:
        s = "." + "".join(chr(rng.randrange(0x61, 0x7B)) for _ in range(n))
    else:
        s = "c:" + "".join(chr(rng.randrange(0x61, 0x7B)) for _ in range(n))
    s = s.replace("/", "_").replace("\\", "_").replace("\x00", "_")
    if s in (".", ".."):
        s = "x" + s
    return s


def gen_names(rng, n):
    names = []
    seen = set()
    while len(names) < n:
        nm = "/".join(gen_component(rng) for _ in range(rng.choice([1, 1, 1, 2, 2, 3, 6])))
        if nm not in seen:
            seen.add(nm)
            names.append(nm)
    return names


X86_CODE = bytes.fromhex("e8000010005589e5e810200000c3ebfe") * 4


def gen_content(rng, length=None, texture=None):
    if length is None:
        length = rng.choice([0, 1, 15, 16, 17, 31, 32, 33, 100, 1000, rng.randrange(0, 5000)])
    texture = texture or rng.choice(["random", "repetitive", "code"])
    if texture == "random":
        return rng.randbytes(length)
    if texture == "repetitive":
        unit = rng.randbytes(rng.choice([1, 3, 7]))
        return (unit * (length // len(unit) + 1))[:length]
    return (X86_CODE * (length // len(X86_CODE) + 1))[:length]


def write_archive(members, *, filters=None, password=None, header="encoded", target=None, append_to=None,
                  dirs=()):
    """Write members [(name, bytes)] (and empty directories via mkdir-like entries) and return the bytes."""
    buf = target if target is not None else io.BytesIO(append_to or b"")
    mode = "a" if append_to is not None else "w"
    kw = {}
    if filters is not None:
        kw["filters"] = filters
    if password is not None:
        kw["password"] = password
    if header == "encrypted":
        kw["header_encryption"] = True
    with py7zr.SevenZipFile(buf, mode, **kw) as z:
        if header == "raw":
            z.set_encoded_header_mode(False)
        for i, (name, data) in enumerate(members):
            if i % 2 == 0:
                z.writestr(data, name)
            else:
                z.writef(io.BytesIO(data), name)
    if target is None:
        return buf.getvalue()
    return None


def read_archive(data, password=None, limit=1 << 28):
    """-> (names, {name: bytes}) through extractall(factory=...)."""
    f = py7zr.io.BytesIOFactory(limit)
    kw = {"password": password} if password is not None else {}
    with py7zr.SevenZipFile(io.BytesIO(data) if isinstance(data, (bytes, bytearray)) else data, "r", **kw) as z:
        names = z.getnames()
        z.extractall(factory=f)
    out = {}
    for k, v in f.products.items():
        v.seek(0)
        out[k] = v.read()
    return names, out


def crc(b):
    return zlib.crc32(b) & 0xFFFFFFFF
