"""Shared exploration for C07 (writer conformance) and C08 (append preserves history):
run write/append histories through py7zr, then read the archive after every session with the independent
reference reader (Lean strict parser + codec libraries) and with py7zr itself."""
import io
import os
import struct

import arclib
import histories
import refreader
import sandbox


def _build(job):
    """Run a history in a child: returns list of archive bytes after each session (or the exception)."""
    sessions, filters, password, header, tmp, base = job
    buf = io.BytesIO(base or b"")
    out = []
    for i, (items, (lab, f)) in enumerate(zip(sessions, filters)):
        mode = "w" if (i == 0 and base is None) else "a"
        # a session whose chain has no AES coder is a plain session inside a history that otherwise uses the password
        pw_i = password if lab.endswith("+AES") else None
        hdr_i = header if (pw_i is not None or header != "encrypted") else "encoded"
        try:
            histories.run_session(buf, mode, items, tmp, filters=f, password=pw_i, header=hdr_i)
        except Exception as e:  # noqa
            out.append(("exc", "%s: %s" % (type(e).__name__, str(e)[:200])))
            break
        out.append(("ok", buf.getvalue()))
    return out


def _py7zr_members(job):
    data, password = job
    names, content = arclib.read_archive(data, password=password)
    import py7zr
    kw = {"password": password} if password else {}
    with py7zr.SevenZipFile(io.BytesIO(data), "r", **kw) as z:
        meta = [(f.filename, f.is_directory, f.is_symlink, f.uncompressed, f.crc32) for f in z.files]
    return names, content, meta


def tiling(data, ref):
    """packed sizes tile the data area exactly: they end where the (packed) header begins"""
    streams = ref.get("streams")
    ofs, size, _ = struct.unpack("<QQL", data[12:32])
    if not streams or not streams.get("pack"):
        return None
    p = streams["pack"]
    end = p["packpos"] + sum(p["sizes"])
    if ref.get("encoded"):
        return None if end <= ofs else "main packed streams overlap the header"
    return None if end == ofs else "packed streams end at %d but the header starts at %d" % (end, ofs)


def compare_ref(expected, ref):
    if not ref["ok"]:
        return ["reference reader rejects the archive: " + ref["error"]]
    got = ref["members"]
    if [m["name"] for m in got] != [e[0] for e in expected]:
        return ["names: %r != %r" % ([m["name"] for m in got][:6], [e[0] for e in expected][:6])]
    d = []
    for m, (name, kind, data) in zip(got, expected):
        want = {"file": "file", "dir": "dir", "symlink": "symlink"}[kind]
        got_kind = "file" if m["kind"] == "emptyfile" else m["kind"]      # an empty regular file, however it is stored
        if got_kind != want:
            d.append("kind %r: %s != %s" % (name, m["kind"], want))
        if kind in ("file", "symlink") and (m["data"] or b"") != data:
            d.append("bytes %r differ (%d vs %d)" % (name, len(m["data"] or b""), len(data)))
    return d


def compare_py7zr(expected, res):
    st, val = res
    if st != "ok":
        return ["py7zr cannot read the archive back: %s %s" % (st, str(val)[:160])]
    names, content, meta = val
    if names != [e[0] for e in expected]:
        return ["names: %r != %r" % (names[:6], [e[0] for e in expected][:6])]
    d = []
    for (name, kind, data), me in zip(expected, meta):
        if kind == "file" and content.get(name) != data:
            d.append("bytes %r differ" % name)
        if (kind == "dir") != me[1]:
            d.append("is_directory %r" % name)
    return d


def run(ctx, prefix, n_hist, tmp, *, max_sessions=3, bases=None, check_py7zr=True):
    rng = ctx.rng
    jobs, metas = [], []
    for h in range(n_hist):
        k = rng.randrange(1, max_sessions + 1)
        sessions, filters = histories.gen_history(rng, tmp, k)
        password = rng.choice([None, None, "p\u00e4ssw\u00f6rd", "pa\u0308ss\u212B\U0001F511"])
        header = rng.choice(["raw", "encoded", "encoded", "encrypted"]) if password else rng.choice(["raw", "encoded", "encoded"])
        if password:
            # sessions may differ in whether they encrypt: plain base + encrypted append, encrypted base + plain append, ...
            mixed = k > 1 and rng.random() < 0.5
            enc = [True] * k
            if mixed:
                enc = [rng.random() < 0.5 for _ in range(k)]
                if not any(enc):
                    enc[rng.randrange(k)] = True
                if not all(enc) and header == "encrypted":
                    header = "encoded"       # a plain session could not reopen an archive whose header is encrypted
            filters = [((lab + "+AES", arclib.with_aes(f)) if e else (lab, f)) for (lab, f), e in zip(filters, enc)]
        base = None
        base_members = []
        bname = None
        if bases and (h < len(bases) or rng.random() < 0.4):
            # every base is used at least once (the first histories), then at random
            bname, bdata, bmembers, bpw = bases[h] if h < len(bases) else rng.choice(bases)
            if bpw is None or bpw == password or password is None:
                base, base_members = bdata, bmembers
                password = bpw if bpw else password
                if bpw and not any(lab.endswith("+AES") for lab, _ in filters):
                    filters = [(lab + "+AES", arclib.with_aes(f)) for lab, f in filters]
        jobs.append((sessions, filters, password, header, tmp, base))
        metas.append((base_members, bname if base else None))
    built = sandbox.pmap(_build, jobs, timeout=180)
    to_read, info = [], []
    for (sessions, filters, password, header, _, base), (base_members, bname), (st, val) in zip(jobs, metas, built):
        desc = {"sessions": [[(op, nm, kind, (len(d) if d is not None else None)) for op, nm, kind, d in items] for items in sessions],
                "filters": [lab for lab, _ in filters], "password": password, "header": header, "base": bname}
        if st != "ok":
            ctx.fail(prefix + ":session_" + st, "a write history did not complete: %s %s" % (st, str(val)[:200]), desc)
            continue
        expected = list(base_members)
        for i, (s, r) in enumerate(val):
            if s != "ok":
                ctx.fail(_sig(prefix, desc, i, "session_raises"), "session %d raised %s" % (i, r), desc)
                break
            expected = expected + histories.expected_members([sessions[i]])
            to_read.append(r)
            info.append((desc, i, list(expected), password))
    refs = refreader.read_many(ctx, to_read, [x[3] for x in info])
    pys = sandbox.pmap(_py7zr_members, [(d, x[3]) for d, x in zip(to_read, info)], timeout=120) if check_py7zr else [None] * len(to_read)
    for data, (desc, i, expected, password), ref, py in zip(to_read, info, refs, pys):
        key = (prefix, str(desc["sessions"]), tuple(desc["filters"]), desc["header"], password, i)
        ctx.case(key=key, nontrivial=len(expected) >= 2, sample={"filters": desc["filters"], "header": desc["header"], "after_session": i, "members": len(expected)})
        ctx.count("sessions", "after-%d" % i)
        ctx.count("chain", desc["filters"][i])
        inp = dict(desc)
        inp["after_session"] = i
        inp["archive_hex"] = data.hex() if len(data) < 5000 else None
        if ref["ok"] is False and ("unsupported coder" in ref["error"]):
            ctx.count("reference", "codec-not-available")
        else:
            d = compare_ref(expected, ref)
            t = tiling(data, ref) if ref["ok"] else None
            if t:
                d.append(t)
            if d:
                inp["diff"] = d[:5]
                ctx.fail(_sig(prefix, desc, i, "reference_reader"), "the independent reader does not recover what was written (after session %d): %s" % (i, d[0]), inp)
            elif ref["ok"]:
                for w in ref["warnings"]:
                    ctx.count("strict-warnings", w.split(" for ")[0])
        if check_py7zr:
            d = compare_py7zr(expected, py)
            if d:
                inp["diff_py7zr"] = d[:5]
                ctx.fail(_sig(prefix, desc, i, "py7zr_reads_back"), "py7zr does not read back the members of all sessions (after session %d): %s" % (i, d[0]), inp)


def _sig(prefix, desc, i, what):
    f = desc["filters"][min(i, len(desc["filters"]) - 1)]
    # known finding F17: a BCJ filter in front of a decoder that honours max_length
    parts = f.split("+")
    if what == "py7zr_reads_back" and any(_f17(x) for x in desc["filters"][: i + 1]):
        return prefix + ":bcj_before_maxlength_decoder"
    return prefix + ":" + what


def _f17(label):
    parts = label.split("+")
    return len(parts) >= 2 and parts[0] in ("X86", "ARM", "ARMT", "PPC", "SPARC") and parts[1] in ("BZip2", "PPMd", "LZMA")
