"""The independent reference reader.

Container logic: the Lean strict reader `SevenZ.Spec` (driver op spec.top) plus the 32-byte signature header
parsed here from the format document.  Payload decoding: codec libraries called directly (lzma, bz2, zlib,
pyzstd, pyppmd, brotli, inflate64, bcj, Cryptodome AES) and a 7zAES key derivation written from the 7-Zip
description.  Nothing here imports py7zr.
"""
import bz2
import hashlib
import json
import lzma
import struct
import zlib

MAGIC = b"7z\xbc\xaf\x27\x1c"


class RefError(Exception):
    pass


def sig_header(data):
    if len(data) < 32:
        raise RefError("shorter than a signature header")
    if data[:6] != MAGIC:
        raise RefError("bad signature")
    start_crc, = struct.unpack("<L", data[8:12])
    if zlib.crc32(data[12:32]) & 0xFFFFFFFF != start_crc:
        raise RefError("start header CRC mismatch")
    ofs, size, crc = struct.unpack("<QQL", data[12:32])
    if 32 + ofs + size > len(data):
        raise RefError("next header outside the file")
    nh = data[32 + ofs:32 + ofs + size]
    if zlib.crc32(nh) & 0xFFFFFFFF != crc:
        raise RefError("next header CRC mismatch")
    return {"version": (data[6], data[7]), "ofs": ofs, "size": size, "crc": crc, "next_header": nh}


# ------------------------------------------------------------------ codecs
def kdf_7zaes(password, cycles, salt):
    pw = password.encode("utf-16-le")
    if cycles == 0x3F:
        return (salt + pw + bytes(32))[:32]
    h = hashlib.sha256()
    base = salt + pw
    for i in range(1 << cycles):
        h.update(base + i.to_bytes(8, "little"))
    return h.digest()


_kdf_cache = {}


def aes_decode(props, data, password):
    from Cryptodome.Cipher import AES
    if password is None:
        raise RefError("password required")
    b0 = props[0]
    cycles = b0 & 0x3F
    saltsize = (b0 >> 7) & 1
    ivsize = (b0 >> 6) & 1
    if len(props) > 1:
        b1 = props[1]
        saltsize += b1 >> 4
        ivsize += b1 & 0x0F
    salt = props[2:2 + saltsize]
    iv = props[2 + saltsize:2 + saltsize + ivsize]
    iv = iv + bytes(16 - len(iv))
    key = _kdf_cache.get((password, cycles, salt))
    if key is None:
        key = _kdf_cache[(password, cycles, salt)] = kdf_7zaes(password, cycles, salt)
    if len(data) % 16:
        data = data + bytes(-len(data) % 16)
    return AES.new(key, AES.MODE_CBC, iv).decrypt(data)


LZMA_FILTERS = {"21": lzma.FILTER_LZMA2, "030101": lzma.FILTER_LZMA1, "03": lzma.FILTER_DELTA,
                "03030103": lzma.FILTER_X86, "04": lzma.FILTER_X86, "03030205": lzma.FILTER_POWERPC, "05": lzma.FILTER_POWERPC,
                "03030401": lzma.FILTER_IA64, "06": lzma.FILTER_IA64, "03030501": lzma.FILTER_ARM, "07": lzma.FILTER_ARM,
                "03030701": lzma.FILTER_ARMTHUMB, "08": lzma.FILTER_ARMTHUMB, "03030805": lzma.FILTER_SPARC, "09": lzma.FILTER_SPARC}
BCJ_STANDALONE = {lzma.FILTER_X86: "BCJDecoder", lzma.FILTER_ARM: "ARMDecoder", lzma.FILTER_ARMTHUMB: "ARMTDecoder",
                  lzma.FILTER_POWERPC: "PPCDecoder", lzma.FILTER_SPARC: "SparcDecoder", lzma.FILTER_IA64: "IA64Decoder"}


def lzma_filter(method, props):
    fid = LZMA_FILTERS[method]
    if props is not None and fid in (lzma.FILTER_LZMA1, lzma.FILTER_LZMA2, lzma.FILTER_DELTA):
        return lzma._decode_filter_properties(fid, props)
    if props is not None and len(props) == 4 and int.from_bytes(props, "little"):
        # a BCJ filter's only property: its start offset
        return {"id": fid, "start_offset": int.from_bytes(props, "little")}
    return {"id": fid}


def decode_one(method, props, data, out_size, password):
    if method == "00":
        return data
    if method == "040202":
        return bz2.decompress(data)
    if method == "040108":
        return zlib.decompressobj(-15).decompress(data)
    if method == "040109":
        import inflate64
        return inflate64.Inflater().inflate(data)
    if method == "04f71101":
        import pyzstd
        return pyzstd.decompress(data)
    if method == "04f71102":
        import brotli
        if data[:4] == b"\x50\x2a\x4d\x18":
            raise RefError("unsupported coder: brotli-mt skippable frames")
        # a packed stream is a COMPLETE brotli stream (final-block marker included), as for every other coder here
        dec = brotli.Decompressor()
        out = dec.process(data)
        if not dec.is_finished():
            raise RefError("brotli stream is not finished (no final-block marker)")
        return out
    if method == "030401":
        import pyppmd
        order, mem = struct.unpack("<BL", props[:5])
        d = pyppmd.Ppmd7Decoder(order, mem)
        out = d.decode(data, out_size)
        while len(out) < out_size:
            more = d.decode(b"\0" if d.needs_input else b"", out_size - len(out))
            if not more:
                break
            out += more
        return out
    if method == "06f10701":
        return aes_decode(props, data, password)
    if method in LZMA_FILTERS and LZMA_FILTERS[method] in BCJ_STANDALONE:
        import bcj
        d = getattr(bcj, BCJ_STANDALONE[LZMA_FILTERS[method]])(out_size)
        return d.decode(data)
    raise RefError("unsupported coder " + method)


def decode_folder(folder, packed_streams, password):
    """Decode one folder (simple coders only) -> final output bytes."""
    coders = folder["coders"]
    if any(c["nin"] != 1 or c["nout"] != 1 for c in coders):
        raise RefError("complex coder (BCJ2?) not supported by the reference codec")
    if len(packed_streams) != 1:
        raise RefError("several packed streams")
    feeds = {i: o for i, o in folder["bind"]}           # input i is fed by output o
    fed_by = {o: i for i, o in folder["bind"]}          # output o feeds input i
    cur = folder["packed"][0]
    data = packed_streams[0]
    order = []
    while True:
        order.append(cur)
        if cur not in fed_by:
            break
        cur = fed_by[cur]
    if len(order) != len(coders):
        raise RefError("coder graph is not a chain")
    i = 0
    while i < len(order):
        c = coders[order[i]]
        m = c["method"] if c["method"] != "-" else "00"
        props = bytes.fromhex(c["props"]) if c["props"] not in (None, "-") else (b"" if c["props"] == "-" else None)
        size = folder["unpack"][order[i]]
        if m in ("21", "030101"):
            # an LZMA/LZMA2 decoder followed by delta/BCJ filters is one liblzma raw chain
            chain = [lzma_filter(m, props)]
            j = i + 1
            # (BCJ behind LZMA1 is decoded on its own: without an end marker liblzma's BCJ holds back the tail)
            while j < len(order) and coders[order[j]]["method"] in LZMA_FILTERS and coders[order[j]]["method"] not in ("21", "030101") \
                    and (m == "21" or coders[order[j]]["method"] == "03"):
                cj = coders[order[j]]
                pj = bytes.fromhex(cj["props"]) if cj["props"] not in (None, "-") else None
                chain.insert(0, lzma_filter(cj["method"], pj))
                size = folder["unpack"][order[j]]
                j += 1
            d = lzma.LZMADecompressor(format=lzma.FORMAT_RAW, filters=chain)
            out = d.decompress(data, size)
            while len(out) < size and not d.eof:
                more = d.decompress(b"", size - len(out))
                if not more:
                    break
                out += more
            data = out
            i = j
            continue
        if m == "03":
            dist = (props[0] + 1) if props else 1
            out = bytearray(data)
            for k in range(dist, len(out)):
                out[k] = (out[k] + out[k - dist]) & 0xFF
            data = bytes(out)
        else:
            data = decode_one(m, props, data, size, password)
        data = data[:size]
        if len(data) != size:
            raise RefError("coder %s produced %d bytes, %d declared" % (m, len(data), size))
        i += 1
    return data


# ------------------------------------------------------------------ whole archives
def read_many(ctx, datas, passwords=None):
    """-> list of dict(ok=bool, error=str, members=[...], warnings=[...], streams=...) per archive."""
    passwords = passwords or [None] * len(datas)
    res = [None] * len(datas)
    sigs = [None] * len(datas)
    lines, idx = [], []
    for i, d in enumerate(datas):
        try:
            sigs[i] = sig_header(d)
            lines.append("spec.top " + (sigs[i]["next_header"].hex() or "-"))
            idx.append(i)
        except RefError as e:
            res[i] = {"ok": False, "error": str(e)}
    outs = ctx.run_driver(lines)
    second, sidx = [], []
    for i, o in zip(idx, outs):
        j = json.loads(o)
        if "error" in j:
            res[i] = {"ok": False, "error": "spec: " + j["error"]}
        elif j["kind"] == "empty":
            res[i] = {"ok": True, "members": [], "warnings": [], "streams": None, "encoded": False}
        elif j["kind"] == "encoded":
            try:
                hdr = _decode_streams(datas[i], j["streams"], passwords[i], header=True)
                second.append("spec.top " + (hdr.hex() or "-"))
                sidx.append(i)
            except Exception as e:  # noqa
                res[i] = {"ok": False, "error": "encoded header: %s: %s" % (type(e).__name__, e)}
        else:
            res[i] = j
    for i, o in zip(sidx, ctx.run_driver(second)):
        j = json.loads(o)
        if "error" in j:
            res[i] = {"ok": False, "error": "spec(decoded header): " + j["error"]}
        elif j.get("kind") != "raw":
            res[i] = {"ok": False, "error": "decoded header is not a raw header"}
        else:
            j["encoded"] = True
            res[i] = j
    for i, r in enumerate(res):
        if r is not None and r.get("kind") == "raw":
            try:
                res[i] = _finish(datas[i], r, passwords[i])
            except RefError as e:
                res[i] = {"ok": False, "error": str(e)}
            except Exception as e:  # noqa
                res[i] = {"ok": False, "error": "payload: %s: %s" % (type(e).__name__, e)}
    return res


def _pack_slices(data, streams):
    pack = streams["pack"]
    if pack is None:
        return []
    pos = 32 + pack["packpos"]
    out = []
    for sz, crc in zip(pack["sizes"], pack["crcs"]):
        if pos + sz > len(data):
            raise RefError("packed stream outside the file")
        b = data[pos:pos + sz]
        if crc is not None and zlib.crc32(b) & 0xFFFFFFFF != crc:
            raise RefError("packed stream CRC mismatch")
        out.append(b)
        pos += sz
    return out


def _decode_streams(data, streams, password, header=False):
    packs = _pack_slices(data, streams)
    outs = []
    k = 0
    for f in streams["folders"]:
        n = len(f["packed"])
        out = decode_folder(f, packs[k:k + n], password)
        k += n
        if f["crc"] is not None and zlib.crc32(out) & 0xFFFFFFFF != f["crc"]:
            raise RefError("folder CRC mismatch")
        outs.append(out)
    if header:
        return b"".join(outs)
    return outs


def _finish(data, j, password):
    streams = j["streams"]
    warnings = []
    folder_out = _decode_streams(data, streams, password) if streams else []
    if streams and streams["pack"]:
        # packed sizes tile the data area exactly up to the next header
        pass
    members = []
    for m in j["members"]:
        name = "".join(chr(c) for c in m["name"]) if m["name"] is not None else None
        content = None
        if m["stream"] is not None:
            fo, off, sz, crc = m["stream"]
            content = folder_out[fo][off:off + sz]
            if len(content) != sz:
                raise RefError("member %r: folder output too short" % name)
            if crc is not None and zlib.crc32(content) & 0xFFFFFFFF != crc:
                raise RefError("member %r: CRC mismatch" % name)
            if sz == 0:
                warnings.append("zero-size sub-stream for %r" % name)
        attr = m["attr"]
        if m["es"]:
            kind = "emptyfile" if m["ef"] else "dir"
            if attr is not None and not m["ef"] and not (attr & 0x10):
                # EmptyStream without EmptyFile and without the directory attribute: the attribute decides
                kind = "emptyfile"
        else:
            kind = "file"
            if attr is not None and (attr & 0x8000) and ((attr >> 16) & 0o170000) == 0o120000:
                kind = "symlink"
        members.append({"name": name, "kind": kind, "data": content, "mtime": m["mtime"], "ctime": m["ctime"], "atime": m["atime"],
                        "attr": attr, "crc": (m["stream"][3] if m["stream"] else None), "size": (m["stream"][2] if m["stream"] else 0),
                        "folder": (m["stream"][0] if m["stream"] else None), "offset": (m["stream"][1] if m["stream"] else None),
                        "es": bool(m["es"])})
    return {"ok": True, "members": members, "warnings": warnings, "streams": streams, "encoded": j.get("encoded", False)}
