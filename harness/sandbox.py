"""Run implementation calls in forked, resource-limited children.

py7zr hangs forever on some valid call sequences and damaged inputs, and a hostile header can
ask for gigabytes; every call that decodes goes through here.  Results come back pickled over a
pipe; a child that exceeds its wall-clock budget is killed and reported as ("timeout", None).
"""
import os
import pickle
import resource
import select
import signal
import sys
import time
import traceback

DEFAULT_MEM = 2 * 1024 ** 3


def _child(fn, arg, wfd, mem, cpu):
    try:
        os.setpgid(0, 0)        # a process group of its own: whatever the call starts (worker processes) dies with it
    except OSError:
        pass
    try:
        if mem:
            resource.setrlimit(resource.RLIMIT_AS, (mem, mem))
        if cpu:
            resource.setrlimit(resource.RLIMIT_CPU, (cpu, cpu + 1))
        try:
            res = ("ok", fn(arg))
        except MemoryError:
            res = ("memory", None)
        except BaseException as e:  # noqa
            res = ("exc", (type(e).__name__, str(e)[:300], traceback.format_exc()[-1500:]))
        data = pickle.dumps(res)
    except BaseException as e:  # noqa
        data = pickle.dumps(("exc", ("HarnessError", repr(e), "")))
    try:
        with os.fdopen(wfd, "wb") as w:
            w.write(data)
    finally:
        os._exit(0)


def _killgroup(pid):
    """kill what is left of a child's process group (worker processes the call started and did not reap)"""
    try:
        os.killpg(pid, signal.SIGKILL)
    except (ProcessLookupError, PermissionError, OSError):
        pass


def pmap(fn, items, workers=None, timeout=20.0, mem=DEFAULT_MEM):
    """Apply fn to each item in its own forked child; returns list of (status, value) in order.

    status: ok | exc | timeout | memory | died(<signal/exit>)
    """
    items = list(items)
    workers = workers or min(16, os.cpu_count() or 4)
    results = [None] * len(items)
    running = {}  # rfd -> (idx, pid, deadline, chunks)
    nxt = 0
    sys.stdout.flush()
    sys.stderr.flush()
    while nxt < len(items) or running:
        while nxt < len(items) and len(running) < workers:
            rfd, wfd = os.pipe()
            pid = os.fork()
            if pid == 0:
                os.close(rfd)
                for other in list(running):
                    try:
                        os.close(other)
                    except OSError:
                        pass
                _child(fn, items[nxt], wfd, mem, int(timeout) + 5)
            os.close(wfd)
            running[rfd] = (nxt, pid, time.time() + timeout, [])
            nxt += 1
        now = time.time()
        wait = max(0.0, min(d for (_, _, d, _) in running.values()) - now)
        ready, _, _ = select.select(list(running), [], [], min(wait, 0.5))
        for rfd in ready:
            idx, pid, deadline, chunks = running[rfd]
            data = os.read(rfd, 1 << 20)
            if data:
                chunks.append(data)
                continue
            os.close(rfd)
            del running[rfd]
            _, status = os.waitpid(pid, 0)
            _killgroup(pid)
            blob = b"".join(chunks)
            if blob:
                try:
                    results[idx] = pickle.loads(blob)
                except Exception as e:  # noqa
                    results[idx] = ("died", "unpickle:%r" % e)
            else:
                if os.WIFSIGNALED(status):
                    sig = os.WTERMSIG(status)
                    results[idx] = ("timeout", None) if sig == signal.SIGXCPU else ("died", "signal %d" % sig)
                else:
                    results[idx] = ("died", "exit %d" % os.WEXITSTATUS(status))
        now = time.time()
        for rfd in list(running):
            idx, pid, deadline, chunks = running[rfd]
            if now > deadline:
                _killgroup(pid)
                try:
                    os.kill(pid, signal.SIGKILL)
                except ProcessLookupError:
                    pass
                os.waitpid(pid, 0)
                os.close(rfd)
                del running[rfd]
                results[idx] = ("timeout", None)
    return results


def call(fn, arg, timeout=20.0, mem=DEFAULT_MEM):
    return pmap(fn, [arg], workers=1, timeout=timeout, mem=mem)[0]
