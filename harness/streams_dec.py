"""Correspondence stream `dec`: SevenZipDecompressor.decompress / Worker.decompress with scripted decoders
vs the Lean decode model (the chain is a parameter of the model; here it is a script both sides interpret)."""
import io

import sandbox


class Scripted:
    """Same script semantics as SevenZ.Driver.scriptChain."""

    def __init__(self, mode, sizes):
        self.mode = mode
        self.sizes = list(sizes)
        self.backlog = 0
        self.counter = 0

    def _gen(self, k):
        out = bytes((self.counter + i) % 251 for i in range(k))
        self.counter += k
        return out

    def decompress(self, data, max_length=-1):
        if self.mode == "copy":
            return bytes(data)
        n = self.sizes.pop(0) if self.sizes else 0
        if self.mode == "honour":
            total = self.backlog + n
            k = min(total, max_length)
            self.backlog = total - k
            return self._gen(k)
        return self._gen(n)


def make_decompressor(mode, sizes, input_size, block_size):
    from py7zr.compressor import SevenZipDecompressor
    from py7zr.properties import COMPRESSION_METHOD
    coders = [{"method": COMPRESSION_METHOD.COPY, "numinstreams": 1, "numoutstreams": 1, "properties": None}]
    d = SevenZipDecompressor(coders, input_size, [1 << 62], None, None, blocksize=block_size)
    d.chain = [Scripted(mode, sizes)]
    d._unpacksizes = [1 << 62]
    d._unpacked = [0]
    return d


def hexs(b):
    return bytes(b).hex() or "-"


def impl_calls(case):
    mode, sizes, isz, bsz, srclen, reqs = case
    d = make_decompressor(mode, sizes, isz, bsz)
    fp = io.BytesIO(bytes(i % 256 for i in range(srclen)))
    outs = []
    for m in reqs:
        outs.append(hexs(d.decompress(fp, m)))
    return ";".join(outs) + ";buf=%d pos=%d consumed=%d" % (len(d._buf), d._pos, d.consumed)


def impl_loop(case):
    mode, sizes, isz, bsz, srclen, size, mb = case
    import py7zr.py7zr as core
    from py7zr.archiveinfo import Folder
    from py7zr.exceptions import DecompressionError
    core.get_memory_limit = lambda: mb
    d = make_decompressor(mode, sizes, isz, bsz)
    folder = Folder()
    folder.decompressor = d
    w = core.Worker([], 0, None)
    fp = io.BytesIO(bytes(i % 256 for i in range(srclen)))
    out = io.BytesIO()
    try:
        w.decompress(fp, folder, out, size, None, 1 << 40)
    except DecompressionError:
        return "stalled " + hexs(out.getvalue())
    return "done " + hexs(out.getvalue())


def gen_case(rng):
    mode = rng.choice(["ignore", "honour", "copy", "ignore", "honour"])
    sizes = [rng.choice([0, 0, 1, 2, 5, 9, 17, 40]) for _ in range(rng.randrange(0, 8))]
    isz = rng.choice([0, 3, 10, 25, 100])
    bsz = rng.choice([1, 4, 7, 64])
    srclen = rng.choice([0, 2, isz, isz + 5, max(0, isz - 3)])
    return mode, sizes, isz, bsz, srclen


STALL_LIMIT = 8   # py7zr.py7zr.MAX_STALLED_READS


def run(ctx, n_calls=None, n_loop=None):
    rng = ctx.rng
    n_calls = n_calls or (4000 if ctx.thorough else 800)
    n_loop = n_loop or (1500 if ctx.thorough else 300)
    import py7zr.py7zr as core
    limit = getattr(core, "MAX_STALLED_READS", None)
    lines, outs, classes = [], [], []
    for _ in range(n_calls):
        mode, sizes, isz, bsz, srclen = gen_case(rng)
        reqs = [rng.choice([0, 1, 2, 3, 5, 8, 16, 50]) for _ in range(rng.randrange(1, 9))]
        case = (mode, sizes, isz, bsz, srclen, reqs)
        lines.append("dec.calls %s %s %d %d %d %s" % (mode, ",".join(map(str, sizes)) or "-", isz, bsz, srclen, ",".join(map(str, reqs))))
        try:
            outs.append(impl_calls(case))
        except Exception as e:  # noqa
            outs.append("exc:" + type(e).__name__)
        classes.append(mode)
    ctx.correspond("dec.calls", lines, outs, classes)
    cases, lines = [], []
    for _ in range(n_loop):
        mode, sizes, isz, bsz, srclen = gen_case(rng)
        size = rng.choice([0, 1, 5, 12, 30, 80])
        mb = rng.choice([1, 3, 7, 1000])
        cases.append((mode, sizes, isz, bsz, srclen, size, mb))
        lines.append("dec.loop %s %s %d %d %d %d %d %s" % (mode, ",".join(map(str, sizes)) or "-", isz, bsz, srclen, size, mb,
                                                         "N" if limit is None else str(limit)))
    res = sandbox.pmap(impl_loop, cases, timeout=6)
    outs, classes = [], []
    for (st, val) in res:
        if st == "ok":
            outs.append(val)
        elif st == "timeout":
            outs.append("spin")
        else:
            outs.append("exc:" + str(val)[:80])
        classes.append(outs[-1].split(" ")[0])
    ctx.correspond("dec.loop", lines, outs, classes)
    return cases, outs
