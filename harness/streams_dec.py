"""Correspondence stream `dec`: SevenZipDecompressor.decompress / Worker.decompress with scripted decoders
vs the Lean decode model (the chain is a parameter of the model; here it is a script both sides interpret)."""
import io

import sandbox


class Scripted:
    """Same script semantics as SevenZ.Driver.scriptChain."""

    def __init__(self, mode, sizes):
        self.mode = mode
        self.sizes = list(sizes)
        self.backlog = 0
        self.counter = 0
        self.held = b""
        self.lens = []

    def _gen(self, k):
        out = bytes((self.counter + i) % 251 for i in range(k))
        self.counter += k
        return out

    def decompress(self, data, max_length=-1):
        out = self._decompress(data, max_length)
        self.lens.append(len(out))
        return out

    def _decompress(self, data, max_length=-1):
        if max_length is None or max_length < 0:
            max_length = 1 << 62       # "no limit"
        if self.mode == "copy":
            return bytes(data)
        if self.mode == "pass":
            buf = self.held + bytes(data)
            self.held = buf[max_length:]
            return buf[:max_length]
        n = self.sizes.pop(0) if self.sizes else 0
        if self.mode == "honour":
            total = self.backlog + n
            k = min(total, max_length)
            self.backlog = total - k
            return self._gen(k)
        return self._gen(n)


def make_decompressor(mode, sizes, input_size, block_size):
    from py7zr.compressor import SevenZipDecompressor
    from py7zr.properties import COMPRESSION_METHOD
    coders = [{"method": COMPRESSION_METHOD.COPY, "numinstreams": 1, "numoutstreams": 1, "properties": None}]
    d = SevenZipDecompressor(coders, input_size, [1 << 62], None, None, blocksize=block_size)
    d.chain = [Scripted(mode, sizes)]
    d._unpacksizes = [1 << 62]
    d._unpacked = [0]
    return d


def hexs(b):
    return bytes(b).hex() or "-"


def impl_calls(case):
    mode, sizes, isz, bsz, srclen, reqs = case
    d = make_decompressor(mode, sizes, isz, bsz)
    fp = io.BytesIO(bytes(i % 256 for i in range(srclen)))
    outs = []
    for m in reqs:
        outs.append(hexs(d.decompress(fp, m)))
    return ";".join(outs) + ";buf=%d pos=%d consumed=%d" % (len(d._buf), d._pos, d.consumed)


def impl_loop(case):
    mode, sizes, isz, bsz, srclen, size, mb = case
    import py7zr.py7zr as core
    from py7zr.archiveinfo import Folder
    from py7zr.exceptions import DecompressionError
    core.get_memory_limit = lambda: mb
    d = make_decompressor(mode, sizes, isz, bsz)
    folder = Folder()
    folder.decompressor = d
    w = core.Worker([], 0, None)
    fp = io.BytesIO(bytes(i % 256 for i in range(srclen)))
    out = io.BytesIO()
    try:
        w.decompress(fp, folder, out, size, None, 1 << 40)
    except DecompressionError:
        return "stalled " + hexs(out.getvalue())
    return "done " + hexs(out.getvalue())


def impl_stages(case):
    stages, calls = case
    from py7zr.compressor import SevenZipDecompressor
    from py7zr.properties import COMPRESSION_METHOD
    coders = [{"method": COMPRESSION_METHOD.COPY, "numinstreams": 1, "numoutstreams": 1, "properties": None}]
    d = SevenZipDecompressor(coders, 1 << 30, [1 << 62], None, None, blocksize=1 << 20)
    d.chain = [Scripted(mode, sizes) for (mode, size, sizes) in stages]
    d._unpacksizes = [size for (mode, size, sizes) in stages]
    d._unpacked = [0] * len(stages)
    outs = []
    for idx, (k, n) in enumerate(calls):
        data = bytes((idx * 7 + i) % 251 for i in range(n))
        for st in d.chain:
            st.lens = []
        before = list(d._unpacked)
        try:
            res = d._decompress(data, k)
        except EOFError:
            outs.append("EOF")      # the exception leaves the decompressor half-updated: the sequence ends here
            break
        lens = []
        for i, st in enumerate(d.chain):
            lens.append(st.lens[0] if st.lens else 0)
        outs.append("res=%s lens=%s" % (hexs(res), ",".join(map(str, lens)) or "-"))
    return "|".join(outs)


def gen_stages(rng):
    n = rng.choice([1, 2, 2, 2, 3])
    stages = []
    for i in range(n):
        mode = rng.choice(["honour", "ignore"]) if i == 0 else rng.choice(["pass", "pass", "copy", "honour"])
        size = rng.choice([0, 5, 40, 100, 1 << 40])
        sizes = [rng.choice([0, 1, 3, 9, 30, 80]) for _ in range(rng.randrange(0, 6))]
        stages.append((mode, size, sizes))
    calls = [(rng.choice([0, 1, 4, 10, 50, 200]), rng.choice([0, 0, 3, 8])) for _ in range(rng.randrange(1, 7))]
    return stages, calls


def run_stages(ctx, n=None):
    rng = ctx.rng
    n = n or (3000 if ctx.thorough else 600)
    lines, outs, classes = [], [], []
    for _ in range(n):
        stages, calls = gen_stages(rng)
        lines.append("dec.stages %s %s" % (";".join("%s:%d:%s" % (m, sz, "+".join(map(str, ss)) or "-") for m, sz, ss in stages),
                                           ";".join("%d:%d" % c for c in calls)))
        try:
            outs.append(impl_stages((stages, calls)))
        except Exception as e:  # noqa
            outs.append("exc:" + type(e).__name__ + str(e)[:60])
        classes.append("%d-stage:%s" % (len(stages), stages[0][0]))
    def cut(i, m):
        parts = m.split("|")
        if "EOF" in parts:
            parts = parts[: parts.index("EOF") + 1]
        return "|".join(parts)
    ctx.correspond_model("dec.stages", lines, outs, cut, classes)


def gen_case(rng):
    mode = rng.choice(["ignore", "honour", "copy", "ignore", "honour"])
    sizes = [rng.choice([0, 0, 1, 2, 5, 9, 17, 40]) for _ in range(rng.randrange(0, 8))]
    isz = rng.choice([0, 3, 10, 25, 100])
    bsz = rng.choice([1, 4, 7, 64])
    srclen = rng.choice([0, 2, isz, isz + 5, max(0, isz - 3)])
    return mode, sizes, isz, bsz, srclen


STALL_LIMIT = 8   # py7zr.py7zr.MAX_STALLED_READS


def run(ctx, n_calls=None, n_loop=None):
    rng = ctx.rng
    n_calls = n_calls or (4000 if ctx.thorough else 800)
    n_loop = n_loop or (1500 if ctx.thorough else 300)
    import py7zr.py7zr as core
    limit = getattr(core, "MAX_STALLED_READS", None)
    lines, outs, classes = [], [], []
    for _ in range(n_calls):
        mode, sizes, isz, bsz, srclen = gen_case(rng)
        reqs = [rng.choice([0, 1, 2, 3, 5, 8, 16, 50]) for _ in range(rng.randrange(1, 9))]
        case = (mode, sizes, isz, bsz, srclen, reqs)
        lines.append("dec.calls %s %s %d %d %d %s" % (mode, ",".join(map(str, sizes)) or "-", isz, bsz, srclen, ",".join(map(str, reqs))))
        try:
            outs.append(impl_calls(case))
        except Exception as e:  # noqa
            outs.append("exc:" + type(e).__name__)
        classes.append(mode)
    ctx.correspond("dec.calls", lines, outs, classes)
    cases, lines = [], []
    for _ in range(n_loop):
        mode, sizes, isz, bsz, srclen = gen_case(rng)
        size = rng.choice([0, 1, 5, 12, 30, 80])
        mb = rng.choice([1, 3, 7, 1000])
        cases.append((mode, sizes, isz, bsz, srclen, size, mb))
        lines.append("dec.loop %s %s %d %d %d %d %d %s" % (mode, ",".join(map(str, sizes)) or "-", isz, bsz, srclen, size, mb,
                                                         "N" if limit is None else str(limit)))
    res = sandbox.pmap(impl_loop, cases, timeout=6)
    outs, classes = [], []
    for (st, val) in res:
        if st == "ok":
            outs.append(val)
        elif st == "timeout":
            outs.append("spin")
        else:
            outs.append("exc:" + str(val)[:80])
        classes.append(outs[-1].split(" ")[0])
    ctx.correspond("dec.loop", lines, outs, classes)
    return cases, outs
