"""Directory-tree generation and snapshots for C02 / C19 / C03."""
import os
import stat

import arclib


def gen_tree(rng, *, depth=3, links=True, maxentries=14, names="simple"):
    """A tree spec: list of (relpath, kind, payload) in creation order; kind in dir/file/link.

    Links are relative and resolve inside the tree (to files and directories, sideways and upward-inside).
    """
    entries = []
    dirs = [""]
    files = []

    def comp():
        if names == "simple":
            return "".join(chr(rng.randrange(0x61, 0x7B)) for _ in range(rng.randrange(1, 6)))
        return arclib.gen_component(rng)

    n = rng.randrange(1, maxentries)
    used = set()
    for _ in range(n):
        parent = rng.choice(dirs)
        if parent.count("/") + (1 if parent else 0) >= depth and rng.random() < 0.7:
            parent = ""
        nm = comp()
        sibs = [u.rsplit("/", 1)[-1] for u in used if (u.rsplit("/", 1)[0] if "/" in u else "") == parent]
        if sibs and rng.random() < 0.2:
            # a sibling whose name merely extends another one ('lib' / 'lib64'): string prefixes are not path prefixes
            nm = rng.choice(sibs) + rng.choice(["64", "s", "0", ".d", "_"])
        rel = (parent + "/" + nm) if parent else nm
        if rel in used or any(rel.lower() == u.lower() for u in used):
            continue
        used.add(rel)
        k = rng.random()
        if k < 0.3:
            mode = rng.choice([0o500, 0o700, 0o755, 0o750, 0o555, 0o777, 0o711, 0o577, 0o526, 0o705])
            entries.append((rel, "dir", mode))
            dirs.append(rel)
        elif k < 0.85 or not links or (not files and len(dirs) < 2):
            size = rng.choice([0, 0, 1, 10, 100, 3000, rng.randrange(0, 20000)])
            # incl. modes whose owner bits are weaker than the group/other bits (owner cannot write, others can)
            mode = rng.choice([0o400, 0o600, 0o644, 0o640, 0o444, 0o755, 0o777, 0o700, 0o466, 0o577, 0o402, 0o426, 0o451, 0o604, 0o406])
            entries.append((rel, "file", (arclib.gen_content(rng, size), mode)))
            files.append(rel)
        else:
            here = os.path.dirname(rel)
            # from inside a subdirectory the top of the tree itself is a legal target (upward-but-inside)
            tgt = rng.choice(files + [d for d in dirs if d] + ([".", "."] if here else []))
            text = os.path.relpath(tgt, here or ".")
            entries.append((rel, "link", text))
    return entries


def materialise(root, entries, rng=None, mtimes=True):
    os.makedirs(root, exist_ok=True)
    for rel, kind, payload in entries:
        p = os.path.join(root, rel)
        if kind == "dir":
            os.makedirs(p, exist_ok=True)
        elif kind == "file":
            os.makedirs(os.path.dirname(p), exist_ok=True)
            with open(p, "wb") as f:
                f.write(payload[0])
        else:
            os.makedirs(os.path.dirname(p), exist_ok=True)
            os.symlink(payload, p)
    # modes and times last (read-only dirs would block creation)
    for rel, kind, payload in reversed(entries):
        p = os.path.join(root, rel)
        if kind == "link":
            continue
        if rng is not None and mtimes:
            t = rng.choice([rng.uniform(0, 4102444800), rng.uniform(1e9, 2e9), float(rng.randrange(0, 2 ** 32)),
                            rng.randrange(10 ** 9, 2 * 10 ** 9) + rng.choice([0.5, 0.25, 0.000001, 0.999999, 0.123456])])
            os.utime(p, (t, t))
    for rel, kind, payload in reversed(entries):
        p = os.path.join(root, rel)
        if kind == "dir":
            os.chmod(p, payload)
        elif kind == "file":
            os.chmod(p, payload[1])


def snapshot(root):
    """relpath -> (kind, content-or-target, permission bits, mtime_ns)"""
    out = {}
    for dp, dn, fn in os.walk(root, followlinks=False):
        for n in dn + fn:
            p = os.path.join(dp, n)
            rel = os.path.relpath(p, root)
            st = os.lstat(p)
            if stat.S_ISLNK(st.st_mode):
                out[rel] = ("link", os.readlink(p), None, None)
            elif stat.S_ISDIR(st.st_mode):
                out[rel] = ("dir", None, stat.S_IMODE(st.st_mode), st.st_mtime_ns)
            else:
                with open(p, "rb") as f:
                    out[rel] = ("file", f.read(), stat.S_IMODE(st.st_mode), st.st_mtime_ns)
    return out


def make_writable(root):
    for dp, dn, fn in os.walk(root):
        try:
            os.chmod(dp, 0o700)
        except OSError:
            pass


def diff_snapshots(a, b, *, mtime_tol_ns=5000, check_mtime=True, check_mode=True):
    """List of human-readable differences between source snapshot a and extracted snapshot b."""
    out = []
    for k in sorted(set(a) | set(b)):
        if k not in b:
            out.append("missing %r (%s)" % (k, a[k][0]))
            continue
        if k not in a:
            out.append("extra %r (%s)" % (k, b[k][0]))
            continue
        x, y = a[k], b[k]
        if x[0] != y[0]:
            out.append("kind %r: %s -> %s" % (k, x[0], y[0]))
            continue
        if x[1] != y[1]:
            out.append("content/target %r differs" % k)
        if x[0] != "link":
            if check_mode and x[2] != y[2]:
                out.append("mode %r: %o -> %o" % (k, x[2], y[2]))
            if check_mtime and abs(x[3] - y[3]) > mtime_tol_ns:
                out.append("mtime %r: %d -> %d (delta %d ns)" % (k, x[3], y[3], y[3] - x[3]))
    return out
